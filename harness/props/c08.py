"""C08 — Every reachable state is a physical quantum state."""
import json
import math
import os
import re
from fractions import Fraction as F

from common import CASES_HEADER, RUN, Check, VERIF, coq_eval_parallel, repo_tree_hash, run_impl

IMPORTS = CASES_HEADER + "From PV Require Import C08.PhysModel.\nOpen Scope Q_scope.\n"
TOL = 1e-9


# ----------------------------------------------------------------------------- exact helpers
def fq(x):
    x = F(x)
    if x.denominator == 1:
        return "(%d)" % x.numerator if x.numerator < 0 else "%d" % x.numerator
    return "(%d#%d)" % (x.numerator, x.denominator)


def fvec(v):
    return "[" + ";".join(fq(x) for x in v) + "]"


def fmat(m):
    return "[" + ";".join(fvec(r) for r in m) + "]"


def nlist(v):
    return "[" + ";".join("%d%%nat" % x for x in v) + "]"


def fl(x):
    return float(x)


def mat_fl(m):
    return [[float(x) for x in r] for r in m]


def eye(n):
    return [[F(int(i == j)) for j in range(n)] for i in range(n)]


def zeros(n, m=None):
    return [[F(0)] * (m if m is not None else n) for _ in range(n)]


def mmul(a, b):
    return [[sum((a[i][k] * b[k][j] for k in range(len(b))), F(0)) for j in range(len(b[0]))] for i in range(len(a))]


def mT(a):
    return [list(r) for r in zip(*a)]


def madd(a, b):
    return [[x + y for x, y in zip(r, s)] for r, s in zip(a, b)]


def mscale(c, a):
    return [[c * x for x in r] for r in a]


def cmmul(a, b):
    """complex matrices as (re, im) pairs of Fraction matrices"""
    ar, ai = a
    br, bi = b
    return (madd(mmul(ar, br), mscale(F(-1), mmul(ai, bi))), madd(mmul(ar, bi), mmul(ai, br)))


def det(m):
    m = [list(r) for r in m]
    n = len(m)
    d = F(1)
    for k in range(n):
        p = next((r for r in range(k, n) if m[r][k] != 0), None)
        if p is None:
            return F(0)
        if p != k:
            m[k], m[p] = m[p], m[k]
            d = -d
        d *= m[k][k]
        for r in range(k + 1, n):
            f = m[r][k] / m[k][k]
            if f:
                m[r] = [x - f * y for x, y in zip(m[r], m[k])]
    return d


def psd_exact(m):
    """LDL^T test on an exactly symmetric Fraction matrix."""
    m = [list(r) for r in m]
    n = len(m)
    for i in range(n):
        for j in range(n):
            if m[i][j] != m[j][i]:
                return False
    for k in range(n):
        p = m[k][k]
        if p < 0:
            return False
        if p == 0:
            if any(m[k][j] != 0 for j in range(k + 1, n)):
                return False
            continue
        for i in range(k + 1, n):
            f = m[i][k] / p
            if f:
                for j in range(k + 1, n):
                    m[i][j] -= f * m[k][j]
    return True


def omega(d):
    o = zeros(2 * d)
    for k in range(d):
        o[2 * k][2 * k + 1] = F(1)
        o[2 * k + 1][2 * k] = F(-1)
    return o


def herm_real(H, K):
    """real form [[H, -K], [K, H]] of the Hermitian matrix H + iK"""
    n = len(H)
    M = zeros(2 * n)
    for i in range(n):
        for j in range(n):
            M[i][j] = H[i][j]
            M[i + n][j + n] = H[i][j]
            M[i][j + n] = -K[i][j]
            M[i + n][j] = K[i][j]
    return M


def phys_exact(cov, hbar):
    d = len(cov) // 2
    return psd_exact(herm_real(mscale(1 / F(hbar), cov), omega(d)))


def s_of_PA(Pr, Pi, Ar, Ai):
    k = len(Pr)
    S = zeros(2 * k)
    for a in range(k):
        for b in range(k):
            S[2 * a][2 * b] = Pr[a][b] + Ar[a][b]
            S[2 * a][2 * b + 1] = Ai[a][b] - Pi[a][b]
            S[2 * a + 1][2 * b] = Pi[a][b] + Ai[a][b]
            S[2 * a + 1][2 * b + 1] = Pr[a][b] - Ar[a][b]
    return S


def embed(d, modes, L, ident=True):
    n = 2 * d
    idx = [i for m in modes for i in (2 * m, 2 * m + 1)]
    M = eye(n) if ident else zeros(n)
    for a, i in enumerate(idx):
        for b, j in enumerate(idx):
            M[i][j] = L[a][b]
    return M


# ----------------------------------------------------------------------------- generators
TS = [F(0), F(1, 2), F(1, 3), F(2, 3), F(1, 4), F(3, 4), F(-1, 2), F(2), F(-1, 3), F(1), F(3, 2), F(-2, 5)]
US = [F(2), F(3, 2), F(1, 2), F(4, 3), F(3), F(2, 3), F(5, 4), F(4, 5)]
SS = [F(1, 2), F(-1, 2), F(1), F(3, 2), F(-2, 3), F(2), F(1, 4)]
HBARS = [F(2), F(1), F(1, 2), F(3), F(7, 4), F(1, 10), F(5)]


def rat_angle(rng):
    t = rng.choice(TS)
    c = (1 - t * t) / (1 + t * t)
    s = 2 * t / (1 + t * t)
    return c, s, 2 * math.atan(float(t))


def rat_squeeze(rng):
    u = rng.choice(US)
    return (u + 1 / u) / 2, (u - 1 / u) / 2, math.log(float(u))


def gate(rng, d):
    """one random linear gate: (spec for the implementation, modes, Pr, Pi, Ar, Ai)"""
    kinds = ["Phaseshifter", "Squeezing", "QuadraticPhase", "Fourier"]
    if d >= 2:
        kinds += ["Beamsplitter", "Squeezing2", "ControlledX", "ControlledZ", "Interferometer",
                  "GaussianTransform", "Beamsplitter", "Squeezing2"]
    kind = rng.choice(kinds)
    Z = F(0)
    if kind == "Phaseshifter":
        c, s, phi = rat_angle(rng)
        m = [rng.randrange(d)]
        return dict(op=kind, modes=m, params=dict(phi=phi)), m, [[c]], [[s]], [[Z]], [[Z]]
    if kind == "Fourier":
        m = [rng.randrange(d)]
        return dict(op=kind, modes=m, params={}), m, [[Z]], [[F(1)]], [[Z]], [[Z]]
    if kind == "Squeezing":
        ch, sh, r = rat_squeeze(rng)
        c, s, phi = rat_angle(rng)
        m = [rng.randrange(d)]
        return dict(op=kind, modes=m, params=dict(r=r, phi=phi)), m, [[ch]], [[Z]], [[-sh * c]], [[-sh * s]]
    if kind == "QuadraticPhase":
        sv = rng.choice(SS)
        m = [rng.randrange(d)]
        return dict(op=kind, modes=m, params=dict(s=fl(sv))), m, [[F(1)]], [[sv / 2]], [[Z]], [[sv / 2]]
    m = rng.sample(range(d), 2)
    if kind == "Beamsplitter":
        c, s, th = rat_angle(rng)
        pc, ps, phi = rat_angle(rng)
        # [[t, -conj r],[r, t]], r = e^{i phi} sin theta
        Pr = [[c, -pc * s], [pc * s, c]]
        Pi = [[Z, ps * s], [ps * s, Z]]
        return dict(op=kind, modes=m, params=dict(theta=th, phi=phi)), m, Pr, Pi, zeros(2), zeros(2)
    if kind == "Squeezing2":
        ch, sh, r = rat_squeeze(rng)
        c, s, phi = rat_angle(rng)
        return (dict(op=kind, modes=m, params=dict(r=r, phi=phi)), m, [[ch, Z], [Z, ch]], zeros(2),
                [[Z, sh * c], [sh * c, Z]], [[Z, sh * s], [sh * s, Z]])
    if kind == "ControlledX":
        sv = rng.choice(SS)
        return (dict(op=kind, modes=m, params=dict(s=fl(sv))), m, [[F(1), -sv / 2], [sv / 2, F(1)]], zeros(2),
                [[Z, sv / 2], [sv / 2, Z]], zeros(2))
    if kind == "ControlledZ":
        sv = rng.choice(SS)
        return (dict(op=kind, modes=m, params=dict(s=fl(sv))), m, [[F(1), Z], [Z, F(1)]], [[Z, sv / 2], [sv / 2, Z]],
                zeros(2), [[Z, sv / 2], [sv / 2, Z]])
    # rational unitary on k modes: product of rational beamsplitters and phases
    k = rng.randint(2, min(d, 3))
    m = rng.sample(range(d), k)
    U = (eye(k), zeros(k))
    for _ in range(rng.randint(1, 3)):
        a, b = rng.sample(range(k), 2)
        c, s, _ = rat_angle(rng)
        pc, ps, _ = rat_angle(rng)
        Gr, Gi = eye(k), zeros(k)
        Gr[a][a] = c
        Gr[b][b] = c
        Gr[a][b] = -pc * s
        Gi[a][b] = ps * s
        Gr[b][a] = pc * s
        Gi[b][a] = ps * s
        q = rng.randrange(k)
        qc, qs, _ = rat_angle(rng)
        Dr, Di = eye(k), zeros(k)
        Dr[q][q] = qc
        Di[q][q] = qs
        U = cmmul((Gr, Gi), cmmul((Dr, Di), U))
    if kind == "Interferometer":
        return (dict(op=kind, modes=m, params=dict(re=mat_fl(U[0]), im=mat_fl(U[1]))), m, U[0], U[1], zeros(k), zeros(k))
    # GaussianTransform: a -> U (cosh a - sinh e^{i phi} a^dagger)
    Cr, Sr, Si = zeros(k), zeros(k), zeros(k)
    for i in range(k):
        ch, sh, _ = rat_squeeze(rng)
        c, s, _ = rat_angle(rng)
        Cr[i][i] = ch
        Sr[i][i] = -sh * c
        Si[i][i] = -sh * s
    P = cmmul(U, (Cr, zeros(k)))
    A = cmmul(U, (Sr, Si))
    return (dict(op=kind, modes=m, params=dict(pre=mat_fl(P[0]), pim=mat_fl(P[1]), are=mat_fl(A[0]), aim=mat_fl(A[1]))),
            m, P[0], P[1], A[0], A[1])


def one_mode_channel(rng, valid=True):
    """(X, Y) on one mode.  Omega - X Omega X^T = (1 - det X) Omega, so the condition is
    Y >= 0 and det Y >= (1 - det X)^2; Y = |1-det X| T T^T (det T = 1) is on the boundary."""
    kind = rng.choice(["loss", "amp", "general", "identity", "conj", "general"])
    if kind == "loss":
        c, s, _ = rat_angle(rng)
        nb = rng.choice([F(0), F(0), F(1, 2), F(2)])
        X = [[c, F(0)], [F(0), c]]
        Y = mscale(s * s * (2 * nb + 1), eye(2))
    elif kind == "amp":
        ch, sh, _ = rat_squeeze(rng)
        nb = rng.choice([F(0), F(1, 3), F(1)])
        X = [[ch, F(0)], [F(0), ch]]
        Y = mscale(sh * sh * (2 * nb + 1), eye(2))
    elif kind == "identity":
        X = eye(2)
        Y = mscale(rng.choice([F(0), F(0), F(1, 2)]), eye(2))
    elif kind == "conj":  # phase conjugation: det X = -k^2, needs noise (1 + k^2)
        k = rng.choice([F(1), F(1, 2), F(3, 2)])
        X = [[k, F(0)], [F(0), -k]]
        Y = mscale((1 + k * k) * rng.choice([F(1), F(3, 2)]), eye(2))
    else:
        X = [[rng.choice(SS + [F(0)]) for _ in range(2)] for _ in range(2)]
        dx = X[0][0] * X[1][1] - X[0][1] * X[1][0]
        u = rng.choice(US)
        sv = rng.choice(SS)
        T = mmul([[u, F(0)], [F(0), 1 / u]], [[F(1), F(0)], [sv, F(1)]])
        Y = mscale(abs(1 - dx), mmul(T, mT(T)))
        if rng.random() < 0.5:
            Y = madd(Y, mscale(rng.choice([F(1, 2), F(1)]), eye(2)))
    if not valid:
        how = rng.choice(["less_noise", "no_noise", "transpose", "neg"])
        if how == "less_noise":
            Y = mscale(rng.choice([F(1, 2), F(9, 10), F(1, 10)]), Y)
        elif how == "no_noise":
            Y = zeros(2)
        elif how == "transpose":
            X = [[F(1), F(0)], [F(0), F(-1)]]
            Y = mscale(rng.choice([F(0), F(1), F(3, 2)]), eye(2))
        else:
            Y = madd(Y, [[F(0), F(0)], [F(0), -rng.choice([F(1, 10), F(3)]) - Y[1][1]]])
    return X, Y


def gen_gauss_program(rng, d, length, with_channels=True):
    hbar = rng.choice(HBARS)
    instrs = []  # (spec, coq term)
    n = 2 * d
    # exact covariance in units hbar = 1 tracked here only to generate valid Covariance inputs
    nprep = rng.choice([0, 0, 1, 1, 2, 3])
    for step in range(length):
        # piquasso accepts preparations only at the beginning of a program
        r = rng.random() * 0.25 if step < nprep else 0.25 + rng.random() * 0.75
        if r < 0.04:
            instrs.append((dict(op="Vacuum"), "GVacuum"))
        elif r < 0.12:
            nb = [rng.choice([F(0), F(1, 2), F(1), F(3, 2), F(1, 10)]) for _ in range(d)]
            cov = [[(2 * nb[i // 2] + 1) if i == j else F(0) for j in range(n)] for i in range(n)]
            instrs.append((dict(op="Thermal", modes=list(range(d)), params=dict(mean_photon_numbers=[fl(x) for x in nb])),
                           "GCov %s" % fmat(cov)))
        elif r < 0.20:
            # a valid covariance: S diag(nu) S^T from random gates
            nb = [rng.choice([F(0), F(1, 2), F(1)]) for _ in range(d)]
            cov = [[(2 * nb[i // 2] + 1) if i == j else F(0) for j in range(n)] for i in range(n)]
            for _ in range(2):
                _, m, Pr, Pi, Ar, Ai = gate(rng, d)
                S = embed(d, m, s_of_PA(Pr, Pi, Ar, Ai))
                cov = mmul(mmul(S, cov), mT(S))
            instrs.append((dict(op="Covariance", modes=list(range(d)), params=dict(cov=mat_fl(cov))), "GCov %s" % fmat(cov)))
        elif r < 0.25:
            mean = [rng.choice(SS + [F(0)]) for _ in range(n)]
            instrs.append((dict(op="Mean", modes=list(range(d)), params=dict(mean=[fl(x) for x in mean])), "GMean %s" % fvec(mean)))
        elif r < 0.36:
            m = rng.randrange(d)
            rho = rng.choice(SS)
            kind = rng.choice(["Displacement", "PositionDisplacement", "MomentumDisplacement"])
            delta = [F(0)] * n
            if kind == "Displacement":
                c, s, phi = rat_angle(rng)
                spec = dict(op=kind, modes=[m], params=dict(r=fl(rho) / math.sqrt(2), phi=phi))
                delta[2 * m], delta[2 * m + 1] = rho * c, rho * s
            elif kind == "PositionDisplacement":
                spec = dict(op=kind, modes=[m], params=dict(x=fl(rho) / math.sqrt(2)))
                delta[2 * m] = rho
            else:
                spec = dict(op=kind, modes=[m], params=dict(p=fl(rho) / math.sqrt(2)))
                delta[2 * m + 1] = rho
            instrs.append((spec, "GDisp %s" % fvec(delta)))
        elif r < 0.50 and with_channels:
            m = rng.randrange(d)
            if rng.random() < 0.4:
                c, s, th = rat_angle(rng)
                nb = rng.choice([F(0), F(1, 2), F(2)])
                X = [[c, F(0)], [F(0), c]]
                Y = mscale(s * s * (2 * nb + 1), eye(2))
                spec = dict(op="Attenuator", modes=[m], params=dict(theta=th, mean_thermal_excitation=fl(nb)))
            else:
                X, Y = one_mode_channel(rng)
                if rng.random() < 0.75:
                    # extra noise so that det Y >= (1 + |det X|)^2: accepted by the implemented check too
                    dx = X[0][0] * X[1][1] - X[0][1] * X[1][0]
                    Y = madd(Y, mscale(1 + abs(dx), eye(2)))
                spec = dict(op="DeterministicGaussianChannel", modes=[m], params=dict(X=mat_fl(X), Y=mat_fl(Y)))
            instrs.append((spec, "GChannel (embed_id QOps %d %s %s) (embed_zero QOps %d %s %s)"
                           % (n, nlist([m]), fmat(X), n, nlist([m]), fmat(Y))))
        else:
            spec, m, Pr, Pi, Ar, Ai = gate(rng, d)
            instrs.append((spec, "GLinear (gate_matrix QOps %d %s %s %s %s %s)" % (d, nlist(m), fmat(Pr), fmat(Pi), fmat(Ar), fmat(Ai))))
    case = dict(d=d, hbar=[hbar.numerator, hbar.denominator], instrs=[s for s, _ in instrs], probs=(d == 1 and rng.random() < 0.4), cutoff=4)
    dyne = None
    if d >= 2 and rng.random() < 0.6:
        k = rng.randint(1, d - 1)
        modes = sorted(rng.sample(range(d), k)) if rng.random() < 0.5 else rng.sample(range(d), k)
        outer = [x for x in range(d) if x not in modes]
        u = rng.choice(US)
        sv = rng.choice([F(0), F(1, 2), F(-1)])
        T = mmul([[u, F(0)], [F(0), 1 / u]], [[F(1), F(0)], [sv, F(1)]])
        sm = mscale(rng.choice([F(1), F(1), F(2)]), mmul(T, mT(T)))
        sample = [rng.choice(SS + [F(0)]) for _ in range(2 * k)]
        dyne = dict(modes=modes, outer=outer, sm=sm, sample=sample)
        case["dyne"] = dict(modes=modes, sigma_m=mat_fl(sm), sample_hat=[fl(x) for x in sample])
    if rng.random() < 0.5:
        kind = rng.choice(["HeterodyneMeasurement", "GeneraldyneMeasurement"] + (["HomodyneMeasurement"] if True else []))
        k = rng.randint(1, d)
        mm = rng.sample(range(d), k)
        if kind == "GeneraldyneMeasurement":
            ins = dict(op=kind, modes=mm, params=dict(detection_covariance=[[2.0, 0.5], [0.5, 0.625]]))
        elif kind == "HomodyneMeasurement":
            ins = dict(op=kind, modes=mm, params=dict(phi=0.3))
        else:
            ins = dict(op=kind, modes=mm, params={})
        case["measure"] = dict(instr=ins, shots=3, seed=rng.randrange(1000))
    coq = "(%d%%nat, %s, [%s])" % (d, fq(hbar), "; ".join(c for _, c in instrs))
    return case, coq, hbar, dyne


RES_DEF = """
Definition vflag (d : nat) (i : ginstr (A:=Q)) : bool :=
  match i with
  | GLinear Sm => symplecticb d Sm
  | GChannel X Y => chanb d X Y
  | GCov c => physb d 1 c
  | _ => true
  end.
Definition res (x : nat * Q * list (ginstr (A:=Q))) : list (list Z) :=
  let '(d, h, p) := x in
  let tr := grun QOps d h p in
  map b2z (map (vflag d) p) :: map (fun st => b2z (physb d h (snd st)) :: gflat st) tr.
Definition dres (x : nat * Q * list (ginstr (A:=Q))) (modes outer : list nat) (sm : list (list Q)) (sample : list Q) : list Z :=
  let '(d, h, p) := x in
  let st := last (grun QOps d h p) (gvac QOps d h) in
  let B := gdyne_B QOps h st modes sm in
  let k := (2 * List.length modes)%nat in
  match qinv k B with
  | None => [(-1)%Z]
  | Some K =>
    let st' := gdyne QOps d h st modes outer sm K sample in
    b2z (qidb k (lmul QOps k B K) && qsymb k K && physb 1 1 sm) :: b2z (physb (List.length outer) h (snd st')) :: gflat st'
  end.
"""


def parse_nested(out):
    """every `= <nested list> : list ...` group of a coqc output as Python lists of ints"""
    groups = []
    for m in re.finditer(r"=\s*(\[.*?\]|nil)\s*:\s*list", out, re.S):
        s = m.group(1).replace("%Z", "").replace(";", ",").replace("nil", "[]")
        s = re.sub(r"\(\s*(-\d+)\s*\)", r"\1", s)
        groups.append(json.loads(s))
    return groups


def unflat(z, n):
    """[num, den, ...] -> (mean vector (n), cov (n x n)) as Fractions"""
    vals = [F(z[2 * i], z[2 * i + 1]) for i in range(len(z) // 2)]
    mean = vals[:n]
    cov = [vals[n + i * n: n + (i + 1) * n] for i in range(n)]
    return mean, cov


def close(impl, model, scale=1.0):
    return abs(impl - float(model)) <= TOL * scale * (1 + abs(float(model)))


# ----------------------------------------------------------------------------- independent predicate
def independent_phys(cov, hbar):
    """validate()-style predicate recomputed independently on the implementation's matrix
    in 40-digit arithmetic: symmetric, and min eigenvalue of cov/hbar + i*Omega >= -tol."""
    import mpmath as mp

    mp.mp.dps = 40
    n = len(cov)
    d = n // 2
    scale = 1 + max(abs(x) for r in cov for x in r) / hbar
    asym = max(abs(cov[i][j] - cov[j][i]) for i in range(n) for j in range(n))
    if asym > 1e-9 * scale * hbar:
        return False, "asymmetric by %.3g" % asym
    H = mp.matrix(n, n)
    for i in range(n):
        for j in range(n):
            H[i, j] = mp.mpf((cov[i][j] + cov[j][i]) / 2) / mp.mpf(hbar)
    for k in range(d):
        H[2 * k, 2 * k + 1] += mp.mpc(0, 1)
        H[2 * k + 1, 2 * k] -= mp.mpc(0, 1)
    ev = mp.eighe(H, eigvals_only=True)
    mn = min(ev)
    if mn < -1e-8 * scale:
        return False, "min eigenvalue of cov/hbar + i Omega = %s" % mp.nstr(mn, 8)
    return True, ""


class Dedup:
    """report one violation per stable key (first witness), with the number of occurrences"""

    def __init__(self, chk):
        self.chk = chk
        self.seen = {}

    def violation(self, key, what, witness, source="search"):
        if key in self.seen:
            self.seen[key][3] += 1
        else:
            self.seen[key] = [what, witness, source, 1]

    def flush(self):
        for key in sorted(self.seen):
            what, witness, source, n = self.seen[key]
            self.chk.violation(key, "%s [%d occurrence(s) in this run]" % (what, n), witness, source=source)
        if self.seen:
            print("C08 violation keys: " + "; ".join("%s x%d" % (k, v[3]) for k, v in sorted(self.seen.items())))


def check_report(chk, rec, hbar, where, witness, stats):
    """the property stated directly on what the implementation's state reports"""
    key_base = "C08:gaussian:%s" % where
    hb = float(hbar)
    stats["n"] += 1
    if not rec.get("cov_is_real", True):
        chk.violation(key_base + ":cov-not-real", "covariance matrix has an imaginary part", witness)
    ok, why = independent_phys(rec["cov"], hb)
    if not ok:
        chk.violation(key_base + ":unphysical", "state violates symmetric/uncertainty relation: " + why, witness)
    if rec["validate"] is not None:
        chk.violation(key_base + ":validate", "state.validate() raises %s" % rec["validate"], witness)
    if rec.get("purity") is None:
        chk.violation("C08:GaussianState.get_purity:raises", "get_purity raises %s" % rec.get("purity_exc"), witness)
    else:
        p = rec["purity"]
        if not (p > 0 and p <= 1 + 1e-9) or p != p:
            chk.violation("C08:GaussianState.get_purity:range:hbar%s2" % ("=" if hb == 2 else "!="), "purity %r not in (0,1] (after %s)" % (p, where), witness)
    if "probs_min" in rec:
        stats["probs"] += 1
        if rec["probs_min"] < -1e-12 or rec["probs_max"] > 1 + 1e-9 or rec["probs_sum"] > 1 + 1e-9:
            chk.violation(key_base + ":fock-probabilities", "fock_probabilities outside [0,1] or summing above 1: min %r max %r sum %r"
                          % (rec["probs_min"], rec["probs_max"], rec["probs_sum"]), witness)
    if "probs_exc" in rec:
        chk.violation(key_base + ":fock-probabilities-raises", "fock_probabilities raises %s" % rec["probs_exc"], witness)


# ----------------------------------------------------------------------------- Fock / fermionic
AMPS = [
    [(F(1), F(0))],
    [(F(3, 5), F(0)), (F(0), F(4, 5))],
    [(F(1, 3), F(0)), (F(2, 3), F(0)), (F(0), F(2, 3))],
    [(F(2, 7), F(0)), (F(0), F(-3, 7)), (F(6, 7), F(0))],
    [(F(1, 2), F(1, 2)), (F(1, 2), F(-1, 2))],
]


def cq(z):
    return "(%s, %s)" % (fq(z[0]), fq(z[1]))


def rand_occ(rng, d, c):
    tot = rng.randrange(c)
    v = [0] * d
    for _ in range(tot):
        v[rng.randrange(d)] += 1
    return v


def gen_fock_case(rng, d, c, kind):
    """kind: 'diag' (modelled diagonal program, optional un-modelled passive tail), 'att'"""
    amps = rng.choice(AMPS)
    occs = []
    while len(occs) < len(amps):
        o = rand_occ(rng, d, c)
        if o not in occs:
            occs.append(o)
    specs, coq = [], []
    case = dict(d=d, cutoff=c, hbar=[2, 1], sim=rng.choice(["pure", "general"]) if kind == "att" else "pure")
    for o, a in zip(occs, amps):
        if case["sim"] == "general":
            # FockSimulator has no StateVector: prepare the same diagonal as a mixture
            specs.append(dict(op="DensityMatrix", params=dict(ket=o, bra=o, re=fl(a[0] * a[0] + a[1] * a[1]), im=0.0)))
        else:
            specs.append(dict(op="StateVector", params=dict(occ=o, re=fl(a[0]), im=fl(a[1]))))
        coq.append("FPrep %s %s" % (nlist(o), cq(a)))
    if kind == "att":
        cth, sth, th = rat_angle(rng)
        while cth == 0:
            cth, sth, th = rat_angle(rng)
        specs.append(dict(op="Attenuator", modes=[0], params=dict(theta=th)))
        case["att"] = dict(c2=str(cth * cth), t2=str((sth * sth) / (cth * cth)))
        case["instrs"] = specs
        case["nmodel"] = len(amps)
        return case, coq, occs, amps
    for _ in range(rng.randint(1, 5)):
        g = rng.choice(["Kerr", "Phaseshifter", "CrossKerr", "SNAP"] if d >= 2 else ["Kerr", "Phaseshifter", "SNAP"])
        zc, zs, ang = rat_angle(rng)
        if g == "Kerr":
            m = rng.randrange(d)
            specs.append(dict(op="Kerr", modes=[m], params=dict(xi=ang)))
            coq.append("FKerr %d%%nat %s" % (m, cq((zc, zs))))
        elif g == "Phaseshifter":
            m = rng.randrange(d)
            specs.append(dict(op="Phaseshifter", modes=[m], params=dict(phi=ang)))
            coq.append("FPhase %d%%nat %s" % (m, cq((zc, zs))))
        elif g == "CrossKerr":
            ma, mb = rng.sample(range(d), 2)
            specs.append(dict(op="CrossKerr", modes=[ma, mb], params=dict(xi=ang)))
            coq.append("FCrossKerr %d%%nat %d%%nat %s" % (ma, mb, cq((zc, zs))))
        else:
            m = rng.randrange(d)
            zs_ = [rat_angle(rng) for _ in range(c)]
            specs.append(dict(op="SNAP", modes=[m], params=dict(theta=[z[2] for z in zs_])))
            coq.append("FSnap %d%%nat [%s]" % (m, ";".join(cq((z[0], z[1])) for z in zs_)))
    case["nmodel"] = len(specs)
    # un-modelled number-conserving tail (search only: norm must stay 1)
    if d >= 2 and rng.random() < 0.35:
        for _ in range(rng.randint(1, 2)):
            ma, mb = rng.sample(range(d), 2)
            _, _, th = rat_angle(rng)
            _, _, ph = rat_angle(rng)
            specs.append(dict(op="Beamsplitter", modes=[ma, mb], params=dict(theta=th, phi=ph)))
    case["instrs"] = specs
    k = rng.randint(1, d)
    case["measure"] = dict(instr=dict(op="ParticleNumberMeasurement", modes=sorted(rng.sample(range(d), k)), params={}),
                           shots=4, seed=rng.randrange(1000))
    return case, coq, occs, amps


def gen_fermi_case(rng, d):
    occ = [rng.randrange(2) for _ in range(d)]
    specs = [dict(op="StateVector", params=dict(occ=occ, re=1.0, im=0.0))]
    ws = []
    for _ in range(rng.randint(1, 5)):
        kinds = ["Phaseshifter"] + (["Beamsplitter", "Interferometer", "Beamsplitter"] if d >= 2 else [])
        kind = rng.choice(kinds)
        if kind == "Phaseshifter":
            c, s_, phi = rat_angle(rng)
            m = [rng.randrange(d)]
            specs.append(dict(op=kind, modes=m, params=dict(phi=phi)))
            ws.append((m, [[c]], [[s_]]))
        elif kind == "Beamsplitter":
            m = rng.sample(range(d), 2)
            c, s_, th = rat_angle(rng)
            pc, ps, phi = rat_angle(rng)
            specs.append(dict(op=kind, modes=m, params=dict(theta=th, phi=phi)))
            ws.append((m, [[c, -pc * s_], [pc * s_, c]], [[F(0), ps * s_], [ps * s_, F(0)]]))
        else:
            while True:
                spec, m, Pr, Pi, Ar, Ai = gate(rng, d)
                if spec["op"] == "Interferometer":
                    break
            specs.append(spec)
            ws.append((m, Pr, Pi))
    return dict(d=d, instrs=specs), occ, ws


def fock_generate(chk, empty=False):
    rng, T = chk.rng, chk.thorough
    ctx = {"fock": [], "fermi": []}
    req = {"fock": [], "fermi": []}
    if empty:
        ctx["req"] = req
        return req, ctx
    for i in range(60 if T else 9):
        d = 1 + i % 3
        c = rng.choice([3, 4, 5])
        case, coq, occs, amps = gen_fock_case(rng, d, c, "diag")
        req["fock"].append(case)
        ctx["fock"].append(dict(coq=coq, occs=occs, amps=amps))
    for i in range(24 if T else 4):
        c = rng.choice([3, 4, 5, 6])
        case, coq, occs, amps = gen_fock_case(rng, 1, c, "att")
        req["fock"].append(case)
        ctx["fock"].append(dict(coq=coq, occs=occs, amps=amps))
    for i in range(40 if T else 6):
        case, occ, ws = gen_fermi_case(rng, 1 + i % 3)
        req["fermi"].append(case)
        ctx["fermi"].append(dict(occ=occ, ws=ws))
    ctx["req"] = req
    return req, ctx


FOCK_DEF = """From PV Require Import C08.FockRunModel.
Definition cflat (psi : list (cplx (A:=Q))) : list Z := qflat (flat_map (fun a => [fst a; snd a]) psi).
Definition fres (d c : nat) (p : list (finstr (A:=Q))) : list (list Z) := map cflat (frun QOps d c p).
Definition bres (d c : nat) (p : list (finstr (A:=Q))) (modes outcome : list nat) : list Z :=
  let psi := last (frun QOps d c p) nil in
  let idx := proj_index d c modes outcome in
  b2z (nodupb idx && forallb (fun i => Nat.ltb i (List.length psi)) idx) :: cflat (project QOps idx psi).
Definition ares (c : nat) (p : list (finstr (A:=Q))) (c2 t2 : Q) : list Z :=
  qflat (att_diag QOps c2 t2 (probs QOps (last (frun QOps 1 c p) nil))).
Fixpoint ferm_trace (d : nat) (G : list (list Q)) (ws : list (list (list Q))) : list (list Z) :=
  match ws with
  | nil => nil
  | W :: r => let G' := fermi_passive QOps d W G in
              (b2z (orthb (4 * d) W) :: b2z (occb (4 * d) G') :: qflat (List.concat G')) :: ferm_trace d G' r
  end.
"""


def unflat_c(z):
    vals = [F(z[2 * i], z[2 * i + 1]) for i in range(len(z) // 2)]
    return [(vals[2 * i], vals[2 * i + 1]) for i in range(len(vals) // 2)]


def fock_evaluate(chk, impl, ctx, corr_broken):
    req = ctx["req"]
    # ---- model runs (after the implementation: the sampled outcomes select the projections)
    lines = []
    plan = []  # (case index, kind, extra)
    for j, (case, cx, out) in enumerate(zip(req["fock"], ctx["fock"], impl["fock"])):
        d, c = case["d"], case["cutoff"]
        lines.append("Definition fp%d : list (finstr (A:=Q)) := [%s]." % (j, "; ".join(cx["coq"])))
        if "att" in case:
            lines.append("Eval vm_compute in ares %d%%nat fp%d %s %s." % (c, j, fq(F(case["att"]["c2"])), fq(F(case["att"]["t2"]))))
            plan.append((j, "att", None))
            continue
        lines.append("Eval vm_compute in fres %d%%nat %d%%nat fp%d." % (d, c, j))
        plan.append((j, "trace", None))
        if case["nmodel"] == len(case["instrs"]):
            for bi, br in enumerate(out.get("branches", [])):
                lines.append("Eval vm_compute in bres %d%%nat %d%%nat fp%d %s %s." % (
                    d, c, j, nlist(case["measure"]["instr"]["modes"]), nlist(br["outcome"])))
                plan.append((j, "branch", bi))
    for j, (case, cx) in enumerate(zip(req["fermi"], ctx["fermi"])):
        d = case["d"]
        ws = "; ".join("fermi_W QOps %d%%nat %s %s %s" % (d, nlist(m), fmat(ur), fmat(ui)) for m, ur, ui in cx["ws"])
        lines.append("Eval vm_compute in ferm_trace %d%%nat (fermi_G0 QOps %d%%nat %s) [%s]." % (d, d, nlist(cx["occ"]), ws))
        plan.append((j, "fermi", None))
    if not lines:
        return
    half = (len(lines) + 1) // 2
    # keep Definitions with their Evals: split at a Definition boundary
    while half < len(lines) and not lines[half].startswith("Definition"):
        half += 1
    bodies = [IMPORTS + FOCK_DEF + "\n".join(part) + "\n" for part in (lines[:half], lines[half:]) if part]
    groups = []
    for o in coq_eval_parallel("c08_fock", bodies, jobs=2):
        groups += parse_nested(o)
    assert len(groups) == len(plan), (len(groups), len(plan))

    n_states = n_nontriv = n_br = n_att = n_search = 0
    n_fermi = n_fermi_nt = 0
    samples = []
    for (j, kind, extra), g in zip(plan, groups):
        if kind == "fermi":
            case, cx, out = req["fermi"][j], ctx["fermi"][j], impl["fermi"][j]
            d = case["d"]
            n = 2 * d
            pre = out["prefix"]
            for k, st in enumerate(g):
                witness = dict(simulator="fermionic.GaussianSimulator", d=d, instrs=case["instrs"][:k + 2])
                if k + 1 >= len(pre) or pre[k + 1]["exc"] is not None:
                    exc = pre[min(k + 1, len(pre) - 1)]
                    chk.violation("C08:fermionic-gaussian:%s:raises:%s" % (case["instrs"][k + 1]["op"], exc.get("exc")), exc.get("msg", ""), witness)
                    break
                rec = pre[k + 1]
                orth, occ, flat = st[0], st[1], st[2:]
                vals = [F(flat[2 * i], flat[2 * i + 1]) for i in range(len(flat) // 2)]
                G = [vals[r * 2 * n:(r + 1) * 2 * n] for r in range(2 * n)]
                if not orth:
                    corr_broken.append("fermionic: generated W is not orthogonal (case %d step %d)" % (j, k))
                if not occ:
                    corr_broken.append("fermionic: model Gamma leaves [0,1] after a passive gate: contradicts fermionic_occupation_bounds (case %d step %d)" % (j, k))
                bad = None
                for a in range(n):
                    for b in range(n):
                        if not close(rec["g_re"][a][b], G[a][b]) or not close(rec["g_im"][a][b], G[n + a][b]):
                            bad = "Gamma[%d][%d]: impl %r%+rj model %s%+sj" % (a, b, rec["g_re"][a][b], rec["g_im"][a][b], G[a][b], G[n + a][b])
                n_fermi += 1
                if any(G[a][b] != 0 for a in range(n) for b in range(n) if a != b):
                    n_fermi_nt += 1
                if bad:
                    corr_broken.append("fermionic correlation matrix differs from the model: %s (case %d step %d)" % (bad, j, k))
                    chk.violation("C08:fermionic-gaussian:%s:state-differs-from-model" % case["instrs"][k + 1]["op"], bad, witness, source="correspondence")
                # search: spectrum recomputed independently
                import numpy as np
                M = np.array(rec["g_re"]) + 1j * np.array(rec["g_im"])
                herm = float(np.max(np.abs(M - M.conj().T)))
                ev = np.linalg.eigvalsh((M + M.conj().T) / 2)
                if herm > 1e-9 or ev.min() < -1e-9 or ev.max() > 1 + 1e-9:
                    chk.violation("C08:fermionic-gaussian:spectrum", "correlation matrix not Hermitian with spectrum in [0,1]: herm err %g, eig range [%g, %g]" % (herm, ev.min(), ev.max()), witness)
                if rec["validate"] is not None:
                    chk.violation("C08:fermionic-gaussian:validate", "validate() raises %s" % rec["validate"], witness)
                if "probs_min" in rec and (rec["probs_min"] < -1e-12 or rec["probs_max"] > 1 + 1e-9 or abs(rec["probs_sum"] - 1) > 1e-9):
                    chk.violation("C08:fermionic-gaussian:fock-probabilities", "probabilities outside [0,1] or not summing to 1: %r %r %r" % (rec["probs_min"], rec["probs_max"], rec["probs_sum"]), witness)
                n_search += 1
            continue
        case, cx, out = req["fock"][j], ctx["fock"][j], impl["fock"][j]
        d, c = case["d"], case["cutoff"]
        pre = out["prefix"]
        base = dict(simulator=case["sim"], d=d, cutoff=c)
        if kind == "att":
            model = [F(g[2 * i], g[2 * i + 1]) for i in range(len(g) // 2)]
            witness = dict(base, instrs=case["instrs"])
            if pre[-1]["exc"] is not None or len(pre) < len(case["instrs"]):
                chk.violation("C08:fock:%s:Attenuator:raises:%s" % (case["sim"], pre[-1].get("exc")), pre[-1].get("msg", ""), witness)
                continue
            rec = pre[-1]
            n_att += 1
            if sum(model) != 1:
                corr_broken.append("attenuator model does not conserve the trace (case %d): contradicts attenuator_weights_sum" % j)
            for a, mval in enumerate(model):
                if not close(rec["probs"][a], mval):
                    corr_broken.append("attenuator diagonal differs from the model: p[%d] impl %r model %s (case %d)" % (a, rec["probs"][a], mval, j))
                    chk.violation("C08:fock:attenuator:diagonal-differs-from-model", "p[%d] impl %r model %s" % (a, rec["probs"][a], mval), witness, source="correspondence")
            if rec.get("trace", rec["norm"]) > 1 + 1e-9 or rec.get("min_eig", 0.0) < -1e-9 or rec.get("herm_err", 0.0) > 1e-9:
                chk.violation("C08:fock:attenuator:unphysical-density-matrix", "trace %r min eig %r herm err %r" % (rec.get("trace"), rec.get("min_eig"), rec.get("herm_err")), witness)
            if min(rec["probs"]) < -1e-12 or max(rec["probs"]) > 1 + 1e-9:
                chk.violation("C08:fock:attenuator:probabilities-range", "probabilities %r" % rec["probs"], witness)
            n_search += 1
            continue
        if kind == "trace":
            for k, rec in enumerate(pre):
                witness = dict(base, instrs=case["instrs"][:k + 1])
                if rec["exc"] is not None:
                    chk.violation("C08:fock:pure:%s:raises:%s" % (case["instrs"][k]["op"], rec["exc"]), rec.get("msg", ""), witness)
                    break
                n_search += 1
                nprep = len(cx["amps"])
                complete = k + 1 >= nprep
                # search: norm never exceeds one; equals one once the preparation is complete and only
                # number-conserving gates follow; probabilities in [0,1]; purity 1
                if rec["norm"] > 1 + 1e-9 or (complete and abs(rec["norm"] - 1) > 1e-9):
                    chk.violation("C08:fock:pure:%s:norm" % case["instrs"][k]["op"], "norm %r after a number-conserving gate on a normalised state" % rec["norm"], witness)
                if min(rec["probs"]) < -1e-15 or max(rec["probs"]) > 1 + 1e-9:
                    chk.violation("C08:fock:pure:%s:probabilities-range" % case["instrs"][k]["op"], "probabilities %r" % rec["probs"], witness)
                if complete and rec["validate"] is not None:
                    chk.violation("C08:fock:pure:%s:validate" % case["instrs"][k]["op"], "validate() raises %s" % rec["validate"], witness)
                if rec.get("purity") is not None and abs(rec["purity"] - 1) > 1e-12:
                    chk.violation("C08:fock:pure:purity", "purity of a pure state %r" % rec["purity"], witness)
                if k < case["nmodel"]:
                    model = unflat_c(g[k])
                    n_states += 1
                    if k >= nprep:
                        n_nontriv += 1
                    for a, (mr, mi) in enumerate(model):
                        if not close(rec["sv_re"][a], mr) or not close(rec["sv_im"][a], mi):
                            bad = "amplitude[%d]: impl %r%+rj model %s%+sj" % (a, rec["sv_re"][a], rec["sv_im"][a], mr, mi)
                            corr_broken.append("pure Fock state differs from the model after %s: %s (case %d step %d)" % (case["instrs"][k]["op"], bad, j, k))
                            chk.violation("C08:fock:pure:%s:state-differs-from-model" % case["instrs"][k]["op"], bad, witness, source="correspondence")
                            break
                    if k >= nprep and sum(r * r + i * i for r, i in model) != 1:
                        corr_broken.append("model norm != 1 after a diagonal gate: contradicts fock_diag_program_probs (case %d step %d)" % (j, k))
            if len(samples) < 1 and d == 2:
                samples.append(dict(d=d, cutoff=c, instrs=[s["op"] for s in case["instrs"]], final_norm=pre[-1].get("norm")))
            # branches: search on every branch
            for br in out.get("branches", []):
                witness = dict(base, instrs=case["instrs"], measure=case["measure"], outcome=br["outcome"])
                n_search += 1
                if abs(br["norm"] - 1) > 1e-9:
                    chk.violation("C08:fock:pure:ParticleNumberMeasurement:branch-norm", "post-measurement norm %r" % br["norm"], witness)
                if br["validate"] is not None:
                    chk.violation("C08:fock:pure:ParticleNumberMeasurement:branch-validate", "validate() raises %s" % br["validate"], witness)
                if min(br["probs"]) < -1e-15 or max(br["probs"]) > 1 + 1e-9:
                    chk.violation("C08:fock:pure:ParticleNumberMeasurement:branch-probabilities", "probabilities %r" % br["probs"], witness)
            if "branches_exc" in out:
                chk.violation("C08:fock:pure:ParticleNumberMeasurement:raises", out["branches_exc"], dict(base, instrs=case["instrs"], measure=case["measure"]))
            continue
        if kind == "branch":
            br = out["branches"][extra]
            witness = dict(base, instrs=case["instrs"], measure=case["measure"], outcome=br["outcome"])
            okidx, model = g[0], unflat_c(g[1:])
            if not okidx:
                corr_broken.append("projection indices not distinct/in range (case %d): hypothesis of projection_norm_le fails" % j)
            p = sum(r * r + i * i for r, i in model)
            n_br += 1
            if p <= 0 or p > 1:
                corr_broken.append("model: sampled outcome has probability %s (case %d)" % (p, j))
                continue
            sp = math.sqrt(float(p))
            if len(model) != len(br["sv_re"]):
                corr_broken.append("branch state length differs from the model (case %d)" % j)
                continue
            for a, (mr, mi) in enumerate(model):
                if not close(br["sv_re"][a], float(mr) / sp) or not close(br["sv_im"][a], float(mi) / sp):
                    bad = "amplitude[%d]: impl %r%+rj model (%s%+sj)/sqrt(%s)" % (a, br["sv_re"][a], br["sv_im"][a], mr, mi, p)
                    corr_broken.append("post-measurement state differs from the model: %s (case %d)" % (bad, j))
                    chk.violation("C08:fock:pure:ParticleNumberMeasurement:branch-differs-from-model", bad, witness, source="correspondence")
                    break
    chk.stream("pure Fock simulator: state vector after EVERY instruction of diagonal-gate programs vs exact model; projected branches; attenuator diagonal (cutoffs 3-6)",
               n_states + n_br + n_att, n_nontriv + n_br + n_att, samples=samples,
               note="%d prefix states, %d post-measurement branches, %d attenuator outputs" % (n_states, n_br, n_att))
    chk.stream("fermionic Gaussian simulator: correlation matrix after every passive gate vs exact model (d<=3)",
               n_fermi, n_fermi_nt)
    chk.stream("Fock / fermionic states: norm, probabilities, validate, purity, spectrum recomputed on the implementation (incl. un-modelled beamsplitter tails and measurement branches)",
               n_search, n_search, kind="search")


# ----------------------------------------------------------------------------- run
def load_corpus():
    p = os.path.join(VERIF, "harness", "corpus", "c08.jsonl")
    out = []
    if os.path.exists(p):
        for line in open(p):
            line = line.strip()
            if line:
                out.append(json.loads(line))
    return out


def run(chk: Check):
    chk.proofs()
    T = chk.thorough
    rng = chk.rng
    real_chk = chk
    chk = Dedup(real_chk)
    chk.seed, chk.rng, chk.thorough = real_chk.seed, real_chk.rng, real_chk.thorough
    chk.stream, chk.assumptions, chk.notes = real_chk.stream, real_chk.assumptions, real_chk.notes
    corr_broken = []
    nprog = 160 if T else 24
    dmax = 4 if T else 3

    # ------------------------------------------------------------ Gaussian programs
    cases, coqs, hbars, dynes = [], [], [], []
    for entry in load_corpus():
        if entry.get("kind") == "gauss":
            cases.append(entry["case"])
            coqs.append(entry["coq"])
            hbars.append(F(entry["hbar"]))
            dynes.append(None)
    for i in range(nprog):
        d = 1 + (i % dmax)
        length = rng.randint(3, 9 if T else 7)
        case, coq, hbar, dyne = gen_gauss_program(rng, d, length)
        cases.append(case)
        coqs.append(coq)
        hbars.append(hbar)
        dynes.append(dyne)

    # channel validity stream: (X, Y) valid and invalid, code's acceptance vs the CP condition
    chans = []
    for entry in load_corpus():
        if entry.get("kind") == "channel":
            chans.append(([[F(x) for x in r.split()] for r in entry["X"]], [[F(x) for x in r.split()] for r in entry["Y"]]))
    for i in range(120 if T else 24):
        chans.append(one_mode_channel(rng, valid=(i % 2 == 0)))

    req = {"gauss": cases,
           "channel_accept": [dict(X=mat_fl(X), Y=mat_fl(Y)) for X, Y in chans]}
    fock_req, fock_ctx = fock_generate(chk)
    req.update(fock_req)
    import time as _t
    t0 = _t.time()
    # own numba cache directory (keyed by the tree hash): the shared one is pruned by concurrent checks
    cache = os.path.join(RUN, "numba_c08", repo_tree_hash())
    os.makedirs(cache, exist_ok=True)
    impl = run_impl("c08_impl.py", req, timeout=6000, extra_env={"NUMBA_CACHE_DIR": cache})
    chk.notes.append("implementation run: %.1fs" % (_t.time() - t0))
    t0 = _t.time()

    # model runs
    chunk = 10
    bodies = []
    for i in range(0, len(coqs), chunk):
        lines = ["Definition p%d : nat * Q * list (ginstr (A:=Q)) := %s." % (j, coqs[j]) for j in range(i, min(i + chunk, len(coqs)))]
        evals = ["Eval vm_compute in res p%d." % j for j in range(i, min(i + chunk, len(coqs)))]
        for j in range(i, min(i + chunk, len(coqs))):
            dy = dynes[j]
            if dy is not None:
                evals.append("Eval vm_compute in dres p%d %s %s %s %s." % (j, nlist(dy["modes"]), nlist(dy["outer"]), fmat(dy["sm"]), fvec(dy["sample"])))
        bodies.append(IMPORTS + RES_DEF + "\n".join(lines) + "\n" + "\n".join(evals) + "\n")
    # channel conditions
    chan_body = IMPORTS + "Definition chans := [%s].\nEval vm_compute in map (fun xy => [b2z (chanb 1 (fst xy) (snd xy)); b2z (chanb_code 1 (fst xy) (snd xy))]) chans.\n" % (
        ";\n".join("(%s, %s)" % (fmat(X), fmat(Y)) for X, Y in chans))
    outs = coq_eval_parallel("c08_gauss", bodies + [chan_body], jobs=4)
    chan_out = parse_nested(outs[-1])[0]
    chk.notes.append("model run (coqc, vm_compute): %.1fs" % (_t.time() - t0))

    stats = {"n": 0, "probs": 0}
    n_states = 0
    n_nontrivial = 0
    n_dyne = 0
    samples = []
    refused = {}
    for bi, out in enumerate(outs[:-1]):
        groups = parse_nested(out)
        idxs = list(range(bi * chunk, min((bi + 1) * chunk, len(coqs))))
        gi = 0
        dyn_groups = {}
        main = {}
        for j in idxs:
            main[j] = groups[gi]
            gi += 1
        for j in idxs:
            if dynes[j] is not None:
                dyn_groups[j] = groups[gi]
                gi += 1
        for j in idxs:
            case, hbar, d = cases[j], hbars[j], cases[j]["d"]
            n = 2 * d
            g = main[j]
            vflags, states = g[0], g[1:]
            if not all(vflags):
                corr_broken.append("generator produced an instruction outside the theorem's hypothesis (program %d, flags %s)" % (j, vflags))
                continue
            pre = impl["gauss"][j]["prefix"]
            sq = math.sqrt(float(hbar))
            for k, st in enumerate(states):
                where_instr = case["instrs"][k]["op"]
                witness = dict(d=d, hbar=str(hbar), instrs=case["instrs"][:k + 1], seed=chk.seed)
                if k >= len(pre):
                    break
                rec = pre[k]
                if rec["exc"] is not None:
                    # a valid program was refused
                    if where_instr == "DeterministicGaussianChannel" and rec["exc"] == "InvalidParameter":
                        key = "C08:DeterministicGaussianChannel._validate:cp-condition"
                    else:
                        key = "C08:%s:valid-instruction-refused:%s" % (where_instr, rec["exc"])
                    refused.setdefault(key, []).append(witness)
                    break
                n_states += 1
                phys, flat = st[0], st[1:]
                mean, cov = unflat(flat, n)
                if not phys:
                    corr_broken.append("model state not physical after a valid program: contradicts gauss_program_phys (program %d step %d)" % (j, k))
                if not phys_exact(cov, hbar):
                    corr_broken.append("Python LDL^T disagrees with the model's physb (program %d step %d)" % (j, k))
                # exact model state vs the implementation's floats
                bad = None
                for a in range(n):
                    if not close(rec["mean"][a], float(mean[a]) * sq, 10):
                        bad = "mean[%d]: impl %r model %r" % (a, rec["mean"][a], float(mean[a]) * sq)
                    for b in range(n):
                        if not close(rec["cov"][a][b], cov[a][b], 10):
                            bad = "cov[%d][%d]: impl %r model %s" % (a, b, rec["cov"][a][b], cov[a][b])
                if bad:
                    corr_broken.append("state after %s differs from the model: %s (program %d step %d)" % (where_instr, bad, j, k))
                    chk.violation("C08:gaussian:%s:state-differs-from-model" % where_instr, bad, witness, source="correspondence")
                    break  # later prefixes of this program inherit the difference
                # purity / is_pure against the exact determinant
                dt = det(mscale(1 / hbar, cov))
                if rec.get("purity") is not None:
                    if not close(rec["purity"] ** 2, 1 / dt, 10):
                        chk.violation("C08:GaussianState.get_purity:value:hbar%s2" % ("=" if hbar == 2 else "!="),
                                      "purity %r after %s, exact 1/sqrt(det(sigma/hbar)) = %r" % (rec["purity"], where_instr, float(1 / dt) ** 0.5), witness)
                    pure_exact = (dt == 1)
                    if abs(float(dt) - 1) > 1e-3 or pure_exact:
                        if rec["is_pure"] != pure_exact:
                            chk.violation("C08:GaussianState.is_pure:hbar%s2" % ("=" if hbar == 2 else "!="),
                                          "is_pure = %r after %s but exact det(sigma/hbar) = %s" % (rec["is_pure"], where_instr, dt), witness)
                if dt != 1 or any(x != 0 for x in mean):
                    n_nontrivial += 1
                check_report(chk, rec, hbar, where_instr, witness, stats)
                if len(samples) < 2 and k == len(states) - 1 and d == 2:
                    samples.append(dict(d=d, hbar=str(hbar), instrs=[s["op"] for s in case["instrs"]],
                                        model_cov_00=str(cov[0][0]), impl_cov_00=rec["cov"][0][0]))
            # general-dyne conditional state
            if j in dyn_groups and "dyne" in impl["gauss"][j]:
                g = dyn_groups[j]
                rec = impl["gauss"][j]["dyne"]
                dy = dynes[j]
                witness = dict(d=d, hbar=str(hbar), instrs=case["instrs"], dyne=case["dyne"])
                if g[0] == -1:
                    corr_broken.append("model: measured block singular (program %d)" % j)
                elif rec["exc"] is not None:
                    chk.violation("C08:_get_generaldyne_evolved_state:raises:%s" % rec["exc"], rec.get("msg", ""), witness)
                else:
                    n_dyne += 1
                    okinv, phys, flat = g[0], g[1], g[2:]
                    no = 2 * len(dy["outer"])
                    mean, cov = unflat(flat, no)
                    if not okinv:
                        corr_broken.append("hypotheses of generaldyne_conditional_phys not met: B K = 1, K symmetric, detection covariance physical (program %d)" % j)
                    if not phys:
                        chk.violation("C08:_get_generaldyne_evolved_state:model-unphysical",
                                      "exact conditional state violates the uncertainty relation", witness)
                    bad = None
                    for a in range(no):
                        if not close(rec["mean"][a], float(mean[a]) * sq, 10):
                            bad = "mean[%d]: impl %r model %r" % (a, rec["mean"][a], float(mean[a]) * sq)
                        for b in range(no):
                            if not close(rec["cov"][a][b], cov[a][b], 10):
                                bad = "cov[%d][%d]: impl %r model %s" % (a, b, rec["cov"][a][b], cov[a][b])
                    if bad:
                        corr_broken.append("general-dyne conditional state differs from the model: %s (program %d)" % (bad, j))
                        chk.violation("C08:_get_generaldyne_evolved_state:state-differs-from-model", bad, witness, source="correspondence")
                    check_report(chk, rec, hbar, "generaldyne-conditional", witness, stats)
            # sampled measurement branches (search only)
            for br in impl["gauss"][j].get("branches", []):
                witness = dict(d=d, hbar=str(hbar), instrs=case["instrs"], measure=case["measure"])
                check_report(chk, br, hbar, "branch:" + case["measure"]["instr"]["op"], witness, stats)
            if "branches_exc" in impl["gauss"][j]:
                chk.violation("C08:gaussian:measurement-raises:%s" % case["measure"]["instr"]["op"],
                              impl["gauss"][j]["branches_exc"], dict(d=d, hbar=str(hbar), instrs=case["instrs"], measure=case["measure"]))
    for key, ws in sorted(refused.items()):
        chk.violation(key, "a program whose every instruction satisfies the documented validity condition "
                      "(checked exactly by the model) is refused: %d programs" % len(ws), ws[0])

    chk.stream("Gaussian simulator: state after EVERY instruction of random valid programs vs exact model (d<=%d, %d values of hbar)" % (dmax, len(HBARS)),
               n_states, n_nontrivial, samples=samples,
               note="%d general-dyne conditional states compared; %d fock_probabilities vectors range-checked" % (n_dyne, stats["probs"]))
    chk.stream("independent physicality predicate (40-digit eigenvalues) + validate/purity/is_pure on every implementation state, incl. measurement branches",
               stats["n"], stats["n"], kind="search")

    # channel validity: code's acceptance vs exact CP condition
    n_valid = n_invalid = 0
    for i, (X, Y) in enumerate(chans):
        cp, cp_code = bool(chan_out[i][0]), bool(chan_out[i][1])
        acc = impl["channel_accept"][i]["accepted"]
        n_valid += cp
        n_invalid += (not cp)
        w = dict(X=[[str(x) for x in r] for r in X], Y=[[str(x) for x in r] for r in Y],
                 call="pq.DeterministicGaussianChannel(X=X, Y=Y)._validate(connector)")
        if acc is None:
            chk.violation("C08:DeterministicGaussianChannel._validate:raises", str(impl["channel_accept"][i]), w)
        elif acc != cp:
            chk.violation("C08:DeterministicGaussianChannel._validate:cp-condition", "the validity check %s a pair (X,Y) for which Y + i Omega - i X Omega X^T >= 0 is exactly %s (%s)"
                          % ("accepts" if acc else "rejects", cp, "valid channel rejected" if cp else "non-CP map accepted"), w)
    chk.stream("DeterministicGaussianChannel validity check vs exact complete-positivity condition (rational X, Y)",
               len(chans), min(n_valid, n_invalid) * 2,
               samples=[dict(X=mat_fl(chans[0][0]), Y=mat_fl(chans[0][1]), cp=bool(chan_out[0][0]))])

    fock_evaluate(chk, impl, fock_ctx, corr_broken)

    chk.assumptions += [
        "the theorems are proved at A := R about the polymorphic model of C08/PhysModel.v; the check runs the same definitions at A := Q (parametricity of the definitions in the ring is not itself proved)",
        "validity of each generated instruction (symplectic matrix, CP condition, physical covariance) is decided exactly by the model at Q (symplecticb/chanb/physb); soundness of the LDL^T decision is cross-checked by an independent Python implementation, not proved",
        "the (m, C, G) update rules of the Gaussian simulator are compared with mu -> S mu, sigma -> S sigma S^T only through the observed state (black-box tie)",
    ]
    chk.flush()
    real_chk.finish(
        rule="Gaussian: states after each instruction (non-trivial: mixed or displaced); channels: twice the smaller of the valid/invalid counts; Fock: see stream notes",
        explanation="Theorems of coq/theories/Props/C08.v about the model in C08/PhysModel.v (Gaussian programs for every hbar>0, channels, Fock norm lemmas, attenuator trace, fermionic bounds); tie = exact model state vs piquasso after every instruction; search = physicality predicates recomputed independently on every implementation state.",
        correspondence_broken=corr_broken,
    )


def replay(chk, path):
    """./check C08 --replay <file>: re-run the witnesses of a replay file on the implementation."""
    data = json.load(open(path))
    rc = 0
    for v in data.get("violations", []):
        w = v.get("witness", {})
        print("replaying %s" % v.get("key"))
        if "X" in w and "Y" in w:
            X = [[float(F(x)) for x in r] for r in w["X"]]
            Y = [[float(F(x)) for x in r] for r in w["Y"]]
            out = run_impl("c08_impl.py", {"channel_accept": [dict(X=X, Y=Y)]})
            print("  DeterministicGaussianChannel._validate accepted:", out["channel_accept"][0])
            rc = 1
        elif "instrs" in w and "hbar" in w and "simulator" not in w:
            hb = F(w["hbar"])
            case = dict(d=w["d"], hbar=[hb.numerator, hb.denominator], instrs=w["instrs"], cutoff=4)
            out = run_impl("c08_impl.py", {"gauss": [case]})
            rec = out["gauss"][0]["prefix"][-1]
            print("  last prefix state:", {k: rec.get(k) for k in ("exc", "validate", "purity", "is_pure", "cov")})
            rc = 1
        elif "instrs" in w and w.get("simulator") in ("pure", "general"):
            case = dict(d=w["d"], cutoff=w["cutoff"], hbar=[2, 1], sim=w["simulator"], instrs=w["instrs"])
            out = run_impl("c08_impl.py", {"fock": [case]})
            print("  last prefix state:", out["fock"][0]["prefix"][-1])
            rc = 1
        else:
            print("  (no direct replay for this witness; re-run ./check C08 with VERIF_SEED=%s)" % data.get("seed"))
    raise SystemExit(rc)
