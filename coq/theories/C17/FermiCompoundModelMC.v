(* C17 - the unitarity of the compound matrix stated on the model's Laplace minors. *)
From mathcomp Require Import all_ssreflect all_algebra.
From CoqEAL Require Import minor binetcauchy.
From PV Require C17.FermiRepModel C17.FermiDetMC C17.FermiRepDetMC.
From PV Require Import C17.FermiCompoundMC.

Set Implicit Arguments.
Unset Strict Implicit.
Unset Printing Implicit Defensive.

Import GRing.Theory.
Local Open Scope ring_scope.

Section Bridge.
Variable R : comRingType.
Variables (d n : nat).

(* the index list (in the model's integers) of an index function *)
Definition ilist (f : 'I_n -> 'I_d) : seq BinNums.Z :=
  [seq BinInt.Z.of_nat (f i) | i <- enum 'I_n].

Definition mx_of (Uf : BinNums.Z -> BinNums.Z -> R) : 'M[R]_d :=
  \matrix_(i < d, j < d) Uf (BinInt.Z.of_nat i) (BinInt.Z.of_nat j).

Lemma size_ilist f : size (ilist f) = n.
Proof. by rewrite size_map size_enum_ord. Qed.

Lemma nth_ilist f (i : 'I_n) : nth BinNums.Z0 (ilist f) i = BinInt.Z.of_nat (f i).
Proof. by rewrite (nth_map i) ?size_enum_ord // nth_ord_enum. Qed.

Lemma det_restricted_minor Uf (f g : 'I_n -> 'I_d) :
  FermiRepDetMC.det_restricted Uf n (ilist f) (ilist g) = minor f g (mx_of Uf).
Proof.
rewrite /FermiRepDetMC.det_restricted /minor; congr (\det _).
by apply/matrixP => i j; rewrite !mxE !nth_ilist.
Qed.

(* rows of the model's compound matrix of a unitary are orthonormal *)
Theorem lminor_compound_unitary (c : {rmorphism R -> R}) Uf (f g : {ffun 'I_n -> 'I_d}) :
  mx_of Uf *m (map_mx c (mx_of Uf))^T = 1%:M -> strictf f -> strictf g ->
  \sum_(h : {ffun 'I_n -> 'I_d} | strictf h)
     FermiRepDetMC.mc_lminor Uf (ilist f) (ilist h) *
     c (FermiRepDetMC.mc_lminor Uf (ilist g) (ilist h)) = (f == g)%:R.
Proof.
move=> e hf hg; rewrite -(compound_unitary e hf hg); apply: eq_bigr => h _.
by rewrite !(@FermiRepDetMC.mc_lminor_det _ n) ?size_ilist // !det_restricted_minor.
Qed.

End Bridge.

(* packaged statement (so that it can be quoted without MathComp notations) *)
Definition conj_type (R : comRingType) : Type := {rmorphism R -> R}.

Definition is_unitary_fn (R : comRingType) (d : nat) (c : conj_type R)
  (Uf : BinNums.Z -> BinNums.Z -> R) : Prop :=
  mx_of d Uf *m (map_mx c (mx_of d Uf))^T = 1%:M.

Definition compound_rows_orthonormal (R : comRingType) (d n : nat) (c : conj_type R)
  (Uf : BinNums.Z -> BinNums.Z -> R) : Prop :=
  forall f g : {ffun 'I_n -> 'I_d}, strictf f -> strictf g ->
  \sum_(h : {ffun 'I_n -> 'I_d} | strictf h)
     FermiRepDetMC.mc_lminor Uf (ilist f) (ilist h) *
     c (FermiRepDetMC.mc_lminor Uf (ilist g) (ilist h)) = (f == g)%:R.

Theorem unitary_compound_unitary (R : comRingType) (d n : nat) (c : conj_type R)
  (Uf : BinNums.Z -> BinNums.Z -> R) :
  is_unitary_fn d c Uf -> compound_rows_orthonormal d n c Uf.
Proof. by move=> e f g hf hg; apply: lminor_compound_unitary. Qed.
