(* C16 - Relabelling modes relabels the result; disjoint gates commute.
   Only statements closed by [exact]; proofs live in C16/. *)
From Coq Require Import ZArith List Permutation Ring.
From PV Require Import Comb.FockModel Comb.FockProofs C16.IndexModel C16.IndexProofs
  C16.SimlProofs C16.GateSem C16.ApplyProofs C16.ExecModel C16.ExecProofs.
Import ListNotations.
Open Scope Z_scope.

(* ---- 1. index lists ---- *)
(* entry formula: for a duplicate-free mode tuple in ANY order, the loops of
   nb_calculate_index_list_for_appling_interferometer (shared occupation buffer, slices of the
   cached bases) produce, at (n, auxiliary vector w, n-particle vector u), the Fock index of
   the vector with u on the addressed modes and w on the auxiliary modes *)
Theorem C16_index_list_entry : forall d ms, modes_ok d ms -> forall c,
  index_list ms d c = index_list_spec ms d c.
Proof. exact index_list_entry. Qed.
Print Assumptions C16_index_list_entry.

(* the index matrices, flattened, are a permutation of 0 .. dim-1 *)
Theorem C16_index_list_partition : forall d ms, modes_ok d ms -> forall c,
  Permutation (flatten3 (index_list ms d c)) (map Z.of_nat (seq 0 (length (basis d c)))).
Proof. exact index_list_partition. Qed.
Print Assumptions C16_index_list_partition.

Theorem C16_index_list_nodup : forall d ms, modes_ok d ms -> forall c,
  NoDup (flatten3 (index_list ms d c)).
Proof. exact index_list_nodup. Qed.
Print Assumptions C16_index_list_nodup.

(* the vectors addressed by the index list are exactly the basis vectors, each once *)
Theorem C16_merged_vectors_are_the_basis : forall d ms, modes_ok d ms -> forall c,
  Permutation (flatten3 (vector_list ms d c)) (basis d c).
Proof. exact vector_list_perm. Qed.
Print Assumptions C16_merged_vectors_are_the_basis.

(* addressed modes and auxiliary modes together are all modes, each once *)
Theorem C16_modes_and_auxiliary_modes : forall d ms, modes_ok d ms ->
  Permutation (ms ++ aux_modes d ms) (seq 0 d).
Proof. exact modes_aux_perm. Qed.
Print Assumptions C16_modes_and_auxiliary_modes.

(* nb_calculate_state_index_matrix_list (single-mode gates: Kerr, SNAP, ...): same entry formula *)
Theorem C16_state_index_matrix_list_entry : forall d mode, (mode < d)%nat -> forall c,
  state_index_matrix_list d c mode = state_index_matrix_list_spec d c mode.
Proof. exact state_index_matrix_list_entry. Qed.
Print Assumptions C16_state_index_matrix_list_entry.

(* ---- 2. gather/scatter application of sector-preserving operators, any commutative ring ---- *)
Theorem C16_disjoint_commute_fock :
  forall (A : Type) (a0 a1 : A) (aadd amul asub : A -> A -> A) (aopp : A -> A),
  ring_theory a0 a1 aadd amul asub aopp eq ->
  forall m1 m2 T1 T2 (psi : state A) v,
  (forall m, In m m1 -> ~ In m m2) ->
  gate_apply A a0 aadd amul m1 T1 (gate_apply A a0 aadd amul m2 T2 psi) v
  = gate_apply A a0 aadd amul m2 T2 (gate_apply A a0 aadd amul m1 T1 psi) v.
Proof. exact gate_apply_commute. Qed.
Print Assumptions C16_disjoint_commute_fock.

Theorem C16_apply_equivariant :
  forall (A : Type) (a0 : A) (aadd amul : A -> A -> A) d p ms' T (psi psi' : state A),
  is_perm d p -> modes_ok d ms' ->
  (forall v, length v = d -> psi' (gz v p) = psi v) ->
  forall v, length v = d ->
    gate_apply A a0 aadd amul ms' T psi' (gz v p)
    = gate_apply A a0 aadd amul (old_modes p ms') T psi v.
Proof. exact gate_apply_equivariant. Qed.
Print Assumptions C16_apply_equivariant.

(* the link between 1 and 2: the list-level application through the index list (model of
   _calculate_state_vector_after_interferometer: new[indices] = T_n @ state[indices]) computes
   the vector-level semantics, for modes in any order, any state vector and any family of
   sector matrices with the right number of rows *)
Theorem C16_apply_index_list_is_gate_apply :
  forall (A : Type) (a0 a1 : A) (aadd amul asub : A -> A -> A) (aopp : A -> A),
  ring_theory a0 a1 aadd amul asub aopp eq ->
  forall d ms c, modes_ok d ms ->
  forall (Ts : list (list (list A))) (st : list A),
  length st = length (basis d c) -> length Ts = c ->
  (forall n, (n < c)%nat -> length (nth n Ts []) = length (sector (length ms) n)) ->
  forall v, In v (basis d c) ->
  nth (Z.to_nat (fock_index v)) (apply_index_list A a0 aadd amul (index_list ms d c) Ts st) a0
  = gate_apply A a0 aadd amul ms (sem_T A a0 (length ms) Ts) (sem_psi A a0 st) v.
Proof. exact apply_index_list_sem. Qed.
Print Assumptions C16_apply_index_list_is_gate_apply.

(* ---- 3. Gaussian mean vector / passive interferometer: x[ms] := M x[ms] ---- *)
Theorem C16_gauss_passive_disjoint_commute :
  forall (A : Type) (a0 : A) (aadd amul : A -> A -> A) m1 m2 M1 M2 x,
  (forall m, In m m1 -> ~ In m m2) ->
  vec_apply A a0 aadd amul m1 M1 (vec_apply A a0 aadd amul m2 M2 x)
  = vec_apply A a0 aadd amul m2 M2 (vec_apply A a0 aadd amul m1 M1 x).
Proof. exact vec_apply_commute. Qed.
Print Assumptions C16_gauss_passive_disjoint_commute.

Theorem C16_gauss_passive_equivariant :
  forall (A : Type) (a0 : A) (aadd amul : A -> A -> A) d p ms' M x,
  is_perm d p -> modes_ok d ms' -> length x = d -> length M = length ms' ->
  vec_apply A a0 aadd amul ms' M (gather a0 x p)
  = gather a0 (vec_apply A a0 aadd amul (old_modes p ms') M x) p.
Proof. exact vec_apply_equivariant. Qed.
Print Assumptions C16_gauss_passive_equivariant.

Theorem C16_embedded_columns_disjoint_commute :
  forall (A : Type) (a0 : A) (aadd amul : A -> A -> A) m1 m2 M1 M2 U,
  (forall m, In m m1 -> ~ In m m2) ->
  cols_apply A a0 aadd amul m1 M1 (cols_apply A a0 aadd amul m2 M2 U)
  = cols_apply A a0 aadd amul m2 M2 (cols_apply A a0 aadd amul m1 M1 U).
Proof. exact cols_apply_commute. Qed.
Print Assumptions C16_embedded_columns_disjoint_commute.

(* ---- 4. executor ---- *)
Theorem C16_remap_inverse : forall active ms, incl ms active ->
  remap_modes_inverse active (remap_modes active ms) = ms.
Proof. exact remap_inverse_remap. Qed.
Print Assumptions C16_remap_inverse.

Theorem C16_exec_equivariant :
  forall (S G : Type) (step : S -> G -> list nat -> list (list Z * S)) (pi : nat -> nat),
  (forall x y, pi x = pi y -> x = y) ->
  forall R : list nat -> list nat -> S -> S -> Prop,
  (forall act act' s s' g meas ms,
     Inv pi act act' -> R act act' s s' -> incl ms act -> ms <> [] ->
     Forall2 (fun b b' => fst b = fst b' /\
                R (next act meas ms) (next act' meas (map pi ms)) (snd b) (snd b'))
             (step s g (remap_modes act ms)) (step s' g (remap_modes act' (map pi ms)))) ->
  forall prog act act' bs bs',
  Forall (fun i => imodes G i <> []) prog ->
  Inv pi act act' -> Forall2 (Rb S R act act') bs bs' ->
  same_outcomes S (exec S G step act bs prog)
                  (exec S G step act' bs' (map (relabel_instr G pi) prog)).
Proof. exact exec_equivariant. Qed.
Print Assumptions C16_exec_equivariant.

(* ---- non-vacuity ---- *)
Example C16_example_index_list :
  index_list [2%nat; 0%nat] 3 3 = [[[0]; [2]; [7]]; [[3; 1]; [8; 5]]; [[9; 6; 4]]].
Proof. vm_compute. reflexivity. Qed.

Example C16_example_remap :
  remap_modes [0; 2; 3]%nat [3; 0]%nat = [2; 0]%nat /\
  delete_modes_from_active [0; 2; 3]%nat [2; 0]%nat = [2%nat].
Proof. vm_compute. split; reflexivity. Qed.
