(* C01 — rep_on_modes, executed form: applying the sector tables of a k x k block through
   the index list of an ordered mode subset (C16: apply_index_list = gate_apply) gives the
   sum, over the occupation numbers on the addressed modes, of the permanent of the block;
   multiplied by the factorials of the spectator occupation numbers this is the permanent
   of the embedded d x d matrix (EmbedProofs.embed_PM). *)
From Coq Require Import ZArith List Bool Arith Lia Ring Permutation.
From PV Require Import Comb.FockModel Comb.Binom Comb.FockProofs
  C16.IndexModel C16.IndexProofs C16.GateSem C16.ApplyProofs
  C01.PermModel C01.PermProofs C01.TableProofs C01.SymProofs C01.EmbedModel C01.EmbedProofs.
Import ListNotations.
Local Open Scope nat_scope.

Definition toN (v : list Z) : list nat := map Z.to_nat v.

Lemma of_nat_toN v : Forall (fun x => (0 <= x)%Z) v -> map Z.of_nat (toN v) = v.
Proof.
  intros H. unfold toN. rewrite map_map. rewrite <- (map_id v) at 2.
  apply map_ext_in. intros x Hx. rewrite Forall_forall in H. apply Z2Nat.id. now apply H.
Qed.

Lemma toN_length v : length (toN v) = length v.
Proof. apply map_length. Qed.

Lemma total_toN v : Forall (fun x => (0 <= x)%Z) v -> total (toN v) = Z.to_nat (sumZ v).
Proof.
  intros H. rewrite <- (of_nat_toN v H) at 2. rewrite sumZ_of_nat. now rewrite Nat2Z.id.
Qed.

Lemma gatherN_toN v ms : gatherN (toN v) ms = toN (gz v ms).
Proof.
  unfold gatherN, toN, gz, gather. rewrite map_map. apply map_ext. intros m.
  change 0 with (Z.to_nat 0%Z). apply map_nth.
Qed.

Lemma sector_1_length k : length (sector (S k) 1) = S k.
Proof.
  apply Nat2Z.inj. rewrite sector_length.
  induction k as [|k IH]; [reflexivity|].
  replace (S k + 1) with (S (S k)) by lia. replace (k + 1) with (S k) in IH by lia.
  rewrite binom_S_S, IH, binom_nn. lia.
Qed.

Lemma sector_0_length' k : length (sector (S k) 0) = 1.
Proof. rewrite <- (sectorN_0_length k). unfold sectorN. now rewrite map_length. Qed.

(* position in the sector = sub-space index *)
Lemma posZ_sidx k n u : In u (sector (S k) n) -> posZ u (sector (S k) n) = sidx (toN u).
Proof.
  intros Hin. pose proof (sector_valid _ _ _ Hin) as Hv.
  destruct (sector_lookup k n u Hv) as [H1 H2].
  destruct Hv as [_ [_ Hpos]].
  unfold sidx. rewrite (of_nat_toN u Hpos).
  rewrite <- H2 at 1. apply posZ_nth; [apply sector_nodup | exact H1].
Qed.

Section OnModes.
Variable A : Type.
Variables (a0 a1 : A) (aadd amul asub : A -> A -> A) (aopp : A -> A).
Hypothesis Aring : ring_theory a0 a1 aadd amul asub aopp (@eq A).
Add Ring ARing5 : Aring.

Notation PM := (PM A a0 a1 aadd amul).
Notation nA := (nA A a0 a1 aadd).
Notation embed := (embed A a0).
Notation rep_tables := (rep_tables A a0 a1 aadd amul).
Notation rep_tables_from := (rep_tables_from A a0 aadd amul).
Notation rep_sector := (rep_sector A a0 aadd amul).
Notation lookup := (lookup A a0).
Notation sumA := (sumA A a0 aadd).

(* ---------------------------------------------------------------- shape of the tables *)
Lemma rep_sector_rows U d n prev : length (rep_sector U d n prev) = length (sector d n).
Proof.
  unfold PermModel.rep_sector, helper_first, sectorN. now rewrite !map_length.
Qed.

Lemma rep_tables_from_length U d : forall count n prev,
  length (rep_tables_from U d n count prev) = count.
Proof. induction count as [|c IH]; intros n prev; simpl; [reflexivity | now rewrite IH]. Qed.

Lemma rep_tables_from_rows U d : forall count n prev j, j < count ->
  length (nth j (rep_tables_from U d n count prev) []) = length (sector d (n + j)).
Proof.
  induction count as [|c IH]; intros n prev j Hj; [lia|].
  cbn [PermModel.rep_tables_from]. destruct j as [|j]; cbn [nth].
  - rewrite Nat.add_0_r. apply rep_sector_rows.
  - replace (n + S j) with (S n + j) by lia. apply IH. lia.
Qed.

Lemma rep_tables_length U k c : 2 <= c -> length (rep_tables U k c) = c.
Proof. intros H. unfold PermModel.rep_tables. cbn [length]. rewrite rep_tables_from_length. lia. Qed.

Lemma rep_tables_rows U k c n : length U = S k -> n < c ->
  length (nth n (rep_tables U (S k) c) []) = length (sector (S k) n).
Proof.
  intros HU Hn. unfold PermModel.rep_tables. destruct n as [|[|n]]; cbn [nth].
  - now rewrite sector_0_length'.
  - now rewrite sector_1_length.
  - rewrite rep_tables_from_rows by lia. reflexivity.
Qed.

(* ---------------------------------------------------------------- the table entries seen
   through C16's reading of the tables (sem_T) are the permanents of the block *)
Lemma sem_T_is_PM G k c u u' : 2 <= c ->
  let n := Z.to_nat (sumZ u) in
  n < c -> In u (sector (S k) n) -> In u' (sector (S k) n) ->
  sem_T A a0 (S k) (rep_tables G (S k) c) u u' = PM G (toN u) (toN u').
Proof.
  intros Hc n Hn Hu Hu'. unfold sem_T. cbv zeta. fold n.
  rewrite (posZ_sidx k n u Hu), (posZ_sidx k n u' Hu').
  destruct (sector_valid _ _ _ Hu) as [Hl [Hs Hp]].
  destruct (sector_valid _ _ _ Hu') as [Hl' [Hs' Hp']].
  assert (Hv : validN (S k) n (toN u)).
  { split; [now rewrite toN_length | rewrite (total_toN u Hp); reflexivity]. }
  assert (Hv' : validN (S k) n (toN u')).
  { split; [now rewrite toN_length | rewrite (total_toN u' Hp'), Hs', Nat2Z.id; reflexivity]. }
  change (lookup (nth n (rep_tables G (S k) c) []) (sidx (toN u)) (sidx (toN u')) = PM G (toN u) (toN u')).
  rewrite (rep_tables_correct A a0 a1 aadd amul asub aopp Aring G k c n (toN u) (toN u'))
    by (auto; lia).
  unfold EmbedModel.PM.
  apply (repB_permL A a0 a1 aadd amul asub aopp Aring). apply Hv.
Qed.

Section Main.
Variables (G : list (list A)) (d k c : nat) (ms : list nat) (st : list A).
Hypothesis Hok : modes_ok d ms.
Hypothesis Hk : length ms = S k.
Hypothesis HG : length G = S k.
Hypothesis Hc : 2 <= c.
Hypothesis Hst : length st = length (basis d c).
Let aux := aux_modes d ms.
Let psi := sem_psi A a0 st.

(* Tier A.3 (rep_on_modes), what the Fock simulators execute: the new amplitude of v after
   applying the tables of the k x k block G through the index list of the ordered subset ms
   is the sum over the occupation numbers u' on ms (same particle number) of
   perm(G; v|ms, u') times the old amplitude of v with u' written at ms *)
Theorem apply_tables_on_modes v : In v (basis d c) ->
  nth (Z.to_nat (fock_index v))
      (apply_index_list A a0 aadd amul (index_list ms d c) (rep_tables G (S k) c) st) a0
  = sumA (fun u' => amul (PM G (toN (gz v ms)) (toN u')) (psi (scatter v ms u')))
         (sector (S k) (Z.to_nat (sumZ (gz v ms)))).
Proof.
  intros Hv.
  rewrite (apply_index_list_sem A a0 a1 aadd amul asub aopp Aring d ms c Hok
             (rep_tables G (S k) c) st Hst (rep_tables_length G (S k) c Hc)).
  2:{ intros n Hn. rewrite Hk. now apply rep_tables_rows. }
  2:{ exact Hv. }
  unfold gate_apply. cbv zeta. rewrite Hk.
  apply basis_complete in Hv. destruct Hv as [V1 [V2 V3]].
  assert (Hlt : Forall (fun m => m < length v) ms) by (rewrite V1; apply Hok).
  assert (Hlta : Forall (fun m => m < length v) aux) by (rewrite V1; apply aux_modes_lt).
  assert (G1 : Forall (fun x => (0 <= x)%Z) (gz v ms)) by (now apply Forall_gather).
  assert (G2 : Forall (fun x => (0 <= x)%Z) (gz v aux)) by (now apply Forall_gather).
  pose proof (sumZ_nonneg _ G1) as S1. pose proof (sumZ_nonneg _ G2) as S2.
  pose proof (sum_split d ms v Hok V1) as Hs. fold aux in Hs.
  set (u := gz v ms) in *. set (n := Z.to_nat (sumZ u)).
  assert (Hn : n < c) by (unfold n; lia).
  assert (Hu : In u (sector (S k) n)).
  { apply sector_complete. repeat split; auto.
    - unfold u, gz. now rewrite gather_length.
    - unfold n. lia. }
  apply (sumA_ext A a0 aadd). intros u' Hu'. f_equal.
  apply (sem_T_is_PM G k c u u' Hc Hn Hu Hu').
Qed.

(* the same amplitude, multiplied by the factorials of the spectator occupation numbers,
   is the permanent formula of the embedded d x d matrix *)
Theorem apply_tables_is_embedded_permanent v : In v (basis d c) ->
  amul (nA (fact_list (toN (gz v aux))))
       (nth (Z.to_nat (fock_index v))
            (apply_index_list A a0 aadd amul (index_list ms d c) (rep_tables G (S k) c) st) a0)
  = sumA (fun u' => amul (PM (embed G a1 ms d) (toN v) (toN (scatter v ms u')))
                         (psi (scatter v ms u')))
         (sector (S k) (Z.to_nat (sumZ (gz v ms)))).
Proof.
  intros Hv. rewrite (apply_tables_on_modes v Hv).
  rewrite (sumA_mul_l A a0 a1 aadd amul asub aopp Aring).
  apply basis_complete in Hv. destruct Hv as [V1 [V2 V3]].
  assert (Hlt : Forall (fun m => m < length v) ms) by (rewrite V1; apply Hok).
  assert (G1 : Forall (fun x => (0 <= x)%Z) (gz v ms)) by (now apply Forall_gather).
  apply (sumA_ext A a0 aadd). intros u' Hu'.
  destruct (sector_valid _ _ _ Hu') as [Hl' [Hs' Hp']].
  assert (Hsc : length (scatter v ms u') = d) by (now rewrite scatter_length).
  assert (Hpos' : Forall (fun x => (0 <= x)%Z) (scatter v ms u')) by (now apply Forall_scatter).
  assert (E1 : gz (scatter v ms u') ms = u').
  { apply gather_scatter_same; [apply Hok | now rewrite Hl', Hk | exact Hlt]. }
  assert (E2 : gz (scatter v ms u') aux = gz v aux).
  { apply gather_scatter_other. intros m Hm. apply aux_modes_In in Hm. tauto. }
  rewrite (embed_PM A a0 a1 aadd amul asub aopp Aring G d ms Hok
             (total (toN v)) (toN v) (toN (scatter v ms u'))).
  - unfold EmbedModel.embed_formula.
    change (auxN d ms) with aux. rewrite !gatherN_toN, E1, E2.
    destruct (list_eq_dec Nat.eq_dec (toN (gz v aux)) (toN (gz v aux))) as [_|C]; [|contradiction].
    ring.
  - now rewrite toN_length.
  - now rewrite toN_length.
  - reflexivity.
  - pose proof (total_split d ms (toN v) Hok) as T1.
    pose proof (total_split d ms (toN (scatter v ms u')) Hok) as T2.
    rewrite toN_length in T1, T2. specialize (T1 V1). specialize (T2 Hsc).
    change (auxN d ms) with aux in T1, T2.
    rewrite !gatherN_toN in T1, T2. rewrite E1, E2 in T2.
    rewrite (total_toN _ G1) in T1. rewrite (total_toN _ Hp'), Hs', Nat2Z.id in T2. lia.
Qed.

End Main.
End OnModes.
