(* C03 - theorems about the density-matrix measurement model (DensityModel.v): the block of a
   block is the block of the joint outcome (branch state = projection, sequential = joint),
   the chain rule for the weights, and the weights of a measurement sum to the trace. *)
From Coq Require Import ZArith QArith Qfield List Bool Arith Lia.
From PV Require Import C03.ExecModel C03.ExecProofs C03.ProjectModel C03.ProjectProofs
  C03.ProjectNFold C03.DensityModel.
Import ListNotations.
Open Scope nat_scope.

(* ------------------------------------------------------------------ selections *)
Lemma select_remap_aux M1 M2 d v :
  incl M2 (aux M1 d) -> select (remap_modes (aux M1 d) M2) (select (aux M1 d) v) = select M2 v.
Proof.
  intros Hin. rewrite select_select by (now apply remap_lt).
  change (map (fun i => nth i (aux M1 d) 0) (remap_modes (aux M1 d) M2))
    with (remap_modes_inverse (aux M1 d) (remap_modes (aux M1 d) M2)).
  now rewrite remap_inverse.
Qed.

Lemma select_aux_aux M1 M2 d v :
  incl M2 (aux M1 d) ->
  select (aux (remap_modes (aux M1 d) M2) (length (aux M1 d))) (select (aux M1 d) v)
  = select (aux (M1 ++ M2) d) v.
Proof.
  intros Hin. rewrite select_select.
  - rewrite aux_remap_select; auto using aux_NoDup. now rewrite filter_aux.
  - apply Forall_forall. intros i Hi. apply aux_In in Hi. lia.
Qed.

(* a vector of length d is determined by its entries on M and on the other positions *)
Lemma select_ext M d (k b : vec) :
  length k = d -> length b = d ->
  select M k = select M b -> select (aux M d) k = select (aux M d) b -> k = b.
Proof.
  intros Lk Lb E1 E2. apply (nth_ext k b 0 0); [congruence|]. intros n Hn. rewrite Lk in Hn.
  destruct (memb n M) eqn:Em.
  - apply memb_In in Em. unfold select in E1.
    exact (ext_in_map E1 n Em).
  - assert (Ha : In n (aux M d)) by (apply aux_In; split; auto; now apply memb_false_iff).
    unfold select in E2. exact (ext_in_map E2 n Ha).
Qed.

(* ------------------------------------------------------------------ sums *)
Definition gsum {X} (f : X -> Q) (l : list X) : Q := fold_right (fun x acc => (f x + acc)%Q) 0%Q l.

Lemma gsum_ext {X} (f g : X -> Q) l : (forall x, In x l -> (f x == g x)%Q) -> (gsum f l == gsum g l)%Q.
Proof.
  induction l as [|a r IH]; intros H; simpl. reflexivity.
  rewrite (H a) by (now left). rewrite IH. reflexivity. intros x Hx. apply H. now right.
Qed.

Lemma gsum_zero {X} (l : list X) : (gsum (fun _ => 0%Q) l == 0)%Q.
Proof. induction l; simpl. reflexivity. rewrite IHl. ring. Qed.

Lemma gpartition {X} (wt : X -> Q) (key : X -> vec) (O : list vec) (l : list X) :
  NoDup O -> (forall x, In x l -> In (key x) O \/ wt x = 0%Q) ->
  (gsum (fun s => gsum (fun x => if vec_eqb (key x) s then wt x else 0%Q) l) O == gsum wt l)%Q.
Proof.
  intros ND. induction l as [|p r IH]; intros H; simpl.
  - apply gsum_zero.
  - assert (E : (gsum (fun s => (if vec_eqb (key p) s then wt p else 0) + gsum (fun x => if vec_eqb (key x) s then wt x else 0) r) O
                 == gsum (fun s => if vec_eqb (key p) s then wt p else 0) O
                    + gsum (fun s => gsum (fun x => if vec_eqb (key x) s then wt x else 0%Q) r) O)%Q).
    { clear. induction O as [|a O' IHO]; simpl. ring. rewrite IHO. ring. }
    rewrite E, IH by (intros x Hx; apply H; now right).
    apply Qplus_comp; [|reflexivity].
    destruct (H p (or_introl eq_refl)) as [Hin|Hz].
    + exact (sum_indicator (key p) (wt p) O ND Hin).
    + rewrite Hz. transitivity (gsum (fun _ : vec => 0%Q) O); [|apply gsum_zero].
      apply gsum_ext. intros s _. destruct (vec_eqb (key p) s); reflexivity.
Qed.

Section DensityProofs.
  Variable A : Type.
  Variable tr : A -> Q.
  Notation dstate := (dstate A).
  Notation dbranch := (dbranch A).
  Notation dproject := (dproject A).
  Notation dtrace := (dtrace A tr).
  Notation dwt := (dwt A tr).
  Notation dchild := (dchild A tr).
  Notation doutcomes := (doutcomes A).
  Notation ket := (ket A).
  Notation bra := (bra A).

  (* ---- the block of a block is the block of the joint outcome *)
  Theorem dproject_dproject d M1 M2 s1 s2 (rho : dstate) :
    incl M2 (aux M1 d) -> length s1 = length M1 ->
    dproject (length (aux M1 d)) (remap_modes (aux M1 d) M2) s2 (dproject d M1 s1 rho)
    = dproject d (M1 ++ M2) (s1 ++ s2) rho.
  Proof.
    intros Hin Hl. unfold DensityModel.dproject.
    rewrite filter_map_comm, map_map, filter_filter. unfold DensityModel.ket, DensityModel.bra. simpl.
    erewrite filter_ext.
    - apply map_ext. intros [[k b] a]. simpl. now rewrite !select_aux_aux.
    - intros [[k b] a]. simpl.
      rewrite !select_remap_aux, !select_app by auto.
      rewrite !vec_eqb_app by (now rewrite select_length).
      destruct (vec_eqb (select M1 k) s1), (vec_eqb (select M1 b) s1),
               (vec_eqb (select M2 k) s2), (vec_eqb (select M2 b) s2); reflexivity.
  Qed.

  (* ---- trace *)
  Definition dwf (d : nat) (rho : dstate) : Prop :=
    Forall (fun p => length (ket p) = d /\ length (bra p) = d) rho.

  Lemma dtrace_gsum rho : dtrace rho = gsum dwt rho.
  Proof. reflexivity. Qed.

  Lemma dtrace_dproject d M s (rho : dstate) :
    dwf d rho ->
    (dtrace (dproject d M s rho) == gsum (fun p => if vec_eqb (select M (ket p)) s then dwt p else 0%Q) rho)%Q.
  Proof.
    induction 1 as [|p r [Lk Lb] Hr IH]; simpl. reflexivity.
    unfold DensityModel.dproject in *. simpl.
    destruct (vec_eqb (select M (ket p)) s) eqn:C1; simpl.
    - destruct (vec_eqb (select M (bra p)) s) eqn:C2; simpl.
      + rewrite IH. apply Qplus_comp; [|reflexivity].
        unfold DensityModel.dwt, DensityModel.ket, DensityModel.bra. simpl.
        apply vec_eqb_eq in C1. apply vec_eqb_eq in C2.
        destruct (vec_eqb (fst (fst p)) (snd (fst p))) eqn:D.
        * apply vec_eqb_eq in D. rewrite D, vec_eqb_refl. reflexivity.
        * destruct (vec_eqb (select (aux M d) (fst (fst p))) (select (aux M d) (snd (fst p)))) eqn:D'; [|reflexivity].
          apply vec_eqb_eq in D'. exfalso.
          assert (fst (fst p) = snd (fst p)).
          { apply (select_ext M d); auto. unfold DensityModel.ket in C1. unfold DensityModel.bra in C2. congruence. }
          rewrite H, vec_eqb_refl in D. discriminate.
      + rewrite IH.
        assert (Z : dwt p = 0%Q).
        { unfold DensityModel.dwt. destruct (vec_eqb (ket p) (bra p)) eqn:D; auto.
          apply vec_eqb_eq in D. rewrite <- D, C1 in C2. discriminate. }
        rewrite Z. ring.
    - rewrite IH. ring.
  Qed.

  Lemma vnodup_NoDup' l : NoDup (vnodup l).
  Proof.
    induction l as [|a r IH]; simpl. constructor.
    destruct (vmem a r) eqn:E; auto. constructor; auto.
    intros H. assert (In a r).
    { clear -H. induction r as [|b r IH]; simpl in *; auto. destruct (vmem b r) eqn:E; simpl in *; intuition. }
    assert (vmem a r = true).
    { clear -H0. induction r as [|b r IH]; simpl in *. contradiction.
      destruct (vec_eqb b a) eqn:E; auto. destruct H0. subst. rewrite vec_eqb_refl in E. discriminate. auto. }
    congruence.
  Qed.

  Lemma vnodup_In' s l : In s l -> In s (vnodup l).
  Proof.
    induction l as [|a r IH]; simpl; auto. intros [H|H].
    - subst. destruct (vmem s r) eqn:E.
      + apply IH. clear -E. induction r as [|b r IH]; simpl in *. discriminate.
        destruct (vec_eqb b s) eqn:E'. left. now apply vec_eqb_eq. right. auto.
      + now left.
    - destruct (vmem a r); [|right]; auto.
  Qed.

  (* the weights of the outcomes sum to the trace of the measured matrix *)
  Theorem dweights_sum_trace d M (rho : dstate) :
    dwf d rho ->
    (gsum (fun s => dtrace (dproject d M s rho)) (doutcomes M rho) == dtrace rho)%Q.
  Proof.
    intros W. rewrite dtrace_gsum.
    rewrite <- (gpartition dwt (fun p => select M (ket p)) (doutcomes M rho) rho).
    - apply gsum_ext. intros s _. now apply dtrace_dproject.
    - apply vnodup_NoDup'.
    - intros p Hp. unfold DensityModel.dwt. destruct (vec_eqb (ket p) (bra p)) eqn:D; auto.
      left. unfold DensityModel.doutcomes. apply vnodup_In'. apply in_map_iff. exists p. split; auto.
      apply filter_In. split; auto.
  Qed.

  (* for ANY branch (any scale, any trace) the weights of a measurement sum to
     (trace of the branch state) x (weight of the branch) *)
  Theorem dmeasure_branch_weights_sum L (b : dbranch) :
    dwf (length (db_reg A b)) (db_rho A b) ->
    (sumQ (map (db_freq A) (dmeasure_branch A tr L b)) == dbranch_trace A tr b * db_freq A b)%Q.
  Proof.
    intros W. unfold dmeasure_branch, dbranch_trace. rewrite map_map. simpl.
    rewrite <- (dweights_sum_trace (length (db_reg A b)) (remap_modes (db_reg A b) L) (db_rho A b) W).
    induction (doutcomes (remap_modes (db_reg A b) L) (db_rho A b)) as [|s r IH]; simpl.
    - ring.
    - rewrite IH. ring.
  Qed.

  (* ---- chain rule from any branch: measuring L1 (outcome s1) and then L2 (outcome s2) gives
     the branch of the joint measurement of L1 ++ L2 with outcome s1 ++ s2: same block, same
     register, equal weight p(s1) p(s2|s1) = p(s1,s2), equal scale *)
  Definition dsame (b b' : dbranch) : Prop :=
    db_out A b = db_out A b' /\ db_rho A b = db_rho A b' /\ (db_freq A b == db_freq A b')%Q /\
    db_reg A b = db_reg A b' /\ (db_scale A b == db_scale A b')%Q.

  Theorem dtwo_step_child b L1 L2 s1 s2 :
    NoDup (db_reg A b) -> incl L1 (db_reg A b) ->
    incl L2 (filter (fun m => negb (memb m L1)) (db_reg A b)) ->
    length s1 = length L1 ->
    ~ (db_scale A b == 0)%Q ->
    ~ (dtrace (dproject (length (db_reg A b)) (remap_modes (db_reg A b) L1) s1 (db_rho A b)) == 0)%Q ->
    ~ (dtrace (dproject (length (db_reg A b)) (remap_modes (db_reg A b) (L1 ++ L2)) (s1 ++ s2) (db_rho A b)) == 0)%Q ->
    dsame (dchild L2 (dchild L1 b s1) s2) (dchild (L1 ++ L2) b (s1 ++ s2)).
  Proof.
    intros ND H1 H2 Hl NC N1 N12.
    assert (HM2 : incl (remap_modes (db_reg A b) L2)
                       (aux (remap_modes (db_reg A b) L1) (length (db_reg A b)))) by (now apply remap_incl_aux).
    assert (Hl' : length s1 = length (remap_modes (db_reg A b) L1)) by (unfold remap_modes; now rewrite map_length).
    assert (EM : remap_modes (db_reg A b) (L1 ++ L2) = remap_modes (db_reg A b) L1 ++ remap_modes (db_reg A b) L2)
      by (unfold remap_modes; apply map_app).
    assert (ER : delete_modes_from_active (delete_modes_from_active (db_reg A b) (remap_modes (db_reg A b) L1))
                   (remap_modes (delete_modes_from_active (db_reg A b) (remap_modes (db_reg A b) L1)) L2)
                 = delete_modes_from_active (db_reg A b) (remap_modes (db_reg A b) (L1 ++ L2))).
    { rewrite (delete_active_spec (db_reg A b) (L1 ++ L2)).
      - rewrite delete_active_spec.
        + rewrite delete_active_spec by auto. rewrite filter_filter.
          apply filter_ext. intros m. now rewrite memb_app, negb_orb.
        + rewrite delete_active_spec by auto. exact H2.
      - apply incl_app; auto. now apply incl_filter_incl in H2. }
    rewrite EM in N12.
    rewrite <- (dproject_dproject (length (db_reg A b)) (remap_modes (db_reg A b) L1) (remap_modes (db_reg A b) L2) s1 s2 (db_rho A b)) in N12 by auto.
    unfold dsame, DensityModel.dchild. cbn [db_out db_rho db_freq db_reg db_scale].
    rewrite ER.
    rewrite (remap_after_delete (db_reg A b) L1 L2) by auto.
    rewrite (delete_length (db_reg A b) L1) by auto.
    rewrite EM. rewrite <- (dproject_dproject (length (db_reg A b)) (remap_modes (db_reg A b) L1) (remap_modes (db_reg A b) L2) s1 s2 (db_rho A b)) by auto.
    set (w1 := dtrace (dproject (length (db_reg A b)) (remap_modes (db_reg A b) L1) s1 (db_rho A b))) in *.
    set (w12 := dtrace (dproject (length (aux (remap_modes (db_reg A b) L1) (length (db_reg A b))))
                                 (remap_modes (aux (remap_modes (db_reg A b) L1) (length (db_reg A b))) (remap_modes (db_reg A b) L2))
                                 s2 (dproject (length (db_reg A b)) (remap_modes (db_reg A b) L1) s1 (db_rho A b)))) in *.
    split; [now rewrite app_assoc|]. split; [reflexivity|]. split; [|split].
    - field. auto.
    - reflexivity.
    - field. auto.
  Qed.
End DensityProofs.
