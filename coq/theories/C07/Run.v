(* C07 — comparison functions used by the generated cases files (correspondence runs).
   Definitions only: the model (GatesGen/GatesModel/MomentsModel) is run at Q(sqrt 2)[i] and
   compared with the implementation's floats (given as their exact rational values) with
   tolerance 1e-9 (1 + |model|). *)
From Coq Require Import ZArith QArith Qabs List Bool.
From PV Require Import Base.CasesLib C07.CxBase C07.GatesGen C07.MomentsModel C07.GatesModel.
Import ListNotations.

(* sqrt 2 to 40 digits *)
Definition r2 : Q := 14142135623730950488016887242096980785697 # 10000000000000000000000000000000000000000.
Definition tol : Q := 1 # 1000000000.
Definition close (model impl : Q) : bool :=
  Qle_bool (Qabs (model - impl)) (tol * (1 + Qabs model)).
Definition qsv (x : QS) : Q := Qred (qs_approx r2 x).
(* implementation floats arrive as integers: round(x * 10^12) *)
Definition fz (z : Z) : Q := Qmake z 1000000000000.
Definition closez (model : Q) (impl : Z) : bool :=
  Qle_bool (Qabs (model - fz impl)) (tol * (1 + Qabs model) + (1 # 1000000000000)).
Definition qq (n : Z) (d : positive) : Q := Qmake n d.
Arguments qq n%Z d%positive.
Definition close_cx (m : Cx QS) (i : Z * Z) : bool :=
  closez (qsv (fst m)) (fst i) && closez (qsv (snd m)) (snd i).
Fixpoint all2 {X Y : Type} (f : X -> Y -> bool) (l1 : list X) (l2 : list Y) : bool :=
  match l1, l2 with
  | [], [] => true
  | a :: r, b :: s => f a b && all2 f r s
  | _, _ => false
  end.
Definition close_mat (M : list (list (Cx QS))) (I : list (list (Z * Z))) : bool :=
  all2 (all2 close_cx) M I.

Definition block_case : Type := (gname * Env QS * list (list (Z * Z)) * option (list (list (Z * Z))))%type.
Definition block_ok (x : block_case) : bool :=
  let '(g, e, P, A) := x in
  close_mat (passive_block QSOps g e) P &&
  match active_block QSOps g e, A with
  | None, None => true
  | Some a, Some b => close_mat a b
  | _, _ => false
  end.

Section Seq.
  Context {B : Type} (o : Ops B) (val : B -> Q) (ofQ : Q -> B).

  Definition final_state (d : nat) (prog : list (@op B)) : @gstate (Cx B) :=
    run o d prog (vacuum (cops o) d).

  Definition seq_case : Type := (nat * Q * Q * list (@op B) * list Z * list (list Z))%type.
  Definition seq_ok (x : seq_case) : bool :=
    let '(d, hbar, s2h, prog, mean, cov) := x in
    let st := final_state d prog in
    all2 closez (map (fun b => Qred (val b * s2h)) (xxpp_mean o (o1 o) (st_m st))) mean &&
    all2 (all2 closez) (map (map val) (xxpp_cov o d (ofQ hbar) (st_C st) (st_G st))) cov.
End Seq.

Definition seq_ok_Q := seq_ok QOps (fun q => q) Qred.
Definition seq_ok_QS := seq_ok QSOps qsv qs_of_Q.
