"""C04 -- matrix-function kernels equal their combinatorial definitions."""
import hashlib
import json
import math
import os
import re
import subprocess
from concurrent.futures import ThreadPoolExecutor
from fractions import Fraction

from common import (CASES_HEADER, REPO, RUN, VERIF, Check, clist, coq_eval_parallel, coq_make, cz, run_impl)

import sys
sys.path.insert(0, os.path.join(VERIF, "harness", "impl"))
import c04_refs as R  # noqa: E402

IMPORTS = CASES_HEADER + "From PV Require Import C04.PermModel C04.CasesC04 C04.KernelDefs.\n"
SRC_FILES = ["permanent.cpp", "permanent_laplace.cpp", "pfaffian.cpp", "torontonian.cpp",
             "loop_torontonian.cpp", "torontonian_common.cpp"]
WIDTHS = {"int": 32, "int32_t": 32, "int64_t": 64, "long": 64, "long long": 64, "std::int64_t": 64}
EPS = {"d": 2.0 ** -52, "f": 2.0 ** -23}


# --------------------------------------------------------------------------- native build
def build_native(notes):
    """Compile <repo>/src/*.cpp + native/c04/driver.cpp (plain and sanitizer builds).
    Object cache keyed by the content hash of every source involved (same content, same binary)."""
    src = os.path.join(REPO, "src")
    h = hashlib.sha256()
    drv = os.path.join(VERIF, "native", "c04", "driver.cpp")
    files = sorted(os.path.join(src, f) for f in os.listdir(src) if f.endswith((".cpp", ".hpp", ".h")))
    for p in files + [drv]:
        h.update(p.encode())
        h.update(open(p, "rb").read())
    key = h.hexdigest()[:16]
    base = os.path.join(RUN, "c04", key)
    os.makedirs(base, exist_ok=True)
    # keep 3 generations
    parent = os.path.dirname(base)
    gens = sorted((os.path.join(parent, d) for d in os.listdir(parent) if os.path.isdir(os.path.join(parent, d))),
                  key=os.path.getmtime)
    for old in gens[:-3]:
        if old != base:
            subprocess.run(["rm", "-rf", old])
    builds = {"plain": ["-O2"],
              "san": ["-O1", "-g", "-fsanitize=address,undefined", "-fno-omit-frame-pointer"]}
    jobs = []
    for name, flags in builds.items():
        exe = os.path.join(base, "driver_" + name)
        if os.path.exists(exe):
            continue
        for f in SRC_FILES + ["driver.cpp"]:
            path = drv if f == "driver.cpp" else os.path.join(src, f)
            obj = os.path.join(base, "%s_%s.o" % (name, f))
            jobs.append((["g++", "-std=c++17", "-fopenmp", "-I", src] + flags + ["-c", path, "-o", obj], obj))
    def comp(j):
        p = subprocess.run(j[0], capture_output=True, text=True, timeout=900)
        return p.returncode, p.stderr[-2000:]
    if jobs:
        with ThreadPoolExecutor(max_workers=4) as ex:
            for rc, err in ex.map(comp, jobs):
                if rc != 0:
                    raise RuntimeError("native build failed:\n" + err)
    for name, flags in builds.items():
        exe = os.path.join(base, "driver_" + name)
        if not os.path.exists(exe):
            objs = [os.path.join(base, "%s_%s.o" % (name, f)) for f in SRC_FILES + ["driver.cpp"]]
            link = ["g++", "-fopenmp"] + ([f for f in flags if f.startswith("-fsanitize")]) + objs + ["-o", exe + ".tmp"]
            p = subprocess.run(link, capture_output=True, text=True, timeout=600)
            if p.returncode != 0:
                raise RuntimeError("native link failed:\n" + p.stderr[-2000:])
            os.replace(exe + ".tmp", exe)
    notes.append("native driver built from %s/src (hash %s): plain -O2 and -fsanitize=address,undefined" % (REPO, key))
    return os.path.join(base, "driver_plain"), os.path.join(base, "driver_san")


def san_key(rep):
    """stable key of a sanitizer report: source file, function (ASan) or kind (UBSan)"""
    for x in rep:
        m = re.search(r"SUMMARY: AddressSanitizer: ([\w-]+) \S*?/src/([\w./]+):\d+ in (\w+)", x)
        if m:
            return "src/%s:%s:%s" % (m.group(2), m.group(3), m.group(1))
    for x in rep:
        m = re.search(r"/src/([\w./]+):\d+:\d+: runtime error: ([a-zA-Z][a-zA-Z -]*?)(?:\s+-?\d|:| of | by | in |$)", x)
        if m:
            return "src/%s:%s" % (m.group(1), m.group(2).strip().replace(" ", "-"))
    return "sanitizer-report"


def run_native(exe, lines, san=False):
    env = dict(os.environ)
    env["OMP_NUM_THREADS"] = "4"
    if san:
        env["UBSAN_OPTIONS"] = "print_stacktrace=0:halt_on_error=0"
        env["ASAN_OPTIONS"] = "detect_leaks=0:halt_on_error=1"
    outs, errs = [], []
    if san:
        # a few processes, each running a slice; the driver prints "#case k" on stderr before
        # each case, so a sanitizer report is attributed to its case; if the process dies
        # (AddressSanitizer halts) the slice is resumed after the fatal case
        def run_slice(sl):
            res = []
            start = 0
            while start < len(sl):
                p = subprocess.run([exe], input="\n".join(sl[start:]) + "\n", capture_output=True, text=True, timeout=1800, env=env)
                so = p.stdout.strip().splitlines() if p.stdout.strip() else []
                reps = {}
                cur = -1
                for x in p.stderr.splitlines():
                    if x.startswith("#case "):
                        cur = int(x.split()[1])
                    elif "runtime error" in x or "ERROR: AddressSanitizer" in x or "SUMMARY: AddressSanitizer" in x:
                        reps.setdefault(cur, []).append(x)
                for k in range(len(so)):
                    res.append((so[k], reps.get(k, [])))
                if len(so) < len(sl) - start:
                    res.append(("crash rc=%d" % p.returncode, reps.get(len(so), ["process died: " + p.stderr[-300:]])))
                    start += len(so) + 1
                else:
                    start += len(so)
            return res
        nsl = 4
        slices = [lines[k::nsl] for k in range(nsl)]
        with ThreadPoolExecutor(max_workers=nsl) as ex:
            rs = list(ex.map(run_slice, slices))
        outs = [None] * len(lines)
        errs = [None] * len(lines)
        for k in range(nsl):
            for t, (o, e) in enumerate(rs[k]):
                outs[k + t * nsl] = o
                errs[k + t * nsl] = e
        return outs, errs
    p = subprocess.run([exe], input="\n".join(lines) + "\n", capture_output=True, text=True, timeout=1800, env=env)
    outs = p.stdout.strip().splitlines()
    if len(outs) != len(lines):
        raise RuntimeError("native driver returned %d lines for %d cases (rc=%d): %s" % (len(outs), len(lines), p.returncode, p.stderr[-1000:]))
    return outs, [[] for _ in lines]


# --------------------------------------------------------------------------- tiny translator
def weight_widths(fname, corr_broken):
    """(width of `binomial_coeff`, width of the binomialCoeff<T> instantiation) read from the
    source; fails closed."""
    txt = open(os.path.join(REPO, "src", fname)).read()
    txt = re.sub(r"//[^\n]*", "", txt)
    m = re.findall(r"\b((?:std::)?(?:long long|int64_t|int32_t|int|long))\s+binomial_coeff\s*=\s*1\s*;", txt)
    m2 = re.findall(r"binomial_coeff\s*\*=\s*binomialCoeff<\s*([\w: ]+?)\s*>\s*\(", txt)
    if len(m) != 1 or len(m2) != 1 or m[0] not in WIDTHS or m2[0] not in WIDTHS:
        corr_broken.append("translator: cannot read the integer type of binomial_coeff in src/%s (%r, %r)" % (fname, m, m2))
        return None
    # the three update expressions must be the ones modelled
    need = ["binomial_coeff * prev_value / (row_mult_current - value)",
            "binomial_coeff * (row_mult_current - prev_value) / value"]
    flat = re.sub(r"\s+", " ", txt)
    for n in need:
        if n not in flat:
            corr_broken.append("translator: weight update expression `%s` not found in src/%s" % (n, fname))
            return None
    return WIDTHS[m[0]], WIDTHS[m2[0]]


# --------------------------------------------------------------------------- generators
def rand_gauss(rng, lo=-3, hi=3):
    return [rng.randint(lo, hi), rng.randint(lo, hi)]


def rand_matrix(rng, nr, nc, real_only=False):
    return [[[rng.randint(-3, 3), 0 if real_only else rng.randint(-3, 3)] for _ in range(nc)] for _ in range(nr)]


SPARSE_KINDS = ("zero-row", "zero-col", "block-diagonal", "random-mask", "diagonal-only", "single-entry-rows")


def sparsify(rng, M, kind):
    """structured exact zeros: early exits / skips in the kernels key on them"""
    nr = len(M)
    nc = len(M[0]) if nr else 0
    M = [[list(x) for x in row] for row in M]
    if nr == 0 or nc == 0:
        return M
    if kind == "zero-row":
        i = rng.randrange(nr)
        M[i] = [[0, 0] for _ in range(nc)]
    elif kind == "zero-col":
        j = rng.randrange(nc)
        for row in M:
            row[j] = [0, 0]
    elif kind == "block-diagonal":
        a, b = max(1, nr // 2), max(1, nc // 2)
        for i in range(nr):
            for j in range(nc):
                if (i < a) != (j < b):
                    M[i][j] = [0, 0]
    elif kind == "random-mask":
        for i in range(nr):
            for j in range(nc):
                if rng.random() < 0.5:
                    M[i][j] = [0, 0]
    elif kind == "diagonal-only":
        for i in range(nr):
            for j in range(nc):
                if i != j:
                    M[i][j] = [0, 0]
    elif kind == "single-entry-rows":
        for i in range(nr):
            keep = rng.randrange(nc)
            for j in range(nc):
                if j != keep:
                    M[i][j] = [0, 0]
    return M


# dyadic scales 2^e closest to the powers of ten 1e-8 .. 1e4 (the scaled inputs stay exactly
# representable in float32 and float64, so the exact value is the unscaled one times 2^(e*degree))
SCALE_EXPS = (-27, -23, -20, -17, -13, -10, -7, -3, 3, 7, 10, 13)


def composition(rng, total, parts, skew=False):
    v = [0] * parts
    if parts == 0:
        return v
    for _ in range(total):
        if skew and rng.random() < 0.6:
            v[0 if rng.random() < 0.5 else parts - 1] += 1
        else:
            v[rng.randrange(parts)] += 1
    rng.shuffle(v)
    return v


def gen_perm_bases(rng, n_small, n_plain, n_high):
    bases = []
    # small: all kinds of multiplicity vectors with total <= 8 on <= 6 modes
    fixed = [([1, 1], [1, 1]), ([2, 2], [2, 2]), ([0, 2], [1, 1]), ([0, 0], [0, 0]), ([3], [3]), ([0, 3, 0], [1, 1, 1]),
             ([2, 0, 1], [0, 3]), ([1], [1]), ([4, 4], [8]), ([1, 1, 1, 1, 1, 1], [1, 1, 1, 1, 1, 1]), ([2, 1, 2], [1, 3, 1]),
             ([8], [4, 4]), ([1, 2], [2, 1])]
    for r, c in fixed:
        bases.append({"cls": "small", "rows": r, "cols": c})
    while len(bases) < n_small:
        nr, nc = rng.randint(1, 6), rng.randint(1, 6)
        t = rng.randint(0, 8)
        bases.append({"cls": "small", "rows": composition(rng, t, nr), "cols": composition(rng, t, nc)})
    for i in range(n_plain):
        n = 2 + i % 7
        bases.append({"cls": "plain", "rows": [1] * n, "cols": [1] * n})
    high_fixed = [([13, 13, 14], [40]), ([20, 20], [20, 20]), ([19, 21], [40, 0]), ([40], [13, 14, 13]), ([1, 39], [39, 1]),
                  ([0, 40, 0], [20, 20]), ([12, 12], [12, 12]), ([15, 15], [10, 10, 10]), ([16, 17], [33]),
                  ([14, 14], [14, 14]), ([10, 10, 10], [10, 10, 10]), ([13, 13], [13, 13]), ([30, 2, 2], [17, 17])]
    for r, c in high_fixed[:max(3, n_high // 2)]:
        bases.append({"cls": "high", "rows": r, "cols": c})
    while sum(1 for b in bases if b["cls"] == "high") < n_high:
        nr, nc = rng.randint(1, 3), rng.randint(1, 3)
        t = rng.randint(9, 40)
        bases.append({"cls": "high", "rows": composition(rng, t, nr, True), "cols": composition(rng, t, nc, True)})
    for k, b in enumerate(bases):
        real_only = rng.random() < 0.15
        b["M"] = rand_matrix(rng, len(b["rows"]), len(b["cols"]), real_only)
        if b["cls"] == "high" and rng.random() < 0.3:
            b["M"] = [[[1, 0] for _ in b["cols"]] for _ in b["rows"]]
        elif k % 3 == 2 and len(b["rows"]) * len(b["cols"]) > 1:
            b["sparse"] = SPARSE_KINDS[(k // 3) % len(SPARSE_KINDS)]
            b["M"] = sparsify(rng, b["M"], b["sparse"])
    # malformed: totals differ (the kernel must refuse)
    for _ in range(max(3, n_small // 20)):
        nr, nc = rng.randint(1, 4), rng.randint(1, 4)
        t = rng.randint(1, 6)
        bases.append({"cls": "malformed", "rows": composition(rng, t, nr), "cols": composition(rng, t + rng.randint(1, 2), nc),
                      "M": rand_matrix(rng, nr, nc)})
    return bases


def gen_lap_bases(rng, n_small, n_high):
    bases = []
    fixed = [([1, 1], [2, 1]), ([0], [1]), ([2], [1, 2]), ([0, 3], [2, 2]), ([2, 2, 1], [6]), ([1, 1, 1], [1, 1, 1, 1])]
    for r, c in fixed:
        bases.append({"cls": "small", "rows": r, "cols": c})
    while len(bases) < n_small:
        nr, nc = rng.randint(1, 5), rng.randint(1, 5)
        t = rng.randint(max(0, nc - 1), 7)
        c = [1] * nc
        extra = composition(rng, t + 1 - nc, nc)
        bases.append({"cls": "small", "rows": composition(rng, t, nr), "cols": [a + b for a, b in zip(c, extra)]})
    hf = [([18, 18], [37]), ([13, 13, 13], [20, 20]), ([20], [10, 11]), ([12, 12], [12, 13])]
    for r, c in hf[:n_high]:
        bases.append({"cls": "high", "rows": r, "cols": c})
    while sum(1 for b in bases if b["cls"] == "high") < n_high:
        nr, nc = rng.randint(1, 3), rng.randint(1, 3)
        t = rng.randint(9, 39)
        extra = composition(rng, t + 1 - nc, nc, True)
        bases.append({"cls": "high", "rows": composition(rng, t, nr, True), "cols": [1 + e for e in extra]})
    for k, b in enumerate(bases):
        b["M"] = rand_matrix(rng, len(b["rows"]), len(b["cols"]), rng.random() < 0.15)
        if k % 3 == 1 and len(b["rows"]) * len(b["cols"]) > 1:
            b["sparse"] = SPARSE_KINDS[(k // 3) % len(SPARSE_KINDS)]
            b["M"] = sparsify(rng, b["M"], b["sparse"])
    return bases


def variants(rng, b, kind):
    """each base case is run in float64 and float32, with different forced thread counts,
    contiguous and strided"""
    vs = [dict(b, kind=kind, prec="d", T=1, pad=0),
          dict(b, kind=kind, prec="d", T=rng.choice([2, 3, 5]), pad=rng.choice([1, 3])),
          dict(b, kind=kind, prec="f", T=rng.choice([1, 2, 4]), pad=rng.choice([0, 2]))]
    # the same case with the matrix rescaled by 2^e (about 1e-8 .. 1e4): the value scales by
    # 2^(e*n) exactly; compared with a relative tolerance.  The degree n limits the exponent.
    n = max(1, sum(b["rows"]))
    if b.get("cls") != "malformed":
        ok_d = [e for e in SCALE_EXPS if abs(e) * n <= 400]
        ok_f = [e for e in SCALE_EXPS if abs(e) * n <= 60]
        if ok_d:
            vs.append(dict(b, kind=kind, prec="d", T=1, pad=0, e=rng.choice(ok_d)))
        if ok_f and rng.random() < 0.6:
            vs.append(dict(b, kind=kind, prec="f", T=1, pad=rng.choice([0, 2]), e=rng.choice(ok_f)))
    return vs


def native_line(c):
    toks = ["perm" if c["kind"] == "perm" else "lap", c["prec"], str(c["T"]), str(c["pad"]), str(len(c["rows"])), str(len(c["cols"]))]
    toks += [str(x) for x in c["rows"]] + [str(x) for x in c["cols"]]
    sc = 2.0 ** c.get("e", 0)
    for row in c["M"]:
        for x in row:
            toks += [repr(x[0] * sc), repr(x[1] * sc)] if "e" in c else [str(x[0]), str(x[1])]
    return " ".join(toks)


def scaled_matrix(c):
    """entries as sent to the implementation (exact dyadic rescaling)"""
    if "e" not in c:
        return c["M"]
    sc = 2.0 ** c["e"]
    return [[[x[0] * sc, x[1] * sc] for x in row] for row in c["M"]]


def coq_zi_matrix(M):
    return clist(M, lambda row: clist(row, lambda x: "(%s,%s)" % (cz(x[0]), cz(x[1]))))


def nat_list(v):
    return "[" + "; ".join("%d%%nat" % x for x in v) + "]"


def parse_all_ints(out):
    """every `= [...] : list Z` group of a coqc output -> list of int lists"""
    groups = []
    for m in re.finditer(r"=\s*(\[[^:]*\]|nil)\s*:\s*list Z", out, re.S):
        groups.append([int(x) for x in re.findall(r"-?\d+", m.group(1).replace("%Z", ""))])
    return groups


def scale_S(c):
    """magnitude of the largest Glynn addend after the division by 2^(n-1), for the UNSCALED
    integer matrix: prod_j (sum_i r_i |a_ij|)^{c_j}; for the Laplace kernel the largest of the
    products with one copy of a present column removed.  A backward-stable evaluation errs by
    a small multiple of eps*S."""
    cs = [sum(ri * math.hypot(*c["M"][i][j]) for i, ri in enumerate(c["rows"])) for j in range(len(c["cols"]))]

    def prod(cols):
        S = 1.0
        for s_, cj in zip(cs, cols):
            S *= s_ ** cj if cj else 1.0
        return S
    if c["kind"] == "perm":
        return prod(c["cols"])
    best = 0.0
    for j, cj in enumerate(c["cols"]):
        if cj:
            cols = list(c["cols"])
            cols[j] -= 1
            best = max(best, prod(cols))
    return best


def scale_factor(c):
    """exact factor by which every value of the case is multiplied by the rescaling"""
    return Fraction(2) ** (c.get("e", 0) * sum(c["rows"]))


def tol_for(c, exact_abs):
    """relative tolerance (exact Fraction): base*|v| + 64 n eps S, S scaled like the value"""
    n = max(1, sum(c["rows"]))
    base = Fraction(1, 10 ** 9) if c["prec"] == "d" else Fraction(2, 10 ** 4)
    S = Fraction(scale_S(c)) * scale_factor(c)
    return base * exact_abs + Fraction(64 * n) * Fraction(EPS[c["prec"]]) * S


def fl(x):
    try:
        return float(x)
    except OverflowError:
        return float("inf") if x > 0 else float("-inf")


def close(got, exact, tol):
    """got: [re, im] floats, exact: (Fraction re, Fraction im)"""
    if any(math.isnan(x) or math.isinf(x) for x in got):
        return False
    return abs(Fraction(got[0]) - exact[0]) <= tol and abs(Fraction(got[1]) - exact[1]) <= tol


def fits_float(c):
    """the unnormalised Glynn addends (and every partial product of column-sum powers, hence the
    product over the non-zero column sums only) and the result scale stay inside the normal range
    of the float type; overflow / underflow of the type is not a defect of the kernel"""
    n = sum(c["rows"])
    e = c.get("e", 0)
    cs = [sum(ri * math.hypot(*c["M"][i][j]) for i, ri in enumerate(c["rows"])) for j in range(len(c["cols"]))]
    hi, lo = (120, -100) if c["prec"] == "f" else (1000, -900)
    up = 0.0      # log2 of the largest partial product
    dn = 0.0      # log2 of the smallest partial product
    for s_, cj in zip(cs, c["cols"]):
        if s_ > 0 and cj:
            t = cj * (math.log2(s_) + e)
            up += max(t, 0.0)
            dn += min(t, 0.0)
    tot = sum(cj * (math.log2(s_) + e) for s_, cj in zip(cs, c["cols"]) if s_ > 0 and cj)
    return up + max(0, n - 1) < hi and dn > lo and tot > lo


def run(chk: Check):
    import time
    t0 = time.time()
    def lap(msg):
        if os.environ.get("C04_TIMING"):
            sys.stderr.write("[c04 %.0fs] %s\n" % (time.time() - t0, msg))
    chk.proofs(timeout=2400)
    T = chk.thorough
    rng = chk.rng
    corr_broken = []
    notes = chk.notes
    ok, log = coq_make(["theories/C04/CasesC04.vo", "theories/C04/KernelDefs.vo", "theories/C04/HafModel.vo"])
    if not ok:
        corr_broken.append("the model files C04/CasesC04.v, C04/KernelDefs.v do not compile: " + log[-500:])
        chk.finish(rule="-", explanation="model does not compile", correspondence_broken=corr_broken)
    lap("coq built")

    # ------------------------------------------------------------ build + translator
    plain_exe, san_exe = build_native(notes)
    lap("native built")
    o0, _ = run_native(plain_exe, ["perm d 0 0 2 2 1 1 1 1 1 0 2 0 3 0 4 0"])
    if o0[0].split()[:2] != ["ok", "10"]:
        notes.append("observation (platform-dependent, not an input of the property): with std::thread::hardware_concurrency() == 0 "
                     "(allowed by the C++ standard) permanent_cpp runs no job and returns %s instead of 10 for perm [[1,2],[3,4]]; "
                     "optional patch fixes/C04-optional-hardware-concurrency-zero.diff; the theorems assume threads >= 1" % " ".join(o0[0].split()[1:]))
    wp = weight_widths("permanent.cpp", corr_broken)
    wl = weight_widths("permanent_laplace.cpp", corr_broken)
    if wp is None or wl is None:
        chk.finish(rule="-", explanation="translator failed closed", correspondence_broken=corr_broken)
    notes.append("integer weight: permanent.cpp binomial_coeff %d bit / binomialCoeff<%d bit>; permanent_laplace.cpp %d / %d"
                 % (wp[0], wp[1], wl[0], wl[1]))

    # ------------------------------------------------------------ cases
    corpus = []
    cpath = os.path.join(VERIF, "harness", "corpus", "c04.jsonl")
    if os.path.exists(cpath):
        for line in open(cpath):
            line = line.strip()
            if line:
                corpus.append(json.loads(line))
    pb = gen_perm_bases(rng, 260 if T else 70, 21 if T else 7, 60 if T else 14)
    lb = gen_lap_bases(rng, 120 if T else 30, 20 if T else 5)
    cases = []
    for c in corpus:
        if c.get("kind") in ("perm", "lap"):
            for v in variants(rng, dict(c, cls="corpus"), c["kind"]):
                cases.append(v)
    for b in pb:
        cases += variants(rng, b, "perm")
    for b in lb:
        cases += variants(rng, b, "lap")

    # ------------------------------------------------------------ implementation: fresh native build (+ sanitizer)
    lines = [native_line(c) for c in cases]
    nat_out, _ = run_native(plain_exe, lines)
    lap("native run")
    san_idx = [i for i, c in enumerate(cases) if c["prec"] == "d" and c["T"] == 1 or c["cls"] in ("corpus", "high")]
    if not T:
        san_idx = [i for i in san_idx if cases[i]["cls"] != "small" or i % 2 == 0]
    san_out, san_err = run_native(san_exe, [lines[i] for i in san_idx], san=True)
    san_rep = {i: (o, e) for i, o, e in zip(san_idx, san_out, san_err)}

    lap("sanitizer run")
    # shipped Python entry points on the same cases (T is not controllable there)
    py_cases = []
    py_idx = []
    for i, c in enumerate(cases):
        if c["T"] == 1 or c["prec"] == "f":
            py_cases.append({"kind": c["kind"], "M": scaled_matrix(c), "rows": c["rows"], "cols": c["cols"], "prec": c["prec"],
                             "strided": c["pad"] > 0, "via": "connector" if i % 5 == 0 else "module",
                             "int64": i % 7 == 0})
            py_idx.append(i)
    real_cases, haf_cases = R.gen_real_cases(rng, T), R.gen_haf_cases(rng, T)
    for c in corpus:   # minimised past findings of the other kernels run first
        if c.get("kind") in ("tor", "ltor", "pf"):
            real_cases.insert(0, {k: c[k] for k in ("kind", "M", "y") if k in c} | {"prec": "d", "strided": False})
        elif c.get("kind") in ("haf", "lhaf", "haf_batch", "lhaf_batch"):
            haf_cases.insert(0, {k: c[k] for k in ("kind", "M", "occ", "diag", "m", "cutoff") if k in c} | {"prec": "d", "strided": False})
    # every occupation vector with total <= 8 on <= 6 modes (exact tie of the integer bookkeeping)
    mo_cases = [list(v) for d in range(1, 7) for v in R.compositions_upto(d, 8)]
    kept_cases = [list(v) for n in range(0, 6) for v in R.compositions_upto(n, 4)]
    impl = run_impl("c04_impl.py", {"perm": py_cases, "mo": mo_cases, "kept": kept_cases, "haf": [R.haf_payload(c) for c in haf_cases],
                                     "real": [R.real_payload(c) for c in real_cases]}, timeout=3000)
    py_res = {i: r for i, r in zip(py_idx, impl["perm"])}
    lap("python impl run")

    # ------------------------------------------------------------ model (Coq, exact) on the distinct (base, T) pairs
    mkeys = {}
    for i, c in enumerate(cases):
        k = (c["kind"], json.dumps(c["M"]), tuple(c["rows"]), tuple(c["cols"]), c["T"])
        mkeys.setdefault(k, []).append(i)
    mlist = list(mkeys.items())
    # order heavy cases evenly over the chunks
    def weight(k):
        w = 1
        for x in k[2]:
            w *= x + 1
        return w * (1 + len(k[3]))
    order = sorted(range(len(mlist)), key=lambda j: -weight(mlist[j][0]))
    nchunks = 8 if T else 4
    chunks = [[] for _ in range(nchunks)]
    loads = [0] * nchunks
    for j in order:
        t = loads.index(min(loads))
        chunks[t].append(j)
        loads[t] += weight(mlist[j][0]) + 50
    bodies = []
    for ch in chunks:
        parts = []
        for j in ch:
            (kind, Mj, rows, cols, Tn), _ = mlist[j]
            M = json.loads(Mj)
            w, wbin = wp if kind == "perm" else wl
            f = "enc_perm (permanent_cpp_zi" if kind == "perm" else "enc_lap (permanent_laplace_cpp_zi"
            parts.append("Eval vm_compute in %s %d %d %d%%nat %s %s %s)." % (
                f, wbin, w, Tn, coq_zi_matrix(M), nat_list(rows), nat_list(cols)))
        bodies.append(IMPORTS + "\n".join(parts) + "\n")
    outs = coq_eval_parallel("c04_perm", bodies, timeout=2400, jobs=4)
    lap("coq model run")
    model = {}
    for ch, o in zip(chunks, outs):
        g = parse_all_ints(o)
        if len(g) != len(ch):
            raise RuntimeError("model output: %d groups for %d cases" % (len(g), len(ch)))
        for j, ints in zip(ch, g):
            for i in mlist[j][1]:
                model[i] = ints

    # ------------------------------------------------------------ compare
    STAT = {0: "ok", 1: "Overflow", 2: "DivByZero", 3: "BadInput"}
    hist_e, hist_sp = {}, {}
    for c in cases:
        if "e" in c:
            hist_e[c["e"]] = hist_e.get(c["e"], 0) + 1
        if c.get("sparse"):
            hist_sp[c["sparse"]] = hist_sp.get(c["sparse"], 0) + 1
    n_eval = n_nontriv = 0
    n_search = 0
    skipped_f32 = 0
    seen_nontriv = set()
    shipped_div = []
    samples = []
    for i, c in enumerate(cases):
        kind = c["kind"]
        fname = "src/permanent.cpp" if kind == "perm" else "src/permanent_laplace.cpp"
        fn = "permanent_cpp" if kind == "perm" else "permanent_laplace_cpp"
        ints = model[i]
        mstat = STAT[ints[0]]
        total = sum(c["rows"])
        # exact reference (definition; Python, fractions)
        if c["cls"] == "malformed":
            ref = None
        elif kind == "perm":
            ref = [R.perm_ref(c["M"], c["rows"], c["cols"])]
        else:
            ref = R.laplace_ref(c["M"], c["rows"], c["cols"])   # None entries where c_j = 0
        if ref is not None and "e" in c:
            sf = scale_factor(c) if sum(c["rows"]) else Fraction(1)
            ref = [None if rv is None else (rv[0] * sf, rv[1] * sf) for rv in ref]
        # native result
        o = nat_out[i].split()
        if o[0] == "ok":
            vals = [float(x) for x in o[1:]]
            if kind == "lap":
                vals = vals[1:]
            got = [[vals[2 * k], vals[2 * k + 1]] for k in range(len(vals) // 2)]
        else:
            got = None
        witness = {"kernel": fn, "matrix": c["M"], "rows": c["rows"], "cols": c["cols"], "precision": c["prec"],
                   "forced_hardware_concurrency": c["T"], "stride_pad": c["pad"], "native_line": lines[i],
                   "matrix_rescaled_by_2^e": c.get("e"), "sparsity": c.get("sparse"),
                   "replay": "echo '%s' | <fresh build of /verif/native/c04/driver.cpp against %s/src>" % (lines[i], REPO)}
        wit_key = "%s:%s" % (fn, c["cls"])
        n_eval += 1
        nontriv = len(c["rows"]) >= 2 and max(c["rows"] + c["cols"] + [0]) >= 2
        if nontriv:
            seen_nontriv.add((kind, json.dumps(c["M"]), tuple(c["rows"]), tuple(c["cols"])))
        if c["cls"] == "malformed":
            if mstat != "BadInput":
                corr_broken.append("model accepts unequal totals: %s" % witness["native_line"])
            if got is not None:
                chk.violation("C04:%s:unequal-totals-not-refused" % fn, "kernel returned a value for sum(rows) != sum(cols)", witness)
            continue
        in_float_range = fits_float(c)
        if not in_float_range:
            skipped_f32 += 1
        # --- model vs definition (exact): validates the model independently of the floats
        if mstat == "ok":
            if kind == "perm":
                e = ints[3]
                mval = [(Fraction(ints[1], 2 ** e), Fraction(ints[2], 2 ** e))]
            else:
                e, cnt = ints[1], ints[2]
                mval = [(Fraction(ints[3 + 2 * k], 2 ** e), Fraction(ints[4 + 2 * k], 2 ** e)) for k in range(cnt)]
            if "e" in c and sum(c["rows"]):
                mval = [(a_ * scale_factor(c), b_ * scale_factor(c)) for a_, b_ in mval]
            for k, rv in enumerate(ref):
                if rv is not None and (k >= len(mval) or mval[k] != rv):
                    corr_broken.append("model value differs from the defining sum (exact) at %s entry %d" % (lines[i], k))
                    break
        # --- undefined behaviour: model says the integer weight overflows on an in-scope input
        ub = san_rep.get(i, (None, []))[1]
        if mstat in ("Overflow", "DivByZero") and total <= 40:
            bad = got is None or not all(
                rv is None or (k < len(got) and close(got[k], rv, tol_for(c, abs(rv[0]) + abs(rv[1]))))
                for k, rv in enumerate(ref)) if in_float_range else None
            chk.violation("C04:%s:binomial_coeff-signed-overflow" % fname,
                          "signed overflow of the integer binomial weight (undefined behaviour) for multiplicities with total %d <= 40%s"
                          % (total, "; returned value wrong" if bad else ""),
                          dict(witness, model_outcome=mstat, returned=got,
                               expected=[None if rv is None else [fl(rv[0]), fl(rv[1])] for rv in ref],
                               ubsan=ub[:3]))
            n_search += 1
            continue
        if ub:
            chk.violation("C04:%s" % san_key(ub), "undefined behaviour in the native kernel (sanitizer): %s" % ub[-1][-200:],
                          dict(witness, ubsan=ub[:5]))
        if not in_float_range:
            continue
        # --- tie: model (exact) vs fresh native build; search: native vs defining sum
        for src_name, vals_ in (("native", got),):
            okm = vals_ is not None and mstat == "ok" and all(
                k < len(vals_) and close(vals_[k], mv, tol_for(c, abs(mv[0]) + abs(mv[1])))
                for k, mv in enumerate(mval) if ref[k] is not None) if mstat == "ok" else True
            if not okm:
                corr_broken.append("model != fresh native %s at %s (model %s, native %s)" % (fn, lines[i], [(fl(a), fl(b)) for a, b in mval][:3], (vals_ or ["err"])[:3]))
        okr = got is not None and all(
            rv is None or (k < len(got) and close(got[k], rv, tol_for(c, abs(rv[0]) + abs(rv[1]))))
            for k, rv in enumerate(ref))
        n_search += 1
        if not okr:
            chk.violation("C04:%s:value:%s:%s" % (fn, c["cls"], c["prec"]),
                          "%s differs from the defining sum beyond floating-point accuracy" % fn,
                          dict(witness, returned=got, expected=[None if rv is None else [fl(rv[0]), fl(rv[1])] for rv in ref]))
        # sanitizer build must return the same (within tolerance) value
        if i in san_rep and not ub:
            so = san_rep[i][0].split()
            if so[0] != o[0]:
                chk.violation("C04:%s:sanitizer-build-differs" % fn, "sanitizer build outcome differs", dict(witness, san=san_rep[i][0]))
        # shipped binary
        if i in py_res:
            pr = py_res[i]
            if "err" in pr:
                pv = None
            else:
                pv = [pr["v"]] if kind == "perm" else pr["v"]
            okp = pv is not None and all(
                rv is None or (k < len(pv) and close(pv[k], rv, tol_for(c, abs(rv[0]) + abs(rv[1]))))
                for k, rv in enumerate(ref))
            if not okp and okr:
                shipped_div.append({"rows": c["rows"], "cols": c["cols"], "prec": c["prec"], "shipped": pv if pv else pr.get("err"), "fresh": got})
            if pv is not None and not pr.get("input_unchanged", True):
                chk.violation("C04:piquasso._math.permanent:%s:input-mutated" % kind, "the Python entry point changed the caller's matrix", witness)
            want_dt = "complex64" if c["prec"] == "f" else "complex128"
            if pv is not None and pr.get("dtype") != want_dt:
                notes.append("dtype of %s result for %s input: %s" % (kind, want_dt, pr.get("dtype")))
        if len(samples) < 3 and nontriv and c["cls"] != "corpus":
            samples.append({"kernel": fn, "rows": c["rows"], "cols": c["cols"], "M": c["M"], "prec": c["prec"], "T": c["T"],
                            "native": got, "exact": [None if rv is None else [str(rv[0]), str(rv[1])] for rv in ref]})
    if shipped_div:
        notes.append("shipped piquasso._math.permanent binary differs from the defining sum where the fresh build of src/ is right: %d cases, e.g. %s"
                     % (len(shipped_div), json.dumps(shipped_div[0])[:400]))
    notes.append("float cases skipped because the unnormalised Glynn addends exceed the float range (float32 overflow is not a defect of the kernel): %d" % skipped_f32)
    chk.stream("permanent / Laplace permanents: Coq model (exact) vs fresh native build vs shipped binary; float64+float32, forced concurrency, strided",
               n_eval, len(seen_nontriv), samples=samples,
               note="classes: small (total<=8, <=6 modes, zeros allowed), plain (n<=8), high (total<=40, <=3 modes), malformed, corpus; "
                    "rescaled by 2^e (e -> cases): %s; structured zeros (kind -> cases): %s"
                    % (json.dumps({str(k): v for k, v in sorted(hist_e.items())}), json.dumps(hist_sp)))
    chk.stream("permanent / Laplace: fresh native build vs defining sum in Python fractions (search)", n_search, len(seen_nontriv), kind="search")

    lap("perm compared")
    R.check_integer_bookkeeping(chk, impl, mo_cases, kept_cases, corr_broken, CASES_HEADER)
    lap("integer bookkeeping compared")
    # ------------------------------------------------------------ the other kernels
    R.check_other_kernels(chk, impl, haf_cases, real_cases, plain_exe, san_exe, run_native, corr_broken, IMPORTS, parse_all_ints, san_key)

    if os.environ.get("C04_DUMP"):
        with open(os.environ["C04_DUMP"], "w") as fh:
            json.dump({"violations": [{"key": v["key"], "what": v["what"]} for v in chk.violations],
                       "corr_broken": corr_broken[:50], "notes": notes}, fh, indent=1)
    chk.assumptions += [
        "the chain from the C++ loop to the defining permanent (loop invariants, Gray bijection, job partition, Glynn/BBFG identity with multiplicities) is proved for every commutative ring; the model is tied to the code by the differential run only",
        "g++/OpenMP compile the C++ sources as written; std::thread::hardware_concurrency is interposed by the driver",
        "the pybind glue and the shipped .so are exercised but cannot be rebuilt here (divergences are notes)",
        "float rounding: tolerance 1e-9(1+|v|) + 64 n eps S (float64), 2e-4(1+|v|) + 64 n eps S (float32), S = prod_j (sum_i r_i|a_ij|)^c_j",
    ]
    chk.finish(
        rule="non-trivial: >=2 rows and some multiplicity >=2 (permanents); dimension >=4 or some occupation >=2 (hafnians); >=2 modes (torontonian); n>=4 (Pfaffian); distinct (matrix, multiplicities)",
        explanation="Theorems of coq/theories/Props/C04.v about the Gallina model of src/permanent.cpp, permanent_laplace.cpp, n_aryGrayCodeCounter.hpp, utils.hpp (C04/PermModel.v); tie = the model evaluated exactly (vm_compute, Gaussian integers) against a fresh g++ build of /repo/src run through /verif/native/c04/driver.cpp and against the shipped Python entry points; search = every kernel against its defining sum computed with fractions.",
        correspondence_broken=corr_broken,
    )
