"""C01 — All bosonic simulators agree on photon-number statistics.

Streams:
  tables   model (Coq, exact Q[i]) vs calculate_interferometer_helper_indices +
           calculate_interferometer_on_fock_space                       (correspondence)
  slos     model vs passive/utils.py:calculate_state_vector              (correspondence)
  passive  exact reference |perm|^2/(s! t!) vs PureFock / Fock / Passive simulators:
           state vector, density matrix, fock_probabilities,
           get_particle_detection_probability                            (correspondence)
  search   the three simulators against each other (no model)             (search)
  active   Gaussian vs pure Fock vs mixed Fock on programs with active gates
           -- differential test (no theorem)
"""
import itertools
import json
import math
import os
import re
from fractions import Fraction as F

from common import VERIF, Check, coq_eval_parallel, run_impl

ENV1 = {"NUMBA_NUM_THREADS": "1", "OMP_NUM_THREADS": "1", "OPENBLAS_NUM_THREADS": "1", "MKL_NUM_THREADS": "1"}
HEADER = """From Coq Require Import ZArith QArith List Bool.
From PV Require Import Comb.FockModel C01.PermModel C01.GaussZ.
Import ListNotations.
Open Scope Z_scope.
Set Printing Width 100000000.
Set Printing Depth 100000000.
"""
TOL = 1e-9


# --------------------------------------------------------------------------- exact complex
def cmul(a, b):
    return (a[0] * b[0] - a[1] * b[1], a[0] * b[1] + a[1] * b[0])


def cadd(a, b):
    return (a[0] + b[0], a[1] + b[1])


def cconj(a):
    return (a[0], -a[1])


ZERO = (F(0), F(0))
ONE = (F(1), F(0))
IU = (F(0), F(1))
TRIPLES = [(3, 4, 5), (5, 12, 13), (8, 15, 17), (7, 24, 25), (20, 21, 29), (4, 3, 5), (12, 5, 13)]


def unit(rng, trivial=0.15):
    """A Gaussian-rational number of modulus one (Pythagorean), with its argument."""
    if rng.random() < trivial:
        a, b = rng.choice([(1, 0), (0, 1), (-1, 0), (0, -1)])
        c = 1
    else:
        a, b, c = rng.choice(TRIPLES)
        a *= rng.choice([1, -1])
        b *= rng.choice([1, -1])
    return (F(a, c), F(b, c)), math.atan2(b, a)


def mat_id(d):
    return [[ONE if i == j else ZERO for j in range(d)] for i in range(d)]


def mat_mul(X, Y):
    n, m, k = len(X), len(Y[0]), len(Y)
    out = []
    for i in range(n):
        row = []
        for j in range(m):
            acc = ZERO
            for l in range(k):
                acc = cadd(acc, cmul(X[i][l], Y[l][j]))
            row.append(acc)
        out.append(row)
    return out


def random_unitary(rng, k, rounds=None):
    """k x k Gaussian-rational unitary: product of Givens rotations with phases."""
    U = mat_id(k)
    for i in range(k):
        U[i][i] = unit(rng)[0]
    if k == 1:
        return U
    rounds = rounds if rounds is not None else rng.randint(1, k + 1)
    for _ in range(rounds):
        i, j = rng.sample(range(k), 2)
        (c, s), _ = unit(rng, 0.05)
        ph = unit(rng)[0]
        G = mat_id(k)
        G[i][i] = (c, F(0))
        G[j][j] = (c, F(0))
        G[i][j] = cmul((-s, F(0)), cconj(ph))
        G[j][i] = cmul((s, F(0)), ph)
        U = mat_mul(G, U)
    return U


def random_matrix(rng, k):
    """small Gaussian-integer/half-integer matrix, not unitary (the recurrence = permanent
    identity holds for every matrix)"""
    return [[(F(rng.randint(-3, 3), rng.choice([1, 2])), F(rng.randint(-2, 2), rng.choice([1, 3]))) for _ in range(k)] for _ in range(k)]


def mfloat(M):
    return [[[float(z[0]), float(z[1])] for z in row] for row in M]


# --------------------------------------------------------------------------- gates (exact blocks
# written from the documentation of piquasso/instructions/gates.py, parameters as floats)
def gen_gate(rng, d, allow=("Beamsplitter", "Phaseshifter", "Fourier", "MachZehnder", "Interferometer")):
    names = [n for n in allow if d >= 2 or n in ("Phaseshifter", "Fourier", "Interferometer")]
    g = rng.choice(names)
    if g == "Beamsplitter":
        (c, s), theta = unit(rng, 0.1)
        ph, phi = unit(rng)
        r = cmul(ph, (s, F(0)))
        t = (c, F(0))
        M = [[t, (-r[0], r[1])], [r, t]]
        modes = rng.sample(range(d), 2)
        return {"g": g, "modes": modes, "kw": {"theta": theta, "phi": phi}}, M
    if g == "Phaseshifter":
        ph, phi = unit(rng)
        return {"g": g, "modes": [rng.randrange(d)], "kw": {"phi": phi}}, [[ph]]
    if g == "Fourier":
        return {"g": g, "modes": [rng.randrange(d)], "kw": {}}, [[IU]]
    if g == "MachZehnder":
        pi, int_ = unit(rng)
        pe, ext = unit(rng)
        half = (F(1, 2), F(0))
        pm1 = cadd(pi, (F(-1), F(0)))
        pp1 = cadd(pi, ONE)
        M = [[cmul(half, cmul(pe, pm1)), cmul(half, cmul(IU, pp1))],
             [cmul(half, cmul(IU, cmul(pe, pp1))), cmul(half, (1 - pi[0], -pi[1]))]]
        return {"g": g, "modes": rng.sample(range(d), 2), "kw": {"int_": int_, "ext": ext}}, M
    k = rng.randint(1, d)
    M = random_unitary(rng, k)
    return {"g": "Interferometer", "modes": rng.sample(range(d), k), "kw": {"matrix": {"matrix": mfloat(M)}}}, M


# --------------------------------------------------------------------------- Coq literals
def to_int(M):
    """Gaussian-rational matrix -> (Gaussian-integer matrix, common denominator D), M = U*D"""
    D = 1
    for row in M:
        for z in row:
            D = math.lcm(D, F(z[0]).denominator, F(z[1]).denominator)
    return [[(int(z[0] * D), int(z[1] * D)) for z in row] for row in M], D


def cz(n):
    return "(%d)" % n if n < 0 else str(n)


def cmat(Mi):
    return "[" + "; ".join("[" + "; ".join("(%s,%s)" % (cz(z[0]), cz(z[1])) for z in row) + "]" for row in Mi) + "]"


def cnats(v):
    return "[" + "; ".join("%d%%nat" % x for x in v) + "]"


GROUP_RE = re.compile(r"=\s*(\[[^\]]*\]|nil)\s*:\s*list Z", re.S)


def parse_groups(out):
    res = []
    for m in GROUP_RE.finditer(out):
        res.append([int(x) for x in re.findall(r"-?\d+", m.group(1).replace("%Z", ""))])
    return res


def eval_cases(tag, exprs, chunk):
    """exprs: Coq terms of type list Z; returns one int list per expr."""
    import time
    t_ = time.time()
    try:
        return _eval_cases(tag, exprs, chunk)
    finally:
        TIMES[tag] = round(time.time() - t_, 1)


TIMES = {}


def _eval_cases(tag, exprs, chunk):
    if not exprs:
        return []
    chunk = max(1, chunk)
    bodies = []
    for i in range(0, len(exprs), chunk):
        bodies.append(HEADER + "\n".join("Eval vm_compute in (%s)." % e for e in exprs[i:i + chunk]) + "\n")
    outs = coq_eval_parallel(tag, bodies, jobs=4) if bodies else []
    res = []
    for i, o in enumerate(outs):
        g = parse_groups(o)
        want = len(exprs[i * chunk:(i + 1) * chunk])
        if len(g) != want:
            raise RuntimeError("cases file %s_%d: %d results for %d cases" % (tag, i, len(g), want))
        res += g
    return res


def take_zi(flat, count, pos, scale):
    """count Gaussian integers from a flat list, divided by scale -> (Fraction, Fraction)"""
    out = []
    for _ in range(count):
        out.append((F(flat[pos], scale), F(flat[pos + 1], scale)))
        pos += 2
    return out, pos


# --------------------------------------------------------------------------- combinatorics
def sector(d, n):
    """anti-lexicographic enumeration of the n-particle sector (order proved in C06)"""
    if d == 0:
        return [[]] if n == 0 else []
    out = []
    for first in range(n, -1, -1):
        for rest in sector(d - 1, n - first):
            out.append([first] + rest)
    return out


def fact(v):
    p = 1
    for x in v:
        p *= math.factorial(x)
    return p


def sub_index(v):
    """position of v inside its sector"""
    return sector(len(v), sum(v)).index(list(v))


def close(impl, model, tol=TOL):
    return abs(impl - model) <= tol * (1 + abs(model))


def cclose(impl, model, tol=TOL):
    return abs(complex(impl[0], impl[1]) - model) <= tol * (1 + abs(model))


def is_err(x):
    return isinstance(x, dict) and "error" in x


# --------------------------------------------------------------------------- generators
def gen_tables(rng, T):
    cases = []
    # every (d, cutoff) small pair once with a unitary, then random ones
    grid = [(d, c) for d in (1, 2, 3, 4) for c in range(1, (7 if T else 6)) if math.comb(d + c - 1, d) <= (130 if T else 36)]
    for d, c in grid:
        cases.append({"d": d, "cutoff": c, "Uex": random_unitary(rng, d), "kind": "unitary"})
    for _ in range(24 if T else 6):
        d = rng.randint(1, 3)
        c = rng.randint(3, 5)
        cases.append({"d": d, "cutoff": c, "Uex": random_matrix(rng, d), "kind": "non-unitary"})
    for c in cases:
        c["U"] = mfloat(c["Uex"])
    return cases


def gen_slos(rng, T):
    cases = []
    for _ in range(120 if T else 20):
        d = rng.randint(1, 4)
        n = rng.randint(0, 5 if d <= 3 else 4) if T else rng.randint(0, 4 if d <= 3 else 3)
        s = [0] * d
        for _ in range(n):
            s[rng.randrange(d)] += 1
        U = random_unitary(rng, d) if rng.random() < 0.7 else random_matrix(rng, d)
        case = {"Uex": U, "U": mfloat(U), "s": s}
        if rng.random() < 0.55:
            # post-selection (pruned bases): distinct modes, photon counts summing to <= n
            k = rng.randint(1, d)
            modes = rng.sample(range(d), k)
            left = n
            photons = []
            for _m in modes:
                p_ = rng.randint(0, min(left, 2))
                photons.append(p_)
                left -= p_
            case["post"] = [modes, photons]
        cases.append(case)
    return cases


def gen_pbk(rng, T):
    """inputs of partitions_bounded_k: distinct constrained boxes, bounds below / at / above the
    particle number, every k_limit from 0"""
    cases = []
    for _ in range(400 if T else 60):
        boxes = rng.randint(1, 4)
        particles = rng.randint(0, 5)
        k = rng.randint(0, boxes)
        modes = rng.sample(range(boxes), k)
        maxs = [rng.randint(0, 3) if rng.random() < 0.8 else rng.randint(4, 7) for _ in modes]
        cases.append({"boxes": boxes, "particles": particles, "modes": modes, "maxs": maxs, "klimit": rng.randint(0, 4)})
    return cases


def gen_passive(rng, T):
    cases = []
    # cutoffs from 1: every (d, cutoff) of the range at least once, then random programs
    grid = [(d, c) for d in (1, 2, 3, 4) for c in range(1, 7) if math.comb(d + c - 1, d) <= (90 if T else 36)]
    plan = list(grid) + [rng.choice(grid) for _ in range(260 if T else 12)]
    for idx, (d, c) in enumerate(plan):
        n = rng.randint(0, c - 1) if idx >= len(grid) else c - 1
        if idx < len(grid) and d == 4 and c >= 5:
            n = 2
        s = [0] * d
        for _ in range(n):
            s[rng.randrange(d)] += 1
        ng = rng.randint(1, 4)
        gates, mats = [], []
        for _ in range(ng):
            g, M = gen_gate(rng, d)
            gates.append(g)
            mats.append(M)
        cases.append({"d": d, "cutoff": c, "s": s, "gates": gates, "mats": mats})
    return cases


def gen_active(rng, T):
    """programs from the vacuum.  class 'single': at most one active gate, first in the
    program (its Fock column on the vacuum is exact at every cutoff) followed by passive
    gates -> every sector below the cutoff is exact, cutoffs from 1;
    class 'multi': several active gates with small parameters, cutoff far above the compared
    sectors (n <= 2)."""
    cases = []
    hbars = [0.5, 1.0, 2.0, 3.7]

    def active_gate(d, small):
        kind = rng.choice(["Squeezing", "Displacement", "QuadraticPhase", "Squeezing2", "GaussianTransform"] if d >= 2 else ["Squeezing", "Displacement", "QuadraticPhase", "GaussianTransform"])
        sc = 0.5 if small else 1.0
        if kind == "Squeezing":
            return {"g": kind, "modes": [rng.randrange(d)], "kw": {"r": sc * rng.choice([0.05, 0.1, 0.2, 0.3]), "phi": rng.choice([0.0, 0.7, 2.1, -1.3])}}
        if kind == "Displacement":
            return {"g": kind, "modes": [rng.randrange(d)], "kw": {"r": sc * rng.choice([0.1, 0.25, 0.4]), "phi": rng.choice([0.0, 0.9, -2.2])}}
        if kind == "QuadraticPhase":
            return {"g": kind, "modes": [rng.randrange(d)], "kw": {"s": sc * rng.choice([0.1, -0.2, 0.3])}}
        if kind == "Squeezing2":
            return {"g": kind, "modes": rng.sample(range(d), 2), "kw": {"r": sc * rng.choice([0.05, 0.15, 0.25]), "phi": rng.choice([0.0, 1.1, -0.6])}}
        r = sc * rng.choice([0.1, 0.2])
        a, b = rng.choice([0.3, -1.0, 2.0]), rng.choice([0.0, 0.8])
        pa = [[[math.cosh(r) * math.cos(a), math.cosh(r) * math.sin(a)]]]
        ac = [[[math.sinh(r) * math.cos(b), math.sinh(r) * math.sin(b)]]]
        return {"g": kind, "modes": [rng.randrange(d)], "kw": {"passive": {"matrix": pa}, "active": {"matrix": ac}}}

    def passive_gate(d):
        g, _ = gen_gate(rng, d, allow=("Beamsplitter", "Phaseshifter", "Fourier", "MachZehnder", "Interferometer"))
        return g

    # fixed case (kept from a past failing run): a gate after an Attenuator
    cases.append({"cls": "multi", "d": 1, "cutoff": 10, "hbar": 2.0, "nmax": 2, "sims": ["gaussian", "pure", "fock"],
                  "gates": [{"g": "Displacement", "modes": [0], "kw": {"r": 0.2, "phi": 0.0}},
                            {"g": "Attenuator", "modes": [0], "kw": {"theta": 0.7}},
                            {"g": "Fourier", "modes": [0], "kw": {}}]})
    n_single = 60 if T else 12
    n_multi = 60 if T else 8
    for i in range(n_single):
        d = rng.randint(1, 3)
        cutoff = (i % 6) + 1 if i < 12 else rng.randint(1, 6)
        gates = ([active_gate(d, False)] if rng.random() < 0.85 else []) + [passive_gate(d) for _ in range(rng.randint(0, 3))]
        cases.append({"cls": "single", "d": d, "cutoff": cutoff, "hbar": hbars[i % 4], "nmax": cutoff - 1,
                      "sims": ["gaussian", "pure", "fock"], "gates": gates})
    # class 'chain' (exact like 'single'): one active gate, a mixing gate that correlates the
    # squeezed/displaced mode with another one, a complex gate on a strict subset of the
    # correlated modes (this is where a missing conjugation or a wrong cross block shows),
    # and a second mixing gate
    for i in range(40 if T else 8):
        d = rng.randint(2, 3)
        cutoff = rng.randint(3, 5) if d == 2 else rng.randint(3, 4)
        a, b = rng.sample(range(d), 2)
        first = active_gate(d, False)
        first["modes"] = [a] if len(first["modes"]) == 1 else [a, b]
        (c_, s_), theta = unit(rng, 0.0)
        _, phi = unit(rng, 0.0)
        mix1 = {"g": "Beamsplitter", "modes": [a, b] if rng.random() < 0.5 else [b, a], "kw": {"theta": theta, "phi": phi}}
        _, phi2 = unit(rng, 0.0)
        sub = {"g": "Phaseshifter", "modes": [rng.choice([a, b])], "kw": {"phi": phi2}}
        others = [m for m in range(d) if m not in (a, b)]
        tgt = [rng.choice([a, b]), others[0]] if others and rng.random() < 0.6 else ([a, b] if rng.random() < 0.5 else [b, a])
        _, theta3 = unit(rng, 0.0)
        _, phi3 = unit(rng, 0.0)
        mix2 = {"g": "Beamsplitter", "modes": tgt, "kw": {"theta": theta3, "phi": phi3}}
        cases.append({"cls": "single", "d": d, "cutoff": cutoff, "hbar": hbars[i % 4], "nmax": cutoff - 1,
                      "sims": ["gaussian", "pure", "fock"], "gates": [first, mix1, sub, mix2]})
    for i in range(n_multi):
        d = rng.randint(1, 3)
        cutoff = {1: 14, 2: 10, 3: 7}[d]
        gates = []
        sims = ["gaussian", "pure", "fock"]
        for _ in range(rng.randint(2, 4)):
            x = rng.random()
            if x < 0.5:
                gates.append(active_gate(d, True))
            elif x < 0.8:
                gates.append(passive_gate(d))
            elif x < 0.9:
                gates.append({"g": "Attenuator", "modes": [rng.randrange(d)], "kw": {"theta": rng.choice([0.2, 0.7, 1.1])}})
            else:
                sims = ["pure", "fock"]
                if d >= 2 and rng.random() < 0.4:
                    gates.append({"g": "CrossKerr", "modes": rng.sample(range(d), 2), "kw": {"xi": rng.choice([0.3, -0.8])}})
                else:
                    gates.append({"g": "Kerr", "modes": [rng.randrange(d)], "kw": {"xi": rng.choice([0.3, -0.8])}})
        cases.append({"cls": "multi", "d": d, "cutoff": cutoff, "hbar": hbars[i % 4], "nmax": 2 if d <= 2 else 1,
                      "sims": sims, "gates": gates})
    return cases


MIXERS = ("Beamsplitter", "MachZehnder", "Interferometer", "Squeezing2", "GaussianTransform")
ACTIVE_KINDS = ("Squeezing", "QuadraticPhase", "Squeezing2", "GaussianTransform")


def _generic_phase(rng):
    """a phase that is not near any multiple of pi/2"""
    return rng.choice([-1, 1]) * (rng.uniform(0.25, 1.3) + rng.choice([0.0, math.pi / 2]))


def _bs_matrix(theta, phi):
    t, r = math.cos(theta), complex(math.cos(phi), math.sin(phi)) * math.sin(theta)
    return [[complex(t), -r.conjugate()], [r, complex(t)]]


def _mk_active(rng, kind, modes, r):
    """an active gate of the shared instruction set with generic complex parameters"""
    if kind == "Squeezing":
        return {"g": kind, "modes": modes[:1], "kw": {"r": r, "phi": _generic_phase(rng)}}
    if kind == "QuadraticPhase":
        return {"g": kind, "modes": modes[:1], "kw": {"s": rng.choice([-1, 1]) * 2 * r}}
    if kind == "Squeezing2":
        return {"g": kind, "modes": modes[:2], "kw": {"r": r, "phi": _generic_phase(rng)}}
    if kind == "Displacement":
        return {"g": kind, "modes": modes[:1], "kw": {"r": 1.5 * r, "phi": _generic_phase(rng)}}
    a, b = _generic_phase(rng), _generic_phase(rng)
    if len(modes) == 1:  # one-mode Gaussian transform: P = cosh r e^{ia}, A = sinh r e^{ib}
        pa = [[[math.cosh(r) * math.cos(a), math.cosh(r) * math.sin(a)]]]
        ac = [[[math.sinh(r) * math.cos(b), math.sinh(r) * math.sin(b)]]]
    else:  # two-mode: P = cosh r W, A = e^{ib} sinh r W X  (W a complex beamsplitter, X the swap)
        W = _bs_matrix(rng.uniform(0.3, 1.2), a)
        ph = complex(math.cos(b), math.sin(b))
        P = [[math.cosh(r) * W[i][j] for j in range(2)] for i in range(2)]
        A = [[ph * math.sinh(r) * W[i][1 - j] for j in range(2)] for i in range(2)]
        pa = [[[z.real, z.imag] for z in row] for row in P]
        ac = [[[z.real, z.imag] for z in row] for row in A]
    return {"g": "GaussianTransform", "modes": modes[:len(pa)], "kw": {"passive": {"matrix": pa}, "active": {"matrix": ac}}}


def _mk_mixer(rng, modes):
    x = rng.random()
    if x < 0.6:
        return {"g": "Beamsplitter", "modes": modes, "kw": {"theta": rng.uniform(0.35, 1.2), "phi": _generic_phase(rng)}}
    if x < 0.8:
        return {"g": "MachZehnder", "modes": modes, "kw": {"int_": rng.uniform(0.6, 2.4), "ext": _generic_phase(rng)}}
    W = _bs_matrix(rng.uniform(0.35, 1.2), _generic_phase(rng))
    return {"g": "Interferometer", "modes": modes, "kw": {"matrix": {"matrix": [[[z.real, z.imag] for z in row] for row in W]}}}


def gen_entangle(rng, T):
    """Grammar  SQUEEZE(a) ; MIX(a,b) ; ACTIVE_complex(strict subset containing a or b) ;
    MIX(addressed mode, other) ; [PASSIVE]  -- 'entangle, active gate with complex parameters
    on a strict subset, mix, measure statistics'.  Every active gate kind of the shared
    instruction set is cycled through both active positions, every ordered mode pair is used.
    Not exact under truncation (two active gates): Gaussian (exact) and pure Fock at a high
    cutoff are compared to 1e-6 on sectors <= 2; the mixed Fock simulator joins a quarter of
    the programs at a lower cutoff with smaller squeezing and tolerance 1e-4."""
    cases = []
    hbars = [0.5, 1.0, 2.0, 3.7]
    n = 100 if T else 20
    second_kinds = ["Squeezing", "QuadraticPhase", "GaussianTransform", "Squeezing2", "GaussianTransform2"]
    first_kinds = ["Squeezing", "Squeezing2", "GaussianTransform", "QuadraticPhase"]
    pairs2 = list(itertools.permutations(range(2), 2))
    pairs3 = list(itertools.permutations(range(3), 2))
    for i in range(n):
        k2 = second_kinds[i % len(second_kinds)]
        k1 = first_kinds[(i // len(second_kinds)) % len(first_kinds)]
        d = 3 if k2 in ("Squeezing2", "GaussianTransform2") or i % 2 else 2
        a, b = (pairs3 if d == 3 else pairs2)[(i * 7 + i // 3) % (6 if d == 3 else 2)]
        others = [m for m in range(d) if m not in (a, b)]
        with_fock = (i % 4 == 3)
        # the mixed Fock simulator joins at a low cutoff: smaller squeezing, no displacement
        r1 = rng.uniform(0.1, 0.15) if with_fock else rng.uniform(0.14, 0.2)
        r2 = rng.uniform(0.08, 0.12) if with_fock else rng.uniform(0.1, 0.16)
        gates = [_mk_active(rng, k1, [a, b], r1)]
        if rng.random() < 0.25 and not with_fock:
            gates.append(_mk_active(rng, "Displacement", [rng.choice([a, b])], 0.12))
        gates.append(_mk_mixer(rng, [a, b] if rng.random() < 0.5 else [b, a]))
        # active gate with a complex active block on a strict subset of the modes, one of whose
        # modes is now squeezed and correlated with a spectator
        tgt = rng.choice([a, b])
        spect = b if tgt == a else a
        if k2 in ("Squeezing2", "GaussianTransform2"):
            m2 = [tgt, others[0]] if rng.random() < 0.5 else [others[0], tgt]
            act = _mk_active(rng, "Squeezing2" if k2 == "Squeezing2" else "GaussianTransform", m2, r2)
        else:
            act = _mk_active(rng, k2, [tgt], r2)
        gates.append(act)
        partner = rng.choice([spect] + others)
        gates.append(_mk_mixer(rng, [tgt, partner] if rng.random() < 0.5 else [partner, tgt]))
        if rng.random() < 0.3:
            gates.append({"g": "Phaseshifter", "modes": [rng.randrange(d)], "kw": {"phi": _generic_phase(rng)}})
        cases.append({"cls": "entangle", "d": d, "cutoff": 12 if d == 2 else 10, "hbar": hbars[(i + i // 4) % 4], "nmax": 2,
                      "sims": ["gaussian", "pure"] + (["fock"] if with_fock else []),
                      "cutoffs": {"fock": 8 if d == 2 else 6}, "gates": gates})
    return cases


def _complex_active(g):
    if g["g"] in ("Squeezing", "Squeezing2"):
        return abs(math.sin(g["kw"]["phi"])) > 1e-3 and g["kw"]["r"] != 0
    if g["g"] == "QuadraticPhase":
        return g["kw"]["s"] != 0
    if g["g"] == "GaussianTransform":
        return any(abs(z[1]) > 1e-6 for row in g["kw"]["active"]["matrix"] for z in row)
    return False


def _mixes(g):
    if len(g["modes"]) < 2:
        return False
    if g["g"] == "Beamsplitter":
        return abs(math.sin(2 * g["kw"]["theta"])) > 1e-3
    return g["g"] in MIXERS


def program_features(c):
    """Syntactic structure of one program (independent of how it was generated).
    'squeezed' modes carry a non-zero anomalous moment; a mixing gate that touches a squeezed
    mode spreads squeezing and correlation over all of its modes (connected components)."""
    d, gates = c["d"], c["gates"]
    comp = list(range(d))
    squeezed = set()
    f = {"strict_subset_active": False, "entangled_spectator": False, "complex_active": False,
         "conjunction": False, "conjunction_then_mix": False, "kinds": set()}
    for k, g in enumerate(gates):
        modes = g["modes"]
        is_act = g["g"] in ACTIVE_KINDS
        if is_act:
            strict = len(modes) < d
            cplx = _complex_active(g)
            ent = any(m in squeezed and any(comp[x] == comp[m] for x in range(d) if x not in modes) for m in modes)
            f["strict_subset_active"] |= strict
            f["complex_active"] |= cplx
            f["entangled_spectator"] |= (strict and ent)
            if strict and cplx and ent:
                f["conjunction"] = True
                f["kinds"].add(g["g"] + ("/%d" % len(modes)))
                if any(_mixes(h) and set(h["modes"]) & set(modes) for h in gates[k + 1:]):
                    f["conjunction_then_mix"] = True
            squeezed |= set(modes)
        if (is_act and len(modes) >= 2) or _mixes(g):
            if any(m in squeezed for m in modes):
                squeezed |= set(modes)
                root = comp[modes[0]]
                olds = {comp[m] for m in modes}
                comp = [root if x in olds else x for x in comp]
    return f


def feature_counts(cases):
    out = {"programs": len(cases), "strict_subset_active": 0, "entangled_spectator": 0, "complex_active": 0,
           "conjunction": 0, "conjunction_then_mix": 0, "conjunction_by_gate": {}, "conjunction_ordered_mode_tuples": set(),
           "conjunction_by_hbar": {}, "conjunction_with_mixed_fock": 0}
    for c in cases:
        f = program_features(c)
        for k in ("strict_subset_active", "entangled_spectator", "complex_active", "conjunction", "conjunction_then_mix"):
            out[k] += int(f[k])
        if f["conjunction_then_mix"]:
            for kind in f["kinds"]:
                out["conjunction_by_gate"][kind] = out["conjunction_by_gate"].get(kind, 0) + 1
            out["conjunction_by_hbar"][str(c["hbar"])] = out["conjunction_by_hbar"].get(str(c["hbar"]), 0) + 1
            out["conjunction_with_mixed_fock"] += int("fock" in c["sims"])
            for g in c["gates"]:
                if g["g"] in ACTIVE_KINDS:
                    out["conjunction_ordered_mode_tuples"].add((c["d"],) + tuple(g["modes"]))
    out["conjunction_ordered_mode_tuples"] = len(out["conjunction_ordered_mode_tuples"])
    return out


# --------------------------------------------------------------------------- the check
def load_corpus():
    path = os.path.join(VERIF, "harness", "corpus", "c01.jsonl")
    out = []
    if os.path.exists(path):
        for line in open(path):
            line = line.strip()
            if line and not line.startswith("#"):
                out.append(json.loads(line))
    return out


def run(chk: Check):
    chk.proofs()
    T = chk.thorough
    rng = chk.rng
    corr_broken = []

    tables = gen_tables(rng, T)
    slos = gen_slos(rng, T)
    pbk = gen_pbk(rng, T)
    passive = []
    # corpus first: past failing inputs (gates given with exact blocks)
    for c in load_corpus():
        if c.get("stream") == "passive":
            mats = [[[(F(z[0]), F(z[1])) for z in row] for row in M] for M in c["mats"]]
            passive.append({"d": c["d"], "cutoff": c["cutoff"], "s": c["s"], "gates": c["gates"], "mats": mats, "corpus": True})
    passive += gen_passive(rng, T)
    active = gen_active(rng, T) + gen_entangle(rng, T)

    only = os.environ.get("C01_STREAMS")
    if only:  # development knob (mutation experiments); recorded in the evidence
        keep = set(only.split(","))
        tables, slos, passive, active = (x if k in keep else [] for x, k in ((tables, "tables"), (slos, "slos"), (passive, "passive"), (active, "active")))
        pbk = pbk if "slos" in keep else []
        chk.notes.append("RESTRICTED RUN: only streams %s" % sorted(keep))
    req = {
        "tables": [{"d": c["d"], "cutoff": c["cutoff"], "U": c["U"]} for c in tables],
        "slos": [{k: c[k] for k in ("U", "s", "post") if k in c} for c in slos],
        "pbk": pbk,
        "passive": [{"d": c["d"], "cutoff": c["cutoff"], "s": c["s"], "gates": c["gates"]} for c in passive],
        "active": [{k: c[k] for k in ("d", "cutoff", "hbar", "nmax", "sims", "gates", "cutoffs") if k in c} for c in active],
    }
    import time
    t_ = time.time()
    try:
        impl = run_impl("c01_impl.py", req, timeout=3000, extra_env=ENV1)
    except Exception as e_all:  # noqa: BLE001 - the interpreter died (e.g. segfault in a kernel): localise
        impl = {"timing": "per-stream after a crash"}
        for key in ("tables", "slos", "pbk", "passive", "active"):
            try:
                impl[key] = run_impl("c01_impl.py", {key: req[key]}, timeout=3000, extra_env=ENV1)[key]
            except Exception as e:  # noqa: BLE001
                impl[key] = []
                chk.violation("C01:implementation-crash:%s" % key,
                              "the interpreter running the %s stream died or the runner failed: %s" % (key, str(e)[-600:]),
                              {"stream": key, "first_case": req[key][0] if req[key] else None})
                corr_broken.append("%s: implementation runner crashed" % key)
        if not corr_broken:
            raise e_all
        tables, slos, passive, active = (x if impl[k] else [] for x, k in ((tables, "tables"), (slos, "slos"), (passive, "passive"), (active, "active")))
    chk.notes.append("implementation run: %.1fs (timing: %s)" % (time.time() - t_, impl.get("timing")))

    # ------------------------------------------------------------ stream 1: tables
    exprs = []
    for c in tables:
        c["Ui"], c["D"] = to_int(c["Uex"])
        exprs.append("tables_flat %s %d%%nat %d%%nat ++ helpers_flat %d%%nat %d%%nat" % (cmat(c["Ui"]), c["d"], c["cutoff"], c["d"], c["cutoff"]))
    model = eval_cases("c01_tables", exprs, (len(exprs) + 1) // 2 if T else len(exprs))
    nontriv = 0
    nent = 0
    low_cutoff_errors = []
    for c, r, flat in zip(tables, impl["tables"], model):
        d, cutoff = c["d"], c["cutoff"]
        label = "d=%d cutoff=%d (%s U)" % (d, cutoff, c["kind"])
        if is_err(r):
            if cutoff <= 2:
                low_cutoff_errors.append((c, r))
            else:
                corr_broken.append("tables: implementation raised %s at %s" % (r["error"], label))
            continue
        nsec = max(cutoff, 2)
        if len(r["reps"]) != nsec:
            corr_broken.append("tables: %d sector matrices, model has %d at %s" % (len(r["reps"]), nsec, label))
            continue
        pos = 0
        bad = None
        for n in range(nsec):
            sec = sector(d, n)
            vals, pos = take_zi(flat, len(sec) * len(sec), pos, c["D"] ** n)
            rep = r["reps"][n]
            if len(rep) != len(sec) or any(len(row) != len(sec) for row in rep):
                bad = "sector %d has shape %dx%d, expected %d" % (n, len(rep), len(rep[0]) if rep else 0, len(sec))
                break
            for k, t in enumerate(sec):
                for i, s in enumerate(sec):
                    B = vals[k * len(sec) + i]
                    m = complex(B[0], B[1]) / math.sqrt(fact(t) * fact(s))
                    nent += 1
                    if not cclose(rep[k][i], m):
                        bad = "sector %d entry <%s|U|%s>: impl %s, model %s" % (n, t, s, rep[k][i], m)
                        break
                if bad:
                    break
            if bad:
                break
        if not bad:
            # helper indices: exact
            for n in range(2, cutoff):
                sec = sector(d, n)
                first = flat[pos:pos + 3 * len(sec)]
                pos += 3 * len(sec)
                sub = flat[pos:pos + 2 * d * len(sec)]
                pos += 2 * d * len(sec)
                for k in range(len(sec)):
                    f, tf, mult = first[3 * k:3 * k + 3]
                    if (r["first_nz"][n - 2][k], r["first_sub"][n - 2][k], r["first_occ"][n - 2][k]) != (f, tf, mult):
                        bad = "helper indices of row %s in sector %d: impl %s model %s" % (sec[k], n, (r["first_nz"][n - 2][k], r["first_sub"][n - 2][k], r["first_occ"][n - 2][k]), (f, tf, mult))
                    for j in range(d):
                        sj, m_ = sub[2 * (k * d + j):2 * (k * d + j) + 2]
                        if r["occ"][n - 2][k][j] != m_ or (m_ > 0 and r["sub"][n - 2][k][j] != sj):
                            bad = "helper sub-index of %s - e_%d in sector %d: impl (%s,%s) model (%s,%s)" % (sec[k], j, n, r["sub"][n - 2][k][j], r["occ"][n - 2][k][j], sj, m_)
            if r["occ_err"] > 1e-9:
                bad = "sqrt tables are not square roots of integers"
            if pos != len(flat):
                bad = "model output length %d, consumed %d" % (len(flat), pos)
        if bad:
            corr_broken.append("tables: %s at %s" % (bad, label))
        if cutoff >= 3 and d >= 2:
            nontriv += 1
    for c, r in low_cutoff_errors[:1]:
        chk.violation("C01:calculate_interferometer_on_fock_space:cutoff<=2",
                      "calculate_interferometer_on_fock_space(U, calculate_interferometer_helper_indices(d, cutoff)) raises %s (%s) for cutoff <= 2 (%d of the grid's cases)" % (r["error"], r["msg"], len(low_cutoff_errors)),
                      {"d": c["d"], "cutoff": c["cutoff"], "U": c["U"], "error": r})
    chk.stream("Fock representation tables + helper indices vs model (every (d,cutoff) of the grid, unitary and non-unitary U)",
               nent, nontriv, samples=[{"d": c_["d"], "cutoff": c_["cutoff"], "U": c_["U"]} for c_ in tables[5:6]])

    # ------------------------------------------------------------ stream 2: SLOS (with and without pruning)
    def ccons(post):
        return "[" + "; ".join("(%d%%nat,%d%%nat)" % (m, p_) for m, p_ in zip(post[0], post[1])) + "]"

    exprs = []
    for c in slos:
        c["Ui"], c["D"] = to_int(c["Uex"])
        if "post" in c:
            exprs.append("pruned_flat %s %d%%nat %s %s" % (cmat(c["Ui"]), len(c["s"]), ccons(c["post"]), cnats(c["s"])))
        else:
            exprs.append("zil_flat (z_slos_vector %s %d%%nat %s)" % (cmat(c["Ui"]), len(c["s"]), cnats(c["s"])))
    model = eval_cases("c01_slos", exprs, (len(exprs) + 1) // 2 if T else len(exprs))
    nent = 0
    npruned = 0
    for c, r, flat in zip(slos, impl["slos"], model):
        label = "s=%s post=%s" % (c["s"], c.get("post"))
        if is_err(r):
            corr_broken.append("slos: implementation raised %s (%s) at %s" % (r["error"], r["msg"], label))
            continue
        d_ = len(c["s"])
        if "post" in c:
            if flat[0] != 1:
                corr_broken.append("model: partitions_bounded_k transcription differs from the filtered sector at %s" % label)
            m_ = (len(flat) - 1) // (2 + d_)
            vals, pos = take_zi(flat, m_, 1, c["D"] ** sum(c["s"]))
            sec = [flat[pos + i * d_:pos + (i + 1) * d_] for i in range(m_)]
            if r.get("basis") != sec:
                corr_broken.append("slos: pruned basis %s, model %s at %s" % (r.get("basis"), sec, label))
                continue
            npruned += int(m_ < len(sector(d_, sum(c["s"]))))
        else:
            sec = sector(d_, sum(c["s"]))
            vals, _ = take_zi(flat, len(sec), 0, c["D"] ** sum(c["s"]))
        if len(r["v"]) != len(sec):
            corr_broken.append("slos: vector length %d != %d at %s" % (len(r["v"]), len(sec), label))
            continue
        for t, B, got in zip(sec, vals, r["v"]):
            m = complex(B[0], B[1]) / math.sqrt(fact(t) * fact(c["s"]))
            nent += 1
            if not cclose(got, m):
                corr_broken.append("slos: amplitude of %s from %s: impl %s model %s at %s" % (t, c["s"], got, m, label))
                break
    chk.stream("SLOS calculate_state_vector vs model (with and without post-selection pruning)", nent,
               sum(1 for c in slos if sum(c["s"]) >= 2 and len(c["s"]) >= 2),
               samples=[{"s": c_["s"], "U": c_["U"], "post": c_.get("post")} for c_ in slos[:1]],
               note="%d of %d cases post-selected, %d of them with a basis strictly smaller than the sector" % (sum(1 for c in slos if "post" in c), len(slos), npruned))

    exprs = ["pbk_flat %d%%nat %d%%nat %s %d%%nat" % (c["boxes"], c["particles"], ccons([c["modes"], c["maxs"]]), c["klimit"]) for c in pbk]
    model = eval_cases("c01_pbk", exprs, len(exprs))
    nrows = 0
    for c, r, flat in zip(pbk, impl.get("pbk", []), model):
        if is_err(r):
            corr_broken.append("partitions_bounded_k raised %s (%s) at %s" % (r["error"], r["msg"], c))
            continue
        rows = [x for row in r["rows"] for x in row]
        nrows += len(r["rows"])
        if rows != flat:
            corr_broken.append("partitions_bounded_k: impl %s, model %s at %s" % (r["rows"], flat, c))
    chk.stream("partitions_bounded_k vs model (rows and order, exact)", nrows, sum(1 for c in pbk if c["modes"] and c["particles"] >= 2 and c["boxes"] >= 2))

    # ------------------------------------------------------------ stream 3: passive programs, exact reference
    exprs = []
    for c in passive:
        ints = [to_int(M) for M in c["mats"]]
        c["D"] = math.prod(D for _, D in ints)
        gl = "[" + "; ".join("(%s, %s, (%d,0))" % (cnats(g["modes"]), cmat(Mi), D) for g, (Mi, D) in zip(c["gates"], ints)) + "]"
        exprs.append("passive_flat %d%%nat %s %s" % (c["d"], cnats(c["s"]), gl))
    model = eval_cases("c01_passive", exprs, (len(exprs) + 3) // 4 if T else len(exprs))
    neval = 0
    nontriv = set()
    search_eval = 0
    for c, r, flat in zip(passive, impl["passive"], model):
        d, cutoff, s = c["d"], c["cutoff"], c["s"]
        n = sum(s)
        label = "d=%d cutoff=%d input=%s gates=%s" % (d, cutoff, s, [(g["g"], g["modes"]) for g in c["gates"]])
        witness = {"d": d, "cutoff": cutoff, "input": s, "gates": c["gates"]}
        if flat[0] != 1:
            corr_broken.append("model: representation / SLOS / permanent disagree inside the model at %s" % label)
        U, pos = take_zi(flat, d * d, 1, c["D"])
        sec = sector(d, n)
        B, pos = take_zi(flat, len(sec), pos, c["D"] ** n)
        amp = [complex(b[0], b[1]) / math.sqrt(fact(t) * fact(s)) for b, t in zip(B, sec)]
        prob = [(b[0] * b[0] + b[1] * b[1]) / (fact(t) * fact(s)) for b, t in zip(B, sec)]
        if sum(prob) != 1:
            corr_broken.append("model: probabilities of a unitary program sum to %s at %s" % (sum(prob), label))
        lo, hi = r["lo"], r["hi"]
        results = {}
        for sim in ("pure", "fock", "passive"):
            o = r[sim]
            if is_err(o):
                if cutoff <= 2 and sim in ("pure", "fock") and o["error"] == "ValueError":
                    chk.violation("C01:passive-gate:%s:cutoff<=2" % sim,
                                  "a passive gate on the %s Fock simulator raises %s (%s) at cutoff %d, which the passive simulator and the exact reference handle" % (
                                      "pure" if sim == "pure" else "mixed", o["error"], o["msg"], cutoff),
                                  dict(witness, simulator=sim, error=o))
                else:
                    chk.violation("C01:%s:raises:%s" % (sim, o["error"]),
                                  "%s simulator raises %s on a valid passive program (%s)" % (sim, o["error"], o["msg"]),
                                  dict(witness, simulator=sim, error=o))
                continue
            results[sim] = o
            problems = []
            if sim == "passive":
                for i in range(d):
                    for j in range(d):
                        if not cclose(o["interferometer"][i][j], complex(U[i * d + j][0], U[i * d + j][1])):
                            problems.append("interferometer[%d][%d] = %s, model %s" % (i, j, o["interferometer"][i][j], U[i * d + j]))
            for key in ("probs", "sv", "dm_block", "pdp"):
                if key in o and is_err(o[key]):
                    problems.append("%s raises %s: %s" % (key, o[key]["error"], o[key]["msg"]))
            if not problems:
                pr = o["probs"]
                for k in range(len(pr)):
                    m = float(prob[k - lo]) if lo <= k < hi else 0.0
                    neval += 1
                    if not close(pr[k], m):
                        problems.append("fock_probabilities[%d] = %r, exact %s" % (k, pr[k], prob[k - lo] if lo <= k < hi else 0))
                        break
                if "sv" in o:
                    for k in range(len(o["sv"])):
                        m = amp[k - lo] if lo <= k < hi else 0j
                        neval += 1
                        if not cclose(o["sv"][k], m):
                            problems.append("state_vector[%d] = %s, exact %s" % (k, o["sv"][k], m))
                            break
                blk = o["dm_block"]
                for a in range(len(sec)):
                    for b in range(len(sec)):
                        neval += 1
                        if not cclose(blk[a][b], amp[a] * amp[b].conjugate()):
                            problems.append("density_matrix[%s,%s] = %s, exact %s" % (sec[a], sec[b], blk[a][b], amp[a] * amp[b].conjugate()))
                            break
                    else:
                        continue
                    break
                if o["dm_rest"] > 1e-9:
                    problems.append("density matrix has weight %g outside the %d-particle block" % (o["dm_rest"], n))
                for k, v in enumerate(o["pdp"]):
                    neval += 1
                    if not close(v, float(prob[k])):
                        problems.append("get_particle_detection_probability(%s) = %r, exact %s" % (sec[k], v, prob[k]))
                        break
            for p in problems[:2]:
                corr_broken.append("passive/%s: %s at %s" % (sim, p, label))
                chk.violation("C01:%s:passive-program:%s" % (sim, p.split(" ")[0].split("[")[0].split("(")[0]),
                              "%s simulator disagrees with the exact permanent reference: %s" % (sim, p), dict(witness, simulator=sim))
        # search: the simulators against each other (no model)
        names = sorted(results)
        for a, b in itertools.combinations(names, 2):
            A_, B_ = results[a], results[b]
            for key in ("probs", "pdp"):
                if is_err(A_.get(key)) or is_err(B_.get(key)):
                    continue
                search_eval += len(A_[key])
                if len(A_[key]) != len(B_[key]) or any(abs(x - y) > 1e-9 for x, y in zip(A_[key], B_[key])):
                    chk.violation("C01:differential:%s-vs-%s:%s" % (a, b, key), "%s differs between the %s and %s simulators on a passive program" % (key, a, b), witness)
            if not is_err(A_.get("dm_block")) and not is_err(B_.get("dm_block")):
                fa = [complex(*z) for row in A_["dm_block"] for z in row]
                fb = [complex(*z) for row in B_["dm_block"] for z in row]
                search_eval += len(fa)
                if len(fa) != len(fb) or any(abs(x - y) > 1e-9 for x, y in zip(fa, fb)):
                    chk.violation("C01:differential:%s-vs-%s:density_matrix" % (a, b), "density matrix differs between the %s and %s simulators on a passive program" % (a, b), witness)
            if "sv" in A_ and "sv" in B_ and not is_err(A_["sv"]) and not is_err(B_["sv"]):
                fa = [complex(*z) for z in A_["sv"]]
                fb = [complex(*z) for z in B_["sv"]]
                search_eval += len(fa)
                if len(fa) != len(fb) or any(abs(x - y) > 1e-9 for x, y in zip(fa, fb)):
                    chk.violation("C01:differential:%s-vs-%s:state_vector" % (a, b), "state vector differs between the %s and %s simulators on a passive program" % (a, b), witness)
        if n >= 2 and d >= 2 and any(len(g["modes"]) >= 2 for g in c["gates"]):
            nontriv.add(json.dumps([d, cutoff, s, [(g["g"], g["modes"]) for g in c["gates"]]]))
    chk.stream("passive programs on number states: PureFock/Fock/Passive simulators vs exact |perm|^2/(s!t!) reference",
               neval, len(nontriv), samples=[{"d": ex["d"], "cutoff": ex["cutoff"], "input": ex["s"], "gates": [(g["g"], g["modes"]) for g in ex["gates"]]} for ex in passive[len(passive) // 2:len(passive) // 2 + 1]],
               note="cutoff 1..6, d 1..4, random ordered mode subsets; non-trivial = >=2 photons, >=2 modes, a multi-mode gate")
    chk.stream("passive programs: simulators against each other (search, no model)", search_eval, len(nontriv), kind="search")

    # ------------------------------------------------------------ stream 4: active gates, differential
    neval = 0
    ndist = 0
    for c, r in zip(active, impl["active"]):
        tol0 = 1e-9 if c["cls"] == "single" else 1e-6
        label = "d=%d cutoff=%d hbar=%s gates=%s" % (c["d"], c["cutoff"], c["hbar"], [(g["g"], g["modes"]) for g in c["gates"]])
        witness = {k: c[k] for k in ("d", "cutoff", "hbar", "gates", "cls")}
        ok = {}
        for sim in c["sims"]:
            o = r[sim]
            if is_err(o):
                has_passive = any(g["g"] in ("Beamsplitter", "Phaseshifter", "Fourier", "MachZehnder", "Interferometer", "Squeezing2", "QuadraticPhase", "GaussianTransform") for g in c["gates"])
                if c["cutoff"] <= 2 and sim in ("pure", "fock") and o["error"] == "ValueError" and has_passive:
                    chk.violation("C01:passive-gate:%s:cutoff<=2" % sim,
                                  "a gate that uses the interferometer representation raises %s (%s) on the %s simulator at cutoff %d" % (o["error"], o["msg"], sim, c["cutoff"]),
                                  dict(witness, simulator=sim, error=o))
                elif (sim == "pure" and o["error"] == "AttributeError" and
                      any(g["g"] == "Attenuator" for g in c["gates"][:-1])):
                    chk.violation("C01:pure:gate-after-attenuator",
                                  "PureFockSimulator raises AttributeError (%s) when any gate follows an Attenuator (the state has become a mixed FockState but the pure simulation steps are still applied); FockSimulator and GaussianSimulator run the program and agree" % o["msg"],
                                  dict(witness, simulator=sim, error=o))
                else:
                    chk.violation("C01:active:%s:raises:%s" % (sim, o["error"]), "%s simulator raises %s (%s) on a program the others run" % (sim, o["error"], o["msg"]), dict(witness, simulator=sim))
                continue
            ok[sim] = o
        for a, b in itertools.combinations(sorted(ok), 2):
            A_, B_ = ok[a], ok[b]
            # the mixed Fock simulator runs at a lower cutoff in the 'entangle' class
            tol = 1e-4 if (c["cls"] == "entangle" and "fock" in (a, b)) else tol0
            for key in ("probs", "pdp"):
                neval += len(A_[key])
                diffs = [abs(x - y) for x, y in zip(A_[key], B_[key])]
                if len(A_[key]) != len(B_[key]) or (diffs and max(diffs) > tol):
                    chk.violation("C01:active-differential:%s-vs-%s:%s" % (a, b, key),
                                  "%s differs by %.3g between the %s and %s simulators (%s class, sectors <= %d, cutoff %d)" % (key, max(diffs) if diffs else -1, a, b, c["cls"], c["nmax"], c["cutoff"]),
                                  witness)
            fa = [complex(*z) for row in A_["dm"] for z in row]
            fb = [complex(*z) for row in B_["dm"] for z in row]
            neval += len(fa)
            diffs = [abs(x - y) for x, y in zip(fa, fb)]
            if len(fa) != len(fb) or (diffs and max(diffs) > tol):
                chk.violation("C01:active-differential:%s-vs-%s:density_matrix" % (a, b),
                              "density matrix differs by %.3g between the %s and %s simulators (%s class, sectors <= %d, cutoff %d)" % (max(diffs) if diffs else -1, a, b, c["cls"], c["nmax"], c["cutoff"]),
                              witness)
        if len(ok) >= 2 and any(g["g"] not in ("Phaseshifter", "Fourier") for g in c["gates"]):
            ndist += 1
    feats = feature_counts(active)
    chk.coverage["active_program_features"] = feats
    chk.notes.append("structural features of the differential programs: %s" % json.dumps(feats, sort_keys=True))
    need = 60 if T else 12
    if active and feats["conjunction_then_mix"] < need:
        corr_broken.append("generator: only %d programs have 'entangle -> complex active gate on a strict subset -> mix' (need >= %d)" % (feats["conjunction_then_mix"], need))
    if active and len(feats["conjunction_by_gate"]) < 5:
        corr_broken.append("generator: the conjunction is covered for %s only, expected Squeezing, QuadraticPhase, GaussianTransform/1, Squeezing2, GaussianTransform/2" % sorted(feats["conjunction_by_gate"]))
    chk.stream("differential test (no theorem): Gaussian vs pure Fock vs mixed Fock on programs with active gates",
               neval, ndist, kind="differential", samples=[{k: exa[k] for k in ("d", "cutoff", "hbar", "gates")} for exa in active[:1]],
               note="class single: one active gate on the vacuum then passive gates, every sector below the cutoff, cutoff 1..6, tolerance 1e-9; class multi: 2-4 gates incl. squeezing/displacement/quadratic phase/two-mode squeezing/Gaussian transform/Kerr/cross-Kerr/attenuation, sectors <= 2 at cutoff 7..14, tolerance 1e-6 (truncation); class entangle (grammar: squeeze a; mix (a,b); active gate with generic complex parameters on a strict subset containing a or b; mix; [phase]): every active kind (Squeezing, QuadraticPhase, Squeezing2, one- and two-mode GaussianTransform) in both positions, all ordered mode pairs, Gaussian vs pure Fock at cutoff 10..12 to 1e-6 on sectors <= 2, mixed Fock on a quarter at cutoff 6..8 (smaller squeezing) to 1e-4; feature counts in coverage.active_program_features; hbar in {0.5,1,2,3.7}")

    chk.notes.append("coq evaluation times (s): %s" % TIMES)
    chk.assumptions += [
        "the model keeps amplitudes as B = sqrt(t! s!)<t|U|s>; the division by sqrt(t! s!) and the float comparison (1e-9 relative) happen in the harness",
        "gate blocks (Beamsplitter, Phaseshifter, Fourier, MachZehnder) are written in exact arithmetic in the harness from the documented formulas; the model receives (modes, block) pairs",
        "composition of gates is modelled as the product of embedded d x d unitaries (passive simulator's _apply_matrix_on_modes); that the Fock simulators' gate-by-gate application through index lists equals it is tied (exact reference), not proved",
        "numba/NumPy execute the Python source they are given; runs are single-threaded (NUMBA_NUM_THREADS=1)",
    ]
    chk.finish(
        rule="tables: (d>=2, cutoff>=3) cases; SLOS: >=2 photons on >=2 modes; passive: distinct programs with >=2 photons, >=2 modes and a multi-mode gate; active: programs with a non-diagonal or active gate that at least two simulators ran",
        explanation="Theorems of Props/C01.v (all d, n, U over any commutative ring): the Laplace recurrences of the Fock representation (also at the level of the index tables) and of SLOS compute the same permanent with multiplicities; the table-level model is tied exactly (Q[i] vs float64, 1e-9) to calculate_interferometer_on_fock_space / calculate_state_vector and the three passive-capable simulators are compared with the exact |perm|^2/(s!t!) reference; programs with active gates are covered only by the cross-simulator differential test (no theorem).",
        correspondence_broken=corr_broken,
    )
