(* C07 — Built-in linear gates are physical and act as documented.
   Only statements closed by [exact]; proofs live in C07/. *)
From Coq Require Import List QArith Reals Ring.
From PV Require Import C07.CxBase C07.GatesGen C07.MomentsModel C07.GatesModel C07.SumLemmas
  C07.MomentsProofs C07.RealOps C07.GatesProofs C07.DisplacementProofs C07.CxReal
  C07.MatF C07.StepK C07.SeqProofs C07.QuadProofs C07.EmbedSympl C07.RealSeq C07.RealQuad C07.RealGate.
Import ListNotations.
Open Scope R_scope.

(* 1. every generated passive block is unitary for all real parameters *)
Theorem C07_passive_unitary_real : forall g theta phi int_ ext r s,
  active_block ROps g (env_R theta phi int_ ext r s) = None ->
  unitary (n_modes g) (passive_block ROps g (env_R theta phi int_ ext r s)).
Proof. exact passive_unitary_real. Qed.
Print Assumptions C07_passive_unitary_real.

(* ... and every generated (passive, active) pair is symplectic:
   P P^dagger - A A^dagger = I and P A^T = A P^T, for all real parameters *)
Theorem C07_active_symplectic_real : forall g theta phi int_ ext r s Am,
  active_block ROps g (env_R theta phi int_ ext r s) = Some Am ->
  symplectic (n_modes g) (passive_block ROps g (env_R theta phi int_ ext r s)) Am.
Proof. exact active_symplectic_real. Qed.
Print Assumptions C07_active_symplectic_real.

(* 3. the block-wise code of _apply_linear_to_C_and_G (addressed block, auxiliary block,
   mirrored columns) equals the congruence by the embedded (P, A): for every d, every
   duplicate-free tuple of modes in any order, over any commutative ring with involution,
   given C Hermitian, G symmetric and P A^T symmetric *)
Theorem C07_update_is_congruence :
  forall (A : Type) (co : COps A),
  ring_theory (z0 co) (z1 co) (zadd co) (zmul co) (zsub co) (zopp co) eq ->
  zconj co (z0 co) = z0 co -> zconj co (z1 co) = z1 co ->
  (forall x y, zconj co (zadd co x y) = zadd co (zconj co x) (zconj co y)) ->
  (forall x y, zconj co (zmul co x y) = zmul co (zconj co x) (zconj co y)) ->
  (forall x, zconj co (zconj co x) = x) ->
  forall (d : nat) (modes : list nat) (P Am C G : mat),
  NoDup modes -> (forall m, In m modes -> (m < d)%nat) ->
  (forall i j, (i < d)%nat -> (j < d)%nat -> zconj co (get co C j i) = get co C i j) ->
  (forall i j, (i < d)%nat -> (j < d)%nat -> get co G j i = get co G i j) ->
  (forall a b, (a < length modes)%nat -> (b < length modes)%nat ->
     sumn co (length modes) (fun c => zmul co (get co P a c) (get co Am b c))
     = sumn co (length modes) (fun c => zmul co (get co P b c) (get co Am a c))) ->
  forall i j, (i < d)%nat -> (j < d)%nat ->
  get co (fst (apply_linear_CG co d P Am modes C G)) i j = C_spec co d modes P Am C G i j /\
  get co (snd (apply_linear_CG co d P Am modes C G)) i j = G_spec co d modes P Am C G i j.
Proof. exact (@linear_CG_is_congruence). Qed.
Print Assumptions C07_update_is_congruence.

(* ... and preserves Hermiticity of C and symmetry of G *)
Theorem C07_herm_sym_invariant :
  forall (A : Type) (co : COps A),
  ring_theory (z0 co) (z1 co) (zadd co) (zmul co) (zsub co) (zopp co) eq ->
  zconj co (z0 co) = z0 co -> zconj co (z1 co) = z1 co ->
  (forall x y, zconj co (zadd co x y) = zadd co (zconj co x) (zconj co y)) ->
  (forall x y, zconj co (zmul co x y) = zmul co (zconj co x) (zconj co y)) ->
  (forall x, zconj co (zconj co x) = x) ->
  forall (d : nat) (modes : list nat) (P Am C G : mat),
  NoDup modes -> (forall m, In m modes -> (m < d)%nat) ->
  (forall i j, (i < d)%nat -> (j < d)%nat -> zconj co (get co C j i) = get co C i j) ->
  (forall i j, (i < d)%nat -> (j < d)%nat -> get co G j i = get co G i j) ->
  (forall a b, (a < length modes)%nat -> (b < length modes)%nat ->
     sumn co (length modes) (fun c => zmul co (get co P a c) (get co Am b c))
     = sumn co (length modes) (fun c => zmul co (get co P b c) (get co Am a c))) ->
  forall i j, (i < d)%nat -> (j < d)%nat ->
  zconj co (get co (fst (apply_linear_CG co d P Am modes C G)) j i)
    = get co (fst (apply_linear_CG co d P Am modes C G)) i j /\
  get co (snd (apply_linear_CG co d P Am modes C G)) j i
    = get co (snd (apply_linear_CG co d P Am modes C G)) i j.
Proof. exact (@herm_sym_invariant). Qed.
Print Assumptions C07_herm_sym_invariant.

(* the mean vector: m' = Pf m + Af conj(m) with the embedded matrices *)
Theorem C07_mean_is_congruence :
  forall (A : Type) (co : COps A),
  ring_theory (z0 co) (z1 co) (zadd co) (zmul co) (zsub co) (zopp co) eq ->
  forall (d : nat) (modes : list nat) (P Am : mat),
  NoDup modes -> (forall m, In m modes -> (m < d)%nat) ->
  forall (m : vec) i, (i < d)%nat ->
  getv co (st_m (apply_linear co d P Am modes (mkState m [] []))) i
  = zadd co (sumn co d (fun t => zmul co (embedP co modes P i t) (getv co m t)))
            (sumn co d (fun t => zmul co (embedA co modes Am i t) (zconj co (getv co m t)))).
Proof.
  intros A co Ath d modes P Am Hnd Hlt m i Hi.
  unfold apply_linear. simpl st_m. destruct (apply_linear_CG co d P Am modes [] []).
  simpl st_m. exact (linear_mean_is_congruence co Ath d modes P Am Hnd Hlt m i Hi).
Qed.
Print Assumptions C07_mean_is_congruence.

(* the instance that makes 3 speak about real gate parameters: complex numbers over R *)
Theorem C07_complex_reals_are_a_ring_with_involution :
  ring_theory (z0 RC) (z1 RC) (zadd RC) (zmul RC) (zsub RC) (zopp RC) eq /\
  zconj RC (z0 RC) = z0 RC /\ zconj RC (z1 RC) = z1 RC /\
  (forall x y, zconj RC (zadd RC x y) = zadd RC (zconj RC x) (zconj RC y)) /\
  (forall x y, zconj RC (zmul RC x y) = zmul RC (zconj RC x) (zconj RC y)) /\
  (forall x, zconj RC (zconj RC x) = x).
Proof.
  exact (conj RC_ring (conj RC_conj_0 (conj RC_conj_1 (conj RC_conj_add (conj RC_conj_mul RC_conj_conj))))).
Qed.
Print Assumptions C07_complex_reals_are_a_ring_with_involution.

(* 4. documented identities *)
Theorem C07_fourier_is_phase_pi2 : forall theta int_ ext r s e,
  Fourier_passive ROps e = Phaseshifter_passive ROps (env_R theta (PI / 2) int_ ext r s).
Proof. exact fourier_is_phase_pi2. Qed.
Print Assumptions C07_fourier_is_phase_pi2.

Theorem C07_bs5050_is_bs_pi4 : forall int_ ext r s e, rt2i e = / sqrt 2 ->
  Beamsplitter5050_passive ROps e = Beamsplitter_passive ROps (env_R (PI / 4) 0 int_ ext r s).
Proof. exact bs5050_is_bs_pi4. Qed.
Print Assumptions C07_bs5050_is_bs_pi4.

Theorem C07_mach_zehnder_decomposition : forall int_ ext theta phi r s,
  let e := env_R theta phi int_ ext r s in
  let B := Beamsplitter_passive ROps (env_R (PI / 4) (PI / 2) int_ ext r s) in
  MachZehnder_passive ROps e
  = mm2 (mm2 (mm2 B (oplus1 (cexpi (cos int_) (sin int_)))) B) (oplus1 (cexpi (cos ext) (sin ext))).
Proof. exact mach_zehnder_decomposition. Qed.
Print Assumptions C07_mach_zehnder_decomposition.

Theorem C07_squeezing2_decomposition : forall r phi theta int_ ext s,
  let e := env_R theta phi int_ ext r s in
  let em := env_R theta phi int_ ext (- r) s in
  let Bp := Beamsplitter_passive ROps (env_R (PI / 4) 0 int_ ext r s) in
  let Bm := Beamsplitter_passive ROps (env_R (- (PI / 4)) 0 int_ ext r s) in
  let SP := dsum (Squeezing_passive ROps em) (Squeezing_passive ROps e) in
  let SA := dsum (Squeezing_active ROps em) (Squeezing_active ROps e) in
  let P1 := comp_P 2 SP SA Bm zero2 in
  let A1 := comp_A 2 SP SA Bm zero2 in
  Squeezing2_passive ROps e = comp_P 2 Bp zero2 P1 A1 /\
  Squeezing2_active ROps e = comp_A 2 Bp zero2 P1 A1.
Proof. exact squeezing2_decomposition. Qed.
Print Assumptions C07_squeezing2_decomposition.

Theorem C07_displacement_shift : forall (d j : nat) (rr phi hbar : R) (st : gstate (A := Cx R)),
  (j < d)%nat -> length (st_m st) = d -> 0 <= hbar ->
  let s2h := sqrt 2 * sqrt hbar in
  let st' := step ROps d (ODisplacement rr (cos phi) (sin phi) [j]) st in
  let mean := xxpp_mean ROps s2h (st_m st) in
  let mean' := xxpp_mean ROps s2h (st_m st') in
  s2h = sqrt (2 * hbar) /\
  st_C st' = st_C st /\ st_G st' = st_G st /\
  List.nth j mean' 0 = List.nth j mean 0 + sqrt (2 * hbar) * (rr * cos phi) /\
  List.nth (d + j) mean' 0 = List.nth (d + j) mean 0 + sqrt (2 * hbar) * (rr * sin phi) /\
  forall i, (i < d)%nat -> i <> j ->
    List.nth i mean' 0 = List.nth i mean 0 /\ List.nth (d + i) mean' 0 = List.nth (d + i) mean 0.
Proof. exact displacement_shift. Qed.
Print Assumptions C07_displacement_shift.

(* 3b. the passive path (_apply_passive_linear_to_C_and_G / _to_auxiliary_modes): congruence by the
   embedded matrix for every d and every duplicate-free tuple of modes in any order *)
Theorem C07_passive_update_is_congruence :
  forall (A : Type) (co : COps A),
  ring_theory (z0 co) (z1 co) (zadd co) (zmul co) (zsub co) (zopp co) eq ->
  zconj co (z0 co) = z0 co -> zconj co (z1 co) = z1 co ->
  (forall x y, zconj co (zadd co x y) = zadd co (zconj co x) (zconj co y)) ->
  (forall x y, zconj co (zmul co x y) = zmul co (zconj co x) (zconj co y)) ->
  (forall x, zconj co (zconj co x) = x) ->
  forall (d : nat) (modes : list nat) (T C G : mat),
  NoDup modes -> (forall m, In m modes -> (m < d)%nat) ->
  (forall i j, (i < d)%nat -> (j < d)%nat -> zconj co (get co C j i) = get co C i j) ->
  (forall i j, (i < d)%nat -> (j < d)%nat -> get co G j i = get co G i j) ->
  forall i j, (i < d)%nat -> (j < d)%nat ->
  (get co (fst (apply_passive_CG co d T modes C G)) i j = C_pspec co d modes T C i j /\
   get co (snd (apply_passive_CG co d T modes C G)) i j = G_pspec co d modes T G i j) /\
  (zconj co (get co (fst (apply_passive_CG co d T modes C G)) j i)
     = get co (fst (apply_passive_CG co d T modes C G)) i j /\
   get co (snd (apply_passive_CG co d T modes C G)) j i
     = get co (snd (apply_passive_CG co d T modes C G)) i j).
Proof.
  intros A co Ath c0' c1' ca cm cc d modes T C G Hnd Hlt HC HG i j Hi Hj. split.
  - exact (passive_CG_is_congruence co Ath c0' c1' ca cm cc d modes T [] C G Hnd Hlt HC HG i j Hi Hj).
  - exact (passive_herm_sym_invariant co Ath c0' c1' ca cm cc d modes T [] C G Hnd Hlt HC HG i j Hi Hj).
Qed.
Print Assumptions C07_passive_update_is_congruence.

Theorem C07_passive_mean_is_congruence :
  forall (A : Type) (co : COps A),
  ring_theory (z0 co) (z1 co) (zadd co) (zmul co) (zsub co) (zopp co) eq ->
  forall (d : nat) (modes : list nat) (T : mat),
  NoDup modes -> (forall m, In m modes -> (m < d)%nat) ->
  forall (m : vec) i, (i < d)%nat ->
  getv co (assign_vec co d m modes (mvmul co (length modes) (length modes) T (read_vec co m modes))) i
  = sumn co d (fun t => zmul co (embedP co modes T i t) (getv co m t)).
Proof. exact (@passive_mean_is_congruence). Qed.
Print Assumptions C07_passive_mean_is_congruence.

(* 5. sequence_congruence: for any list of passive / active / displacement steps whose blocks are
   unitary / symplectic on duplicate-free modes, the final state is the congruence of
   K = [[C^T + I, G], [G^dagger, C]] by the ordered product of the embedded 2d x 2d matrices, the mean
   (m, conj m) is multiplied by the same product and shifted by the accumulated displacement, and
   C stays Hermitian and G symmetric (induction over the list) *)
Theorem C07_sequence_congruence :
  forall (A : Type) (co : COps A),
  ring_theory (z0 co) (z1 co) (zadd co) (zmul co) (zsub co) (zopp co) eq ->
  zconj co (z0 co) = z0 co -> zconj co (z1 co) = z1 co ->
  (forall x y, zconj co (zadd co x y) = zadd co (zconj co x) (zconj co y)) ->
  (forall x y, zconj co (zmul co x y) = zmul co (zconj co x) (zconj co y)) ->
  (forall x, zconj co (zconj co x) = x) ->
  forall (d : nat) (prog : list lop) (s : gstate),
  Forall (valid co d) prog -> herm co d (st_C s) -> symm co d (st_G s) ->
  let s' := lrun co d prog s in
  eqm (d + d) (Kof co d (st_C s') (st_G s'))
      (cong co (d + d) (Stot co d prog) (Kof co d (st_C s) (st_G s))) /\
  eqv (d + d) (muc co d (st_m s'))
      (addv co (mvf co (d + d) (Stot co d prog) (muc co d (st_m s))) (shift co d prog)) /\
  herm co d (st_C s') /\ symm co d (st_G s').
Proof. exact (@sequence_congruence). Qed.
Print Assumptions C07_sequence_congruence.

(* ... instantiated: programs of built-in gates with arbitrary real parameters, Interferometers,
   Gaussian transformations and displacements, as dispatched by GatesModel.run *)
Theorem C07_gates_sequence_real : forall d (prog : list (@op R)) s,
  Forall (op_ok d) prog -> herm RC d (st_C s) -> symm RC d (st_G s) ->
  let s' := run ROps d prog s in
  let lp := map (lop_of ROps) prog in
  eqm (d + d) (Kof RC d (st_C s') (st_G s'))
      (cong RC (d + d) (Stot RC d lp) (Kof RC d (st_C s) (st_G s))) /\
  eqv (d + d) (muc RC d (st_m s'))
      (addv RC (mvf RC (d + d) (Stot RC d lp) (muc RC d (st_m s))) (shift RC d lp)) /\
  herm RC d (st_C s') /\ symm RC d (st_G s').
Proof. exact gates_sequence_real. Qed.
Print Assumptions C07_gates_sequence_real.

(* 6. the real-quadrature reading (abstract): K' = S K S^dagger implies sigma' = Sr sigma Sr^T for
   sigma = hb (2 [[Re(G+C), Im(G+C)], [Im(G-C), Re(C-G)]] + I) and the real matrix
   Sr = [[Re(Pf+Af), -Im(Pf-Af)], [Im(Pf+Af), Re(Pf-Af)]], for every scale hb *)
Theorem C07_quadrature_covariance :
  forall (A : Type) (co : COps A),
  ring_theory (z0 co) (z1 co) (zadd co) (zmul co) (zsub co) (zopp co) eq ->
  zconj co (z0 co) = z0 co -> zconj co (z1 co) = z1 co ->
  (forall x y, zconj co (zadd co x y) = zadd co (zconj co x) (zconj co y)) ->
  (forall x y, zconj co (zmul co x y) = zmul co (zconj co x) (zconj co y)) ->
  (forall x, zconj co (zconj co x) = x) ->
  forall ii half : A,
  zmul co ii ii = zopp co (z1 co) -> zconj co ii = zopp co ii ->
  zmul co (zadd co (z1 co) (z1 co)) half = z1 co ->
  forall (d : nat) (hb : A) (Pf Af Cf Gf C' G' : fmat),
  eqm d (trf (cjf co Cf)) Cf -> eqm d (trf Gf) Gf ->
  eqm d (trf (cjf co C')) C' -> eqm d (trf G') G' ->
  eqm (d + d) (Kblocks co d C' G') (cong co (d + d) (Sof co d Pf Af) (Kblocks co d Cf Gf)) ->
  eqm (d + d) (sclf co hb (sig0 co ii d C' G'))
      (mmf co (d + d) (mmf co (d + d) (Sr co ii half d Pf Af) (sclf co hb (sig0 co ii d Cf Gf)))
           (trf (Sr co ii half d Pf Af))).
Proof. exact (@quad_cov). Qed.
Print Assumptions C07_quadrature_covariance.

(* ... and the property as stated, for every built-in gate, all real parameters, every d, every
   duplicate-free tuple of modes in any order, every hbar (and every value s2h of sqrt(2 hbar)):
   the modelled xxpp_mean_vector is multiplied by a real matrix S and the modelled
   xxpp_covariance_matrix becomes S cov S^T *)
Theorem C07_builtin_gate_acts_as_documented :
  forall d g theta phi int_ ext r s modes (st : gstate (A := Cx R)) (hbar s2h : R),
  modes_ok d modes -> length modes = n_modes g ->
  herm RC d (st_C st) -> symm RC d (st_G st) -> length (st_m st) = d ->
  let e := env_R theta phi int_ ext r s in
  let st' := step ROps d (OGate g e modes) st in
  let S := SrR d modes (passive_block ROps g e) (active_or_nil g e) in
  (forall i j, (i < d + d)%nat -> (j < d + d)%nat -> snd (S i j) = 0%R) /\
  (forall i, (i < d + d)%nat ->
     creal ROps (meanR s2h (st_m st') i)
     = mvf RC (d + d)%nat S (fun a => creal ROps (meanR s2h (st_m st) a)) i) /\
  (forall i j, (i < d + d)%nat -> (j < d + d)%nat ->
     creal ROps (covR d hbar (st_C st') (st_G st') i j)
     = mmf RC (d + d)%nat (mmf RC (d + d)%nat S (fun a b => creal ROps (covR d hbar (st_C st) (st_G st) a b)))
         (trf S) i j).
Proof. exact builtin_gate_acts_as_documented. Qed.
Print Assumptions C07_builtin_gate_acts_as_documented.

(* 2. embed_symplectic: a block pair (P, A) with P P^dagger = I + A A^dagger and P A^T symmetric,
   embedded in the identity on any duplicate-free tuple of modes (any order, any d), is a symplectic
   2d x 2d ladder-operator matrix: S diag(I,-I) S^dagger = diag(I,-I) *)
Theorem C07_embed_symplectic :
  forall (A : Type) (co : COps A),
  ring_theory (z0 co) (z1 co) (zadd co) (zmul co) (zsub co) (zopp co) eq ->
  zconj co (z0 co) = z0 co -> zconj co (z1 co) = z1 co ->
  (forall x y, zconj co (zadd co x y) = zadd co (zconj co x) (zconj co y)) ->
  (forall x y, zconj co (zmul co x y) = zmul co (zconj co x) (zconj co y)) ->
  (forall x, zconj co (zconj co x) = x) ->
  forall (d : nat) (modes : list nat) (P Am : mat),
  modes_ok d modes -> sympl1 co (length modes) P Am -> sympl2 co (length modes) P Am ->
  eqm (d + d) (cong co (d + d) (Sgate co d modes P Am) (Omc co d)) (Omc co d).
Proof. exact (@embed_symplectic). Qed.
Print Assumptions C07_embed_symplectic.

(* ... and the real matrix Sr of the xxpp basis satisfies Sr Omega Sr^T = Omega,
   Omega = [[0, I], [-I, 0]] *)
Theorem C07_embed_real_symplectic :
  forall (A : Type) (co : COps A),
  ring_theory (z0 co) (z1 co) (zadd co) (zmul co) (zsub co) (zopp co) eq ->
  zconj co (z0 co) = z0 co -> zconj co (z1 co) = z1 co ->
  (forall x y, zconj co (zadd co x y) = zadd co (zconj co x) (zconj co y)) ->
  (forall x y, zconj co (zmul co x y) = zmul co (zconj co x) (zconj co y)) ->
  (forall x, zconj co (zconj co x) = x) ->
  forall (d : nat) (ii half : A),
  zmul co ii ii = zopp co (z1 co) -> zconj co ii = zopp co ii ->
  zmul co (zadd co (z1 co) (z1 co)) half = z1 co ->
  forall (modes : list nat) (P Am : mat),
  modes_ok d modes -> sympl1 co (length modes) P Am -> sympl2 co (length modes) P Am ->
  let S := Sr co ii half d (embedP co modes P) (embedA co modes Am) in
  eqm (d + d) (mmf co (d + d) (mmf co (d + d) S (Om co d)) (trf S)) (Om co d).
Proof. exact (@embed_real_symplectic). Qed.
Print Assumptions C07_embed_real_symplectic.

(* the first sentence of the property: every built-in linear gate's ladder-operator transformation,
   embedded on any duplicate-free tuple of modes of any d, is symplectic for all real parameters -
   in the complex form and as the real xxpp matrix that acts on mean and covariance *)
Theorem C07_builtin_gate_symplectic_real :
  forall d g theta phi int_ ext r s modes,
  modes_ok d modes -> length modes = n_modes g ->
  let e := env_R theta phi int_ ext r s in
  let P := passive_block ROps g e in
  let Am := active_or_nil g e in
  eqm (d + d) (cong RC (d + d) (Sgate RC d modes P Am) (Omc RC d)) (Omc RC d) /\
  eqm (d + d) (mmf RC (d + d) (mmf RC (d + d) (SrR d modes P Am) (Om RC d)) (trf (SrR d modes P Am)))
      (Om RC d).
Proof. exact builtin_gate_symplectic_real. Qed.
Print Assumptions C07_builtin_gate_symplectic_real.

(* a consequence of the invariants carried by the sequence theorem: the modelled xxpp covariance
   matrix is symmetric after every program of admissible instructions *)
Theorem C07_covariance_symmetric_after_program : forall d (prog : list (@op R)) s hbar,
  Forall (op_ok d) prog -> herm RC d (st_C s) -> symm RC d (st_G s) ->
  let s' := run ROps d prog s in
  forall i j, (i < d + d)%nat -> (j < d + d)%nat ->
  covR d hbar (st_C s') (st_G s') i j = covR d hbar (st_C s') (st_G s') j i.
Proof. exact covariance_symmetric_after_program. Qed.
Print Assumptions C07_covariance_symmetric_after_program.

(* non-vacuity: the model runs *)
Example C07_example_squeezing2_block :
  Squeezing2_active QOps (env_Qplain 0%Q 0%Q 0%Q 0%Q (Qmake 2%Z 1%positive) 0%Q)
  = [[(0%Q, 0%Q); (Qmake 3%Z 4%positive, 0%Q)]; [(Qmake 3%Z 4%positive, 0%Q); (0%Q, 0%Q)]].
Proof. vm_compute. reflexivity. Qed.
