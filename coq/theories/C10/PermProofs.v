(* C10 — the gradient rule of the permanent with multiplicities is the dual-number derivative. *)
From Coq Require Import List Arith Bool Ring Lia.
From PV Require Import C10.Alg C10.AlgProofs C10.PermModel.
Import ListNotations.

(* ---- combinatorics of [select] (no ring needed) *)
Lemma map_repeat' : forall X Y (g : X -> Y) x k, map g (repeat x k) = repeat (g x) k.
Proof. induction k as [|k IH]; [reflexivity|]. simpl. rewrite IH. reflexivity. Qed.

Lemma select_app : forall X (l1 l2 : list X),
  select (l1 ++ l2) =
  map (fun p => (fst p, snd p ++ l2)) (select l1) ++ map (fun p => (fst p, l1 ++ snd p)) (select l2).
Proof.
  induction l1 as [|x l1 IH]; intros l2.
  - simpl. rewrite <- (map_id (select l2)) at 1. apply map_ext. intros [a b]; reflexivity.
  - simpl. f_equal. rewrite IH, map_app, !map_map. f_equal.
Qed.

Lemma select_repeat : forall X (x : X) k, select (repeat x (S k)) = repeat (x, repeat x k) (S k).
Proof.
  induction k as [|k IH]; [reflexivity|].
  change (repeat x (S (S k))) with (x :: repeat x (S k)).
  cbn [select]. rewrite IH.
  change (repeat (x, repeat x (S k)) (S (S k))) with ((x, repeat x (S k)) :: repeat (x, repeat x (S k)) (S k)).
  f_equal. rewrite map_repeat'. reflexivity.
Qed.

Lemma map_rep_from : forall X Y (g : X -> Y) (f : nat -> X) ms s,
  map g (rep_from f s ms) = rep_from (fun i => g (f i)) s ms.
Proof.
  induction ms as [|k ms IH]; intros s; [reflexivity|].
  simpl. rewrite map_app, map_repeat', IH. reflexivity.
Qed.

Lemma dec_length : forall i ms, length (dec i ms) = length ms.
Proof. intros i ms; revert i; induction ms as [|k ms IH]; intros [|i]; simpl; auto. Qed.

Section Proofs.
  Variable A : Type.
  Variable O : Ops A.
  Hypothesis Ath : ring_theory (o0 O) (o1 O) (oadd O) (omul O) (osub O) (oopp O) (@eq A).
  Add Ring Aring2 : Ath.
  Notation "0" := (o0 O) : a_scope.
  Notation "1" := (o1 O) : a_scope.
  Infix "+" := (oadd O) : a_scope.
  Infix "*" := (omul O) : a_scope.
  Local Open Scope a_scope.
  Let SM := @sum_map A O.
  Let sm_ext := sum_map_ext' A O.
  Let sm_cons := sum_map_cons A O.

  (* taking out x then y, or y then x, leaves the same lists *)
  Lemma select_swap : forall X (F : X -> X -> list X -> A) l,
    sum_map O (fun p => sum_map O (fun q => F (fst p) (fst q) (snd q)) (select (snd p))) (select l) =
    sum_map O (fun p => sum_map O (fun q => F (fst q) (fst p) (snd q)) (select (snd p))) (select l).
  Proof.
    intros X F l; revert F; induction l as [|x l IH]; intros F; [reflexivity|].
    cbn [select]. rewrite !sum_map_cons, !(sum_map_map A O). cbn [fst snd].
    (* unfold the inner select (x :: l') *)
    assert (E1 : forall (G : X -> X -> list X -> A),
      sum_map O (fun p => sum_map O (fun q => G (fst p) (fst q) (snd q)) (select (x :: snd p))) (select l) =
      sum_map O (fun p => G (fst p) x (snd p)) (select l) +
      sum_map O (fun p => sum_map O (fun q => G (fst p) (fst q) (x :: snd q)) (select (snd p))) (select l)).
    { intros G. rewrite <- (sum_map_add A O Ath). apply sum_map_ext'. intros p.
      cbn [select]. rewrite sum_map_cons, (sum_map_map A O). reflexivity. }
    rewrite (E1 F), (E1 (fun a b c => F b a c)).
    rewrite (IH (fun a b c => F a b (x :: c))).
    ring.
  Qed.

  (* ---- the derivative of the permanent, first in "Laplace" form *)
  Let fstf (r : nat -> A * A) : nat -> A := fun j => fst (r j).

  Lemma perm_std : forall (rowsD : list (nat -> A * A)) cols,
    fst (perm (dualOps O) rowsD cols) = perm O (map fstf rowsD) cols.
  Proof.
    induction rowsD as [|rd rs IH]; intros cols; [reflexivity|].
    cbn [perm map]. rewrite (std_sum_map A O).
    apply sum_map_ext'. intros p. cbn [omul dualOps fst]. rewrite IH. reflexivity.
  Qed.

  Lemma perm_eps : forall (rowsD : list (nat -> A * A)) cols,
    snd (perm (dualOps O) rowsD cols) =
    sum_map O (fun rp => sum_map O (fun cp =>
        snd (fst rp (fst cp)) * perm O (map fstf (snd rp)) (snd cp)) (select cols)) (select rowsD).
  Proof.
    induction rowsD as [|rd rs IH]; intros cols.
    - cbn. reflexivity.
    - cbn [perm]. rewrite (eps_sum_map A O).
      cbn [select]. rewrite sum_map_cons, (sum_map_map A O). cbn [fst snd].
      (* left side: split the product rule *)
      transitivity (
        sum_map O (fun cp => snd (rd (fst cp)) * perm O (map fstf rs) (snd cp)) (select cols) +
        sum_map O (fun cp => fst (rd (fst cp)) * snd (perm (dualOps O) rs (snd cp))) (select cols)).
      { rewrite <- (sum_map_add A O Ath). apply sum_map_ext'. intros cp.
        cbn [omul dualOps fst snd]. rewrite perm_std. ring. }
      f_equal.
      (* use IH inside, then swap the two column selections *)
      transitivity (
        sum_map O (fun rp => sum_map O (fun cp => sum_map O (fun cq =>
            fst (rd (fst cp)) * (snd (fst rp (fst cq)) * perm O (map fstf (snd rp)) (snd cq)))
          (select (snd cp))) (select cols)) (select rs)).
      { rewrite (sum_map_swap A O Ath). apply sum_map_ext'. intros cp.
        rewrite IH, (sum_map_mul_l A O Ath). apply sum_map_ext'. intros rp.
        rewrite (sum_map_mul_l A O Ath). reflexivity. }
      apply sum_map_ext'. intros rp.
      rewrite (select_swap nat (fun a b l => fst (rd a) * (snd (fst rp b) * perm O (map fstf (snd rp)) l))).
      apply sum_map_ext'. intros cp.
      cbn [map perm]. rewrite (sum_map_mul_l A O Ath).
      apply sum_map_ext'. intros cq. unfold fstf. ring.
  Qed.

  (* ---- one element out of a list with multiplicities *)
  Lemma select_rep_from : forall X (f : nat -> X) (F : X -> list X -> A) ms s pre,
    sum_map O (fun p => F (fst p) (pre ++ snd p)) (select (rep_from f s ms)) =
    sum_map O (fun t => of_nat O (nth t ms 0%nat) *
                        F (f (s + t)%nat) (pre ++ rep_from f s (dec t ms))) (seq 0 (length ms)).
  Proof.
    induction ms as [|k ms IH]; intros s pre; [reflexivity|].
    cbn [rep_from length]. rewrite select_app, (sum_map_app A O Ath), !(sum_map_map A O).
    cbn [fst snd]. rewrite <- cons_seq, sum_map_cons. f_equal.
    - (* the copies of f s *)
      cbn [nth dec rep_from]. rewrite Nat.add_0_r.
      destruct k as [|k].
      + cbn. ring.
      + rewrite select_repeat, (sum_map_repeat A O Ath). cbn [fst snd].
        rewrite Nat.sub_succ, Nat.sub_0_r. reflexivity.
    - rewrite (sum_map_seq_shift A O).
      transitivity (sum_map O (fun p => F (fst p) ((pre ++ repeat (f s) k) ++ snd p))
                      (select (rep_from f (S s) ms))).
      { apply sum_map_ext'. intros p. rewrite <- app_assoc. reflexivity. }
      rewrite IH. apply sum_map_ext'. intros t.
      cbn [nth dec rep_from]. rewrite <- app_assoc, Nat.add_succ_r. reflexivity.
  Qed.

  (* ---- the theorem *)
  Theorem grad_perm_entry_correct : forall (M V : nat -> nat -> A) (r c : list nat),
    D_perm_mult O M V r c =
    sum_map O (fun i => sum_map O (fun j => grad_perm_entry O M r c i j * V i j)
                                  (seq 0 (length c))) (seq 0 (length r)).
  Proof.
    intros M V r c. unfold D_perm_mult, epsp, perm_mult.
    rewrite perm_eps.
    (* rows *)
    pose (MD := fun i j => (M i j, V i j)).
    change (fun i j : nat => (M i j, V i j)) with MD.
    pose (F := fun (x : nat -> A * A) (l : list (nat -> A * A)) =>
         sum_map O (fun cp => snd (x (fst cp)) * perm O (map fstf l) (snd cp))
                   (select (rep_from (fun j => j) 0 c))).
    match goal with |- _ = ?R =>
      change (sum_map O (fun p => F (fst p) ([] ++ snd p)) (select (rep_from MD 0 r)) = R) end.
    rewrite (select_rep_from _ MD F). subst F. cbv beta.
    apply sum_map_ext'. intros i. cbn [app plus].
    rewrite map_rep_from.
    change (fun i0 : nat => fstf (MD i0)) with M.
    (* columns *)
    pose (F := fun (x : nat) (l : list nat) =>
         snd (MD i x) * perm O (rep_from M 0 (dec i r)) l).
    match goal with |- _ = ?R =>
      change (of_nat O (nth i r 0%nat) *
            sum_map O (fun p => F (fst p) ([] ++ snd p)) (select (rep_from (fun j => j) 0 c)) = R) end.
    rewrite (select_rep_from _ (fun j => j) F). subst F. cbv beta.
    rewrite (sum_map_mul_l A O Ath).
    apply sum_map_ext'. intros j. cbn [app plus MD snd].
    unfold grad_perm_entry, perm_mult.
    destruct (nth i r 0%nat) as [|ri]; [cbn; ring|].
    destruct (nth j c 0%nat) as [|cj]; [cbn; ring|].
    cbn [Nat.eqb orb]. ring.
  Qed.

  Lemma perm_mult_std : forall (M V : nat -> nat -> A) r c,
    std (perm_mult (dualOps O) (fun i j => (M i j, V i j)) r c) = perm_mult O M r c.
  Proof.
    intros. unfold std, perm_mult. rewrite perm_std, map_rep_from. reflexivity.
  Qed.

  (* in matrix form: <grad_perm, V> *)
  Lemma pair_mat_rows : forall n (g : nat -> list A) V,
    pair_mat O (map g (seq 0 n)) V =
    sum_map O (fun i => sum_map O (fun jg => snd jg * V i (fst jg))
                          (combine (seq 0 (length (g i))) (g i))) (seq 0 n).
  Proof.
    intros n g V. unfold pair_mat. rewrite map_length, seq_length.
    assert (H : forall s, combine (seq s n) (map g (seq s n)) = map (fun i => (i, g i)) (seq s n)).
    { induction n as [|n IH]; intros s; [reflexivity|]. cbn. f_equal. apply IH. }
    rewrite H, (sum_map_map A O). reflexivity.
  Qed.

  Lemma combine_seq_map : forall (g : nat -> A) m s,
    combine (seq s m) (map g (seq s m)) = map (fun j => (j, g j)) (seq s m).
  Proof. induction m as [|m IH]; intros s; [reflexivity|]. cbn. f_equal. apply IH. Qed.

  Theorem grad_perm_correct : forall (M V : nat -> nat -> A) (r c : list nat),
    D_perm_mult O M V r c = pair_mat O (grad_perm O M r c) V.
  Proof.
    intros. rewrite grad_perm_entry_correct. unfold grad_perm. rewrite pair_mat_rows.
    apply sum_map_ext'. intros i.
    rewrite map_length, seq_length, combine_seq_map, (sum_map_map A O). reflexivity.
  Qed.

  (* the backward pass handed to JAX: cotangent times the gradient *)
  Theorem perm_bwd_correct : forall (M V : nat -> nat -> A) r c ct,
    pair_mat O (perm_bwd O M r c ct) V = ct * D_perm_mult O M V r c.
  Proof.
    intros. rewrite grad_perm_entry_correct. unfold perm_bwd, grad_perm.
    rewrite map_map, pair_mat_rows, (sum_map_mul_l A O Ath).
    apply sum_map_ext'. intros i.
    rewrite !map_length, seq_length, map_map, combine_seq_map, (sum_map_map A O),
      (sum_map_mul_l A O Ath).
    apply sum_map_ext'. intros j. cbn [fst snd]. ring.
  Qed.

  (* zero multiplicity: the `continue` leaves the right value *)
  Corollary grad_perm_zero_mult : forall M r c i j,
    (nth i r 0 = 0 \/ nth j c 0 = 0)%nat -> grad_perm_entry O M r c i j = 0.
  Proof.
    intros M r c i j [H|H]; unfold grad_perm_entry; rewrite H; cbn; [reflexivity|].
    rewrite orb_true_r. reflexivity.
  Qed.
End Proofs.
