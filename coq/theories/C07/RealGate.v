(* C07 — the property as stated, for the built-in gates: for all real parameters and every
   duplicate-free tuple of modes, the Gaussian simulator's step multiplies the xxpp mean by a real
   matrix Sr and maps the xxpp covariance to Sr cov Sr^T, for every hbar. *)
From Coq Require Import List Arith Reals Ring Lia.
From PV Require Import C07.CxBase C07.RealOps C07.GatesGen C07.MomentsModel C07.GatesModel
  C07.SumLemmas C07.MomentsProofs C07.MatF C07.StepK C07.SeqProofs C07.QuadProofs C07.GatesProofs
  C07.CxReal C07.RealSeq C07.RealQuad.
Import ListNotations.

Lemma step_is_lstep : forall {B : Type} (o : Ops B) d i s,
  step o d i s = lstep (cops o) d (lop_of o i) s.
Proof.
  intros B o d i s. destruct i; simpl; try reflexivity.
  destruct (active_block o g e); reflexivity.
Qed.

Definition active_or_nil (g : gname) (e : Env R) : list (list (Cx R)) :=
  match active_block ROps g e with Some a => a | None => [] end.

Theorem builtin_gate_acts_as_documented :
  forall d g theta phi int_ ext r s modes (st : gstate (A := Cx R)) (hbar s2h : R),
  modes_ok d modes -> length modes = n_modes g ->
  herm RC d (st_C st) -> symm RC d (st_G st) -> length (st_m st) = d ->
  let e := env_R theta phi int_ ext r s in
  let st' := step ROps d (OGate g e modes) st in
  let S := SrR d modes (passive_block ROps g e) (active_or_nil g e) in
  (forall i j, (i < d + d)%nat -> (j < d + d)%nat -> snd (S i j) = 0%R) /\
  (forall i, (i < d + d)%nat ->
     creal ROps (meanR s2h (st_m st') i)
     = mvf RC (d + d)%nat S (fun a => creal ROps (meanR s2h (st_m st) a)) i) /\
  (forall i j, (i < d + d)%nat -> (j < d + d)%nat ->
     creal ROps (covR d hbar (st_C st') (st_G st') i j)
     = mmf RC (d + d)%nat (mmf RC (d + d)%nat S (fun a b => creal ROps (covR d hbar (st_C st) (st_G st) a b)))
         (trf S) i j).
Proof.
  intros d g theta phi int_ ext r s modes st hbar s2h Hm Hlen HC HG Hl e st' S.
  assert (Hok : op_ok d (OGate g e modes)).
  { simpl. split; [|split; assumption]. exists theta, phi, int_, ext, r, s. reflexivity. }
  pose proof (op_ok_valid d _ Hok) as Hv.
  assert (Hb : gate_blocks (lop_of ROps (OGate g e modes))
               = Some (modes, passive_block ROps g e, active_or_nil g e)).
  { unfold active_or_nil. simpl. destruct (active_block ROps g e); reflexivity. }
  unfold st'. rewrite step_is_lstep. fold RC. change (cops ROps) with RC.
  split; [|split].
  - intros i j Hi Hj. apply SrR_real; assumption.
  - intros i Hi. apply (step_mean_real d _ st s2h modes _ _ Hv Hb HC HG Hl i Hi).
  - intros i j Hi Hj. apply (step_cov_real d _ st hbar modes _ _ Hv Hb HC HG i j Hi Hj).
Qed.
