"""Implementation side of C17: runs piquasso's fermionic code on the requested inputs.

Request (JSON on stdin):
  rep:      [{d, cutoff, U}]             U = rows of [re, im] floats
  tables:   [{d, cutoff, modes}]          controlled-phase / Ising-XX index tables
  ilist:    [{d, cutoff, modes}]          index list used to apply a passive gate
  programs: [{d, occ, gates, gaussian}]   gates = [{g, modes, ...float parameters...}]
Answer: the same keys with the observed values (complex numbers as [re, im]).
"""
import json
import sys
import warnings

import numpy as np

warnings.simplefilter("ignore")

import piquasso as pq  # noqa: E402
from piquasso.fermionic.instructions import ControlledPhase, IsingXX  # noqa: E402
from piquasso._simulators.connectors import connections as generic  # noqa: E402
from piquasso._simulators.connectors.numpy_ import connections as numba_variant  # noqa: E402
from piquasso.fermionic.fock import _utils as fock_utils  # noqa: E402


def cplx(m):
    return np.array([[complex(x[0], x[1]) for x in row] for row in m], dtype=complex)


def cl(a):
    a = np.asarray(a)
    if a.ndim == 0:
        return [float(a.real), float(a.imag)]
    return [cl(x) for x in a]


def build(prog):
    d = prog["d"]
    with pq.Program() as program:
        pq.Q(*range(d)) | pq.StateVector(list(prog["occ"]))
        for g in prog["gates"]:
            k = g["g"]
            modes = tuple(g["modes"])
            if k == "I":
                pq.Q(*modes) | pq.Interferometer(cplx(g["U"]))
            elif k == "BS":
                pq.Q(*modes) | pq.Beamsplitter(theta=g["theta"], phi=g["phi"])
            elif k == "PS":
                pq.Q(*modes) | pq.Phaseshifter(phi=g["phi"])
            elif k == "SQ2":
                pq.Q(*modes) | pq.Squeezing2(r=g["r"], phi=g["phi"])
            elif k == "XX":
                pq.Q(*modes) | IsingXX(phi=g["phi"])
            elif k == "CP":
                pq.Q(*modes) | ControlledPhase(phi=g["phi"])
            else:
                raise ValueError(k)
    return program


def main():
    req = json.load(sys.stdin)
    out = {}
    conn = pq.NumpyConnector()

    res = []
    for r in req.get("rep", []):
        U = cplx(r["U"])
        a = generic.calculate_interferometer_on_fermionic_fock_space(conn, U, r["cutoff"])
        b = numba_variant.calculate_interferometer_on_fermionic_fock_space(U, r["cutoff"])
        c = conn.calculate_interferometer_on_fermionic_fock_space(U, r["cutoff"])
        res.append({"generic": [cl(x) for x in a], "numba": [cl(x) for x in b],
                    "connector_is_numba": bool(len(b) == len(c) and all(np.array_equal(x, y) for x, y in zip(b, c)))})
    out["rep"] = res

    res = []
    for r in req.get("tables", []):
        d, cutoff, modes = r["d"], r["cutoff"], tuple(r["modes"])
        cp = fock_utils.calculate_indices_for_controlled_phase(d, cutoff, modes)
        xx = fock_utils.calculate_indices_for_ising_XX(d, cutoff, modes)
        res.append({"cp": [int(x) for x in cp], "xx": [[int(x) for x in row] for row in xx]})
    out["tables"] = res

    res = []
    for r in req.get("ilist", []):
        il = generic._nb_calculate_index_list_for_appling_interferometer(
            tuple(r["modes"]), r["d"], r["cutoff"])
        res.append([[[int(x) for x in row] for row in m] for m in il])
    out["ilist"] = res

    for key in ("programs", "probes"):
      res = []
      for prog in req.get(key, []):
          d = prog["d"]
          rec = {}
          try:
              program = build(prog)
              fock = pq.fermionic.PureFockSimulator(d=d, config=pq.Config(cutoff=d + 1))
              sf = fock.execute(program).state
              rec["state"] = cl(sf.state_vector)
              pm = sf.fock_probabilities_map
              rec["keys"] = [[int(x) for x in k] for k in pm.keys()]
              rec["probs"] = [float(np.real(v)) for v in pm.values()]
              rec["probs_imag"] = float(max(abs(np.imag(v)) for v in pm.values()))
              rec["norm"] = float(np.real(sf.norm))
              rec["cov"] = np.asarray(sf.covariance_matrix).real.tolist()
              rec["pdp"] = [float(sf.get_particle_detection_probability(k)) for k in rec["keys"]]
          except Exception as e:  # reported by the check
              rec["fock_error"] = "%s: %s" % (type(e).__name__, e)
          if prog.get("gaussian", True):
              try:
                  program = build(prog)
                  gs = pq.fermionic.GaussianSimulator(d=d)
                  sg = gs.execute(program).state
                  rec["gcov"] = np.asarray(sg.covariance_matrix).real.tolist()
                  keys = rec.get("keys") or []
                  rec["gprobs"] = [float(sg.get_particle_detection_probability(np.array(k))) for k in keys]
                  rec["gmean"] = [float(x) for x in sg.mean_particle_numbers(tuple(range(d)))]
              except Exception as e:
                  rec["gaussian_error"] = "%s: %s" % (type(e).__name__, e)
          res.append(rec)
      out[key] = res
    print(json.dumps(out))


main()
