(* The iterative separator walk of combinatorics.py:partitions produces exactly the
   recursive enumeration [sector], for every number of boxes >= 1 and particles. *)
From Coq Require Import ZArith List Bool Lia ZifyBool.
From PV Require Import Comb.FockModel Comb.Binom Comb.FockProofs.
Import ListNotations.
Open Scope Z_scope.

Section Walk.
Variable P : Z.   (* positions = particles + boxes - 1 *)

(* ---- rows ---- *)
Lemma row_go_length prev l : length (row_go P prev l) = S (length l).
Proof. revert prev; induction l as [|s l IH]; intros prev; cbn [row_go length]; [reflexivity|]. now rewrite IH. Qed.

Lemma row_go_sum prev l : sumZ (row_go P prev l) = P - prev - 1 - Z.of_nat (length l).
Proof.
  revert prev; induction l as [|s l IH]; intros prev; cbn [row_go length].
  - unfold sumZ; simpl; lia.
  - change (sumZ ((s - prev - 1) :: row_go P s l)) with (s - prev - 1 + sumZ (row_go P s l)).
    rewrite IH. lia.
Qed.

(* chain prev < s0 < s1 < ... with s_r <= P - (|l| - r) *)
Fixpoint wf (prev : Z) (l : list Z) : Prop :=
  match l with
  | [] => prev <= P - 1
  | s :: l' => prev < s /\ s <= P - Z.of_nat (length l) /\ wf s l'
  end.

Lemma wf_prev_bound prev l : wf prev l -> prev <= P - 1 - Z.of_nat (length l).
Proof.
  revert prev; induction l as [|s l IH]; intros prev H; cbn [wf length] in *; [lia|].
  destruct H as [H1 [H2 H3]]. specialize (IH _ H3). lia.
Qed.

Lemma row_go_nonneg prev l : wf prev l -> Forall (fun x => 0 <= x) (row_go P prev l).
Proof.
  revert prev; induction l as [|s l IH]; intros prev H; cbn [wf row_go] in *.
  - constructor; [lia | constructor].
  - destruct H as [H1 [H2 H3]]. constructor; [lia | now apply IH].
Qed.

(* ---- the index of a row in closed form (combinatorial number system) ---- *)
Fixpoint S_of (l : list Z) : Z :=
  match l with
  | [] => 0
  | s :: l' => comb (P - 1 - s) (Z.of_nat (length l)) + S_of l'
  end.

Lemma S_of_nonneg l : 0 <= S_of l.
Proof. induction l as [|s l IH]; cbn [S_of]; [lia|]. pose proof (comb_nonneg (P - 1 - s) (Z.of_nat (length (s :: l)))). lia. Qed.

Lemma comb_x_1 x : 0 <= x -> comb x 1 = x.
Proof.
  intros H. pose proof (comb_nat (Z.to_nat x) 1) as E.
  assert (G : forall m, binom m 1 = Z.of_nat m).
  { induction m as [|m IHm]; [reflexivity|]. rewrite binom_S_S, binom_n_0, IHm. lia. }
  rewrite G in E. rewrite Z2Nat.id in E by lia. exact E.
Qed.

Lemma index_row_go prev l : wf prev l ->
  fock_index (row_go P prev l) = comb (P - 1 - prev) (Z.of_nat (length l) + 1) + S_of l.
Proof.
  revert prev; induction l as [|s l IH]; intros prev H; cbn [wf row_go S_of length] in *.
  - rewrite fock_index_cons, fock_index_nil. unfold sumZ. cbn [fold_right length].
    cbn [Z.of_nat Z.add]. rewrite !Z.add_0_r. f_equal. lia.
  - destruct H as [H1 [H2 H3]].
    rewrite fock_index_cons, IH by exact H3.
    rewrite row_go_sum, row_go_length.
    replace (s - prev - 1 + (P - s - 1 - Z.of_nat (length l)) + Z.of_nat (S (length l)))
      with (P - 1 - prev) by lia.
    replace (Z.of_nat (length l) + 1) with (Z.of_nat (S (length l))) by lia.
    lia.
Qed.

Lemma sub_index_row seps : wf (-1) seps -> seps <> [] ->
  fock_subspace_index (row_of_separators P seps) = S_of seps.
Proof.
  intros H Hne. destruct seps as [|s l]; [contradiction|].
  unfold fock_subspace_index, row_of_separators. cbn [row_go tl S_of].
  cbn [wf] in H. destruct H as [_ [_ H3]].
  rewrite index_row_go by exact H3. f_equal. f_equal. cbn [length]. lia.
Qed.

(* ---- the hockey-stick identity behind one step of the walk ---- *)
Fixpoint H (a : Z) (k : nat) : Z :=
  match k with
  | O => 0
  | S k' => comb (a - 1) (Z.of_nat k) + H (a - 1) k'
  end.

Lemma comb_pascalZ d n : 1 <= d -> 1 <= n -> comb d n = comb (d - 1) (n - 1) + comb (d - 1) n.
Proof.
  intros Hd Hn.
  pose proof (binom_S_S (Z.to_nat (d - 1)) (Z.to_nat (n - 1))) as E.
  rewrite <- !comb_nat in E.
  replace (Z.of_nat (S (Z.to_nat (d - 1)))) with d in E by lia.
  replace (Z.of_nat (S (Z.to_nat (n - 1)))) with n in E by lia.
  replace (Z.of_nat (Z.to_nat (d - 1))) with (d - 1) in E by lia.
  replace (Z.of_nat (Z.to_nat (n - 1))) with (n - 1) in E by lia.
  exact E.
Qed.

Lemma comb_a_0 a : 0 <= a -> comb a 0 = 1.
Proof.
  intros. pose proof (comb_nat (Z.to_nat a) 0) as E. rewrite binom_n_0 in E.
  rewrite Z2Nat.id in E by lia. exact E.
Qed.

Lemma H_spec k : forall a, Z.of_nat k <= a -> H a k = comb a (Z.of_nat k) - 1.
Proof.
  induction k as [|k IH]; intros a Ha; cbn [H].
  - rewrite comb_a_0 by lia. reflexivity.
  - rewrite IH by lia. rewrite (comb_pascalZ a (Z.of_nat (S k))) by lia.
    replace (Z.of_nat (S k) - 1) with (Z.of_nat k) by lia. lia.
Qed.

(* S_of of a run of consecutive separators s+1, s+2, ... *)
Lemma S_of_consecutive k : forall s,
  S_of (map (fun j => s + 1 + Z.of_nat j) (seq 0 k)) = H (P - 1 - s) k.
Proof.
  induction k as [|k IH]; intros s; [reflexivity|].
  cbn [seq map S_of H length]. rewrite map_length, seq_length.
  rewrite <- seq_shift, map_map.
  replace (map (fun x => s + 1 + Z.of_nat (S x)) (seq 0 k))
    with (map (fun j => (s + 1) + 1 + Z.of_nat j) (seq 0 k))
    by (apply map_ext; intros; lia).
  rewrite IH. f_equal; [f_equal; lia | f_equal; lia].
Qed.

(* ---- next_seps ---- *)
Variable boxes : Z.

Lemma next_seps_cons i s rest :
  next_seps P boxes i (s :: rest) =
  match next_seps P boxes (i + 1) rest with
  | Some r => Some (s :: r)
  | None => if s =? P - (boxes - 1 - i) then None
            else Some (map (fun j => s + 1 + Z.of_nat j) (seq 0 (S (length rest))))
  end.
Proof. reflexivity. Qed.

Lemma next_seps_length l : forall i l', next_seps P boxes i l = Some l' -> length l' = length l.
Proof.
  induction l as [|s l IH]; intros i l' Hn; [discriminate|]. rewrite next_seps_cons in Hn.
  destruct (next_seps P boxes (i + 1) l) as [r|] eqn:E.
  - inversion Hn; subst. cbn [length]. f_equal. eapply IH; eauto.
  - destruct (s =? P - (boxes - 1 - i)); [discriminate|].
    set (run := map (fun j => s + 1 + Z.of_nat j) (seq 0 (S (length l)))) in Hn.
    injection Hn as <-. unfold run.
    rewrite map_length, seq_length. reflexivity.
Qed.

(* all at maximum -> index 0 *)
Lemma next_seps_none l : forall i prev, boxes - 1 - i = Z.of_nat (length l) -> wf prev l ->
  next_seps P boxes i l = None -> S_of l = 0.
Proof.
  induction l as [|s l IH]; intros i prev Hi Hwf Hn; [reflexivity|].
  rewrite next_seps_cons in Hn. cbn [wf] in Hwf. destruct Hwf as [H1 [H2 H3]].
  destruct (next_seps P boxes (i + 1) l) as [r|] eqn:E; [discriminate|].
  destruct (s =? P - (boxes - 1 - i)) eqn:Es; [|discriminate].
  cbn [S_of]. rewrite (IH (i + 1) s) by (try assumption; cbn [length] in Hi; lia).
  assert (Hs : s = P - Z.of_nat (length (s :: l))) by lia.
  rewrite Hs at 1.
  replace (P - 1 - (P - Z.of_nat (length (s :: l)))) with (Z.of_nat (length l)) by (cbn [length]; lia).
  rewrite comb_nat. rewrite binom_gt by (cbn [length]; lia). reflexivity.
Qed.

Lemma next_seps_step l : forall i prev l', boxes - 1 - i = Z.of_nat (length l) -> wf prev l ->
  next_seps P boxes i l = Some l' -> wf prev l' /\ S_of l' = S_of l - 1.
Proof.
  induction l as [|s l IH]; intros i prev l' Hi Hwf Hn; [discriminate|].
  rewrite next_seps_cons in Hn. cbn [wf] in Hwf. destruct Hwf as [H1 [H2 H3]].
  assert (Hi' : boxes - 1 - (i + 1) = Z.of_nat (length l)) by (cbn [length] in Hi; lia).
  destruct (next_seps P boxes (i + 1) l) as [r|] eqn:E.
  - inversion Hn; subst. destruct (IH _ _ _ Hi' H3 E) as [Hw Hs].
    pose proof (next_seps_length _ _ _ E) as Hl.
    split.
    + cbn [wf]. repeat split; [exact H1 | cbn [length] in *; lia | exact Hw].
    + cbn [S_of length]. rewrite Hl, Hs. lia.
  - destruct (s =? P - (boxes - 1 - i)) eqn:Es; [discriminate|].
    set (run := map (fun j => s + 1 + Z.of_nat j) (seq 0 (S (length l)))) in Hn.
    injection Hn as <-. unfold run. clear run.
    assert (Hlt : s < P - Z.of_nat (length (s :: l))) by lia.
    pose proof (next_seps_none _ _ _ Hi' H3 E) as Hz.
    split.
    + (* consecutive run from s+1 is well-formed *)
      clear -H1 Hlt. cbn [length] in Hlt.
      assert (G : forall k p q, p < q -> q + Z.of_nat k <= P - 0 ->
                wf p (map (fun j => q + Z.of_nat j) (seq 0 k)) ).
      { induction k as [|k IHk]; intros p q Hpq Hq; cbn [seq map wf length]; [lia|].
        rewrite map_length, seq_length. repeat split; [lia | lia |].
        rewrite <- seq_shift, map_map.
        replace (map (fun x => q + Z.of_nat (S x)) (seq 0 k))
          with (map (fun j => (q + 1) + Z.of_nat j) (seq 0 k)) by (apply map_ext; intros; lia).
        apply IHk; lia. }
      replace (map (fun j => s + 1 + Z.of_nat j) (seq 0 (S (length l))))
        with (map (fun j => (s + 1) + Z.of_nat j) (seq 0 (S (length l)))) by reflexivity.
      apply G; lia.
    + rewrite S_of_consecutive. cbn [S_of]. rewrite Hz.
      rewrite H_spec by (cbn [length] in *; lia). cbn [length]. lia.
Qed.

End Walk.

(* ---- position of a valid vector in its sector ---- *)
Lemma sub_index_enum d n :
  map fock_subspace_index (sector (S d) n) = map Z.of_nat (seq 0 (length (sector (S d) n))).
Proof.
  rewrite sector_S_basis, map_length, map_map. rewrite <- index_enum.
  apply map_ext. intros t. reflexivity.
Qed.

Lemma nth_sub_index d n v : valid (S d) (Z.of_nat n) v ->
  exists i, (i < length (sector (S d) n))%nat /\ nth i (sector (S d) n) [] = v /\
            fock_subspace_index v = Z.of_nat i.
Proof.
  intros Hv. pose proof (sector_complete _ _ _ Hv) as Hin.
  destruct (In_nth _ _ [] Hin) as [i [Hi Hn]]. exists i. repeat split; try assumption.
  pose proof (sub_index_enum d n) as E.
  apply (f_equal (fun l => nth i l 0)) in E.
  rewrite (nth_indep _ 0 (fock_subspace_index [])) in E by (now rewrite map_length).
  rewrite map_nth, Hn in E. rewrite E.
  rewrite (nth_indep _ 0 (Z.of_nat 0)) by (now rewrite map_length, seq_length).
  rewrite map_nth, seq_nth by assumption. reflexivity.
Qed.

Lemma skipn_nth_cons {A} (l : list A) d : forall f, (f < length l)%nat ->
  nth f l d :: skipn (S f) l = skipn f l.
Proof.
  induction l as [|a l IH]; intros f Hf; [simpl in Hf; lia|].
  destruct f as [|f]; [reflexivity|]. cbn [nth skipn]. apply IH. simpl in Hf. lia.
Qed.

(* ---- the walk ---- *)
Lemma partitions_rows_spec (b n : nat) (P : Z) :
  P = Z.of_nat n + Z.of_nat (S b) - 1 ->
  forall fuel seps acc,
  length seps = b -> wf P (-1) seps ->
  (b = 0%nat -> fuel = 1%nat) ->
  (b <> 0%nat -> S_of P seps = Z.of_nat fuel - 1) ->
  (fuel <= length (sector (S b) n))%nat ->
  acc = skipn fuel (sector (S b) n) ->
  (1 <= fuel)%nat ->
  partitions_rows fuel P (Z.of_nat (S b)) seps acc = sector (S b) n.
Proof.
  intros HP.
  induction fuel as [|f IH]; intros seps acc Hlen Hwf Hb0 HS Hfl Hacc Hf1; [lia|].
  cbn [partitions_rows].
  (* the row just written is the f-th vector of the sector *)
  assert (Hv : valid (S b) (Z.of_nat n) (row_of_separators P seps)).
  { unfold row_of_separators. repeat split.
    - rewrite row_go_length. now rewrite Hlen.
    - rewrite row_go_sum. rewrite Hlen. lia.
    - now apply row_go_nonneg. }
  destruct (nth_sub_index _ _ _ Hv) as [i [Hi [Hnth Hidx]]].
  assert (Hif : i = f).
  { destruct b as [|b].
    - (* one box: the sector has a single vector *)
      specialize (Hb0 eq_refl).
      assert (length (sector 1 n) = 1%nat).
      { pose proof (sector_length 0 n) as E. rewrite binom_n_0 in E. lia. }
      lia.
    - assert (Hne : seps <> []) by (destruct seps; [discriminate | discriminate]).
      rewrite sub_index_row in Hidx by assumption.
      rewrite HS in Hidx by discriminate. lia. }
  subst i.
  assert (Hacc' : row_of_separators P seps :: acc = skipn f (sector (S b) n)).
  { rewrite Hacc, <- Hnth. apply skipn_nth_cons. exact Hi. }
  destruct (next_seps P (Z.of_nat (S b)) 0 seps) as [seps'|] eqn:En.
  - destruct f as [|f].
    + cbn [partitions_rows]. rewrite Hacc'. reflexivity.
    + assert (Hbne : b <> 0%nat).
      { intros ->. specialize (Hb0 eq_refl). lia. }
      destruct (next_seps_step P (Z.of_nat (S b)) seps 0 (-1) seps') as [Hw' Hs']; try assumption.
      { rewrite Hlen. lia. }
      apply IH.
      * rewrite (next_seps_length _ _ _ _ _ En). exact Hlen.
      * exact Hw'.
      * intros Hb. contradiction.
      * intros _. rewrite Hs'. rewrite (HS Hbne). lia.
      * lia.
      * exact Hacc'.
      * lia.
  - destruct f as [|f]; [rewrite Hacc'; reflexivity|].
    exfalso.
    destruct (Nat.eq_dec b 0) as [Hb|Hb]; [specialize (Hb0 Hb); lia|].
    pose proof (next_seps_none P (Z.of_nat (S b)) seps 0 (-1)) as Hz.
    rewrite Hz in HS; try assumption; [specialize (HS Hb); lia | rewrite Hlen; lia].
Qed.

Lemma wf_initial P b : Z.of_nat b <= P ->
  wf P (-1) (map Z.of_nat (seq 0 b)).
Proof.
  intros HP.
  assert (G : forall k s, Z.of_nat s + Z.of_nat k <= P ->
            wf P (Z.of_nat s - 1) (map Z.of_nat (seq s k))).
  { induction k as [|k IHk]; intros s Hs; cbn [seq map wf length]; [lia|].
    rewrite map_length, seq_length. repeat split; [lia | lia |].
    replace (Z.of_nat s) with (Z.of_nat (S s) - 1) at 1 by lia. apply IHk. lia. }
  apply (G b 0%nat). lia.
Qed.

Lemma S_of_initial P b : Z.of_nat b <= P ->
  S_of P (map Z.of_nat (seq 0 b)) = comb P (Z.of_nat b) - 1.
Proof.
  intros HP.
  pose proof (S_of_consecutive P b (-1)) as E.
  replace (map (fun j => -1 + 1 + Z.of_nat j) (seq 0 b)) with (map Z.of_nat (seq 0 b)) in E
    by (apply map_ext; intros; lia).
  rewrite E. replace (P - 1 - -1) with P by lia. apply H_spec. exact HP.
Qed.

Theorem partitions_refines (b n : nat) : partitions (S b) n = sector (S b) n.
Proof.
  unfold partitions.
  set (P := Z.of_nat n + Z.of_nat (S b) - 1).
  assert (HP : Z.of_nat b <= P) by (unfold P; lia).
  assert (Hsize : comb P (Z.of_nat b) = Z.of_nat (length (sector (S b) n))).
  { rewrite sector_length. unfold P.
    replace (Z.of_nat n + Z.of_nat (S b) - 1) with (Z.of_nat (b + n)) by lia.
    apply comb_nat. }
  assert (Hpos : (1 <= length (sector (S b) n))%nat).
  { pose proof (sector_length b n) as E. pose proof (binom_pos (b + n) b ltac:(lia)). lia. }
  apply (partitions_rows_spec b n P eq_refl).
  - now rewrite map_length, seq_length.
  - now apply wf_initial.
  - intros ->. rewrite Hsize.
    pose proof (sector_length 0 n) as E. rewrite binom_n_0 in E. lia.
  - intros _. rewrite S_of_initial by exact HP. rewrite Hsize. lia.
  - rewrite Hsize. lia.
  - rewrite Hsize, Nat2Z.id. now rewrite skipn_all.
  - rewrite Hsize. lia.
Qed.

Corollary basis_iter_refines (d c : nat) : basis_iter (S d) c = basis (S d) c.
Proof.
  unfold basis_iter, basis. f_equal. apply map_ext. intros n. apply partitions_refines.
Qed.
