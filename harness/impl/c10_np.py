"""C10 oracle: values and Richardson-extrapolated central finite differences of the NumPy simulation."""
import json
import os
import sys

import numpy as np

sys.path.insert(0, os.path.dirname(os.path.abspath(__file__)))


def main():
    req = json.load(sys.stdin)
    import piquasso as pq
    import c10_circuits as cc

    conn = pq.NumpyConnector()
    res = []
    for case in req.get("e2e", []):
        spec, theta = case["spec"], np.asarray(case["theta"], dtype=np.float64)
        try:
            f = lambda th: np.real(np.asarray(cc.run(spec, th, conn, np))).astype(np.float64)  # noqa: E731
            val = f(theta)
            h = 1e-3
            cols, errs = [], []
            for k in range(len(theta)):
                e = np.zeros_like(theta)
                e[k] = 1.0
                d1 = (f(theta + h * e) - f(theta - h * e)) / (2 * h)
                d2 = (f(theta + h / 2 * e) - f(theta - h / 2 * e)) / h
                cols.append((4 * d2 - d1) / 3)
                errs.append(float(np.abs(d2 - d1).max()))
            res.append({"value": val.tolist(), "jac": np.array(cols).T.reshape(len(val), len(theta)).tolist(),
                        "fd_err": errs})
        except Exception as e:
            res.append({"error": "%s: %s" % (type(e).__name__, str(e)[:300])})
    print(json.dumps({"e2e": res, "repo": os.path.dirname(os.path.dirname(pq.__file__))}))


main()
