(* C07 — the generated gate blocks are unitary / symplectic for all real parameters, and the
   documented identities between gates.  Every proof is "compute the entries, close by nsatz/ring
   under the symbol hypotheses": none depends on the shape of the generated terms. *)
From Coq Require Import List Reals Nsatz Psatz.
From PV Require Import C07.CxBase C07.RealOps C07.GatesGen C07.MomentsModel C07.GatesModel.
Import ListNotations.
Open Scope R_scope.


Definition env_R (theta phi int_ ext r s : R) : Env R :=
  mkEnv R (cos theta) (sin theta) (cos phi) (sin phi) (cos int_) (sin int_) (cos ext) (sin ext)
        (cosh r) (sinh r) s (/ 2) (/ sqrt 2).

(* what is known about the symbols *)
Definition wf (e : Env R) : Prop :=
  cos_theta e * cos_theta e + sin_theta e * sin_theta e = 1 /\
  cos_phi e * cos_phi e + sin_phi e * sin_phi e = 1 /\
  cos_int_ e * cos_int_ e + sin_int_ e * sin_int_ e = 1 /\
  cos_ext e * cos_ext e + sin_ext e * sin_ext e = 1 /\
  cosh_r e * cosh_r e - sinh_r e * sinh_r e = 1 /\
  2 * half e = 1 /\
  2 * (rt2i e * rt2i e) = 1.

Lemma cs1 : forall x, cos x * cos x + sin x * sin x = 1.
Proof. intros. generalize (sin2_cos2 x). unfold Rsqr. lra. Qed.

Lemma ch_sh : forall x, cosh x * cosh x - sinh x * sinh x = 1.
Proof.
  intros x. unfold cosh, sinh.
  assert (H : exp x * exp (- x) = 1).
  { rewrite <- exp_plus. replace (x + - x) with 0 by ring. apply exp_0. }
  set (a := exp x) in *. set (b := exp (- x)) in *. clearbody a b.
  replace ((a + b) / 2 * ((a + b) / 2) - (a - b) / 2 * ((a - b) / 2)) with (a * b) by field.
  exact H.
Qed.

Lemma rt2i_sq : 2 * (/ sqrt 2 * / sqrt 2) = 1.
Proof.
  assert (H : sqrt 2 * sqrt 2 = 2) by (apply sqrt_sqrt; lra).
  assert (H0 : sqrt 2 <> 0) by (intro E; rewrite E in H; lra).
  rewrite <- Rinv_mult. rewrite H. field.
Qed.

Lemma wf_env_R : forall theta phi int_ ext r s, wf (env_R theta phi int_ ext r s).
Proof.
  intros. unfold wf, env_R; cbn. repeat split; try apply cs1.
  - apply ch_sh.
  - field.
  - apply rt2i_sq.
Qed.

(* U U^dagger = I *)
Definition unitary (n : nat) (U : list (list (Cx R))) : Prop :=
  mmul RC n n n U (mtr RC n n (mcj RC n n U)) = mid RC n.
(* P P^dagger - A A^dagger = I  and  P A^T = A P^T *)
Definition symplectic (n : nat) (P Am : list (list (Cx R))) : Prop :=
  msub RC n n (mmul RC n n n P (mtr RC n n (mcj RC n n P)))
              (mmul RC n n n Am (mtr RC n n (mcj RC n n Am))) = mid RC n
  /\ mmul RC n n n P (mtr RC n n Am) = mmul RC n n n Am (mtr RC n n P).

Ltac split_eq :=
  repeat match goal with
         | |- (_ :: _) = (_ :: _) => apply f_equal2
         | |- (_, _) = (_, _) => apply f_equal2
         | |- @nil _ = @nil _ => reflexivity
         end.
Ltac cx_unfold :=
  unfold cadd, csub, cmul, copp, cconj, creal, cexpi, c0, c1, ci; cbn.
Ltac entries := cbn; split_eq; cx_unfold; split_eq; first [ring | nsatz].

Ltac gate_tac :=
  let e := fresh "e" in
  intros e (H1 & H2 & H3 & H4 & H5 & H6 & H7);
  destruct e; cbn in H1, H2, H3, H4, H5, H6, H7;
  unfold unitary, symplectic; try split; entries.

Section Symbolic.
  (* passive gates: unitary under the symbol hypotheses *)
  Lemma Beamsplitter_unitary : forall e, wf e -> unitary 2 (Beamsplitter_passive ROps e).
  Proof. gate_tac. Qed.
  Lemma Beamsplitter5050_unitary : forall e, wf e -> unitary 2 (Beamsplitter5050_passive ROps e).
  Proof. gate_tac. Qed.
  Lemma Phaseshifter_unitary : forall e, wf e -> unitary 1 (Phaseshifter_passive ROps e).
  Proof. gate_tac. Qed.
  Lemma MachZehnder_unitary : forall e, wf e -> unitary 2 (MachZehnder_passive ROps e).
  Proof. gate_tac. Qed.
  Lemma Fourier_unitary : forall e, wf e -> unitary 1 (Fourier_passive ROps e).
  Proof. gate_tac. Qed.

  (* active gates: symplectic under the symbol hypotheses *)
  Lemma Squeezing_symplectic : forall e, wf e ->
    symplectic 1 (Squeezing_passive ROps e) (Squeezing_active ROps e).
  Proof. gate_tac. Qed.
  Lemma QuadraticPhase_symplectic : forall e, wf e ->
    symplectic 1 (QuadraticPhase_passive ROps e) (QuadraticPhase_active ROps e).
  Proof. gate_tac. Qed.
  Lemma Squeezing2_symplectic : forall e, wf e ->
    symplectic 2 (Squeezing2_passive ROps e) (Squeezing2_active ROps e).
  Proof. gate_tac. Qed.
  Lemma ControlledX_symplectic : forall e, wf e ->
    symplectic 2 (ControlledX_passive ROps e) (ControlledX_active ROps e).
  Proof. gate_tac. Qed.
  Lemma ControlledZ_symplectic : forall e, wf e ->
    symplectic 2 (ControlledZ_passive ROps e) (ControlledZ_active ROps e).
  Proof. gate_tac. Qed.
End Symbolic.

(* ---- for all real parameters *)
Definition n_modes (g : gname) : nat :=
  match g with
  | Phaseshifter | Fourier | Squeezing | QuadraticPhase => 1
  | _ => 2
  end.

Theorem passive_unitary_real : forall g theta phi int_ ext r s,
  active_block ROps g (env_R theta phi int_ ext r s) = None ->
  unitary (n_modes g) (passive_block ROps g (env_R theta phi int_ ext r s)).
Proof.
  intros g theta phi int_ ext r s H. pose proof (wf_env_R theta phi int_ ext r s) as W.
  destruct g; simpl in H; try discriminate; simpl passive_block; simpl n_modes.
  - apply Beamsplitter_unitary; exact W.
  - apply Beamsplitter5050_unitary; exact W.
  - apply Phaseshifter_unitary; exact W.
  - apply MachZehnder_unitary; exact W.
  - apply Fourier_unitary; exact W.
Qed.

Theorem active_symplectic_real : forall g theta phi int_ ext r s Am,
  active_block ROps g (env_R theta phi int_ ext r s) = Some Am ->
  symplectic (n_modes g) (passive_block ROps g (env_R theta phi int_ ext r s)) Am.
Proof.
  intros g theta phi int_ ext r s Am H. pose proof (wf_env_R theta phi int_ ext r s) as W.
  destruct g; simpl in H; try discriminate; inversion H; subst; simpl passive_block; simpl n_modes.
  - apply Squeezing_symplectic; exact W.
  - apply QuadraticPhase_symplectic; exact W.
  - apply Squeezing2_symplectic; exact W.
  - apply ControlledX_symplectic; exact W.
  - apply ControlledZ_symplectic; exact W.
Qed.

(* ---- documented identities *)
Ltac proj_env :=
  cbv beta iota delta [cos_theta sin_theta cos_phi sin_phi cos_int_ sin_int_ cos_ext sin_ext
                       cosh_r sinh_r p_s half rt2i].

Lemma cosh_opp : forall x, cosh (- x) = cosh x.
Proof. intros. unfold cosh. rewrite Ropp_involutive. lra. Qed.
Lemma sinh_opp : forall x, sinh (- x) = - sinh x.
Proof. intros. unfold sinh. rewrite Ropp_involutive. lra. Qed.

(* Fourier "corresponds to the Phaseshifter gate with phi = pi/2" *)
Theorem fourier_is_phase_pi2 : forall theta int_ ext r s e,
  Fourier_passive ROps e = Phaseshifter_passive ROps (env_R theta (PI / 2) int_ ext r s).
Proof.
  intros. unfold Fourier_passive, Phaseshifter_passive, env_R. proj_env.
  rewrite cos_PI2, sin_PI2. reflexivity.
Qed.

(* Beamsplitter5050 "corresponds to Beamsplitter with theta = pi/4 and phi = 0" *)
Theorem bs5050_is_bs_pi4 : forall int_ ext r s e, rt2i e = / sqrt 2 ->
  Beamsplitter5050_passive ROps e = Beamsplitter_passive ROps (env_R (PI / 4) 0 int_ ext r s).
Proof.
  intros int_ ext r s e H. unfold Beamsplitter5050_passive, Beamsplitter_passive.
  rewrite H. unfold env_R. proj_env. rewrite cos_PI4, sin_PI4, cos_0, sin_0.
  assert (Hs : sqrt 2 * sqrt 2 = 2) by (apply sqrt_sqrt; lra).
  assert (Hn : sqrt 2 <> 0) by (intro E; rewrite E in Hs; lra).
  cbn. split_eq; cx_unfold; split_eq; field; exact Hn.
Qed.

Definition oplus1 (z : Cx R) : list (list (Cx R)) := [[z; c0 ROps]; [c0 ROps; c1 ROps]].
Definition mm2 := mmul RC 2 2 2.

(* MZ(int, ext) = B(pi/4, pi/2) (R(int) + 1) B(pi/4, pi/2) (R(ext) + 1), as matrices *)
Theorem mach_zehnder_decomposition : forall int_ ext theta phi r s,
  let e := env_R theta phi int_ ext r s in
  let B := Beamsplitter_passive ROps (env_R (PI / 4) (PI / 2) int_ ext r s) in
  MachZehnder_passive ROps e
  = mm2 (mm2 (mm2 B (oplus1 (cexpi (cos int_) (sin int_)))) B) (oplus1 (cexpi (cos ext) (sin ext))).
Proof.
  intros. unfold e, B, MachZehnder_passive, Beamsplitter_passive, env_R, mm2, oplus1. proj_env.
  rewrite cos_PI4, sin_PI4, cos_PI2, sin_PI2.
  assert (Hs : sqrt 2 * sqrt 2 = 2) by (apply sqrt_sqrt; lra).
  assert (Hn : sqrt 2 <> 0) by (intro E; rewrite E in Hs; lra).
  assert (Hq : 2 * ((1 / sqrt 2) * (1 / sqrt 2)) = 1).
  { replace ((1 / sqrt 2) * (1 / sqrt 2)) with (/ (sqrt 2 * sqrt 2)) by (field; exact Hn).
    rewrite Hs. field. }
  assert (Hh : 2 * / 2 = 1) by field.
  set (q := 1 / sqrt 2) in *. set (h := / 2) in *. clearbody q h.
  cbn. split_eq; cx_unfold; split_eq; first [ring | nsatz].
Qed.

(* composition of two Bogoliubov transformations (P1,A1) after (P2,A2):
   [[P1,A1],[conj A1,conj P1]] [[P2,A2],[conj A2,conj P2]] *)
Definition comp_P (n : nat) (P1 A1 P2 A2 : list (list (Cx R))) :=
  madd RC n n (mmul RC n n n P1 P2) (mmul RC n n n A1 (mcj RC n n A2)).
Definition comp_A (n : nat) (P1 A1 P2 A2 : list (list (Cx R))) :=
  madd RC n n (mmul RC n n n P1 A2) (mmul RC n n n A1 (mcj RC n n P2)).
Definition dsum (X Y : list (list (Cx R))) : list (list (Cx R)) :=
  [[get RC X 0 0; c0 ROps]; [c0 ROps; get RC Y 0 0]].
Definition zero2 : list (list (Cx R)) := [[c0 ROps; c0 ROps]; [c0 ROps; c0 ROps]].

(* S2(z) = B(pi/4, 0) [S(-z) x S(z)] B(-pi/4, 0) on the level of the (P, A) blocks; -z is r -> -r *)
Theorem squeezing2_decomposition : forall r phi theta int_ ext s,
  let e := env_R theta phi int_ ext r s in
  let em := env_R theta phi int_ ext (- r) s in
  let Bp := Beamsplitter_passive ROps (env_R (PI / 4) 0 int_ ext r s) in
  let Bm := Beamsplitter_passive ROps (env_R (- (PI / 4)) 0 int_ ext r s) in
  let SP := dsum (Squeezing_passive ROps em) (Squeezing_passive ROps e) in
  let SA := dsum (Squeezing_active ROps em) (Squeezing_active ROps e) in
  let P1 := comp_P 2 SP SA Bm zero2 in
  let A1 := comp_A 2 SP SA Bm zero2 in
  Squeezing2_passive ROps e = comp_P 2 Bp zero2 P1 A1 /\
  Squeezing2_active ROps e = comp_A 2 Bp zero2 P1 A1.
Proof.
  intros. unfold P1, A1, SP, SA, Bp, Bm, e, em, Squeezing2_passive, Squeezing2_active,
    Squeezing_passive, Squeezing_active, Beamsplitter_passive, env_R, comp_P, comp_A, dsum, zero2.
  proj_env.
  rewrite cos_neg, sin_neg, cosh_opp, sinh_opp, cos_PI4, sin_PI4, cos_0, sin_0.
  assert (Hs : sqrt 2 * sqrt 2 = 2) by (apply sqrt_sqrt; lra).
  assert (Hn : sqrt 2 <> 0) by (intro E; rewrite E in Hs; lra).
  assert (Hq : 2 * ((1 / sqrt 2) * (1 / sqrt 2)) = 1).
  { replace ((1 / sqrt 2) * (1 / sqrt 2)) with (/ (sqrt 2 * sqrt 2)) by (field; exact Hn).
    rewrite Hs. field. }
  set (q := 1 / sqrt 2) in *. clearbody q.
  cbn. split; split_eq; cx_unfold; split_eq; first [ring | nsatz].
Qed.

