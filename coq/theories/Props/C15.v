(* C15 — Matrix decompositions reconstruct their input.
   Only statements closed by [exact]; proofs live in C15/. *)
From Coq Require Import List Arith ZArith QArith Reals.
From PV Require Import C15.ClementsModel C15.MatProofs C15.ClementsProofs C15.ClementsNulling C15.ClementsSchedule C15.GlueProofs
                       C15.EulerModel C15.EulerGlue C15.AnglesProofs C15.ComplexInst.
Import ListNotations.
Local Open Scope rng_scope.

(* Every theorem below holds for every commutative ring with involution (A, O, L) — in
   particular the complex numbers — every dimension d, and every choice of the functions
   [angles] (= _get_angles as (cos, sin, exp i phi)) and [phase] (= exp(i angle z)) that
   satisfy the stated hypotheses. *)

(* an embedded beamsplitter with c^2+s^2 = 1, |e| = 1 on two distinct modes is unitary *)
Theorem C15_embedded_beamsplitter_unitary :
  forall (A : Type) (O : ROps A) (L : RLaws O) d (T : BS A),
  okbs d T -> unitary d (embed d T).
Proof. exact @embed_unitary. Qed.
Print Assumptions C15_embedded_beamsplitter_unitary.

(* the commute step: BS^-1 D = D' BS' on the embedded matrices *)
Theorem C15_commute_identity :
  forall (A : Type) (O : ROps A) (L : RLaws O) d (T : BS A) (phis : list A),
  okbs d T -> length phis = d ->
  nth (bs_j T) phis r0 * (nth (bs_j T) phis r0)^* = r1 ->
  let '(out, phis') := commute_step ([], phis) T in
  mmul d (madj d (embed d T)) (mdiag d phis) = mmul d (mdiag d phis') (prodl d out).
Proof. exact @commute_identity. Qed.
Print Assumptions C15_commute_identity.

(* recomposition: whatever rotation coefficients the nulling chose (any unit triples), if the
   residual matrix is diagonal with unit entries then inverse_clements(clements(U)) = U *)
Theorem C15_clements_recompose :
  forall (A : Type) (O : ROps A) (L : RLaws O)
         (angles : A -> A -> A * A * A) (phase : A -> A),
  (forall x y, let '(c, s, e) := angles x y in coef_ok c s e) ->
  (forall z, z * z^* = r1 -> phase z = z) ->
  forall d (U : mat A), wf d U ->
  is_diag_unit d (snd (eliminate angles d U)) ->
  inverse_clements d (clements angles phase d U) = U.
Proof. exact @clements_recompose. Qed.
Print Assumptions C15_clements_recompose.

(* nulling: if every (c, s, e) chosen by _get_angles satisfies its nulling equation
   e s x = c y (x the element to eliminate, y the other one; the branch x = 0 -> (0, 1, 1)
   satisfies it), the eliminated entries are zero and stay zero: the residual matrix is upper
   triangular — for every square matrix, unitary or not *)
Theorem C15_nulling_makes_triangular :
  forall (A : Type) (O : ROps A) (L : RLaws O) (angles : A -> A -> A * A * A),
  (forall x y, let '(c, s, e) := angles x y in coef_ok c s e) ->
  (forall x y, let '(c, s, e) := angles x y in e * s * x = c * y) ->
  forall d (U : mat A), wf d U -> lowz d 1 (snd (eliminate angles d U)).
Proof. exact @nulling_makes_triangular. Qed.
Print Assumptions C15_nulling_makes_triangular.

(* a unitary upper-triangular matrix is diagonal with unit entries (no positivity needed) *)
Theorem C15_unitary_triangular_is_diagonal :
  forall (A : Type) (O : ROps A) (L : RLaws O) d (R : mat A),
  mmul d (madj d R) R = mid d -> lowz d 1 R -> is_diag_unit d R.
Proof. exact @unitary_triangular_diag. Qed.
Print Assumptions C15_unitary_triangular_is_diagonal.

(* the Clements decomposition followed by its inverse reproduces every unitary, every d >= 0 *)
Theorem C15_clements_correct :
  forall (A : Type) (O : ROps A) (L : RLaws O)
         (angles : A -> A -> A * A * A) (phase : A -> A),
  (forall x y, let '(c, s, e) := angles x y in coef_ok c s e) ->
  (forall x y, let '(c, s, e) := angles x y in e * s * x = c * y) ->
  (forall z, z * z^* = r1 -> phase z = z) ->
  forall d (U : mat A), unitary d U ->
  inverse_clements d (clements angles phase d U) = U.
Proof. exact @clements_correct. Qed.
Print Assumptions C15_clements_correct.

(* ---- glue lemmas: hypotheses = contracts of svd / schur / sqrtm on their outputs, which the
   check evaluates numerically on the real outputs of every run *)
Theorem C15_takagi_glue :
  forall (A : Type) (O : ROps A) (L : RLaws O) d (M V S W Q : mat A),
  wf d V -> wf d S -> wf d W -> wf d Q ->
  mtr d M = M ->
  M = mmul d (mmul d V S) (madj d W) ->
  mmul d (madj d V) V = mid d ->
  mtr d S = S -> mconj d S = S ->
  mmul d Q S = mmul d S Q ->
  mmul d Q (madj d Q) = mid d ->
  mmul d Q Q = mmul d (mtr d V) W ->
  mmul d S (mtr d Q) = mmul d S Q ->
  let U := mmul d V (mconj d Q) in
  mmul d (mmul d U S) (mtr d U) = M /\ mmul d (madj d U) U = mmul d (mtr d Q) (mconj d Q).
Proof. exact @takagi_glue. Qed.
Print Assumptions C15_takagi_glue.

Theorem C15_takagi_glue_unitary :
  forall (A : Type) (O : ROps A) (L : RLaws O) d (V Q : mat A),
  wf d Q -> mmul d (madj d V) V = mid d -> mtr d Q = Q -> mmul d Q (madj d Q) = mid d ->
  let U := mmul d V (mconj d Q) in mmul d (madj d U) U = mid d.
Proof. exact @takagi_glue_unitary. Qed.
Print Assumptions C15_takagi_glue_unitary.

Theorem C15_williamson_glue :
  forall (A : Type) (O : ROps A) (L : RLaws O) d (M R Ri K T B G Dg Om : mat A),
  wf d R -> wf d K -> wf d T -> wf d Om ->
  mmul d R R = M -> mtr d R = R ->
  mmul d R Ri = mid d -> mmul d Ri R = mid d ->
  mmul d K (mtr d K) = mid d ->
  mmul d B (mtr d B) = mid d ->
  mmul d (mmul d Ri Om) Ri = mmul d (mmul d K T) (mtr d K) ->
  mmul d (mmul d (mtr d B) T) B = mmul d (mmul d G Om) G ->
  mtr d G = G ->
  mmul d (mmul d G Dg) G = mid d ->
  let S := mmul d (mmul d (mmul d R K) B) G in
  mmul d (mmul d S Dg) (mtr d S) = M /\ mmul d (mmul d S Om) (mtr d S) = Om.
Proof. exact @williamson_glue. Qed.
Print Assumptions C15_williamson_glue.

(* ---- schedule: the mode pairs of clements(U) do not depend on U nor on the rotation
   coefficients (so the structure of clements(identity) is the structure for every U); they are
   adjacent pairs (m, m+1) inside 0..d-1, there are d(d-1)/2 of them, and the phaseshifters sit
   on modes 0..d-1 *)
Theorem C15_clements_schedule :
  forall (A : Type) (O : ROps A) (angles : A -> A -> A * A * A) (phase : A -> A) d (U : mat A),
  modes_of (fst (clements angles phase d U)) = schedule d /\
  map (@ps_mode A) (snd (clements angles phase d U)) = seq 0 d.
Proof. exact @clements_schedule. Qed.
Print Assumptions C15_clements_schedule.

Theorem C15_schedule_adjacent : forall d, Forall (adjacent d) (schedule d).
Proof. exact schedule_adjacent. Qed.
Print Assumptions C15_schedule_adjacent.

Theorem C15_schedule_length : forall d, (2 * length (schedule d) = d * (d - 1))%nat.
Proof. exact schedule_length. Qed.
Print Assumptions C15_schedule_length.

(* ---- weight vector: round trip and length d^2, for any parameter type *)
Theorem C15_weights_roundtrip :
  forall (P : Type) (p0 : P) d (dec : WDec P),
  map (w_mode P) (snd dec) = seq 0 d ->
  from_weights P p0 (map (w_modes P) (fst dec)) d (to_weights P dec) = dec.
Proof. exact weights_roundtrip. Qed.
Print Assumptions C15_weights_roundtrip.

Theorem C15_weights_roundtrip_history :
  forall (P : Type) (p0 : P) d (decs : list (WDec P)),
  Forall (fun dec => map (w_mode P) (snd dec) = seq 0 d) decs ->
  map (fun dec => from_weights P p0 (map (w_modes P) (fst dec)) d (to_weights P dec)) decs = decs.
Proof. exact weights_roundtrip_history. Qed.
Print Assumptions C15_weights_roundtrip_history.

Theorem C15_weights_length :
  forall (P : Type) d (dec : WDec P),
  map (w_modes P) (fst dec) = schedule d -> map (w_mode P) (snd dec) = seq 0 d ->
  length (to_weights P dec) = (d * d)%nat.
Proof. exact weights_length. Qed.
Print Assumptions C15_weights_length.

(* ---- instruction list: Phaseshifter(phi) on the first mode then Beamsplitter(theta, 0), and
   the trailing phaseshifters, multiply to inverse_clements *)
Theorem C15_instructions_equiv :
  forall (A : Type) (O : ROps A) (L : RLaws O) d (bs : list (BS A)) (v : list A),
  Forall (okbs d) bs ->
  let dec : Decomposition A := (bs, map (fun m => mkPS m (nth m v r0)) (seq 0 d)) in
  instrs_matrix d (instructions_from_decomposition dec) = inverse_clements d dec.
Proof. exact @instructions_equiv. Qed.
Print Assumptions C15_instructions_equiv.

(* ---- euler: the three returned factors recompose both blocks of the complex-form symplectic
   matrix, given the contracts of polar / logm(exp) / takagi on their outputs *)
Theorem C15_euler_glue :
  forall (A : Type) (O : ROps A) (L : RLaws O) (fc fs : mat A -> mat A)
         d (P Aa Rp Ra Z U D u Ch Sh : mat A),
  wf d U -> wf d D -> wf d u -> wf d Ch -> wf d Sh ->
  P = mmul d Rp u -> Aa = mmul d Ra (mconj d u) ->
  mmul d (madj d u) u = mid d ->
  Rp = fc (mmul d Z (mconj d Z)) ->
  Ra = mopp d (mmul d (fs (mmul d Z (mconj d Z))) Z) ->
  Z = mmul d (mmul d U D) (mtr d U) ->
  mmul d (madj d U) U = mid d -> mmul d U (madj d U) = mid d ->
  mconj d D = D ->
  (forall X, fc (mmul d (mmul d U X) (madj d U)) = mmul d (mmul d U (fc X)) (madj d U)) ->
  (forall X, fs (mmul d (mmul d U X) (madj d U)) = mmul d (mmul d U (fs X)) (madj d U)) ->
  Ch = fc (mmul d D D) -> Sh = mmul d (fs (mmul d D D)) D ->
  let V := euler_first d U u in
  P = euler_passive_block d U Ch V /\ Aa = euler_active_block d U Sh V /\
  mmul d (madj d V) V = mid d.
Proof. exact @euler_glue. Qed.
Print Assumptions C15_euler_glue.

(* ---- the nulling equation derived: clements is correct as soon as division, the zero test,
   abs, exp(i angle) and (cos, sin)(arctan) satisfy their characterisations *)
Theorem C15_get_angles_null :
  forall (A : Type) (O : ROps A) (L : RLaws O)
         (rinv : A -> A) (is0 : A -> bool) (absf expangle : A -> A) (cs_of_tan : A -> A * A),
  (forall x, is0 x = true -> x = r0) ->
  (forall x, is0 x = false -> x * rinv x = r1) ->
  (forall r, r = absf r * expangle r) ->
  (forall r, let '(c, s) := cs_of_tan (absf r) in
             c^* = c /\ s^* = s /\ c * c + s * s = r1 /\ s = c * absf r) ->
  forall x y, let '(c, s, e) := get_angles rinv is0 absf expangle cs_of_tan x y in e * s * x = c * y.
Proof. exact @get_angles_null. Qed.
Print Assumptions C15_get_angles_null.

Theorem C15_clements_correct_trig :
  forall (A : Type) (O : ROps A) (L : RLaws O)
         (rinv : A -> A) (is0 : A -> bool) (absf expangle : A -> A) (cs_of_tan : A -> A * A),
  (forall x, is0 x = true -> x = r0) ->
  (forall x, is0 x = false -> x * rinv x = r1) ->
  (forall r, r = absf r * expangle r) ->
  (forall r, expangle r * (expangle r)^* = r1) ->
  (forall z, z * z^* = r1 -> absf z = r1) ->
  (forall r, let '(c, s) := cs_of_tan (absf r) in
             c^* = c /\ s^* = s /\ c * c + s * s = r1 /\ s = c * absf r) ->
  forall d (U : mat A), unitary d U ->
  inverse_clements d (clements (get_angles rinv is0 absf expangle cs_of_tan) (get_phase expangle) d U) = U.
Proof. exact @clements_correct_trig. Qed.
Print Assumptions C15_clements_correct_trig.

(* ---- complex numbers (pairs of reals): every complex unitary of every size *)
Theorem C15_clements_correct_complex :
  forall (angles : Cx -> Cx -> Cx * Cx * Cx) (phase : Cx -> Cx),
  (forall x y, let '(c, s, e) := angles x y in coef_ok c s e) ->
  (forall x y, let '(c, s, e) := angles x y in e * s * x = c * y) ->
  (forall z, z * z^* = r1 -> phase z = z) ->
  forall d (U : mat Cx), unitary d U ->
  inverse_clements d (clements angles phase d U) = U.
Proof. exact clements_correct_complex. Qed.
Print Assumptions C15_clements_correct_complex.

(* with the real sqrt, division and zero test of the standard library: no premise left but
   unitarity of U *)
Theorem C15_clements_correct_complex_concrete : forall d (U : mat Cx), unitary d U ->
  inverse_clements d
    (clements (get_angles cx_inv cx_is0 cx_abs cx_expangle cx_cs) (get_phase cx_expangle) d U) = U.
Proof. exact clements_correct_complex_concrete. Qed.
Print Assumptions C15_clements_correct_complex_concrete.

(* ---- non-vacuity: the model run at the Gaussian rationals on a 3-mode unitary built from
   Pythagorean rotations decomposes and recomposes exactly *)
Definition ex_dec : Decomposition Qi :=
  ([mkBS 0 1 (3#5,0) (4#5,0) (5#13, 12#13); mkBS 1 2 (5#13,0) (12#13,0) (0, 1);
    mkBS 0 1 (8#17,0) (15#17,0) (3#5, -(4#5))]%Q,
   [mkPS 0 (1,0); mkPS 1 (0,1); mkPS 2 (3#5,4#5)]%Q).
Example C15_example_roundtrip :
  let U := inverse_clements 3 ex_dec in
  qi_dec_ok (qi_clements 3 U) = true /\
  all2 (all2 qi_eqb) (inverse_clements 3 (qi_clements 3 U)) U = true /\
  map (fun T => (bs_i T, bs_j T)) (fst (qi_clements 3 U)) = [(0,1); (1,2); (0,1)]%nat.
Proof. vm_compute. repeat split. Qed.
Example C15_example_schedule_5 :
  schedule 5 = [(0,1); (2,3); (1,2); (0,1); (3,4); (2,3); (1,2); (0,1); (3,4); (2,3)]%nat.
Proof. reflexivity. Qed.
