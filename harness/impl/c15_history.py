"""Implementation side of C15 (multi-call histories): every decomposition entry point is
called several times in one process (same d, different inputs; then a different d; then the
first d again), ALL results are kept, and only after the last call each earlier result is
re-checked:
  * the call's input is unchanged byte-for-byte;
  * the call's result is unchanged byte-for-byte (snapshot taken right after the call);
  * the mutable objects/arrays of different results (and of the inputs) are distinct and share
    no memory;
  * the earlier result still reconstructs ITS input.
This is the 'the result is a function of the argument, no hidden shared state' half of
"reconstructs its input".  Deterministic for a given seed."""
import json
import sys
import time

import numpy as np

import piquasso as pq
from piquasso._math import decompositions as dc
from piquasso.decompositions import clements as cl
from piquasso.api.instruction import Instruction


# ------------------------------------------------------------------ snapshots / identity
def snap(x):
    """Canonical, hashable, byte-exact picture of a value."""
    if isinstance(x, np.ndarray):
        return ("nd", x.dtype.str, x.shape, x.tobytes())
    if isinstance(x, (np.generic, float, int, complex)):
        a = np.asarray(x)
        return ("sc", a.dtype.str, a.tobytes())
    if isinstance(x, cl.Decomposition):
        return ("Dec", snap(x.beamsplitters), snap(x.phaseshifters))
    if isinstance(x, cl.BS):
        return ("BS", tuple(int(m) for m in x.modes), snap(tuple(x.params)))
    if isinstance(x, cl.PS):
        return ("PS", int(x.mode), snap(x.phi))
    if isinstance(x, Instruction):
        return ("Ins", type(x).__name__, tuple(int(m) for m in x.modes),
                tuple((k, snap(v)) for k, v in sorted(x.params.items())))
    if isinstance(x, (list, tuple)):
        return (type(x).__name__,) + tuple(snap(y) for y in x)
    if x is None:
        return ("None",)
    return ("repr", repr(x))


def mutables(x, out=None):
    """All mutable objects reachable from a value (arrays, dataclass instances, lists)."""
    if out is None:
        out = []
    if isinstance(x, np.ndarray):
        out.append(x)
    elif isinstance(x, cl.Decomposition):
        out.append(x)
        mutables(x.beamsplitters, out)
        mutables(x.phaseshifters, out)
    elif isinstance(x, cl.BS):
        out.append(x)
        mutables(tuple(x.params), out)
    elif isinstance(x, cl.PS):
        out.append(x)
        mutables(x.phi, out)
    elif isinstance(x, Instruction):
        out.append(x)
        for v in x.params.values():
            mutables(v, out)
    elif isinstance(x, list):
        out.append(x)
        for y in x:
            mutables(y, out)
    elif isinstance(x, tuple):
        for y in x:
            mutables(y, out)
    return out


def aliased(a, b):
    """A mutable object of value a that is, or shares memory with, one of value b."""
    mb = mutables(b)
    ids = {id(o): o for o in mb}
    arrs = [o for o in mb if isinstance(o, np.ndarray) and o.size]
    for o in mutables(a):
        if id(o) in ids:
            return type(o).__name__
        if isinstance(o, np.ndarray) and o.size:
            for p in arrs:
                if np.shares_memory(o, p):
                    return "ndarray memory"
    return None


def first_diff(s1, s2, path="result"):
    if s1 == s2:
        return None
    if isinstance(s1, tuple) and isinstance(s2, tuple) and len(s1) == len(s2) and s1[:1] == s2[:1] \
            and s1[0] not in ("nd", "sc"):
        for i, (a, b) in enumerate(zip(s1, s2)):
            d = first_diff(a, b, "%s/%s[%d]" % (path, s1[0], i)) if isinstance(a, tuple) else (None if a == b else path)
            if d:
                return d
    return path


def mx(x):
    x = np.asarray(x)
    if x.size == 0:
        return 0.0
    v = float(np.max(np.abs(x)))
    return v if np.isfinite(v) else 1e300


def dag(x):
    return np.conj(x).T


# ------------------------------------------------------------------ inputs
def haar(rng, d):
    z = rng.normal(size=(d, d)) + 1j * rng.normal(size=(d, d))
    q, r = np.linalg.qr(z)
    return q * (np.diag(r) / np.abs(np.diag(r)))


def real_form(U):
    return np.block([[U.real, -U.imag], [U.imag, U.real]])


def passive(X):
    d = len(X)
    Z = np.zeros((d, d))
    return np.block([[X, Z], [Z, np.conj(X)]])


def squeeze(r):
    r = np.asarray(r, dtype=float)
    return np.block([[np.diag(np.cosh(r)), -np.diag(np.sinh(r))], [-np.diag(np.sinh(r)), np.diag(np.cosh(r))]])


def inputs_for(fn, rng, d, con):
    """(arguments tuple, description)"""
    if fn in ("clements", "get_weights_from_interferometer"):
        return (haar(rng, d),), "Haar unitary"
    if fn in ("inverse_clements", "instructions_from_decomposition", "get_weights_from_decomposition"):
        return (cl.clements(haar(rng, d), con),), "clements(Haar unitary)"
    if fn in ("get_decomposition_from_weights", "get_interferometer_from_weights"):
        return (cl.get_weights_from_interferometer(haar(rng, d), con),), "weights of a Haar unitary"
    if fn == "takagi":
        U = haar(rng, d)
        s = np.sort(rng.uniform(0.2, 2.0, size=d))[::-1]
        return (U @ np.diag(s) @ U.T,), "U diag(s) U^T"
    if fn == "williamson":
        S0 = real_form(haar(rng, d)) @ np.diag(np.concatenate([np.exp(-np.linspace(0.1, 0.7, d)), np.exp(np.linspace(0.1, 0.7, d))])) @ real_form(haar(rng, d))
        nu = rng.uniform(1.0, 4.0, size=d)
        return (S0 @ np.diag(np.concatenate([nu, nu])) @ S0.T,), "S0 diag(nu,nu) S0^T"
    if fn == "euler":
        return ((passive(haar(rng, d)) @ squeeze(rng.uniform(0.1, 1.0, size=d)) @ passive(haar(rng, d))),), "Pass(U1) Sq(r) Pass(U2)"
    if fn == "decompose_adjacency_matrix_into_circuit":
        B = rng.normal(size=(d, d))
        return (B + B.T, float(rng.uniform(0.3, 2.0))), "B+B^T real, random mean photon number"
    raise KeyError(fn)


def call(fn, args, d, con):
    if fn == "clements":
        return cl.clements(args[0], con)
    if fn == "inverse_clements":
        return cl.inverse_clements(args[0], con, np.complex128)
    if fn == "instructions_from_decomposition":
        return cl.instructions_from_decomposition(args[0])
    if fn == "get_weights_from_decomposition":
        return cl.get_weights_from_decomposition(args[0], d, con)
    if fn == "get_weights_from_interferometer":
        return cl.get_weights_from_interferometer(args[0], con)
    if fn == "get_decomposition_from_weights":
        return cl.get_decomposition_from_weights(args[0], d, con)
    if fn == "get_interferometer_from_weights":
        return cl.get_interferometer_from_weights(args[0], d, con, np.complex128)
    if fn == "takagi":
        return dc.takagi(args[0], con)
    if fn == "williamson":
        return dc.williamson(args[0], con)
    if fn == "euler":
        return dc.euler(args[0], con)
    if fn == "decompose_adjacency_matrix_into_circuit":
        return dc.decompose_adjacency_matrix_into_circuit(args[0], args[1], con)
    raise KeyError(fn)


def instr_product(ins, d, con):
    M = np.identity(d, dtype=np.complex128)
    config = pq.Config()
    for i in ins:
        E = np.identity(d, dtype=np.complex128)
        modes = list(i.modes)
        E[np.ix_(modes, modes)] = i._get_passive_block(con, config)
        M = E @ M
    return M


def recon(fn, args, res, d, con):
    """Reconstruction error of a (kept) result against ITS OWN argument."""
    if fn == "clements":
        return mx(cl.inverse_clements(res, con, np.complex128) - args[0])
    if fn == "inverse_clements":
        # the kept result must be what a fresh evaluation on the same argument gives, and unitary
        return max(mx(cl.inverse_clements(args[0], con, np.complex128) - res), mx(dag(res) @ res - np.identity(d)))
    if fn == "instructions_from_decomposition":
        return mx(instr_product(res, d, con) - cl.inverse_clements(args[0], con, np.complex128))
    if fn == "get_weights_from_decomposition":
        dec = args[0]
        ref = np.array([x for b in dec.beamsplitters for x in b.params] + [p.phi for p in dec.phaseshifters])
        return mx(res - ref)
    if fn == "get_weights_from_interferometer":
        return mx(cl.get_interferometer_from_weights(res, d, con, np.complex128) - args[0])
    if fn == "get_decomposition_from_weights":
        return mx(cl.get_weights_from_decomposition(res, d, con) - args[0])
    if fn == "get_interferometer_from_weights":
        return max(mx(cl.get_interferometer_from_weights(args[0], d, con, np.complex128) - res),
                   mx(dag(res) @ res - np.identity(d)))
    if fn == "takagi":
        s, U = res
        return max(mx(U @ np.diag(s) @ U.T - args[0]), mx(dag(U) @ U - np.identity(d)))
    if fn == "williamson":
        S, D = res
        return mx(S @ D @ S.T - args[0])
    if fn == "euler":
        U, D, V = res
        return mx(passive(U) @ squeeze(np.real(D)) @ passive(V) - args[0])
    if fn == "decompose_adjacency_matrix_into_circuit":
        r, U = res
        return max(abs(float(np.mean(np.sinh(np.real(r)) ** 2)) - args[1]), mx(dag(U) @ U - np.identity(d)))
    raise KeyError(fn)


FNS = ["clements", "inverse_clements", "instructions_from_decomposition", "get_weights_from_decomposition",
       "get_weights_from_interferometer", "get_decomposition_from_weights", "get_interferometer_from_weights",
       "takagi", "williamson", "euler", "decompose_adjacency_matrix_into_circuit"]


def to_json(x):
    if isinstance(x, np.ndarray):
        if np.iscomplexobj(x):
            return [to_json(y) for y in x] if x.ndim > 1 else [[float(z.real), float(z.imag)] for z in x]
        return x.tolist()
    if isinstance(x, cl.Decomposition):
        return {"bs": [[list(map(int, b.modes)), [float(p) for p in b.params]] for b in x.beamsplitters],
                "ps": [[int(p.mode), float(p.phi)] for p in x.phaseshifters]}
    if isinstance(x, (np.generic, float, int)):
        return float(x)
    return repr(x)


def run_history(fn, ds, seed, con):
    """ds: the sequence of dimensions of the calls, e.g. (3, 3, 3, 4, 3)."""
    rng = np.random.default_rng(seed)
    calls = []
    problems = []
    for k, d in enumerate(ds):
        args, desc = inputs_for(fn, rng, d, con)
        s_in = snap(args)
        res = call(fn, args, d, con)
        e0 = recon(fn, args, res, d, con)
        calls.append({"k": k, "d": d, "args": args, "desc": desc, "s_in": s_in, "res": res, "s_out": snap(res),
                      "err_at_call": e0})
    # ---- only now: re-check every call
    for c in calls:
        k, d = c["k"], c["d"]
        tol = 1e-8 * (1 + max(1.0, max((mx(a) for a in c["args"] if isinstance(a, np.ndarray)), default=1.0)))
        if snap(c["args"]) != c["s_in"]:
            problems.append({"kind": "input-modified", "call": k, "where": first_diff(c["s_in"], snap(c["args"]), "input")})
        if snap(c["res"]) != c["s_out"]:
            problems.append({"kind": "earlier-result-changed", "call": k,
                             "where": first_diff(c["s_out"], snap(c["res"]))})
        a = aliased(c["res"], c["args"])
        if a:
            problems.append({"kind": "result-aliases-its-input", "call": k, "what": a})
        for c2 in calls[k + 1:]:
            a = aliased(c["res"], c2["res"])
            if a:
                problems.append({"kind": "results-share-an-object", "call": k, "other_call": c2["k"], "what": a})
                break
        try:
            e1 = recon(fn, c["args"], c["res"], d, con)
        except Exception as ex:  # noqa
            e1 = 1e300
            problems.append({"kind": "exception-on-recheck", "call": k, "exc": repr(ex)})
        c["err_after"] = e1
        if not (e1 <= tol):
            problems.append({"kind": "earlier-result-no-longer-reconstructs", "call": k,
                             "err_at_call": c["err_at_call"], "err_after_later_calls": e1})
    rec = {"fn": fn, "ds": list(ds), "seed": seed, "n_calls": len(calls), "problems": problems,
           "errs": [[c["err_at_call"], c["err_after"]] for c in calls]}
    if problems:
        rec["history"] = [{"call": c["k"], "d": c["d"], "input": c["desc"],
                           "args": [to_json(a) for a in c["args"]] if c["d"] <= 3 else "rng default_rng(%d), call %d" % (seed, c["k"])}
                          for c in calls]
    return rec


def main():
    req = json.load(sys.stdin)
    t0 = time.time()
    seed = int(req.get("seed", 0))
    thorough = req.get("tier") == "thorough"
    con = pq.NumpyConnector()
    shapes = [(2, 2, 2), (3, 3, 3, 4, 3), (4, 4, 5, 4)]
    if thorough:
        shapes += [(5, 5, 5, 2, 5), (6, 6, 6), (1, 1, 2, 1), (3,) * 6]
    out = []
    for fn in FNS:
        if req.get("only") and fn not in req["only"]:
            continue
        for i, ds in enumerate(shapes):
            try:
                out.append(run_history(fn, ds, seed + 1000 * i + 17 * FNS.index(fn), con))
            except Exception as ex:  # noqa
                out.append({"fn": fn, "ds": list(ds), "seed": seed, "n_calls": 0, "errs": [],
                            "problems": [{"kind": "exception", "exc": repr(ex)}]})
    print(json.dumps({"histories": out, "wall_s": round(time.time() - t0, 2), "file": cl.__file__}))


main()
