(* C05 - Ryser's inclusion-exclusion formula equals the permanent by definition, for square
   matrices of EVERY size over any commutative ring.
   The signed sum over column subsets is written in its finite-difference form
     FS m j M c = sum over subsets S of the columns j .. j+m-1 of
                  (-1)^(m-|S|) prod_rows (c_row + sum_{k in S} M[row][k]),
   i.e. FS (m+1) j M c = FS m (j+1) M (c + column j) - FS m (j+1) M c. *)
From Coq Require Import List Arith Lia Ring Bool.
From PV Require Import C05.PassiveModel.
Import ListNotations.
Local Open Scope nat_scope.

Section RyserGeneral.
  Variable A : Type.
  Variables (a0 a1 : A) (aadd amul asub : A -> A -> A) (aopp : A -> A).
  Hypothesis Aring : ring_theory a0 a1 aadd amul asub aopp (@eq A).
  Add Ring AringG : Aring.
  Infix "+!" := aadd (at level 50, left associativity).
  Infix "*!" := amul (at level 40, left associativity).
  Infix "-!" := asub (at level 50, left associativity).
  Notation asum := (asum A a0 aadd).
  Notation aprod := (aprod A a1 amul).
  Notation vadd := (vadd A aadd).
  Notation "'col' j M" := (column A a0 M j) (at level 10, j at level 9, M at level 9).
  Notation perm := (perm A a0 a1 aadd amul).
  Notation perm_n := (perm_n A a0 a1 aadd amul).

  Fixpoint FS (m j : nat) (M : list (list A)) (c : list A) : A :=
    match m with
    | O => aprod c
    | S m' => FS m' (S j) M (vadd c (col j M)) -! FS m' (S j) M c
    end.

  Definition delc (jj : nat) (M : list (list A)) : list (list A) := map (drop_nth jj) M.

  (* ---------------------------------------------------------------- list facts *)
  Lemma nth_drop_nth : forall (jj j : nat) (r : list A),
    nth j (drop_nth jj r) a0 = nth (if j <? jj then j else S j) r a0.
  Proof.
    induction jj as [| jj IH]; intros j r.
    - destruct r as [| x r]; simpl; [destruct j; reflexivity | reflexivity].
    - destruct r as [| x r]; simpl.
      + destruct (j <? S jj); destruct j; reflexivity.
      + destruct j as [| j]; [reflexivity |]. simpl nth. rewrite IH.
        change (S j <? S jj) with (j <? jj). destruct (j <? jj); reflexivity.
  Qed.

  Lemma col_delc jj j M : col j (delc jj M) = col (if j <? jj then j else S j) M.
  Proof.
    unfold column, delc. rewrite map_map. apply map_ext. intros r. apply nth_drop_nth.
  Qed.

  Lemma vadd_length u v : length (vadd u v) = Nat.min (length u) (length v).
  Proof. unfold PassiveModel.vadd. now rewrite map_length, combine_length. Qed.

  Lemma col_length j M : length (col j M) = length M.
  Proof. unfold column. apply map_length. Qed.

  Lemma vadd_cons x u y v : vadd (x :: u) (y :: v) = (x +! y) :: vadd u v.
  Proof. reflexivity. Qed.

  Lemma vadd_swap : forall c u v, vadd (vadd c u) v = vadd (vadd c v) u.
  Proof.
    induction c as [| x c IH]; intros u v; [reflexivity |].
    destruct u as [| y u], v as [| z v]; try reflexivity.
    rewrite !vadd_cons. rewrite IH. f_equal. ring.
  Qed.

  Lemma asum_seq_S (f : nat -> A) n :
    asum (map f (seq 0 (S n))) = f 0 +! asum (map (fun i => f (S i)) (seq 0 n)).
  Proof. simpl. rewrite <- seq_shift, map_map. reflexivity. Qed.

  Lemma asum_sub (f g : nat -> A) l :
    asum (map f l) -! asum (map g l) = asum (map (fun i => f i -! g i) l).
  Proof. induction l as [| x l IH]; simpl; [ring | rewrite <- IH; ring]. Qed.

  Lemma asum_const0 (l : list nat) : asum (map (fun _ => a0) l) = a0.
  Proof. induction l as [| x l IH]; simpl; [reflexivity | rewrite IH; ring]. Qed.

  Lemma asum_ext (f g : nat -> A) l : (forall i, In i l -> f i = g i) -> asum (map f l) = asum (map g l).
  Proof. intros H. f_equal. apply map_ext_in. exact H. Qed.

  (* ---------------------------------------------------------------- deleting a column *)
  Lemma FS_delc_ge : forall m j jj M c, jj <= j -> FS m j (delc jj M) c = FS m (S j) M c.
  Proof.
    induction m as [| m IH]; intros j jj M c H; simpl; [reflexivity |].
    rewrite col_delc. destruct (Nat.ltb_spec j jj); [lia |].
    rewrite !IH by lia. reflexivity.
  Qed.

  (* ---------------------------------------------------------------- expansion along the first row *)
  Lemma FS_row : forall m j0 r M c0 c,
    FS m j0 (r :: M) (c0 :: c) =
    c0 *! FS m j0 M c +!
    asum (map (fun i => nth (j0 + i) r a0 *!
                        FS (pred m) j0 (delc (j0 + i) M) (vadd c (col (j0 + i) M))) (seq 0 m)).
  Proof.
    induction m as [| m IH]; intros j0 r M c0 c.
    - simpl. ring.
    - cbn [FS]. change (col j0 (r :: M)) with (nth j0 r a0 :: col j0 M).
      rewrite vadd_cons, !IH. rewrite asum_seq_S. cbn [pred]. rewrite Nat.add_0_r.
      rewrite (FS_delc_ge m j0 j0 M) by lia.
      (* the remaining terms, pairwise *)
      set (c' := vadd c (col j0 M)).
      assert (Hterms :
        asum (map (fun i => nth (S j0 + i) r a0 *!
                     FS (pred m) (S j0) (delc (S j0 + i) M) (vadd c' (col (S j0 + i) M))) (seq 0 m))
        -! asum (map (fun i => nth (S j0 + i) r a0 *!
                     FS (pred m) (S j0) (delc (S j0 + i) M) (vadd c (col (S j0 + i) M))) (seq 0 m))
        = asum (map (fun i => nth (j0 + S i) r a0 *!
                     FS m j0 (delc (j0 + S i) M) (vadd c (col (j0 + S i) M))) (seq 0 m))).
      { rewrite asum_sub. apply asum_ext. intros i Hi. apply in_seq in Hi.
        replace (j0 + S i) with (S j0 + i) by lia.
        destruct m as [| m']; [lia |]. cbn [pred FS].
        rewrite col_delc. destruct (Nat.ltb_spec j0 (S j0 + i)); [| lia].
        unfold c'. rewrite (vadd_swap c (col j0 M) (col (S j0 + i) M)). ring. }
      rewrite <- Hterms. ring.
  Qed.

  (* ---------------------------------------------------------------- too few rows *)
  Lemma FS_no_rows : forall m j, FS (S m) j [] [] = a0.
  Proof.
    induction m as [| m IH]; intros j.
    - cbn. ring.
    - change (FS (S (S m)) j [] [])
        with (FS (S m) (S j) [] (vadd [] (col j [])) -! FS (S m) (S j) [] []).
      change (vadd [] (col j [])) with (@nil A). rewrite !IH. ring.
  Qed.

  (* k rows, m columns:  k < m  ->  the signed sum vanishes;
                         k = m  ->  it does not depend on the constants *)
  Lemma FS_few_rows : forall k M c m j,
    length M = k -> length c = k ->
    (k < m -> FS m j M c = a0) /\
    (k = m -> FS m j M c = FS m j M (repeat a0 k)).
  Proof.
    induction k as [| k IH]; intros M c m j HM Hc.
    - destruct M; [| discriminate]. destruct c; [| discriminate]. split.
      + intros H. destruct m; [lia |]. apply FS_no_rows.
      + intros <-. reflexivity.
    - destruct M as [| r M]; [discriminate |]. destruct c as [| c0 c]; [discriminate |].
      injection HM as HM. injection Hc as Hc.
      assert (Hz : forall i c2, length c2 = k -> k < pred m -> FS (pred m) j (delc (j + i) M) c2 = a0).
      { intros i c2 Hc2 Hlt. apply (IH (delc (j + i) M) c2 (pred m) j); auto.
        unfold delc. now rewrite map_length. }
      assert (Hlen : forall i, length (vadd c (col (j + i) M)) = k).
      { intros i. rewrite vadd_length, col_length. lia. }
      split.
      + intros Hlt. rewrite FS_row.
        destruct (IH M c m j HM Hc) as [H0 _]. rewrite H0 by lia.
        rewrite (asum_ext _ (fun _ => a0)).
        * rewrite asum_const0. ring.
        * intros i _. rewrite Hz; [ring | apply Hlen | lia].
      + intros Hm. cbn [repeat]. rewrite !FS_row.
        destruct (IH M c m j HM Hc) as [H0 _]. rewrite H0 by lia.
        assert (Hr : length (repeat a0 k) = k) by apply repeat_length.
        destruct (IH M (repeat a0 k) m j HM Hr) as [H0' _]. rewrite H0' by lia.
        replace (c0 *! a0) with (a0 *! a0) by ring. f_equal.
        apply asum_ext. intros i _. f_equal.
        assert (HdM : length (delc (j + i) M) = k) by (unfold delc; now rewrite map_length).
        destruct (IH (delc (j + i) M) (vadd c (col (j + i) M)) (pred m) j HdM (Hlen i)) as [_ H1].
        rewrite H1 by lia.
        assert (Hlen' : length (vadd (repeat a0 k) (col (j + i) M)) = k).
        { rewrite vadd_length, col_length, repeat_length. lia. }
        destruct (IH (delc (j + i) M) (vadd (repeat a0 k) (col (j + i) M)) (pred m) j HdM Hlen') as [_ H2].
        rewrite H2 by lia. reflexivity.
  Qed.

  (* ---------------------------------------------------------------- Ryser = permanent *)
  Theorem ryser_formula_is_permanent : forall n (M : list (list A)),
    length M = n -> Forall (fun r => length r = n) M ->
    FS n 0 M (repeat a0 n) = perm M.
  Proof.
    induction n as [| n IH]; intros M HM Hsq.
    - destruct M; [| discriminate]. unfold PassiveModel.perm. simpl. reflexivity.
    - destruct M as [| r M]; [discriminate |]. injection HM as HM.
      inversion Hsq as [| ? ? Hr HsqM]; subst.
      cbn [repeat]. rewrite FS_row.
      destruct (FS_few_rows (length M) M (repeat a0 (length M)) (S (length M)) 0 eq_refl
                            (repeat_length _ _)) as [H0 _].
      rewrite H0 by lia.
      unfold PassiveModel.perm. cbn [length perm_n]. rewrite Hr.
      replace (a0 *! a0 +! asum (map (fun i => nth (0 + i) r a0 *!
                 FS (pred (S (length M))) 0 (delc (0 + i) M)
                    (vadd (repeat a0 (length M)) (col (0 + i) M))) (seq 0 (S (length M)))))
        with (asum (map (fun i => nth (0 + i) r a0 *!
                 FS (pred (S (length M))) 0 (delc (0 + i) M)
                    (vadd (repeat a0 (length M)) (col (0 + i) M))) (seq 0 (S (length M))))) by ring.
      apply asum_ext. intros i Hi. apply in_seq in Hi. cbn [pred Nat.add]. f_equal.
      assert (HdM : length (delc i M) = length M) by (unfold delc; now rewrite map_length).
      assert (Hlen : length (vadd (repeat a0 (length M)) (col i M)) = length M).
      { rewrite vadd_length, col_length, repeat_length. lia. }
      destruct (FS_few_rows (length M) (delc i M) _ (length M) 0 HdM Hlen) as [_ H1].
      rewrite H1 by reflexivity.
      assert (Hsqd : Forall (fun r' => length r' = length M) (delc i M)).
      { unfold delc. apply Forall_forall. intros r' Hr'. apply in_map_iff in Hr'.
        destruct Hr' as [r0 [<- Hr0]]. rewrite Forall_forall in HsqM. specialize (HsqM r0 Hr0).
        assert (Hdl : forall (jj : nat) (l : list A), jj < length l -> length (drop_nth jj l) = pred (length l)).
        { induction jj as [| jj IHj]; intros [| x l] Hl; simpl in *; try lia.
          rewrite IHj by lia. destruct l; simpl in *; lia. }
        rewrite Hdl by lia. rewrite HsqM. reflexivity. }
      rewrite (IH (delc i M) HdM Hsqd). unfold PassiveModel.perm. rewrite HdM. reflexivity.
  Qed.
End RyserGeneral.
