(* C02 — what the model of gaussian/simulation_steps.py:_get_generaldyne_samples hands to the
   normal sampler, entry by entry, for every number of modes and every list of measured modes in
   any order, over any number structure; and the number of entries of one sample. *)
From Coq Require Import ZArith List Bool Arith Lia.
From PV Require Import C02.DistModel C02.DyneModel.
Import ListNotations.
Local Open Scope nat_scope.

Lemma nth_map_lt : forall A B (g : A -> B) l i dA dB, i < length l ->
  nth i (map g l) dB = g (nth i l dA).
Proof.
  intros A B g l; induction l as [|x l IH]; intros [|i] dA dB H; simpl in *; try lia; auto.
  apply IH. lia.
Qed.

Lemma xpxp_indices_length : forall modes, length (xpxp_indices modes) = 2 * length modes.
Proof. induction modes as [|m r IH]; simpl; auto. rewrite IH. lia. Qed.

(* idx[2i] = 2 modes[i] (the x quadrature), idx[2i+1] = 2 modes[i] + 1 (the p quadrature),
   in the order in which the modes were given *)
Lemma xpxp_indices_nth : forall modes i, i < length modes ->
  nth (2 * i) (xpxp_indices modes) 0 = 2 * nth i modes 0 /\
  nth (2 * i + 1) (xpxp_indices modes) 0 = 2 * nth i modes 0 + 1.
Proof.
  induction modes as [|m r IH]; intros [|i] H; simpl in H; try lia.
  - simpl. split; lia.
  - replace (2 * S i) with (S (S (2 * i))) by lia. replace (S (S (2 * i)) + 1) with (S (S (2 * i + 1))) by lia.
    cbn [xpxp_indices flat_map app nth]. apply IH. lia.
Qed.

Section DyneSpec.
  Variable N : num.

  Theorem dyne_mean_arg_spec : forall (mu : list N) modes,
    length (dyne_mean_arg mu modes) = 2 * length modes /\
    forall a, a < 2 * length modes ->
      nth a (dyne_mean_arg mu modes) n0 = nth (nth a (xpxp_indices modes) 0) mu n0.
  Proof.
    intros mu modes. unfold dyne_mean_arg, sub_vec. split.
    - rewrite map_length. apply xpxp_indices_length.
    - intros a Ha. rewrite (nth_map_lt _ _ (fun i => nth i mu n0) (xpxp_indices modes) a 0 n0); [reflexivity|].
      rewrite xpxp_indices_length. exact Ha.
  Qed.

  Lemma sub_mat_entry : forall idx (M : list (list N)) a b, a < length idx -> b < length idx ->
    mget (sub_mat idx M) a b = mget M (nth a idx 0) (nth b idx 0).
  Proof.
    intros idx M a b Ha Hb. unfold mget at 1. unfold sub_mat.
    rewrite (nth_map_lt _ _ _ idx a 0 []) by exact Ha.
    rewrite (nth_map_lt _ _ _ idx b 0 n0) by exact Hb. reflexivity.
  Qed.

  Lemma block_diag_entry_spec : forall (sm : list (list N)) k a b, a < 2 * k -> b < 2 * k ->
    mget (block_diag sm k) a b = block_diag_entry sm a b.
  Proof.
    intros sm k a b Ha Hb. unfold mget at 1. unfold block_diag.
    rewrite (nth_map_lt _ _ _ (seq 0 (2 * k)) a 0 []) by (rewrite seq_length; exact Ha).
    rewrite (nth_map_lt _ _ _ (seq 0 (2 * k)) b 0 n0) by (rewrite seq_length; exact Hb).
    rewrite !seq_nth by assumption. reflexivity.
  Qed.

  Lemma row_length_sub_mat : forall idx (M : list (list N)) a, a < length idx ->
    length (nth a (sub_mat idx M) []) = length idx.
  Proof.
    intros. unfold sub_mat. rewrite (nth_map_lt _ _ _ idx a 0 []) by assumption. apply map_length.
  Qed.

  Lemma row_length_block_diag : forall (sm : list (list N)) k a, a < 2 * k ->
    length (nth a (block_diag sm k) []) = 2 * k.
  Proof.
    intros. unfold block_diag.
    rewrite (nth_map_lt _ _ _ (seq 0 (2 * k)) a 0 []) by (rewrite seq_length; assumption).
    rewrite map_length. apply seq_length.
  Qed.

  Lemma mat_map2_entry : forall (f : N -> N -> N) (A B : list (list N)) a b,
    a < length A -> length A = length B ->
    b < length (nth a A []) -> length (nth a A []) = length (nth a B []) ->
    mget (mat_map2 f A B) a b = f (mget A a b) (mget B a b).
  Proof.
    intros f A B a b Ha HAB Hb Hrow. unfold mget at 1. unfold mat_map2.
    rewrite (nth_map_lt _ _ _ (combine A B) a ([], []) []) by (rewrite combine_length; lia).
    rewrite combine_nth by exact HAB. cbn [fst snd].
    rewrite (nth_map_lt _ _ _ (combine (nth a A []) (nth a B [])) b (n0, n0) n0)
      by (rewrite combine_length; lia).
    rewrite combine_nth by exact Hrow. reflexivity.
  Qed.

  (* the covariance argument, entry by entry.  halved = true is the repaired code *)
  Theorem dyne_cov_arg_spec : forall halved (hbar : N) (sigma sm : list (list N)) modes,
    length (dyne_cov_arg halved hbar sigma sm modes) = 2 * length modes /\
    forall a b, a < 2 * length modes -> b < 2 * length modes ->
      mget (dyne_cov_arg halved hbar sigma sm modes) a b =
      let s := mget sigma (nth a (xpxp_indices modes) 0) (nth b (xpxp_indices modes) 0) in
      let m := block_diag_entry sm a b in
      if halved then ndiv (nadd s (nmul hbar m)) n2 else nadd s (nmul hbar m).
  Proof.
    intros halved hbar sigma sm modes.
    pose proof (xpxp_indices_length modes) as HL.
    assert (L1 : length (sub_mat (xpxp_indices modes) sigma) = 2 * length modes).
    { unfold sub_mat. rewrite map_length. exact HL. }
    assert (L2 : length (block_diag sm (length modes)) = 2 * length modes).
    { unfold block_diag. rewrite map_length. apply seq_length. }
    unfold dyne_cov_arg. split.
    - unfold mat_map2. rewrite map_length, combine_length, L1, L2. lia.
    - intros a b Ha Hb. rewrite mat_map2_entry.
      + rewrite sub_mat_entry by (rewrite HL; assumption).
        rewrite block_diag_entry_spec by assumption. reflexivity.
      + rewrite L1. exact Ha.
      + rewrite L1, L2. reflexivity.
      + rewrite row_length_sub_mat by (rewrite HL; assumption). rewrite HL. exact Hb.
      + rewrite row_length_sub_mat by (rewrite HL; assumption).
        rewrite row_length_block_diag by assumption. exact HL.
  Qed.

  (* when 2 is invertible: twice the (repaired) covariance argument is sigma[idx,idx] + hbar sigma_m *)
  Corollary dyne_cov_arg_doubled : forall (hbar : N) (sigma sm : list (list N)) modes,
    (forall x : N, nmul n2 (ndiv x n2) = x) ->
    forall a b, a < 2 * length modes -> b < 2 * length modes ->
      nmul n2 (mget (dyne_cov_arg true hbar sigma sm modes) a b) =
      nadd (mget sigma (nth a (xpxp_indices modes) 0) (nth b (xpxp_indices modes) 0))
           (nmul hbar (block_diag_entry sm a b)).
  Proof.
    intros hbar sigma sm modes H2 a b Ha Hb.
    destruct (dyne_cov_arg_spec true hbar sigma sm modes) as [_ Hs].
    rewrite (Hs a b Ha Hb). cbv zeta. apply H2.
  Qed.

  (* entries of one sample *)
  Theorem dyne_sample_entries_spec : forall (mu : list N) modes,
    dyne_sample_entries mu modes = 2 * length modes.
  Proof. intros. unfold dyne_sample_entries. apply dyne_mean_arg_spec. Qed.
End DyneSpec.

(* measured quantities: heterodyne and general-dyne measure both quadratures of every mode,
   homodyne measures one quadrature x_phi per mode *)
Inductive dyne_kind : Type := Generaldyne | Heterodyne | Homodyne.
Definition measured_quantities (kind : dyne_kind) (modes : list nat) : nat :=
  match kind with Homodyne => length modes | _ => 2 * length modes end.

(* one entry per measured quantity, outside the class of the open finding
   C02:homodyne_measurement:two-entries-per-mode *)
Theorem dyne_entries_except_homodyne_two_entries_per_mode :
  forall (N : num) kind (mu : list N) modes,
    kind <> Homodyne -> dyne_sample_entries mu modes = measured_quantities kind modes.
Proof.
  intros N kind mu modes H. rewrite dyne_sample_entries_spec. destruct kind; try reflexivity. congruence.
Qed.

(* the finding itself, as it stands in the model: a homodyne sample carries twice as many
   entries as measured quantities *)
Theorem homodyne_entries_refuted : forall (N : num) (mu : list N) modes, modes <> [] ->
  dyne_sample_entries mu modes <> measured_quantities Homodyne modes.
Proof.
  intros N mu modes H. rewrite dyne_sample_entries_spec. simpl. destruct modes; [congruence | simpl; lia].
Qed.
