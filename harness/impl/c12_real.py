"""C12, implementation side: the shipped simulators under fault injection, the matrix entry
points with assorted buffers, and the writers of the process-global `random` state."""
import hashlib
import random
import re
import warnings

import numpy as np

warnings.simplefilter("ignore")

import piquasso as pq  # noqa: E402
from piquasso.core import _expressions  # noqa: E402


class Injected(Exception):
    pass


class Ctl:
    """Counts the external calls of a run and raises at the chosen one."""

    def __init__(self):
        self.count = 0
        self.fault_at = None
        self.kinds = []

    def reset(self, fault_at):
        self.count = 0
        self.fault_at = fault_at
        self.kinds = []

    def tick(self, kind):
        k = self.count
        self.count += 1
        self.kinds.append(kind)
        if self.fault_at is not None and k == self.fault_at:
            raise Injected("%s call %d" % (kind, k))


CTL = Ctl()

LAMBDAS = {
    0: lambda x: 0.1 + 0.05 * float(sum(x)),
    1: lambda x: 0.3 * float(x[0]) if len(x) else 0.2,
    2: lambda x: 0.25,
}
COND_LAMBDAS = {
    0: lambda x: True,
    1: lambda x: float(x[0]) >= 1 if len(x) else True,
    2: lambda x: float(x[-1]) < 1 if len(x) else False,
}


class UserCallable:
    """The caller's callable: counts as an external call (fault position)."""

    def __init__(self, kind, f, label=""):
        self.kind = kind
        self.f = f
        self.label = "%s#%s" % (kind, label)

    def __call__(self, x):
        CTL.tick(self.kind)
        return self.f(x)

    def __deepcopy__(self, memo):
        return self


_orig_expr_call = _expressions.Expression.__call__


def _counted_expr_call(self, x=None):
    CTL.tick("expression")
    return _orig_expr_call(self, x)


def unitary(n, seed):
    r = np.random.default_rng(seed)
    m = r.normal(size=(n, n)) + 1j * r.normal(size=(n, n))
    q, _ = np.linalg.qr(m)
    return q


def make_param(p):
    tag, val = p
    if tag == 0:
        return float(val)
    if tag == 1:
        return str(val)
    if tag == 2:
        return _expressions.Expression(str(val))
    if tag == 3:
        return UserCallable("param", LAMBDAS[val], val)
    if tag == 4:
        return unitary(val[0], val[1])
    if tag == 5:
        return tuple(val)
    raise ValueError(tag)


def build(spec):
    instrs = []
    for isp in spec:
        cls = getattr(pq, isp["cls"])
        kwargs = {k: make_param(v) for k, v in isp["params"].items()}
        ins = cls(**kwargs)
        if isp["modes"]:
            ins = ins.on_modes(*isp["modes"])
        c = isp.get("cond")
        if c is not None:
            ins.when(c[1] if c[0] == 1 else UserCallable("condition", COND_LAMBDAS[c[1]], c[1]))
        instrs.append(ins)
    return pq.Program(instructions=instrs)


_IDS = {}


def _ident(obj):
    """A run-independent number for object identity (first-seen order)."""
    return _IDS.setdefault(id(obj), len(_IDS))


def pv(v):
    if isinstance(v, np.ndarray):
        return ["ndarray", str(v.dtype), list(v.shape), hashlib.sha1(np.ascontiguousarray(v).tobytes()).hexdigest()[:12]]
    if isinstance(v, str):
        return ["str", v]
    if isinstance(v, _expressions.Expression):
        return ["Expression", v._src]
    if isinstance(v, UserCallable):
        return ["callable", v.label, _ident(v)]
    if callable(v):
        return ["othercallable", type(v).__name__, _ident(v)]
    return [type(v).__name__, repr(v)]


def snap_prog(prog):
    out = []
    for i in prog.instructions:
        c = i.condition
        out.append([type(i).__name__, [int(m) for m in i.modes],
                    [[k, pv(v)] for k, v in i.params.items()],
                    None if c is None else pv(c)])
    return out


def snap_state(st):
    if st is None:
        return None
    out = []
    for k, v in sorted(st.__dict__.items()):
        if isinstance(v, np.ndarray):
            out.append([k] + pv(v))
        elif isinstance(v, pq.Config):
            out.append([k, snap_cfg(v)])
        elif isinstance(v, (int, float, complex, str, tuple, type(None))):
            out.append([k, repr(v)])
    return out


def snap_cfg(cfg):
    return sorted((k, repr(v)) for k, v in cfg.__dict__.items() if k != "rng")


SIMS = {
    "purefock": lambda: pq.PureFockSimulator,
    "sampling": lambda: pq.SamplingSimulator,
    "gaussian": lambda: pq.GaussianSimulator,
    "fock": lambda: pq.FockSimulator,
}
_WRAPPED = {}


def wrapped_sim_class(name):
    """The shipped simulator with every simulation step wrapped by a counter (fault position)."""
    if name in _WRAPPED:
        return _WRAPPED[name]
    base = SIMS[name]()
    orig_map = base._instruction_map

    def wrap(step):
        def w(state, instruction, shots):
            CTL.tick("step:" + type(instruction).__name__)
            return step(state, instruction, shots)
        return w

    if isinstance(orig_map, property):
        def imap(self, _g=orig_map.fget):
            return {k: wrap(v) for k, v in _g(self).items()}
        cls = type(base.__name__, (base,), {"_instruction_map": property(imap)})
    else:
        cls = type(base.__name__, (base,), {"_instruction_map": {k: wrap(v) for k, v in orig_map.items()}})
    _WRAPPED[name] = cls
    return cls


_VALIDATE_PATCHED = set()


def patch_validate(prog):
    for i in prog.instructions:
        c = type(i)
        if c in _VALIDATE_PATCHED:
            continue
        _VALIDATE_PATCHED.add(c)
        orig = c._validate

        def v(self, connector, _o=orig):
            CTL.tick("validate:" + type(self).__name__)
            return _o(self, connector)

        c._validate = v


def real_section(cases):
    _expressions.Expression.__call__ = _counted_expr_call
    out = []
    for case in cases:
        simcls = wrapped_sim_class(case["sim"])

        def one(fault_at, rerun):
            ucfg = pq.Config(seed_sequence=case["seed"], cutoff=case.get("cutoff"),
                             validate=case.get("validate", True))
            sim = simcls(d=case["d"], config=ucfg)
            init = None
            if case.get("prep"):
                CTL.reset(None)
                init = sim.execute(build(case["prep"])).state
            prog = build(case["prog"])
            patch_validate(prog)
            before = (snap_prog(prog), snap_state(init), snap_cfg(ucfg))
            rng_before = repr(ucfg.rng.bit_generator.state)
            rnd = random.getstate()
            CTL.reset(fault_at)
            rec = {"fault_at": fault_at}
            try:
                res = sim.execute(prog, shots=case["shots"], initial_state=init)
                rec["result"] = ["ok", [[repr(o) for o in b.outcome] for b in res.branches][:40]]
            except Exception as e:  # noqa: BLE001
                rec["result"] = ["raise", type(e).__name__, re.sub(r"0x[0-9a-f]+", "0x..", str(e))[:120]]
            rec["ncalls"] = CTL.count
            rec["kinds"] = list(CTL.kinds)
            after = (snap_prog(prog), snap_state(init), snap_cfg(ucfg))
            rec["prog_before"], rec["prog_after"] = before[0], after[0]
            rec["state_same"] = before[1] == after[1]
            rec["config_same"] = before[2] == after[2]
            rec["user_rng_advanced"] = rng_before != repr(ucfg.rng.bit_generator.state)
            rec["global_random_same"] = random.getstate() == rnd
            if rerun:
                # a second, fault-free execution on the same objects: compare the sequence of
                # external calls and the program afterwards with a fresh clean run
                CTL.reset(None)
                try:
                    sim.execute(prog, shots=case["shots"], initial_state=init)
                    rec["rerun"] = ["ok"]
                except Exception as e:  # noqa: BLE001
                    rec["rerun"] = ["raise", type(e).__name__, re.sub(r"0x[0-9a-f]+", "0x..", str(e))[:120]]
                rec["rerun_prog"] = snap_prog(prog)
            # the other entry points of the property on the same objects
            rnd2 = random.getstate()
            other = {}
            pb = snap_prog(prog)
            for name, f in (("validate", lambda: sim.validate(prog)), ("copy", lambda: prog.copy()),
                            ("to_blackbird_code", lambda: prog.to_blackbird_code()),
                            ("as_code", lambda: pq.as_code(prog, sim, shots=1))):
                if fault_at is not None:
                    break
                try:
                    f()
                    r = "ok"
                except Exception as e:  # noqa: BLE001
                    r = "raise " + type(e).__name__
                other[name] = [r, snap_prog(prog) == pb, random.getstate() == rnd2]
                rnd2 = random.getstate()
            rec["other"] = other
            return rec

        clean = one(None, False)
        runs = [clean]
        for k in range(clean["ncalls"]):
            runs.append(one(k, True))
        out.append({"runs": runs})
    return out


# ----------------------------------------------------------------------------- arrays
def variants(a):
    a = np.asarray(a)
    out = {"C": np.ascontiguousarray(a.copy()), "F": np.asfortranarray(a.copy())}
    big = np.zeros(tuple(2 * s for s in a.shape), dtype=a.dtype)
    big[tuple(slice(None, None, 2) for _ in a.shape)] = a
    out["strided"] = big[tuple(slice(None, None, 2) for _ in a.shape)]
    ro = np.ascontiguousarray(a.copy())
    ro.setflags(write=False)
    out["readonly"] = ro
    return out


def arrays_section(req):
    from piquasso._math.pfaffian import pfaffian
    from piquasso._math.permanent import permanent, permanent_laplace
    from piquasso._math.torontonian import torontonian, loop_torontonian
    from piquasso._math.hafnian import (hafnian_with_reduction, loop_hafnian_with_reduction)
    from piquasso._math.decompositions import takagi, williamson
    from piquasso.decompositions.clements import clements

    conn = pq.NumpyConnector()
    out = []
    for t in req["tests"]:
        n = t["n"]
        r = np.random.default_rng(t["seed"])
        ints = np.array(t["ints"], dtype=float).reshape(n, n) if "ints" in t else r.integers(-4, 5, size=(n, n)).astype(float)
        skew = ints - ints.T
        cplx = r.normal(size=(n, n)) + 1j * r.normal(size=(n, n))
        sym = cplx + cplx.T
        g = r.normal(size=(n, n))
        spd = g @ g.T
        spd = spd / (np.linalg.norm(spd, 2) * 1.5)
        occ = r.integers(0, 3, size=n).astype(np.int32)
        vec = r.normal(size=n)
        u = unitary(n, t["seed"])
        ev = 1.0 + np.arange(1, 2 * ((n + 1) // 2) + 1, dtype=float)
        gg = r.normal(size=(len(ev), len(ev)))
        posdef = gg @ np.diag(ev) @ gg.T + np.eye(len(ev))
        calls = [
            ("piquasso._math.pfaffian.pfaffian", pfaffian, [skew]),
            ("piquasso._math.pfaffian.pfaffian[float32]", pfaffian, [skew.astype(np.float32)]),
            ("connector.pfaffian", conn.pfaffian, [skew]),
            ("connector.permanent", conn.permanent, [cplx, occ, occ]),
            ("connector.permanent_laplace", conn.permanent_laplace, [cplx, occ, occ]),
            ("piquasso._math.permanent.permanent", permanent, [cplx, occ, occ]),
            ("piquasso._math.permanent.permanent_laplace", permanent_laplace, [cplx, occ, occ]),
            ("piquasso._math.torontonian.torontonian", torontonian, [spd]),
            ("piquasso._math.torontonian.loop_torontonian", loop_torontonian, [spd, vec]),
            ("connector.hafnian", conn.hafnian, [sym, occ.astype(np.int64)]),
            ("connector.loop_hafnian", conn.loop_hafnian, [sym, vec + 0j, occ.astype(np.int64)]),
            ("hafnian_with_reduction", hafnian_with_reduction, [sym, occ.astype(np.int64)]),
            ("loop_hafnian_with_reduction", loop_hafnian_with_reduction, [sym, vec + 0j, occ.astype(np.int64)]),
            ("connector.sqrtm", conn.sqrtm, [spd]),
            ("connector.logm", conn.logm, [spd + np.eye(n)]),
            ("connector.expm", conn.expm, [g]),
            ("connector.polar", conn.polar, [g]),
            ("connector.svd", conn.svd, [g]),
            ("connector.schur", conn.schur, [g]),
            ("connector.powm", conn.powm, [g, 2]),
            ("connector.block_diag", conn.block_diag, [g, g]),
            ("takagi", lambda m: takagi(m, conn), [sym]),
            ("williamson", lambda m: williamson(m, conn), [posdef]),
            ("clements", lambda m: clements(m, conn), [u]),
        ]
        for name, f, args in calls:
            for vname in ("C", "F", "strided", "readonly"):
                vs = [variants(a)[vname] if isinstance(a, np.ndarray) else a for a in args]
                before = [v.tobytes() if isinstance(v, np.ndarray) else None for v in vs]
                try:
                    val = f(*vs)
                    err = None
                except Exception as e:  # noqa: BLE001
                    val = None
                    err = type(e).__name__
                after = [v.tobytes() if isinstance(v, np.ndarray) else None for v in vs]
                rec = {"call": name, "layout": vname, "n": n, "seed": t["seed"], "same": before == after, "error": err}
                if name.startswith("piquasso._math.pfaffian.pfaffian") or name == "connector.pfaffian":
                    rec["input"] = skew.tolist()
                    rec["after"] = np.asarray(vs[0], dtype=float).tolist()
                    rec["value"] = None if val is None else float(val)
                out.append(rec)
    return out


# ----------------------------------------------------------------------------- global random
def globals_section(req):
    out = []

    def probe(name, f):
        st = random.getstate()
        try:
            f()
            err = None
        except Exception as e:  # noqa: BLE001
            err = type(e).__name__
        out.append({"call": name, "same": random.getstate() == st, "error": err})

    cfg = pq.Config(seed_sequence=3)
    sim = pq.PureFockSimulator(d=2, config=cfg)
    prog = pq.Program(instructions=[pq.Vacuum(), pq.Phaseshifter(phi=0.1).on_modes(0)])
    state = sim.execute(prog).state
    probe("Config()", lambda: pq.Config())
    probe("Config(seed_sequence=3)", lambda: pq.Config(seed_sequence=3))
    probe("config.seed_sequence = 5", lambda: setattr(pq.Config(seed_sequence=3), "seed_sequence", 5) if False else setattr(cfg.copy(), "seed_sequence", 5))
    probe("config.copy()", lambda: cfg.copy())
    probe("repr(config)", lambda: repr(cfg))
    probe("PureFockSimulator(d=2)", lambda: pq.PureFockSimulator(d=2))
    probe("PureFockSimulator(d=2, config=config)", lambda: pq.PureFockSimulator(d=2, config=cfg))
    probe("repr(simulator)", lambda: repr(sim))
    probe("repr(state)", lambda: repr(state))
    probe("state.copy()", lambda: state.copy())
    probe("simulator.validate(program)", lambda: sim.validate(prog))
    probe("simulator.execute(program) [gates only]", lambda: sim.execute(prog))
    unknown = type("C12Unknown", (pq.Gate,), {})
    probe("simulator.execute(unsupported instruction) [the error message formats the simulator]",
          lambda: sim.execute(pq.Program(instructions=[pq.Vacuum(), unknown().on_modes(0)])))
    meas = pq.Program(instructions=[pq.StateVector([1, 1]), pq.Beamsplitter(theta=0.7).on_modes(0, 1),
                                    pq.ParticleNumberMeasurement()])
    sim2 = pq.PureFockSimulator(d=2, config=pq.Config(seed_sequence=3, cutoff=3))
    probe("PureFockSimulator.execute(ParticleNumberMeasurement, shots=5)", lambda: sim2.execute(meas, shots=5))
    sim3 = pq.FockSimulator(d=2, config=pq.Config(seed_sequence=3, cutoff=3))
    meas3 = pq.Program(instructions=[pq.Vacuum(), pq.Squeezing(r=0.4).on_modes(0), pq.ParticleNumberMeasurement()])
    probe("FockSimulator.execute(ParticleNumberMeasurement, shots=5)", lambda: sim3.execute(meas3, shots=5))
    probe("pq.as_code(program, simulator)", lambda: pq.as_code(prog, sim))
    probe("program.copy()", lambda: prog.copy())
    gates = pq.Program(instructions=[pq.Phaseshifter(phi=0.1).on_modes(0), pq.Beamsplitter(theta=0.2).on_modes(0, 1)])
    probe("program.to_blackbird_code()", lambda: gates.to_blackbird_code())
    return out
