(* C18 -- the algebra of weighted preparations (definitions only).
   Transcribes piquasso/core/_mixins.py:WeightMixin (__mul__, __rmul__, __truediv__) and
   piquasso/instructions/preparations.py:NumberState.__add__, FockStateVector.__add__,
   clause by clause, over an arbitrary coefficient type A (run at Q, proved over any
   commutative ring).  Preparation objects live on a heap so that the identity of an
   operand (a leaf object used twice) is visible.

   The flag [legacy] selects the code as it was before the repair
   fixes/C18-preparation-algebra.diff:
     legacy = true : __mul__ multiplies the coefficient of the object IN PLACE and returns
                     the same object; NumberState + FockStateVector ignores the right
                     operand's coefficient;
     legacy = false: __mul__ returns a new object; NumberState + FockStateVector scales the
                     right operand's amplitudes by its coefficient. *)
From Coq Require Import ZArith List Bool.
Import ListNotations.
Open Scope Z_scope.

Definition occ := list Z.

Fixpoint occ_eqb (a b : occ) : bool :=
  match a, b with
  | [], [] => true
  | x :: r, y :: s => (x =? y) && occ_eqb r s
  | _, _ => false
  end.

Section Prep.
Variable A : Type.
Variables (zero one : A) (add mul div : A -> A -> A).

(* params of a NumberState: occupation_numbers, coefficient;
   of a FockStateVector: fock_amplitude_map (a Python dict: insertion-ordered), coefficient *)
Inductive pobj :=
| NS (o : occ) (c : A)
| FSV (m : list (occ * A)) (c : A).

Definition is_ns (o : pobj) : bool := match o with NS _ _ => true | _ => false end.
Definition coeff (o : pobj) : A := match o with NS _ c => c | FSV _ c => c end.

(* dict operations *)
Fixpoint lookup (m : list (occ * A)) (k : occ) : option A :=
  match m with
  | [] => None
  | (k', v) :: r => if occ_eqb k' k then Some v else lookup r k
  end.
Definition has (m : list (occ * A)) (k : occ) : bool :=
  match lookup m k with Some _ => true | None => false end.
(* d[k] = f(d[k]) for a key that is present: the position is kept *)
Fixpoint upd (f : A -> A) (m : list (occ * A)) (k : occ) : list (occ * A) :=
  match m with
  | [] => []
  | (k', v) :: r => if occ_eqb k' k then (k', f v) :: r else (k', v) :: upd f r k
  end.
(* {occ: amplitude * coefficient for occ, amplitude in map.items()} *)
Definition scale_map (m : list (occ * A)) (c : A) : list (occ * A) :=
  map (fun kv => (fst kv, mul (snd kv) c)) m.
(* `if k in d: d[k] += v  else: d[k] = v` *)
Definition dict_add (m : list (occ * A)) (k : occ) (v : A) : list (occ * A) :=
  if has m k then upd (fun w => add w v) m k else m ++ [(k, v)].

(* preparations.py:NumberState.__add__ *)
Definition ns_add (legacy : bool) (o1 : occ) (c1 : A) (other : pobj) : pobj :=
  match other with
  | NS o2 c2 =>
      if occ_eqb o1 o2 then NS o1 (add c1 c2)
      else FSV [(o1, c1); (o2, c2)] one
  | FSV m2 c2 =>
      let m2' := if legacy then m2 else scale_map m2 c2 in
      match lookup m2' o1 with
      | Some v => FSV (upd (fun _ => add c1 v) m2' o1) one      (* {**other_map, occ: c1 + other_map[occ]} *)
      | None => FSV ((o1, c1) :: m2') one                       (* {occ: c1, **other_map} *)
      end
  end.

(* preparations.py:FockStateVector.__add__ *)
Definition fsv_add (m1 : list (occ * A)) (c1 : A) (other : pobj) : pobj :=
  let m := scale_map m1 c1 in
  match other with
  | NS o2 c2 => FSV (dict_add m o2 c2) one
  | FSV m2 c2 => FSV (fold_left (fun acc kv => dict_add acc (fst kv) (mul (snd kv) c2)) m2 m) one
  end.

Definition add_obj (legacy : bool) (a b : pobj) : pobj :=
  match a with
  | NS o1 c1 => ns_add legacy o1 c1 b
  | FSV m1 c1 => fsv_add m1 c1 b
  end.

(* the object with its coefficient multiplied: params["coefficient"] * k *)
Definition scale_obj (o : pobj) (k : A) : pobj :=
  match o with NS x c => NS x (mul c k) | FSV m c => FSV m (mul c k) end.

(* the state a preparation instruction adds to the register
   (fock/pure/simulation_steps:state_vector_instruction, passive/simulation_steps.py:state_vector):
   every entry of the map contributes coefficient * amplitude to its occupation *)
Fixpoint sum_matching (m : list (occ * A)) (x : occ) : A :=
  match m with
  | [] => zero
  | (k, v) :: r => if occ_eqb k x then add v (sum_matching r x) else sum_matching r x
  end.
Definition denote (o : pobj) (x : occ) : A :=
  match o with
  | NS k c => if occ_eqb k x then c else zero
  | FSV m c => mul c (sum_matching m x)
  end.

(* ---------------------------------------------------------------- expressions over objects *)
Inductive expr :=
| Leaf (i : nat)                 (* a preparation object the caller holds *)
| Add (a b : expr)               (* a + b *)
| Mul (a : expr) (k : A)         (* a * k   -> WeightMixin.__mul__ *)
| RMul (k : A) (a : expr)        (* k * a   -> WeightMixin.__rmul__ = __mul__ *)
| Div (a : expr) (k : A).        (* a / k   -> WeightMixin.__truediv__ = __mul__(1 / k) *)

Definition pheap := list pobj.

Fixpoint pset (h : pheap) (n : nat) (o : pobj) : pheap :=
  match h, n with
  | [], _ => []
  | _ :: r, O => o :: r
  | x :: r, S k => x :: pset r k o
  end.

(* _mixins.py:WeightMixin.__mul__ *)
Definition mul_at (legacy : bool) (h : pheap) (i : nat) (k : A) : option (pheap * nat) :=
  match nth_error h i with
  | None => None
  | Some o => if legacy then Some (pset h i (scale_obj o k), i)
              else Some (h ++ [scale_obj o k], length h)
  end.

(* Python evaluates the left operand, then the right one, then calls the operator, which
   reads the operands' params at that moment *)
Fixpoint eval (legacy : bool) (h : pheap) (e : expr) : option (pheap * nat) :=
  match e with
  | Leaf i => match nth_error h i with Some _ => Some (h, i) | None => None end
  | Add a b =>
      match eval legacy h a with
      | None => None
      | Some (h1, ia) =>
          match eval legacy h1 b with
          | None => None
          | Some (h2, ib) =>
              match nth_error h2 ia, nth_error h2 ib with
              | Some oa, Some ob => Some (h2 ++ [add_obj legacy oa ob], length h2)
              | _, _ => None
              end
          end
      end
  | Mul a k | RMul k a =>
      match eval legacy h a with
      | None => None
      | Some (h1, ia) => mul_at legacy h1 ia k
      end
  | Div a k =>
      match eval legacy h a with
      | None => None
      | Some (h1, ia) => mul_at legacy h1 ia (div one k)
      end
  end.

(* what the expression means: the linear combination of the states the leaf objects denote
   when the expression is written down *)
Fixpoint sem (h : pheap) (e : expr) (x : occ) : A :=
  match e with
  | Leaf i => match nth_error h i with Some o => denote o x | None => zero end
  | Add a b => add (sem h a x) (sem h b x)
  | Mul a k => mul (sem h a x) k
  | RMul k a => mul k (sem h a x)
  | Div a k => mul (sem h a x) (div one k)
  end.

Fixpoint leaves_below (n : nat) (e : expr) : bool :=
  match e with
  | Leaf i => Nat.ltb i n
  | Add a b => leaves_below n a && leaves_below n b
  | Mul a _ | RMul _ a | Div a _ => leaves_below n a
  end.

(* weighted leaves: e = sum of w * leaf *)
Fixpoint terms (e : expr) : list (A * nat) :=
  match e with
  | Leaf i => [(one, i)]
  | Add a b => terms a ++ terms b
  | Mul a k | RMul k a => map (fun t => (mul (fst t) k, snd t)) (terms a)
  | Div a k => map (fun t => (mul (fst t) (div one k), snd t)) (terms a)
  end.
Fixpoint sum_terms (h : pheap) (ts : list (A * nat)) (x : occ) : A :=
  match ts with
  | [] => zero
  | (w, i) :: r =>
      add (mul w (match nth_error h i with Some o => denote o x | None => zero end))
          (sum_terms h r x)
  end.

End Prep.

Arguments NS {A} o c.
Arguments FSV {A} m c.
Arguments Leaf {A} i.
Arguments Add {A} a b.
Arguments Mul {A} a k.
Arguments RMul {A} k a.
Arguments Div {A} a k.
