(* C07 — model of the Gaussian simulator's block-wise moment updates.  Definitions only.
   Matrices are list (list A) over the operations [co] of a commutative ring with involution;
   every NumPy step is "tabulate a new array from reads of the old one" (mk/get), one Gallina
   definition per NumPy statement of
     piquasso/_simulators/gaussian/simulation_steps.py
     piquasso/_math/indices.py  (get_operator_index, get_auxiliary_operator_index,
                                 get_auxiliary_modes). *)
From Coq Require Import List Arith Bool.
From PV Require Import C07.CxBase.
Import ListNotations.

Section Model.
  Context {A : Type} (co : COps A).
  Local Notation "0" := (z0 co).
  Local Notation "1" := (z1 co).
  Local Infix "+" := (zadd co).
  Local Infix "*" := (zmul co).
  Local Notation conj := (zconj co).

  Definition mat := list (list A).
  Definition vec := list A.

  Fixpoint sumn (n : nat) (f : nat -> A) : A :=
    match n with O => 0 | S k => sumn k f + f k end.

  Definition mk (r c : nat) (f : nat -> nat -> A) : mat :=
    map (fun i => map (fun j => f i j) (seq O c)) (seq O r).
  Definition get (M : mat) (i j : nat) : A := nth j (nth i M []) 0.
  Definition mkv (n : nat) (f : nat -> A) : vec := map f (seq O n).
  Definition getv (v : vec) (i : nat) : A := nth i v 0.

  (* NumPy array algebra on arrays of known shape *)
  Definition mmul (r n c : nat) (X Y : mat) : mat :=              (* X @ Y, X r x n, Y n x c *)
    mk r c (fun i j => sumn n (fun k => get X i k * get Y k j)).
  Definition madd (r c : nat) (X Y : mat) : mat := mk r c (fun i j => get X i j + get Y i j).
  Definition msub (r c : nat) (X Y : mat) : mat := mk r c (fun i j => zsub co (get X i j) (get Y i j)).
  Definition mtr (r c : nat) (X : mat) : mat := mk c r (fun i j => get X j i).   (* X.transpose() *)
  Definition mcj (r c : nat) (X : mat) : mat := mk r c (fun i j => conj (get X i j)).
  Definition mid (k : nat) : mat := mk k k (fun i j => if Nat.eqb i j then 1 else 0).
  Definition mvmul (r n : nat) (X : mat) (v : vec) : vec :=        (* X @ v *)
    mkv r (fun i => sumn n (fun k => get X i k * getv v k)).
  Definition vadd (n : nat) (u v : vec) : vec := mkv n (fun i => getv u i + getv v i).
  Definition vcj (n : nat) (v : vec) : vec := mkv n (fun i => conj (getv v i)).

  (* position of i in the tuple of modes *)
  Fixpoint pos (i : nat) (l : list nat) : option nat :=
    match l with
    | [] => None
    | m :: r => if Nat.eqb i m then Some O else option_map S (pos i r)
    end.

  (* indices.py:get_auxiliary_modes  = np.delete(np.arange(d), modes) *)
  Definition aux_modes (d : nat) (modes : list nat) : list nat :=
    filter (fun i => negb (existsb (Nat.eqb i) modes)) (seq O d).

  (* M[get_operator_index(modes)]  : k x k, entry (a,b) = M[modes[a], modes[b]] *)
  Definition read_block (M : mat) (modes : list nat) : mat :=
    mk (length modes) (length modes) (fun a b => get M (nth a modes O) (nth b modes O)).
  (* M[get_operator_index(modes)] = V *)
  Definition assign_block (d : nat) (M : mat) (modes : list nat) (V : mat) : mat :=
    mk d d (fun i j => match pos i modes, pos j modes with
                       | Some a, Some b => get V a b
                       | _, _ => get M i j
                       end).
  (* M[get_auxiliary_operator_index(modes, aux)] : k x n_aux, entry (a,b) = M[modes[a], aux[b]] *)
  Definition read_aux (M : mat) (modes aux : list nat) : mat :=
    mk (length modes) (length aux) (fun a b => get M (nth a modes O) (nth b aux O)).
  Definition assign_aux (d : nat) (M : mat) (modes aux : list nat) (V : mat) : mat :=
    mk d d (fun i j => match pos i modes, pos j aux with
                       | Some a, Some b => get V a b
                       | _, _ => get M i j
                       end).
  (* M[modes, :] : k x d *)
  Definition read_rows (d : nat) (M : mat) (modes : list nat) : mat :=
    mk (length modes) d (fun a j => get M (nth a modes O) j).
  (* M[np.ix_(np.arange(d), modes)] = V  with V d x k *)
  Definition assign_cols (d : nat) (M : mat) (modes : list nat) (V : mat) : mat :=
    mk d d (fun i j => match pos j modes with
                       | Some b => get V i b
                       | None => get M i j
                       end).
  (* v[modes,] and v[modes,] = w *)
  Definition read_vec (v : vec) (modes : list nat) : vec :=
    mkv (length modes) (fun a => getv v (nth a modes O)).
  Definition assign_vec (d : nat) (v : vec) (modes : list nat) (w : vec) : vec :=
    mkv d (fun i => match pos i modes with Some a => getv w a | None => getv v i end).

  Record gstate := mkState { st_m : vec; st_C : mat; st_G : mat }.

  (* GaussianState.reset: vacuum *)
  Definition vacuum (d : nat) : gstate :=
    mkState (mkv d (fun _ => 0)) (mk d d (fun _ _ => 0)) (mk d d (fun _ _ => 0)).

  (* the final step of both *_to_auxiliary_modes functions:
       assign_index = np.ix_(np.arange(d), np.array(modes))
       C[assign_index] = C[modes, :].conjugate().transpose();  G[assign_index] = G[modes, :].transpose() *)
  Definition mirror_C (d : nat) (M : mat) (modes : list nat) : mat :=
    let k := length modes in
    assign_cols d M modes (mtr k d (mcj k d (read_rows d M modes))).
  Definition mirror_G (d : nat) (M : mat) (modes : list nat) : mat :=
    let k := length modes in
    assign_cols d M modes (mtr k d (read_rows d M modes)).

  (* ---------------- passive gates *)

  (* simulation_steps.py:_apply_passive_linear_to_auxiliary_modes *)
  Definition apply_passive_aux (d : nat) (T : mat) (modes aux : list nat) (C G : mat) : mat * mat :=
    let k := length modes in let n := length aux in
    let C1 := assign_aux d C modes aux (mmul k k n (mcj k k T) (read_aux C modes aux)) in
    let G1 := assign_aux d G modes aux (mmul k k n T (read_aux G modes aux)) in
    (mirror_C d C1 modes, mirror_G d G1 modes).

  (* T.conjugate() @ C[index] @ T.transpose()  and  T @ G[index] @ T.transpose() *)
  Definition passive_block_C (k : nat) (T oC : mat) : mat :=
    mmul k k k (mmul k k k (mcj k k T) oC) (mtr k k T).
  Definition passive_block_G (k : nat) (T oG : mat) : mat :=
    mmul k k k (mmul k k k T oG) (mtr k k T).

  (* simulation_steps.py:_apply_passive_linear_to_C_and_G *)
  Definition apply_passive_CG (d : nat) (T : mat) (modes : list nat) (C G : mat) : mat * mat :=
    let k := length modes in
    let C1 := assign_block d C modes (passive_block_C k T (read_block C modes)) in
    let G1 := assign_block d G modes (passive_block_G k T (read_block G modes)) in
    let aux := aux_modes d modes in
    match aux with
    | [] => (C1, G1)
    | _ => apply_passive_aux d T modes aux C1 G1
    end.

  (* simulation_steps.py:_apply_passive_linear *)
  Definition apply_passive (d : nat) (T : mat) (modes : list nat) (s : gstate) : gstate :=
    let k := length modes in
    let m1 := assign_vec d (st_m s) modes (mvmul k k T (read_vec (st_m s) modes)) in
    let '(C1, G1) := apply_passive_CG d T modes (st_C s) (st_G s) in
    mkState m1 C1 G1.

  (* ---------------- active gates *)

  (* simulation_steps.py:_apply_linear_to_auxiliary_modes *)
  Definition linear_aux_C (k n : nat) (P Am aC aG : mat) : mat :=
    madd k n (mmul k k n (mcj k k P) aC) (mmul k k n (mcj k k Am) aG).
  Definition linear_aux_G (k n : nat) (P Am aC aG : mat) : mat :=
    madd k n (mmul k k n P aG) (mmul k k n Am aC).
  Definition apply_linear_aux (d : nat) (P Am : mat) (modes aux : list nat) (C G : mat) : mat * mat :=
    let k := length modes in let n := length aux in
    let aC := read_aux C modes aux in
    let aG := read_aux G modes aux in
    let C1 := assign_aux d C modes aux (linear_aux_C k n P Am aC aG) in
    let G1 := assign_aux d G modes aux (linear_aux_G k n P Am aC aG) in
    (mirror_C d C1 modes, mirror_G d G1 modes).

  (* the two right-hand sides of _apply_linear_to_C_and_G; oC = original_C, oG = original_G *)
  Definition linear_block_G (k : nat) (P Am oC oG : mat) : mat :=
    let PT := mtr k k P in
    let AT := mtr k k Am in
    let oCT1 := madd k k (mtr k k oC) (mid k) in           (* original_C.transpose() + identity *)
    let oGH := mtr k k (mcj k k oG) in                     (* original_G.conjugate().transpose() *)
    let mm := mmul k k k in
    madd k k (madd k k (madd k k (mm (mm P oG) PT) (mm (mm Am oGH) AT)) (mm (mm P oCT1) AT))
             (mm (mm Am oC) PT).
  Definition linear_block_C (k : nat) (P Am oC oG : mat) : mat :=
    let PT := mtr k k P in
    let AT := mtr k k Am in
    let Pc := mcj k k P in
    let Ac := mcj k k Am in
    let oCT1 := madd k k (mtr k k oC) (mid k) in
    let oGH := mtr k k (mcj k k oG) in
    let mm := mmul k k k in
    madd k k (madd k k (madd k k (mm (mm Pc oC) PT) (mm (mm Ac oCT1) AT)) (mm (mm Pc oGH) AT))
             (mm (mm Ac oG) PT).

  (* simulation_steps.py:_apply_linear_to_C_and_G *)
  Definition apply_linear_CG (d : nat) (P Am : mat) (modes : list nat) (C G : mat) : mat * mat :=
    let k := length modes in
    let oC := read_block C modes in
    let oG := read_block G modes in
    let G1 := assign_block d G modes (linear_block_G k P Am oC oG) in
    let C1 := assign_block d C modes (linear_block_C k P Am oC oG) in
    let aux := aux_modes d modes in
    match aux with
    | [] => (C1, G1)
    | _ => apply_linear_aux d P Am modes aux C1 G1
    end.

  (* simulation_steps.py:_apply_linear *)
  Definition apply_linear (d : nat) (P Am : mat) (modes : list nat) (s : gstate) : gstate :=
    let k := length modes in
    let mm := read_vec (st_m s) modes in
    let m1 := assign_vec d (st_m s) modes
                (vadd k (mvmul k k P mm) (mvmul k k Am (vcj k mm))) in
    let '(C1, G1) := apply_linear_CG d P Am modes (st_C s) (st_G s) in
    mkState m1 C1 G1.

  (* simulation_steps.py:displacement  (alpha = r * exp(1j*phi) is computed by the caller) *)
  Definition apply_displacement (d : nat) (alpha : A) (modes : list nat) (s : gstate) : gstate :=
    let k := length modes in
    let mm := read_vec (st_m s) modes in
    mkState (assign_vec d (st_m s) modes (mkv k (fun a => getv mm a + alpha))) (st_C s) (st_G s).

  (* a program of the three simulation steps; GatesModel.step dispatches every instruction of the
     Gaussian simulator to one of them *)
  Inductive lop :=
  | LPassive (T : mat) (modes : list nat)          (* passive_linear *)
  | LLinear (P Am : mat) (modes : list nat)        (* linear *)
  | LDisp (alpha : A) (modes : list nat).          (* displacement *)
  Definition lstep (d : nat) (o : lop) (s : gstate) : gstate :=
    match o with
    | LPassive T modes => apply_passive d T modes s
    | LLinear P Am modes => apply_linear d P Am modes s
    | LDisp alpha modes => apply_displacement d alpha modes s
    end.
  Definition lrun (d : nat) (prog : list lop) (s : gstate) : gstate :=
    fold_left (fun s o => lstep d o s) prog s.
End Model.
