(* C07 — the block-wise moment update of the Gaussian simulator equals the Bogoliubov
   congruence by the embedded (P, A), for every number of modes d, every duplicate-free tuple of
   modes in any order, over any commutative ring with involution. *)
From Coq Require Import List Arith Bool Lia Ring.
From PV Require Import C07.CxBase C07.MomentsModel C07.SumLemmas.
Import ListNotations.

Section Congruence.
  Context {A : Type} (co : COps A).
  Local Notation "0" := (z0 co).
  Local Notation "1" := (z1 co).
  Local Infix "+" := (zadd co).
  Local Infix "*" := (zmul co).
  Local Notation conj := (zconj co).
  Local Notation sumn := (sumn co).
  Local Notation get := (get co).
  Local Notation bil := (bil co).
  Local Notation rowE := (rowE co).
  Local Notation unit := (unit co).

  Hypothesis Ath : ring_theory 0 1 (zadd co) (zmul co) (zsub co) (zopp co) eq.
  Hypothesis conj_0 : conj 0 = 0.
  Hypothesis conj_1 : conj 1 = 1.
  Hypothesis conj_add : forall x y, conj (x + y) = conj x + conj y.
  Hypothesis conj_mul : forall x y, conj (x * y) = conj x * conj y.
  Hypothesis conj_conj : forall x, conj (conj x) = x.

  Add Ring Aring2 : Ath.

  Variables (d : nat) (modes : list nat) (P Am C G : mat (A := A)).
  Hypothesis Hnd : NoDup modes.
  Hypothesis Hlt : forall m, In m modes -> m < d.
  Local Notation k := (length modes).
  Local Notation md a := (nth a modes O).

  (* ---- the embedded d x d matrices: (P, A) on the addressed modes, (identity, 0) elsewhere *)
  Definition embedP (i j : nat) : A :=
    match pos i modes, pos j modes with
    | Some a, Some b => get P a b
    | _, _ => if Nat.eqb i j then 1 else 0
    end.
  Definition embedA (i j : nat) : A :=
    match pos i modes, pos j modes with
    | Some a, Some b => get Am a b
    | _, _ => 0
    end.

  Definition Cm (i j : nat) : A := get C i j.
  Definition Gm (i j : nat) : A := get G i j.
  Definition GH (i j : nat) : A := conj (get G j i).                           (* G^dagger *)
  Definition CT1 (i j : nat) : A := get C j i + (if Nat.eqb i j then 1 else 0). (* C^T + I *)
  Definition cj (f : nat -> A) : nat -> A := fun x => conj (f x).

  (* (S K S^dagger) read on its G and C blocks, S = [[Pf, Af], [conj Af, conj Pf]],
     K = [[C^T + I, G], [G^dagger, C]] :
       G' = Pf G Pf^T + Af G^dagger Af^T + Pf (C^T + I) Af^T + Af C Pf^T
       C' = conj(Pf) C Pf^T + conj(Af) (C^T + I) Af^T + conj(Pf) G^dagger Af^T + conj(Af) G Pf^T *)
  Definition G_spec (i j : nat) : A :=
    bil d (embedP i) Gm (embedP j) + bil d (embedA i) GH (embedA j)
    + bil d (embedP i) CT1 (embedA j) + bil d (embedA i) Cm (embedP j).
  Definition C_spec (i j : nat) : A :=
    bil d (cj (embedP i)) Cm (embedP j) + bil d (cj (embedA i)) CT1 (embedA j)
    + bil d (cj (embedP i)) GH (embedA j) + bil d (cj (embedA i)) Gm (embedP j).

  (* ---- reads of tabulated arrays *)
  Lemma get_mmul : forall r n c X Y i j, i < r -> j < c ->
    get (mmul co r n c X Y) i j = sumn n (fun t => get X i t * get Y t j).
  Proof. intros. unfold mmul. rewrite (get_mk co) by assumption. reflexivity. Qed.
  Lemma get_madd : forall r c X Y i j, i < r -> j < c ->
    get (madd co r c X Y) i j = get X i j + get Y i j.
  Proof. intros. unfold madd. rewrite (get_mk co) by assumption. reflexivity. Qed.
  Lemma get_mtr : forall r c X i j, i < c -> j < r -> get (mtr co r c X) i j = get X j i.
  Proof. intros. unfold mtr. rewrite (get_mk co) by assumption. reflexivity. Qed.
  Lemma get_mcj : forall r c X i j, i < r -> j < c -> get (mcj co r c X) i j = conj (get X i j).
  Proof. intros. unfold mcj. rewrite (get_mk co) by assumption. reflexivity. Qed.
  Lemma get_mid : forall n i j, i < n -> j < n ->
    get (mid co n) i j = if Nat.eqb i j then 1 else 0.
  Proof. intros. unfold mid. rewrite (get_mk co) by assumption. reflexivity. Qed.
  Lemma get_read_block : forall M a b, a < k -> b < k ->
    get (read_block co M modes) a b = get M (md a) (md b).
  Proof. intros. unfold read_block. rewrite (get_mk co) by assumption. reflexivity. Qed.
  Lemma get_read_aux : forall M aux a b, a < k -> b < length aux ->
    get (read_aux co M modes aux) a b = get M (md a) (nth b aux O).
  Proof. intros. unfold read_aux. rewrite (get_mk co) by assumption. reflexivity. Qed.
  Lemma get_assign_block : forall M V i j, i < d -> j < d ->
    get (assign_block co d M modes V) i j =
    match pos i modes, pos j modes with Some a, Some b => get V a b | _, _ => get M i j end.
  Proof. intros. unfold assign_block. rewrite (get_mk co) by assumption. reflexivity. Qed.
  Lemma get_assign_aux : forall M aux V i j, i < d -> j < d ->
    get (assign_aux co d M modes aux V) i j =
    match pos i modes, pos j aux with Some a, Some b => get V a b | _, _ => get M i j end.
  Proof. intros. unfold assign_aux. rewrite (get_mk co) by assumption. reflexivity. Qed.

  Lemma get_mirror_C : forall M i j, i < d -> j < d ->
    get (mirror_C co d M modes) i j =
    match pos j modes with Some _ => conj (get M j i) | None => get M i j end.
  Proof.
    intros M i j Hi Hj. unfold mirror_C, assign_cols. rewrite (get_mk co) by assumption.
    destruct (pos j modes) as [b|] eqn:E; [|reflexivity].
    destruct (pos_Some _ _ _ E) as [Hb Hnth].
    rewrite get_mtr by assumption. rewrite get_mcj by assumption.
    unfold read_rows. rewrite (get_mk co) by assumption. rewrite Hnth. reflexivity.
  Qed.
  Lemma get_mirror_G : forall M i j, i < d -> j < d ->
    get (mirror_G co d M modes) i j =
    match pos j modes with Some _ => get M j i | None => get M i j end.
  Proof.
    intros M i j Hi Hj. unfold mirror_G, assign_cols. rewrite (get_mk co) by assumption.
    destruct (pos j modes) as [b|] eqn:E; [|reflexivity].
    destruct (pos_Some _ _ _ E) as [Hb Hnth].
    rewrite get_mtr by assumption.
    unfold read_rows. rewrite (get_mk co) by assumption. rewrite Hnth. reflexivity.
  Qed.

  (* ---- rows of the embedded matrices *)
  Lemma embedP_in : forall i a, pos i modes = Some a ->
    forall x, embedP i x = rowE modes (fun c => get P a c) x.
  Proof.
    intros i a E x. unfold embedP, SumLemmas.rowE. rewrite E.
    destruct (pos x modes) as [b|] eqn:Ex; [reflexivity|].
    destruct (Nat.eqb_spec i x) as [->|_]; [congruence|reflexivity].
  Qed.
  Lemma embedP_out : forall i, pos i modes = None -> forall x, embedP i x = unit i x.
  Proof.
    intros i E x. unfold embedP, SumLemmas.unit. rewrite E. rewrite (Nat.eqb_sym i x). reflexivity.
  Qed.
  Lemma embedA_in : forall i a, pos i modes = Some a ->
    forall x, embedA i x = rowE modes (fun c => get Am a c) x.
  Proof.
    intros i a E x. unfold embedA, SumLemmas.rowE. rewrite E.
    destruct (pos x modes); reflexivity.
  Qed.
  Lemma embedA_out : forall i, pos i modes = None -> forall x, embedA i x = 0.
  Proof. intros i E x. unfold embedA. rewrite E. reflexivity. Qed.
  Lemma cj_rowE : forall v x, conj (rowE modes v x) = rowE modes (fun c => conj (v c)) x.
  Proof. intros. unfold SumLemmas.rowE. destruct (pos x modes); [reflexivity|apply conj_0]. Qed.

  (* ---- bilinear forms against scattered rows / unit vectors / zero *)
  Lemma bil_rowE_rowE : forall v M w,
    bil d (rowE modes v) M (rowE modes w)
    = sumn k (fun c' => sumn k (fun c => v c * M (md c) (md c')) * w c').
  Proof.
    intros. rewrite (bil_eval co Ath).
    rewrite (sum_rowE_r co Ath modes d Hnd Hlt).
    apply (sumn_ext co). intros c' _. rewrite (sum_rowE_l co Ath modes d Hnd Hlt). reflexivity.
  Qed.
  Lemma bil_rowE_unit : forall v M j, j < d ->
    bil d (rowE modes v) M (unit j) = sumn k (fun c => v c * M (md c) j).
  Proof.
    intros v M j Hj. rewrite (bil_eval co Ath). rewrite (sum_unit_r co Ath d) by assumption.
    exact (sum_rowE_l co Ath modes d Hnd Hlt v (fun t => M t j)).
  Qed.
  Lemma bil_unit_unit : forall M i j, i < d -> j < d -> bil d (unit i) M (unit j) = M i j.
  Proof.
    intros M i j Hi Hj. rewrite (bil_eval co Ath). rewrite (sum_unit_r co Ath d) by assumption.
    exact (sum_unit_l co Ath d i (fun t => M t j) Hi).
  Qed.
  Lemma bil_zero_r : forall x M, bil d x M (fun _ => 0) = 0.
  Proof.
    intros x M. rewrite (bil_eval co Ath).
    exact (sum_zero_r co Ath d (fun l => sumn d (fun t => x t * M t l))).
  Qed.
  Lemma bil_zero_l : forall M y, bil d (fun _ => 0) M y = 0.
  Proof.
    intros. rewrite (bil_transpose co Ath). apply bil_zero_r.
  Qed.

  (* a triple product of k x k arrays read at (a, b) is a bilinear form of scattered rows *)
  Lemma mm3_bil : forall X Y Z a b v M w, a < k -> b < k ->
    (forall c, c < k -> get X a c = v c) ->
    (forall c c', c < k -> c' < k -> get Y c c' = M (md c) (md c')) ->
    (forall c', c' < k -> get Z c' b = w c') ->
    get (mmul co k k k (mmul co k k k X Y) Z) a b = bil d (rowE modes v) M (rowE modes w).
  Proof.
    intros X Y Z a b v M w Ha Hb HX HY HZ.
    rewrite bil_rowE_rowE. rewrite get_mmul by assumption.
    apply (sumn_ext co). intros c' Hc'. rewrite get_mmul by assumption. rewrite HZ by assumption.
    f_equal. apply (sumn_ext co). intros c Hc. rewrite HX, HY by assumption. reflexivity.
  Qed.

  Lemma delta_md : forall c c', c < k -> c' < k ->
    (if Nat.eqb c c' then 1 else 0) = (if Nat.eqb (md c) (md c') then 1 else 0) :> A.
  Proof. intros. rewrite (nth_eqb_nodup modes c c') by assumption. reflexivity. Qed.

  Lemma mm3_spec : forall X Y Z a b (x y : nat -> A) M v w, a < k -> b < k ->
    (forall t, x t = rowE modes v t) -> (forall t, y t = rowE modes w t) ->
    (forall c, c < k -> get X a c = v c) ->
    (forall c c', c < k -> c' < k -> get Y c c' = M (md c) (md c')) ->
    (forall c', c' < k -> get Z c' b = w c') ->
    get (mmul co k k k (mmul co k k k X Y) Z) a b = bil d x M y.
  Proof.
    intros X Y Z a b x y M v w Ha Hb Hx Hy HX HY HZ.
    rewrite (mm3_bil X Y Z a b v M w) by assumption.
    symmetry. apply (bil_ext co); intros; auto.
  Qed.

  (* ---- the addressed block *)
  Lemma rb_G : forall c c', c < k -> c' < k ->
    get (read_block co G modes) c c' = Gm (md c) (md c').
  Proof. intros. apply get_read_block; assumption. Qed.
  Lemma rb_C : forall c c', c < k -> c' < k ->
    get (read_block co C modes) c c' = Cm (md c) (md c').
  Proof. intros. apply get_read_block; assumption. Qed.
  Lemma rb_GH : forall c c', c < k -> c' < k ->
    get (mtr co k k (mcj co k k (read_block co G modes))) c c' = GH (md c) (md c').
  Proof.
    intros. rewrite get_mtr, get_mcj, get_read_block by assumption. reflexivity.
  Qed.
  Lemma rb_CT1 : forall c c', c < k -> c' < k ->
    get (madd co k k (mtr co k k (read_block co C modes)) (mid co k)) c c' = CT1 (md c) (md c').
  Proof.
    intros. rewrite get_madd, get_mtr, get_mid, get_read_block by assumption.
    unfold CT1. rewrite (delta_md c c') by assumption. reflexivity.
  Qed.

  Lemma cj_embedP_in : forall i a, pos i modes = Some a ->
    forall t, cj (embedP i) t = rowE modes (fun c => conj (get P a c)) t.
  Proof. intros i a E t. unfold cj. rewrite (embedP_in i a E). apply cj_rowE. Qed.
  Lemma cj_embedA_in : forall i a, pos i modes = Some a ->
    forall t, cj (embedA i) t = rowE modes (fun c => conj (get Am a c)) t.
  Proof. intros i a E t. unfold cj. rewrite (embedA_in i a E). apply cj_rowE. Qed.

  Lemma block_G_spec : forall a b, a < k -> b < k ->
    get (linear_block_G co k P Am (read_block co C modes) (read_block co G modes)) a b
    = G_spec (md a) (md b).
  Proof.
    intros a b Ha Hb. unfold linear_block_G. cbv zeta.
    rewrite !get_madd by assumption.
    assert (Ea := pos_nth modes a Hnd Ha). assert (Eb := pos_nth modes b Hnd Hb).
    unfold G_spec. f_equal; [f_equal; [f_equal|]|].
    - apply (mm3_spec _ _ _ a b _ _ Gm (fun c => get P a c) (fun c => get P b c)); auto.
      + apply (embedP_in _ a Ea). + apply (embedP_in _ b Eb). + apply rb_G.
      + intros. apply get_mtr; assumption.
    - apply (mm3_spec _ _ _ a b _ _ GH (fun c => get Am a c) (fun c => get Am b c)); auto.
      + apply (embedA_in _ a Ea). + apply (embedA_in _ b Eb). + apply rb_GH.
      + intros. apply get_mtr; assumption.
    - apply (mm3_spec _ _ _ a b _ _ CT1 (fun c => get P a c) (fun c => get Am b c)); auto.
      + apply (embedP_in _ a Ea). + apply (embedA_in _ b Eb). + apply rb_CT1.
      + intros. apply get_mtr; assumption.
    - apply (mm3_spec _ _ _ a b _ _ Cm (fun c => get Am a c) (fun c => get P b c)); auto.
      + apply (embedA_in _ a Ea). + apply (embedP_in _ b Eb). + apply rb_C.
      + intros. apply get_mtr; assumption.
  Qed.

  Lemma block_C_spec : forall a b, a < k -> b < k ->
    get (linear_block_C co k P Am (read_block co C modes) (read_block co G modes)) a b
    = C_spec (md a) (md b).
  Proof.
    intros a b Ha Hb. unfold linear_block_C. cbv zeta.
    rewrite !get_madd by assumption.
    assert (Ea := pos_nth modes a Hnd Ha). assert (Eb := pos_nth modes b Hnd Hb).
    unfold C_spec. f_equal; [f_equal; [f_equal|]|].
    - apply (mm3_spec _ _ _ a b _ _ Cm (fun c => conj (get P a c)) (fun c => get P b c)); auto.
      + apply (cj_embedP_in _ a Ea). + apply (embedP_in _ b Eb).
      + intros. apply get_mcj; assumption. + apply rb_C.
      + intros. apply get_mtr; assumption.
    - apply (mm3_spec _ _ _ a b _ _ CT1 (fun c => conj (get Am a c)) (fun c => get Am b c)); auto.
      + apply (cj_embedA_in _ a Ea). + apply (embedA_in _ b Eb).
      + intros. apply get_mcj; assumption. + apply rb_CT1.
      + intros. apply get_mtr; assumption.
    - apply (mm3_spec _ _ _ a b _ _ GH (fun c => conj (get P a c)) (fun c => get Am b c)); auto.
      + apply (cj_embedP_in _ a Ea). + apply (embedA_in _ b Eb).
      + intros. apply get_mcj; assumption. + apply rb_GH.
      + intros. apply get_mtr; assumption.
    - apply (mm3_spec _ _ _ a b _ _ Gm (fun c => conj (get Am a c)) (fun c => get P b c)); auto.
      + apply (cj_embedA_in _ a Ea). + apply (embedP_in _ b Eb).
      + intros. apply get_mcj; assumption. + apply rb_G.
      + intros. apply get_mtr; assumption.
  Qed.

  (* ---- rows of the specification outside the addressed modes *)
  Lemma bil_out : forall x M j, j < d -> pos j modes = None ->
    bil d x M (embedP j) = bil d x M (unit j) /\ bil d x M (embedA j) = 0.
  Proof.
    intros x M j Hj E. split.
    - apply (bil_ext co); intros; auto. apply embedP_out; assumption.
    - rewrite <- (bil_zero_r x M). apply (bil_ext co); intros; auto. apply embedA_out; assumption.
  Qed.

  Lemma G_spec_row_out : forall i a j, pos i modes = Some a -> j < d -> pos j modes = None ->
    G_spec i j = sumn k (fun c => get P a c * get G (md c) j)
                 + sumn k (fun c => get Am a c * get C (md c) j).
  Proof.
    intros i a j Ei Hj Ej. unfold G_spec.
    destruct (bil_out (embedP i) Gm j Hj Ej) as [-> _].
    destruct (bil_out (embedA i) GH j Hj Ej) as [_ ->].
    destruct (bil_out (embedP i) CT1 j Hj Ej) as [_ ->].
    destruct (bil_out (embedA i) Cm j Hj Ej) as [-> _].
    rewrite (bil_ext co d (embedP i) (rowE modes (fun c => get P a c)) Gm Gm (unit j) (unit j))
      by (intros; auto; apply (embedP_in i a Ei)).
    rewrite (bil_ext co d (embedA i) (rowE modes (fun c => get Am a c)) Cm Cm (unit j) (unit j))
      by (intros; auto; apply (embedA_in i a Ei)).
    rewrite !bil_rowE_unit by assumption. unfold Gm, Cm. ring.
  Qed.

  Lemma C_spec_row_out : forall i a j, pos i modes = Some a -> j < d -> pos j modes = None ->
    C_spec i j = sumn k (fun c => conj (get P a c) * get C (md c) j)
                 + sumn k (fun c => conj (get Am a c) * get G (md c) j).
  Proof.
    intros i a j Ei Hj Ej. unfold C_spec.
    destruct (bil_out (cj (embedP i)) Cm j Hj Ej) as [-> _].
    destruct (bil_out (cj (embedA i)) CT1 j Hj Ej) as [_ ->].
    destruct (bil_out (cj (embedP i)) GH j Hj Ej) as [_ ->].
    destruct (bil_out (cj (embedA i)) Gm j Hj Ej) as [-> _].
    rewrite (bil_ext co d (cj (embedP i)) (rowE modes (fun c => conj (get P a c))) Cm Cm (unit j) (unit j))
      by (intros; auto; apply (cj_embedP_in i a Ei)).
    rewrite (bil_ext co d (cj (embedA i)) (rowE modes (fun c => conj (get Am a c))) Gm Gm (unit j) (unit j))
      by (intros; auto; apply (cj_embedA_in i a Ei)).
    rewrite !bil_rowE_unit by assumption. unfold Gm, Cm. ring.
  Qed.

  Lemma spec_out_out : forall i j, i < d -> j < d -> pos i modes = None -> pos j modes = None ->
    G_spec i j = get G i j /\ C_spec i j = get C i j.
  Proof.
    intros i j Hi Hj Ei Ej. unfold G_spec, C_spec.
    destruct (bil_out (embedP i) Gm j Hj Ej) as [-> _].
    destruct (bil_out (embedA i) GH j Hj Ej) as [_ ->].
    destruct (bil_out (embedP i) CT1 j Hj Ej) as [_ ->].
    destruct (bil_out (embedA i) Cm j Hj Ej) as [-> _].
    destruct (bil_out (cj (embedP i)) Cm j Hj Ej) as [-> _].
    destruct (bil_out (cj (embedA i)) CT1 j Hj Ej) as [_ ->].
    destruct (bil_out (cj (embedP i)) GH j Hj Ej) as [_ ->].
    destruct (bil_out (cj (embedA i)) Gm j Hj Ej) as [-> _].
    rewrite (bil_ext co d (embedP i) (unit i) Gm Gm (unit j) (unit j))
      by (intros; auto; apply (embedP_out i Ei)).
    rewrite (bil_ext co d (embedA i) (fun _ => 0) Cm Cm (unit j) (unit j))
      by (intros; auto; apply (embedA_out i Ei)).
    rewrite (bil_ext co d (cj (embedP i)) (unit i) Cm Cm (unit j) (unit j)).
    2:{ intros t _. unfold cj. rewrite (embedP_out i Ei). unfold SumLemmas.unit.
        destruct (Nat.eqb t i); [apply conj_1|apply conj_0]. }
    2:{ auto. } 2:{ auto. }
    rewrite (bil_ext co d (cj (embedA i)) (fun _ => 0) Gm Gm (unit j) (unit j)).
    2:{ intros t _. unfold cj. rewrite (embedA_out i Ei). apply conj_0. }
    2:{ auto. } 2:{ auto. }
    rewrite !bil_zero_l. rewrite !bil_unit_unit by assumption. unfold Gm, Cm. split; ring.
  Qed.

  (* ---- symmetry of the specification *)
  Hypothesis C_herm : forall i j, i < d -> j < d -> conj (get C j i) = get C i j.
  Hypothesis G_sym : forall i j, i < d -> j < d -> get G j i = get G i j.
  (* P A^T is symmetric (second symplectic condition); needed because the column-mirroring step
     also overwrites the addressed block of G with its transpose *)
  Hypothesis PAT_sym : forall a b, a < k -> b < k ->
    sumn k (fun c => get P a c * get Am b c) = sumn k (fun c => get P b c * get Am a c).

  Lemma dot_rowE_rowE : forall v w,
    sumn d (fun t => rowE modes v t * rowE modes w t) = sumn k (fun c => v c * w c).
  Proof.
    intros. rewrite (sum_rowE_l co Ath modes d Hnd Hlt). apply (sumn_ext co). intros c Hc.
    unfold SumLemmas.rowE at 1. rewrite (pos_nth modes c Hnd Hc). reflexivity.
  Qed.

  Lemma embed_PAT_sym : forall i j, i < d -> j < d ->
    sumn d (fun t => embedP i t * embedA j t) = sumn d (fun t => embedA i t * embedP j t).
  Proof.
    intros i j Hi Hj.
    destruct (pos i modes) as [a|] eqn:Ei; destruct (pos j modes) as [b|] eqn:Ej.
    - destruct (pos_Some _ _ _ Ei) as [Ha _]. destruct (pos_Some _ _ _ Ej) as [Hb _].
      rewrite (sumn_ext co d _ (fun t => rowE modes (fun c => get P a c) t * rowE modes (fun c => get Am b c) t))
        by (intros; rewrite (embedP_in i a Ei), (embedA_in j b Ej); reflexivity).
      rewrite (sumn_ext co d (fun t => embedA i t * embedP j t)
                 (fun t => rowE modes (fun c => get Am a c) t * rowE modes (fun c => get P b c) t))
        by (intros; rewrite (embedA_in i a Ei), (embedP_in j b Ej); reflexivity).
      rewrite !dot_rowE_rowE. rewrite (PAT_sym a b Ha Hb). apply (sumn_ext co). intros; ring.
    - rewrite (sumn_ext co d _ (fun _ => 0)) by (intros; rewrite (embedA_out j Ej); ring).
      rewrite (sumn_ext co d (fun t => embedA i t * embedP j t) (fun t => embedA i t * unit j t))
        by (intros; rewrite (embedP_out j Ej); reflexivity).
      rewrite (sum_unit_r co Ath d) by assumption. rewrite (sumn_zero co Ath).
      unfold embedA. rewrite Ei, Ej. reflexivity.
    - rewrite (sumn_ext co d (fun t => embedA i t * embedP j t) (fun _ => 0))
        by (intros; rewrite (embedA_out i Ei); ring).
      rewrite (sumn_ext co d _ (fun t => unit i t * embedA j t))
        by (intros; rewrite (embedP_out i Ei); reflexivity).
      rewrite (sum_unit_l co Ath d) by assumption. rewrite (sumn_zero co Ath).
      unfold embedA. rewrite Ei, Ej. reflexivity.
    - rewrite (sumn_ext co d _ (fun _ => 0)) by (intros; rewrite (embedA_out j Ej); ring).
      rewrite (sumn_ext co d (fun t => embedA i t * embedP j t) (fun _ => 0))
        by (intros; rewrite (embedA_out i Ei); ring).
      reflexivity.
  Qed.

  Lemma G_spec_sym : forall i j, i < d -> j < d -> G_spec j i = G_spec i j.
  Proof.
    intros i j Hi Hj. unfold G_spec.
    rewrite (bil_transpose co Ath d (embedP j) Gm (embedP i)).
    rewrite (bil_transpose co Ath d (embedA j) GH (embedA i)).
    rewrite (bil_transpose co Ath d (embedP j) CT1 (embedA i)).
    rewrite (bil_transpose co Ath d (embedA j) Cm (embedP i)).
    rewrite (bil_ext co d (embedP i) (embedP i) (fun k0 l => Gm l k0) Gm (embedP j) (embedP j)).
    2:{ auto. } 2:{ intros k0 l Hk Hl. unfold Gm. apply G_sym; assumption. } 2:{ auto. }
    rewrite (bil_ext co d (embedA i) (embedA i) (fun k0 l => GH l k0) GH (embedA j) (embedA j)).
    2:{ auto. } 2:{ intros k0 l Hk Hl. unfold GH. rewrite (G_sym l k0) by assumption. reflexivity. } 2:{ auto. }
    (* the two mixed terms exchange, up to the identity part of C^T + I *)
    rewrite (bil_ext co d (embedA i) (embedA i) (fun k0 l => CT1 l k0)
               (fun k0 l => Cm k0 l + (if Nat.eqb k0 l then 1 else 0)) (embedP j) (embedP j)).
    2:{ auto. } 2:{ intros k0 l _ _. unfold CT1, Cm. rewrite (Nat.eqb_sym l k0). reflexivity. } 2:{ auto. }
    rewrite (bil_ext co d (embedP i) (embedP i) CT1
               (fun k0 l => Cm l k0 + (if Nat.eqb k0 l then 1 else 0)) (embedA j) (embedA j))
      by (intros; auto).
    rewrite !(bil_add_M co Ath). rewrite !(bil_delta co Ath).
    rewrite (embed_PAT_sym i j Hi Hj). ring.
  Qed.

  Lemma C_spec_herm : forall i j, i < d -> j < d -> conj (C_spec j i) = C_spec i j.
  Proof.
    intros i j Hi Hj. unfold C_spec. rewrite !conj_add.
    rewrite !(bil_conj co conj_0 conj_add conj_mul).
    rewrite (bil_transpose co Ath d (fun k0 => conj (cj (embedP j) k0))).
    rewrite (bil_transpose co Ath d (fun k0 => conj (cj (embedA j) k0))).
    rewrite (bil_transpose co Ath d (fun k0 => conj (cj (embedP j) k0)) (fun k0 l => conj (GH k0 l))).
    rewrite (bil_transpose co Ath d (fun k0 => conj (cj (embedA j) k0)) (fun k0 l => conj (Gm k0 l))).
    rewrite (bil_ext co d (fun l => conj (embedP i l)) (cj (embedP i))
               (fun k0 l => conj (Cm l k0)) Cm
               (fun k0 => conj (cj (embedP j) k0)) (embedP j)).
    2:{ auto. } 2:{ intros; unfold Cm; apply C_herm; assumption. }
    2:{ intros; unfold cj; apply conj_conj. }
    rewrite (bil_ext co d (fun l => conj (embedA i l)) (cj (embedA i))
               (fun k0 l => conj (CT1 l k0)) CT1
               (fun k0 => conj (cj (embedA j) k0)) (embedA j)).
    2:{ auto. }
    2:{ intros k0 l Hk Hl. unfold CT1. rewrite conj_add, C_herm by assumption.
        rewrite (Nat.eqb_sym l k0). destruct (Nat.eqb k0 l); [rewrite conj_1|rewrite conj_0]; reflexivity. }
    2:{ intros; unfold cj; apply conj_conj. }
    rewrite (bil_ext co d (fun l => conj (embedA i l)) (cj (embedA i))
               (fun k0 l => conj (GH l k0)) Gm
               (fun k0 => conj (cj (embedP j) k0)) (embedP j)).
    2:{ auto. } 2:{ intros; unfold GH, Gm; apply conj_conj. }
    2:{ intros; unfold cj; apply conj_conj. }
    rewrite (bil_ext co d (fun l => conj (embedP i l)) (cj (embedP i))
               (fun k0 l => conj (Gm l k0)) GH
               (fun k0 => conj (cj (embedA j) k0)) (embedA j)).
    2:{ auto. } 2:{ intros; unfold GH, Gm; reflexivity. }
    2:{ intros; unfold cj; apply conj_conj. }
    ring.
  Qed.

  (* ---- auxiliary modes *)
  Lemma aux_pos_in : forall j b, pos j modes = Some b -> pos j (aux_modes d modes) = None.
  Proof.
    intros j b E. apply pos_None. intros Hin. unfold aux_modes in Hin.
    apply filter_In in Hin. destruct Hin as [_ Hf].
    destruct (pos_Some _ _ _ E) as [Hb Hn].
    assert (Hex : existsb (Nat.eqb j) modes = true).
    { apply existsb_exists. exists j. split; [rewrite <- Hn; apply nth_In; exact Hb|apply Nat.eqb_refl]. }
    rewrite Hex in Hf. discriminate.
  Qed.
  Lemma aux_pos_out : forall j, j < d -> pos j modes = None ->
    exists b', pos j (aux_modes d modes) = Some b'.
  Proof.
    intros j Hj E. apply pos_In. unfold aux_modes. apply filter_In. split.
    - apply in_seq. lia.
    - apply negb_true_iff. apply not_true_is_false. intros H.
      apply existsb_exists in H. destruct H as [x [Hx Hex]]. apply Nat.eqb_eq in Hex. subst x.
      apply pos_None in E. contradiction.
  Qed.

  Local Notation blockG := (linear_block_G co k P Am (read_block co C modes) (read_block co G modes)).
  Local Notation blockC := (linear_block_C co k P Am (read_block co C modes) (read_block co G modes)).
  Local Notation G1 := (assign_block co d G modes blockG).
  Local Notation C1 := (assign_block co d C modes blockC).

  Lemma get_G1 : forall i j, i < d -> j < d ->
    get G1 i j = match pos i modes, pos j modes with Some _, Some _ => G_spec i j | _, _ => get G i j end.
  Proof.
    intros i j Hi Hj. rewrite get_assign_block by assumption.
    destruct (pos i modes) as [a|] eqn:Ei; [|reflexivity].
    destruct (pos j modes) as [b|] eqn:Ej; [|reflexivity].
    destruct (pos_Some _ _ _ Ei) as [Ha Hna]. destruct (pos_Some _ _ _ Ej) as [Hb Hnb].
    rewrite (block_G_spec a b Ha Hb). rewrite Hna, Hnb. reflexivity.
  Qed.
  Lemma get_C1 : forall i j, i < d -> j < d ->
    get C1 i j = match pos i modes, pos j modes with Some _, Some _ => C_spec i j | _, _ => get C i j end.
  Proof.
    intros i j Hi Hj. rewrite get_assign_block by assumption.
    destruct (pos i modes) as [a|] eqn:Ei; [|reflexivity].
    destruct (pos j modes) as [b|] eqn:Ej; [|reflexivity].
    destruct (pos_Some _ _ _ Ei) as [Ha Hna]. destruct (pos_Some _ _ _ Ej) as [Hb Hnb].
    rewrite (block_C_spec a b Ha Hb). rewrite Hna, Hnb. reflexivity.
  Qed.

  Local Notation aux := (aux_modes d modes).
  Local Notation G2 := (assign_aux co d G1 modes aux
     (linear_aux_G co k (length aux) P Am (read_aux co C1 modes aux) (read_aux co G1 modes aux))).
  Local Notation C2 := (assign_aux co d C1 modes aux
     (linear_aux_C co k (length aux) P Am (read_aux co C1 modes aux) (read_aux co G1 modes aux))).

  Lemma md_lt : forall c, c < k -> nth c modes O < d.
  Proof. intros. apply Hlt. apply nth_In. assumption. Qed.

  (* after the block and the auxiliary assignment, the rows of the addressed modes are final *)
  Lemma rows_G2 : forall i a j, pos i modes = Some a -> j < d -> get G2 i j = G_spec i j.
  Proof.
    intros i a j Ei Hj. destruct (pos_Some _ _ _ Ei) as [Ha Hna].
    assert (Hi : i < d) by (rewrite <- Hna; apply md_lt; exact Ha).
    rewrite get_assign_aux by assumption. rewrite Ei.
    destruct (pos j modes) as [b|] eqn:Ej.
    - rewrite (aux_pos_in j b Ej). rewrite get_G1 by assumption. rewrite Ei, Ej. reflexivity.
    - destruct (aux_pos_out j Hj Ej) as [b' Eb']. rewrite Eb'.
      destruct (pos_Some _ _ _ Eb') as [Hb' Hnb'].
      unfold linear_aux_G. rewrite get_madd by assumption. rewrite !get_mmul by assumption.
      rewrite (G_spec_row_out i a j Ei Hj Ej).
      f_equal; apply (sumn_ext co); intros c Hc; rewrite get_read_aux by assumption; rewrite Hnb'.
      + rewrite get_G1 by (try apply md_lt; assumption). rewrite Ej.
        destruct (pos (nth c modes O) modes); reflexivity.
      + rewrite get_C1 by (try apply md_lt; assumption). rewrite Ej.
        destruct (pos (nth c modes O) modes); reflexivity.
  Qed.
  Lemma rows_C2 : forall i a j, pos i modes = Some a -> j < d -> get C2 i j = C_spec i j.
  Proof.
    intros i a j Ei Hj. destruct (pos_Some _ _ _ Ei) as [Ha Hna].
    assert (Hi : i < d) by (rewrite <- Hna; apply md_lt; exact Ha).
    rewrite get_assign_aux by assumption. rewrite Ei.
    destruct (pos j modes) as [b|] eqn:Ej.
    - rewrite (aux_pos_in j b Ej). rewrite get_C1 by assumption. rewrite Ei, Ej. reflexivity.
    - destruct (aux_pos_out j Hj Ej) as [b' Eb']. rewrite Eb'.
      destruct (pos_Some _ _ _ Eb') as [Hb' Hnb'].
      unfold linear_aux_C. rewrite get_madd by assumption. rewrite !get_mmul by assumption.
      rewrite (C_spec_row_out i a j Ei Hj Ej).
      f_equal; apply (sumn_ext co); intros c Hc; rewrite get_read_aux by assumption; rewrite Hnb';
        rewrite get_mcj by assumption.
      + rewrite get_C1 by (try apply md_lt; assumption). rewrite Ej.
        destruct (pos (nth c modes O) modes); reflexivity.
      + rewrite get_G1 by (try apply md_lt; assumption). rewrite Ej.
        destruct (pos (nth c modes O) modes); reflexivity.
  Qed.
  Lemma other_rows : forall i j, pos i modes = None -> i < d -> j < d ->
    get G2 i j = get G i j /\ get C2 i j = get C i j.
  Proof.
    intros i j Ei Hi Hj. rewrite !get_assign_aux by assumption. rewrite Ei.
    rewrite get_G1, get_C1 by assumption. rewrite Ei. split; reflexivity.
  Qed.

  (* simulation_steps.py:_apply_linear_to_C_and_G equals the congruence, entry by entry *)
  Theorem linear_CG_is_congruence : forall i j, i < d -> j < d ->
    get (fst (apply_linear_CG co d P Am modes C G)) i j = C_spec i j /\
    get (snd (apply_linear_CG co d P Am modes C G)) i j = G_spec i j.
  Proof.
    intros i j Hi Hj. unfold apply_linear_CG. cbv zeta.
    destruct (aux_modes d modes) as [|x l] eqn:Eaux.
    - cbn [fst snd]. rewrite get_C1, get_G1 by assumption.
      destruct (pos i modes) as [a|] eqn:Ei.
      + destruct (pos j modes) as [b|] eqn:Ej; [split; reflexivity|].
        destruct (aux_pos_out j Hj Ej) as [b' Eb']. rewrite Eaux in Eb'. discriminate.
      + destruct (aux_pos_out i Hi Ei) as [b' Eb']. rewrite Eaux in Eb'. discriminate.
    - rewrite <- Eaux. unfold apply_linear_aux. cbv zeta. cbn [fst snd].
      rewrite get_mirror_C, get_mirror_G by assumption.
      destruct (pos j modes) as [b|] eqn:Ej.
      + rewrite (rows_C2 j b i Ej Hi), (rows_G2 j b i Ej Hi).
        split; [apply C_spec_herm; assumption|apply G_spec_sym; assumption].
      + destruct (pos i modes) as [a|] eqn:Ei.
        * rewrite (rows_C2 i a j Ei Hj), (rows_G2 i a j Ei Hj). split; reflexivity.
        * destruct (other_rows i j Ei Hi Hj) as [-> ->].
          destruct (spec_out_out i j Hi Hj Ei Ej) as [-> ->]. split; reflexivity.
  Qed.

  (* Hermiticity of C and symmetry of G are preserved *)
  Theorem herm_sym_invariant : forall i j, i < d -> j < d ->
    conj (get (fst (apply_linear_CG co d P Am modes C G)) j i)
      = get (fst (apply_linear_CG co d P Am modes C G)) i j /\
    get (snd (apply_linear_CG co d P Am modes C G)) j i
      = get (snd (apply_linear_CG co d P Am modes C G)) i j.
  Proof.
    intros i j Hi Hj.
    destruct (linear_CG_is_congruence i j Hi Hj) as [-> ->].
    destruct (linear_CG_is_congruence j i Hj Hi) as [-> ->].
    split; [apply C_spec_herm; assumption|apply G_spec_sym; assumption].
  Qed.

  (* the mean: m' = Pf m + Af conj(m)  (simulation_steps.py:_apply_linear) *)
  Theorem linear_mean_is_congruence : forall (m : vec (A := A)) i, i < d ->
    getv co (assign_vec co d m modes
               (vadd co k (mvmul co k k P (read_vec co m modes))
                          (mvmul co k k Am (vcj co k (read_vec co m modes))))) i
    = sumn d (fun t => embedP i t * getv co m t) + sumn d (fun t => embedA i t * conj (getv co m t)).
  Proof.
    intros m i Hi. unfold assign_vec. rewrite (getv_mkv co) by assumption.
    destruct (pos i modes) as [a|] eqn:Ei.
    - destruct (pos_Some _ _ _ Ei) as [Ha Hna].
      unfold vadd. rewrite (getv_mkv co) by assumption.
      unfold mvmul. rewrite !(getv_mkv co) by assumption.
      rewrite (sumn_ext co d _ (fun t => rowE modes (fun c => get P a c) t * getv co m t))
        by (intros; rewrite (embedP_in i a Ei); reflexivity).
      rewrite (sumn_ext co d (fun t => embedA i t * conj (getv co m t))
                 (fun t => rowE modes (fun c => get Am a c) t * conj (getv co m t)))
        by (intros; rewrite (embedA_in i a Ei); reflexivity).
      rewrite !(sum_rowE_l co Ath modes d Hnd Hlt).
      f_equal; apply (sumn_ext co); intros c Hc.
      + unfold read_vec. rewrite (getv_mkv co) by assumption. reflexivity.
      + unfold vcj, read_vec. rewrite !(getv_mkv co) by assumption. reflexivity.
    - rewrite (sumn_ext co d _ (fun t => unit i t * getv co m t))
        by (intros; rewrite (embedP_out i Ei); reflexivity).
      rewrite (sumn_ext co d (fun t => embedA i t * conj (getv co m t)) (fun _ => 0))
        by (intros; rewrite (embedA_out i Ei); ring).
      rewrite (sum_unit_l co Ath d) by assumption. rewrite (sumn_zero co Ath). ring.
  Qed.

  (* ================= the passive path: _apply_passive_linear_to_C_and_G ================= *)
  (* congruence by the embedded matrix alone (no active part):
       C' = conj(Pf) C Pf^T,  G' = Pf G Pf^T *)
  Definition C_pspec (i j : nat) : A := bil d (cj (embedP i)) Cm (embedP j).
  Definition G_pspec (i j : nat) : A := bil d (embedP i) Gm (embedP j).

  Lemma pblock_C_spec : forall a b, a < k -> b < k ->
    get (passive_block_C co k P (read_block co C modes)) a b = C_pspec (md a) (md b).
  Proof.
    intros a b Ha Hb. unfold passive_block_C, C_pspec.
    assert (Ea := pos_nth modes a Hnd Ha). assert (Eb := pos_nth modes b Hnd Hb).
    apply (mm3_spec _ _ _ a b _ _ Cm (fun c => conj (get P a c)) (fun c => get P b c)); auto.
    + apply (cj_embedP_in _ a Ea). + apply (embedP_in _ b Eb).
    + intros. apply get_mcj; assumption. + apply rb_C.
    + intros. apply get_mtr; assumption.
  Qed.
  Lemma pblock_G_spec : forall a b, a < k -> b < k ->
    get (passive_block_G co k P (read_block co G modes)) a b = G_pspec (md a) (md b).
  Proof.
    intros a b Ha Hb. unfold passive_block_G, G_pspec.
    assert (Ea := pos_nth modes a Hnd Ha). assert (Eb := pos_nth modes b Hnd Hb).
    apply (mm3_spec _ _ _ a b _ _ Gm (fun c => get P a c) (fun c => get P b c)); auto.
    + apply (embedP_in _ a Ea). + apply (embedP_in _ b Eb). + apply rb_G.
    + intros. apply get_mtr; assumption.
  Qed.

  Lemma G_pspec_row_out : forall i a j, pos i modes = Some a -> j < d -> pos j modes = None ->
    G_pspec i j = sumn k (fun c => get P a c * get G (md c) j).
  Proof.
    intros i a j Ei Hj Ej. unfold G_pspec.
    destruct (bil_out (embedP i) Gm j Hj Ej) as [-> _].
    rewrite (bil_ext co d (embedP i) (rowE modes (fun c => get P a c)) Gm Gm (unit j) (unit j))
      by (intros; auto; apply (embedP_in i a Ei)).
    rewrite bil_rowE_unit by assumption. reflexivity.
  Qed.
  Lemma C_pspec_row_out : forall i a j, pos i modes = Some a -> j < d -> pos j modes = None ->
    C_pspec i j = sumn k (fun c => conj (get P a c) * get C (md c) j).
  Proof.
    intros i a j Ei Hj Ej. unfold C_pspec.
    destruct (bil_out (cj (embedP i)) Cm j Hj Ej) as [-> _].
    rewrite (bil_ext co d (cj (embedP i)) (rowE modes (fun c => conj (get P a c))) Cm Cm (unit j) (unit j))
      by (intros; auto; apply (cj_embedP_in i a Ei)).
    rewrite bil_rowE_unit by assumption. reflexivity.
  Qed.
  Lemma pspec_out_out : forall i j, i < d -> j < d -> pos i modes = None -> pos j modes = None ->
    G_pspec i j = get G i j /\ C_pspec i j = get C i j.
  Proof.
    intros i j Hi Hj Ei Ej. unfold G_pspec, C_pspec.
    destruct (bil_out (embedP i) Gm j Hj Ej) as [-> _].
    destruct (bil_out (cj (embedP i)) Cm j Hj Ej) as [-> _].
    rewrite (bil_ext co d (embedP i) (unit i) Gm Gm (unit j) (unit j))
      by (intros; auto; apply (embedP_out i Ei)).
    rewrite (bil_ext co d (cj (embedP i)) (unit i) Cm Cm (unit j) (unit j)).
    2:{ intros t _. unfold cj. rewrite (embedP_out i Ei). unfold SumLemmas.unit.
        destruct (Nat.eqb t i); [apply conj_1|apply conj_0]. }
    2:{ auto. } 2:{ auto. }
    rewrite !bil_unit_unit by assumption. split; reflexivity.
  Qed.
  Lemma G_pspec_sym : forall i j, i < d -> j < d -> G_pspec j i = G_pspec i j.
  Proof.
    intros i j Hi Hj. unfold G_pspec.
    rewrite (bil_transpose co Ath d (embedP j) Gm (embedP i)).
    apply (bil_ext co); auto; intros k0 l Hk Hl; unfold Gm; apply G_sym; assumption.
  Qed.
  Lemma C_pspec_herm : forall i j, i < d -> j < d -> conj (C_pspec j i) = C_pspec i j.
  Proof.
    intros i j Hi Hj. unfold C_pspec.
    rewrite (bil_conj co conj_0 conj_add conj_mul).
    rewrite (bil_transpose co Ath d (fun k0 => conj (cj (embedP j) k0))).
    apply (bil_ext co).
    - auto.
    - intros; unfold Cm; apply C_herm; assumption.
    - intros; unfold cj; apply conj_conj.
  Qed.

  Local Notation pG1 := (assign_block co d G modes (passive_block_G co k P (read_block co G modes))).
  Local Notation pC1 := (assign_block co d C modes (passive_block_C co k P (read_block co C modes))).

  Lemma get_pG1 : forall i j, i < d -> j < d ->
    get pG1 i j = match pos i modes, pos j modes with Some _, Some _ => G_pspec i j | _, _ => get G i j end.
  Proof.
    intros i j Hi Hj. rewrite get_assign_block by assumption.
    destruct (pos i modes) as [a|] eqn:Ei; [|reflexivity].
    destruct (pos j modes) as [b|] eqn:Ej; [|reflexivity].
    destruct (pos_Some _ _ _ Ei) as [Ha Hna]. destruct (pos_Some _ _ _ Ej) as [Hb Hnb].
    rewrite (pblock_G_spec a b Ha Hb). rewrite Hna, Hnb. reflexivity.
  Qed.
  Lemma get_pC1 : forall i j, i < d -> j < d ->
    get pC1 i j = match pos i modes, pos j modes with Some _, Some _ => C_pspec i j | _, _ => get C i j end.
  Proof.
    intros i j Hi Hj. rewrite get_assign_block by assumption.
    destruct (pos i modes) as [a|] eqn:Ei; [|reflexivity].
    destruct (pos j modes) as [b|] eqn:Ej; [|reflexivity].
    destruct (pos_Some _ _ _ Ei) as [Ha Hna]. destruct (pos_Some _ _ _ Ej) as [Hb Hnb].
    rewrite (pblock_C_spec a b Ha Hb). rewrite Hna, Hnb. reflexivity.
  Qed.

  Local Notation pG2 := (assign_aux co d pG1 modes aux
     (mmul co k k (length aux) P (read_aux co pG1 modes aux))).
  Local Notation pC2 := (assign_aux co d pC1 modes aux
     (mmul co k k (length aux) (mcj co k k P) (read_aux co pC1 modes aux))).

  Lemma rows_pG2 : forall i a j, pos i modes = Some a -> j < d -> get pG2 i j = G_pspec i j.
  Proof.
    intros i a j Ei Hj. destruct (pos_Some _ _ _ Ei) as [Ha Hna].
    assert (Hi : i < d) by (rewrite <- Hna; apply md_lt; exact Ha).
    rewrite get_assign_aux by assumption. rewrite Ei.
    destruct (pos j modes) as [b|] eqn:Ej.
    - rewrite (aux_pos_in j b Ej). rewrite get_pG1 by assumption. rewrite Ei, Ej. reflexivity.
    - destruct (aux_pos_out j Hj Ej) as [b' Eb']. rewrite Eb'.
      destruct (pos_Some _ _ _ Eb') as [Hb' Hnb'].
      rewrite get_mmul by assumption.
      rewrite (G_pspec_row_out i a j Ei Hj Ej).
      apply (sumn_ext co); intros c Hc; rewrite get_read_aux by assumption; rewrite Hnb'.
      rewrite get_pG1 by (try apply md_lt; assumption). rewrite Ej.
      destruct (pos (nth c modes O) modes); reflexivity.
  Qed.
  Lemma rows_pC2 : forall i a j, pos i modes = Some a -> j < d -> get pC2 i j = C_pspec i j.
  Proof.
    intros i a j Ei Hj. destruct (pos_Some _ _ _ Ei) as [Ha Hna].
    assert (Hi : i < d) by (rewrite <- Hna; apply md_lt; exact Ha).
    rewrite get_assign_aux by assumption. rewrite Ei.
    destruct (pos j modes) as [b|] eqn:Ej.
    - rewrite (aux_pos_in j b Ej). rewrite get_pC1 by assumption. rewrite Ei, Ej. reflexivity.
    - destruct (aux_pos_out j Hj Ej) as [b' Eb']. rewrite Eb'.
      destruct (pos_Some _ _ _ Eb') as [Hb' Hnb'].
      rewrite get_mmul by assumption.
      rewrite (C_pspec_row_out i a j Ei Hj Ej).
      apply (sumn_ext co); intros c Hc; rewrite get_read_aux by assumption; rewrite Hnb';
        rewrite get_mcj by assumption.
      rewrite get_pC1 by (try apply md_lt; assumption). rewrite Ej.
      destruct (pos (nth c modes O) modes); reflexivity.
  Qed.
  Lemma other_prows : forall i j, pos i modes = None -> i < d -> j < d ->
    get pG2 i j = get G i j /\ get pC2 i j = get C i j.
  Proof.
    intros i j Ei Hi Hj. rewrite !get_assign_aux by assumption. rewrite Ei.
    rewrite get_pG1, get_pC1 by assumption. rewrite Ei. split; reflexivity.
  Qed.

  (* simulation_steps.py:_apply_passive_linear_to_C_and_G equals the congruence by the embedded
     matrix, entry by entry, for every d and every duplicate-free tuple of modes in any order *)
  Theorem passive_CG_is_congruence : forall i j, i < d -> j < d ->
    get (fst (apply_passive_CG co d P modes C G)) i j = C_pspec i j /\
    get (snd (apply_passive_CG co d P modes C G)) i j = G_pspec i j.
  Proof.
    intros i j Hi Hj. unfold apply_passive_CG. cbv zeta.
    destruct (aux_modes d modes) as [|x l] eqn:Eaux.
    - cbn [fst snd]. rewrite get_pC1, get_pG1 by assumption.
      destruct (pos i modes) as [a|] eqn:Ei.
      + destruct (pos j modes) as [b|] eqn:Ej; [split; reflexivity|].
        destruct (aux_pos_out j Hj Ej) as [b' Eb']. rewrite Eaux in Eb'. discriminate.
      + destruct (aux_pos_out i Hi Ei) as [b' Eb']. rewrite Eaux in Eb'. discriminate.
    - rewrite <- Eaux. unfold apply_passive_aux. cbv zeta. cbn [fst snd].
      rewrite get_mirror_C, get_mirror_G by assumption.
      destruct (pos j modes) as [b|] eqn:Ej.
      + rewrite (rows_pC2 j b i Ej Hi), (rows_pG2 j b i Ej Hi).
        split; [apply C_pspec_herm; assumption|apply G_pspec_sym; assumption].
      + destruct (pos i modes) as [a|] eqn:Ei.
        * rewrite (rows_pC2 i a j Ei Hj), (rows_pG2 i a j Ei Hj). split; reflexivity.
        * destruct (other_prows i j Ei Hi Hj) as [-> ->].
          destruct (pspec_out_out i j Hi Hj Ei Ej) as [-> ->]. split; reflexivity.
  Qed.

  Theorem passive_herm_sym_invariant : forall i j, i < d -> j < d ->
    conj (get (fst (apply_passive_CG co d P modes C G)) j i)
      = get (fst (apply_passive_CG co d P modes C G)) i j /\
    get (snd (apply_passive_CG co d P modes C G)) j i
      = get (snd (apply_passive_CG co d P modes C G)) i j.
  Proof.
    intros i j Hi Hj.
    destruct (passive_CG_is_congruence i j Hi Hj) as [-> ->].
    destruct (passive_CG_is_congruence j i Hj Hi) as [-> ->].
    split; [apply C_pspec_herm; assumption|apply G_pspec_sym; assumption].
  Qed.

  (* the mean: m' = Pf m  (simulation_steps.py:_apply_passive_linear) *)
  Theorem passive_mean_is_congruence : forall (m : vec (A := A)) i, i < d ->
    getv co (assign_vec co d m modes (mvmul co k k P (read_vec co m modes))) i
    = sumn d (fun t => embedP i t * getv co m t).
  Proof.
    intros m i Hi. unfold assign_vec. rewrite (getv_mkv co) by assumption.
    destruct (pos i modes) as [a|] eqn:Ei.
    - destruct (pos_Some _ _ _ Ei) as [Ha Hna].
      unfold mvmul. rewrite (getv_mkv co) by assumption.
      rewrite (sumn_ext co d _ (fun t => rowE modes (fun c => get P a c) t * getv co m t))
        by (intros; rewrite (embedP_in i a Ei); reflexivity).
      rewrite (sum_rowE_l co Ath modes d Hnd Hlt).
      apply (sumn_ext co); intros c Hc.
      unfold read_vec. rewrite (getv_mkv co) by assumption. reflexivity.
    - rewrite (sumn_ext co d _ (fun t => unit i t * getv co m t))
        by (intros; rewrite (embedP_out i Ei); reflexivity).
      rewrite (sum_unit_l co Ath d) by assumption. reflexivity.
  Qed.

  (* the first symplectic condition, embedded:  Pf Pf^dagger = I + Af Af^dagger *)
  Lemma conj_unit : forall i t, conj (unit i t) = unit i t.
  Proof. intros. unfold SumLemmas.unit. destruct (Nat.eqb t i); [apply conj_1|apply conj_0]. Qed.

  Lemma embed_PPd :
    (forall a b, a < k -> b < k ->
       sumn k (fun c => get P a c * conj (get P b c))
       = (if Nat.eqb a b then 1 else 0) + sumn k (fun c => get Am a c * conj (get Am b c))) ->
    forall i j, i < d -> j < d ->
      sumn d (fun t => embedP i t * conj (embedP j t))
      = (if Nat.eqb i j then 1 else 0) + sumn d (fun t => embedA i t * conj (embedA j t)).
  Proof.
    intros Hk i j Hi Hj.
    destruct (pos i modes) as [a|] eqn:Ei; destruct (pos j modes) as [b|] eqn:Ej.
    - destruct (pos_Some _ _ _ Ei) as [Ha Hna]. destruct (pos_Some _ _ _ Ej) as [Hb Hnb].
      rewrite (sumn_ext co d _ (fun t => rowE modes (fun c => get P a c) t * rowE modes (fun c => conj (get P b c)) t))
        by (intros; rewrite (embedP_in i a Ei), (embedP_in j b Ej), cj_rowE; reflexivity).
      rewrite (sumn_ext co d (fun t => embedA i t * conj (embedA j t))
                 (fun t => rowE modes (fun c => get Am a c) t * rowE modes (fun c => conj (get Am b c)) t))
        by (intros; rewrite (embedA_in i a Ei), (embedA_in j b Ej), cj_rowE; reflexivity).
      rewrite !dot_rowE_rowE. rewrite (Hk a b Ha Hb).
      rewrite <- Hna, <- Hnb. rewrite (nth_eqb_nodup modes a b Hnd Ha Hb). reflexivity.
    - rewrite (sumn_ext co d _ (fun t => embedP i t * unit j t))
        by (intros; rewrite (embedP_out j Ej), conj_unit; reflexivity).
      rewrite (sum_unit_r co Ath d) by assumption.
      rewrite (sumn_ext co d (fun t => embedA i t * conj (embedA j t)) (fun _ => 0))
        by (intros; rewrite (embedA_out j Ej), conj_0; ring).
      rewrite (sumn_zero co Ath).
      unfold embedP. rewrite ?Ei, ?Ej. ring.
    - rewrite (sumn_ext co d _ (fun t => unit i t * conj (embedP j t)))
        by (intros; rewrite (embedP_out i Ei); reflexivity).
      rewrite (sum_unit_l co Ath d) by assumption.
      rewrite (sumn_ext co d (fun t => embedA i t * conj (embedA j t)) (fun _ => 0))
        by (intros; rewrite (embedA_out i Ei); ring).
      rewrite (sumn_zero co Ath).
      unfold embedP. rewrite ?Ej, ?Ei.
      destruct (Nat.eqb j i) eqn:E1; destruct (Nat.eqb i j) eqn:E2;
        rewrite ?conj_0, ?conj_1; try ring;
        apply Nat.eqb_eq in E1 || apply Nat.eqb_eq in E2; subst;
        rewrite Nat.eqb_refl in *; discriminate.
    - rewrite (sumn_ext co d _ (fun t => unit i t * conj (embedP j t)))
        by (intros; rewrite (embedP_out i Ei); reflexivity).
      rewrite (sum_unit_l co Ath d) by assumption.
      rewrite (sumn_ext co d (fun t => embedA i t * conj (embedA j t)) (fun _ => 0))
        by (intros; rewrite (embedA_out i Ei); ring).
      rewrite (sumn_zero co Ath).
      unfold embedP. rewrite ?Ej, ?Ei.
      destruct (Nat.eqb j i) eqn:E1; destruct (Nat.eqb i j) eqn:E2;
        rewrite ?conj_0, ?conj_1; try ring;
        apply Nat.eqb_eq in E1 || apply Nat.eqb_eq in E2; subst;
        rewrite Nat.eqb_refl in *; discriminate.
  Qed.
End Congruence.
