(* C02 — imperfect photon-number detection, piquasso/_simulators/simulation_steps.py.
   Definitions only. *)
From Coq Require Import ZArith QArith List Bool Arith.
From PV Require Import Base.CasesLib C02.DistModel.
Import ListNotations.
Local Open Scope nat_scope.

Section Imperfect.
  Variable N : num.

  (* detector_efficiency_matrix[:, actual_count] *)
  Definition column (P : list (list N)) (j : nat) : list N := map (fun row => nth j row n0) P.

  (* simulation_steps.py:_get_probabilities_by_mode *)
  Definition probabilities_by_mode (P : list (list N)) (actual : list nat) : list (list N) :=
    map (column P) actual.

  (* itertools.product(range(rows), repeat=k): first coordinate slowest *)
  Fixpoint outcomes (rows k : nat) : list (list nat) :=
    match k with
    | O => [[]]
    | S k' => flat_map (fun i => map (cons i) (outcomes rows k')) (seq 0 rows)
    end.

  (* probability *= probabilities_by_mode[mode][detected_count] *)
  Fixpoint outcome_probability (cols : list (list N)) (o : list nat) : N :=
    match cols, o with
    | c :: cr, x :: xr => nmul (nth x c n0) (outcome_probability cr xr)
    | _, _ => n1
    end.

  Definition is_zero (x : N) : bool := nleb x n0 && nleb n0 x.

  (* simulation_steps.py:_get_detected_outcome_probabilities (the shots=None branch weights):
     every detected outcome of non-zero probability, in product order *)
  Definition detected_outcome_probabilities (P : list (list N)) (actual : list nat)
    : list (list nat * N) :=
    let cols := probabilities_by_mode P actual in
    filter (fun op => negb (is_zero (snd op)))
           (map (fun o => (o, outcome_probability cols o)) (outcomes (length P) (length actual))).

  (* the sampler as a program in the distribution monad: one independent categorical draw per
     mode from that mode's column *)
  Fixpoint detect (cols : list (list N)) : dist N (list nat) :=
    match cols with
    | [] => dret []
    | c :: cr => dbind (choice (combine (seq 0 (length c)) c))
                       (fun x => dmap (cons x) (detect cr))
    end.
End Imperfect.

Arguments column {N}. Arguments probabilities_by_mode {N}. Arguments outcome_probability {N}.
Arguments detected_outcome_probabilities {N}. Arguments detect {N}.

(* simulation_steps.py:_sample_detected_outcomes as a function of the drawn counts
   (draws_by_mode[m] = the `size=multiplicity` draws of mode m): column_stack, then np.unique
   reordered by first occurrence = binning in order of first occurrence *)
Definition sample_detected (multiplicity : nat) (draws_by_mode : list (list nat))
  : list (list nat * nat) :=
  get_counts (list_eqb Nat.eqb)
             (map (fun i => map (fun dr => nth i dr O) draws_by_mode) (seq 0 multiplicity)).

(* consecutive shots of a stateless sampler: n independent draws from the same law *)
Fixpoint iid {N : num} {A} (d : dist N A) (n : nat) : dist N (list A) :=
  match n with
  | O => dret []
  | S m => dbind d (fun a => dmap (cons a) (iid d m))
  end.
