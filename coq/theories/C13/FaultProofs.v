(* C13 — which exception a request with one violated rule gets (single-fault theorems), the
   construction-time checks (Q.__init__, on_modes), and the characterisation of the inferred
   number of modes. *)
From Coq Require Import ZArith List Bool Lia ZifyBool.
From PV Require Import C13.SimTypes C13.ValidateModel C13.ValidateSpec C13.ValidateProofs.
Import ListNotations.
Open Scope Z_scope.

Section SingleFault.
Variables (T : simtab) (r : request).

(* Each lemma assumes only the rules that the code checks earlier; a request whose only fault
   is the named rule satisfies those in particular. *)
Lemma fault_shots : ~ ShotsOK (r_shots r) -> validate_upfront T r = Some RShots.
Proof.
  intros H. unfold validate_upfront. destruct (shots_ok (r_shots r)) eqn:E; [|reflexivity].
  exfalso. apply H. apply shots_ok_spec. exact E.
Qed.

Lemma fault_no_d : ShotsOK (r_shots r) -> eff_d (r_simd r) (r_prog r) = None ->
  validate_upfront T r = Some RNoD.
Proof.
  intros H1 H2. unfold validate_upfront. apply shots_ok_spec in H1. rewrite H1, H2. reflexivity.
Qed.

Variable d : Z.
Hypothesis Hshots : ShotsOK (r_shots r).
Hypothesis Hd : eff_d (r_simd r) (r_prog r) = Some d.

Lemma fault_exist : ~ Forall (Supported T) (r_prog r) -> validate_upfront T r = Some RExist.
Proof.
  intros H. unfold validate_upfront. apply shots_ok_spec in Hshots. rewrite Hshots, Hd. simpl.
  destruct (check_exist T (r_prog r)) eqn:E; [|reflexivity].
  exfalso. apply H. apply check_exist_spec. exact E.
Qed.

Hypothesis Hsup : Forall (Supported T) (r_prog r).

Lemma upfront_after_exist :
  validate_upfront T r =
  match check_modes d (r_prog r) with
  | Some e => Some e
  | None =>
      if negb (check_prep (r_prog r)) then Some RPrepFirst else
      if negb (check_meas T (r_prog r)) then Some RMeasLast else
      match check_active (range d) (r_prog r) with
      | Some e => Some e
      | None =>
          if negb (check_shots_none T (r_shots r) (r_prog r)) then Some RShotsNone else
          match check_init T d (r_init r) with
          | Some e => Some e
          | None => if negb (check_params (r_validate r) (r_prog r)) then Some RParams else None
          end
      end
  end.
Proof.
  unfold validate_upfront. apply shots_ok_spec in Hshots. rewrite Hshots, Hd. simpl.
  apply check_exist_spec in Hsup. rewrite Hsup. reflexivity.
Qed.

Lemma fault_range : Forall Distinct (r_prog r) -> ~ Forall (InRange d) (r_prog r) ->
  validate_upfront T r = Some RRange.
Proof.
  intros H1 H2. rewrite upfront_after_exist, (check_modes_range_only d _ H1 H2). reflexivity.
Qed.

Lemma fault_repeated : Forall (InRange d) (r_prog r) -> ~ Forall Distinct (r_prog r) ->
  validate_upfront T r = Some RRepeated.
Proof.
  intros H1 H2. rewrite upfront_after_exist, (check_modes_repeated_only d _ H1 H2). reflexivity.
Qed.

Hypothesis Hrange : Forall (InRange d) (r_prog r).
Hypothesis Hdist : Forall Distinct (r_prog r).

Lemma modes_pass : check_modes d (r_prog r) = None.
Proof. apply check_modes_spec. split; assumption. Qed.

Lemma fault_prep : ~ PrepsFirst (r_prog r) -> validate_upfront T r = Some RPrepFirst.
Proof.
  intros H. rewrite upfront_after_exist, modes_pass.
  destruct (check_prep (r_prog r)) eqn:E; [|reflexivity].
  exfalso. apply H. apply check_prep_spec. exact E.
Qed.

Hypothesis Hprep : PrepsFirst (r_prog r).

Lemma fault_meas : ~ MeasLast T (r_prog r) -> validate_upfront T r = Some RMeasLast.
Proof.
  intros H. rewrite upfront_after_exist, modes_pass.
  apply check_prep_spec in Hprep. rewrite Hprep. simpl.
  destruct (check_meas T (r_prog r)) eqn:E; [|reflexivity].
  exfalso. apply H. apply check_meas_spec. exact E.
Qed.

Hypothesis Hmeas : MeasLast T (r_prog r).

Lemma upfront_after_order :
  validate_upfront T r =
  match check_active (range d) (r_prog r) with
  | Some e => Some e
  | None =>
      if negb (check_shots_none T (r_shots r) (r_prog r)) then Some RShotsNone else
      match check_init T d (r_init r) with
      | Some e => Some e
      | None => if negb (check_params (r_validate r) (r_prog r)) then Some RParams else None
      end
  end.
Proof.
  rewrite upfront_after_exist, modes_pass.
  apply check_prep_spec in Hprep. rewrite Hprep.
  apply check_meas_spec in Hmeas. rewrite Hmeas. reflexivity.
Qed.

Lemma fault_active : ActiveArity d (r_prog r) -> ~ ActiveModes (r_prog r) ->
  validate_upfront T r = Some RActive.
Proof.
  intros HA HM. rewrite upfront_after_order.
  destruct (check_active (range d) (r_prog r)) as [e|] eqn:E.
  - destruct (check_active_err d _ [] _ e (Inv_init d) Hrange E) as [pre [i [post [Hp Hc]]]].
    destruct Hc as [[He _]|[_ Hc]]; [subst; reflexivity|].
    exfalso. apply Hc. simpl. intros Hm n Hn. apply (HA pre i post Hp Hm n Hn).
  - apply (active_top d _ Hrange) in E. destruct E. contradiction.
Qed.

Lemma fault_arity : ActiveModes (r_prog r) -> ~ ActiveArity d (r_prog r) ->
  validate_upfront T r = Some RActiveArity.
Proof.
  intros HM HA. rewrite upfront_after_order.
  destruct (check_active (range d) (r_prog r)) as [e|] eqn:E.
  - destruct (check_active_err d _ [] _ e (Inv_init d) Hrange E) as [pre [i [post [Hp Hc]]]].
    destruct Hc as [[_ Hc]|[He _]]; [|subst; reflexivity].
    exfalso. apply Hc. simpl. intros m Hm. apply (HM pre i post Hp m Hm).
  - apply (active_top d _ Hrange) in E. destruct E. contradiction.
Qed.

Hypothesis Hact : ActiveModes (r_prog r).
Hypothesis Har : ActiveArity d (r_prog r).

Lemma active_pass : check_active (range d) (r_prog r) = None.
Proof. apply (active_top d _ Hrange). split; assumption. Qed.

Lemma fault_shots_none : ~ ShotsNoneOK T (r_shots r) (r_prog r) ->
  validate_upfront T r = Some RShotsNone.
Proof.
  intros H. rewrite upfront_after_order, active_pass.
  destruct (check_shots_none T (r_shots r) (r_prog r)) eqn:E; [|reflexivity].
  exfalso. apply H. apply check_shots_none_spec. exact E.
Qed.

Hypothesis Hnone : ShotsNoneOK T (r_shots r) (r_prog r).

Lemma fault_init : ~ InitOK T d (r_init r) ->
  exists e, validate_upfront T r = Some e /\ exn_of e = InvalidState.
Proof.
  intros H. rewrite upfront_after_order, active_pass.
  apply check_shots_none_spec in Hnone. rewrite Hnone. simpl.
  destruct (check_init T d (r_init r)) as [e|] eqn:E.
  - exists e. split; [reflexivity|].
    destruct (check_init_rules _ _ _ _ E); subst; reflexivity.
  - exfalso. apply H. apply check_init_spec. exact E.
Qed.

Hypothesis Hinit : InitOK T d (r_init r).

Lemma fault_params : ~ ParamsOK (r_validate r) (r_prog r) ->
  validate_upfront T r = Some RParams.
Proof.
  intros H. rewrite upfront_after_order, active_pass.
  apply check_shots_none_spec in Hnone. rewrite Hnone. simpl.
  apply check_init_spec in Hinit. rewrite Hinit.
  destruct (check_params (r_validate r) (r_prog r)) eqn:E; [|reflexivity].
  exfalso. apply H. apply check_params_spec. exact E.
Qed.

End SingleFault.

(* ------------------------------------------------------------------ construction *)
Lemma q_init_spec : forall l l',
  q_init (QModes l) = inr l' <-> (l' = l /\ (forall m, In m l -> 0 <= m) /\ NoDup l).
Proof.
  intros l l'. unfold q_init.
  destruct (existsb (fun m => m <? 0) l) eqn:E1.
  - split; [discriminate|]. intros [_ [H _]]. apply existsb_exists in E1.
    destruct E1 as [m [Hm Hlt]]. specialize (H m Hm). lia.
  - destruct (distinctb l) eqn:E2; simpl.
    + split.
      * intros H. assert (Heq : l' = l) by congruence. subst l'. clear H.
        split; [reflexivity|]. split.
        -- intros m Hm. destruct (m <? 0) eqn:E; [|lia].
           assert (existsb (fun m => m <? 0) l = true) by (apply existsb_exists; exists m; split; [assumption | exact E]).
           congruence.
        -- apply distinctb_NoDup. exact E2.
      * intros [H _]. subst. reflexivity.
    + split; [discriminate|]. intros [_ [_ H]]. apply distinctb_NoDup in H. congruence.
Qed.

Lemma q_init_error : forall a e, q_init a = inl e -> e = InvalidModes.
Proof.
  intros a e H. destruct a as [|l]; simpl in H; [discriminate|].
  destruct (existsb (fun m => m <? 0) l); [inversion H; reflexivity|].
  destruct (negb (distinctb l)); [inversion H; reflexivity|discriminate].
Qed.

Lemma on_modes_spec : forall i modes i',
  on_modes i modes = inr i' <->
  ((modes = [] /\ i' = i) \/
   (modes <> [] /\ arity_ok (i_cls i) modes = true /\
    i' = mkinstr (i_cls i) modes (i_resolved i) (i_pvalid i))).
Proof.
  intros i modes i'. unfold on_modes. destruct modes as [|m ms].
  - split.
    + intros H. inversion H. left. auto.
    + intros [[_ H]|[H _]]; [subst; reflexivity | congruence].
  - destruct (arity_ok (i_cls i) (m :: ms)) eqn:E.
    + split.
      * intros H. inversion H. right. repeat split; auto. discriminate.
      * intros [[H _]|[_ [_ H]]]; [discriminate | subst; reflexivity].
    + split; [discriminate|]. intros [[H _]|[_ [H _]]]; [discriminate | congruence].
Qed.

Lemma register_error : forall rg i e, register rg i = inl e ->
  e = InvalidModes \/ e = InvalidProgram.
Proof.
  intros rg i e H. assert (Hon : forall l, on_modes i l = inl e -> e = InvalidProgram).
  { intros l Hl. unfold on_modes in Hl. destruct l; [discriminate|].
    destruct (arity_ok (i_cls i) (z :: l)); [discriminate | inversion Hl; reflexivity]. }
  destruct rg as [a|l|]; simpl in H.
  - destruct (q_init a) eqn:E.
    + inversion H; subst. left. eapply q_init_error; eassumption.
    + right. eapply Hon; eassumption.
  - right. eapply Hon; eassumption.
  - discriminate.
Qed.

(* a program that was built satisfies the arity rule wherever modes were given *)
Lemma build_arity : forall script p,
  Forall (fun ri => i_modes (snd ri) = [] \/
                    arity_ok (i_cls (snd ri)) (i_modes (snd ri)) = true) script ->
  build script = inr p ->
  Forall (fun i => i_modes i = [] \/ arity_ok (i_cls i) (i_modes i) = true) p.
Proof.
  induction script as [|[rg i] rest IH]; simpl; intros p Hs H.
  - inversion H. constructor.
  - inversion Hs as [|? ? Hi Hrest]; subst. simpl in Hi.
    destruct (register rg i) as [e|i'] eqn:Er; [discriminate|].
    destruct (build rest) as [e|p'] eqn:Eb; [discriminate|]. inversion H; subst.
    constructor; [|apply IH; auto].
    assert (Hon : forall l, on_modes i l = inr i' ->
              i_modes i' = [] \/ arity_ok (i_cls i') (i_modes i') = true).
    { intros l Hl. apply on_modes_spec in Hl. destruct Hl as [[_ Hl]|[_ [Ha Hl]]]; subst.
      - exact Hi.
      - right. simpl. exact Ha. }
    destruct rg as [a|l|]; simpl in Er.
    + destruct (q_init a); [discriminate|]. eapply Hon; eassumption.
    + eapply Hon; eassumption.
    + inversion Er; subst. exact Hi.
Qed.

(* a refusal at construction or for a structural reason happens with no step run *)
Theorem submit_reject_before_evolution : forall T Orc simd v s init script rl n,
  submit T Orc simd v s init script = VRefused rl n -> structural rl = true -> n = 0%nat.
Proof.
  intros T Orc simd v s init script rl n H Hs. unfold submit in H.
  destruct (build script) as [e|p]; [discriminate|].
  destruct (run T Orc (mkreq simd v s init p)) eqn:E; [discriminate|].
  inversion H; subst. eapply reject_before_evolution; eassumption.
Qed.

(* ------------------------------------------------------------------ inferred d *)
Lemma maxl_spec : forall r m, (forall x, In x (m :: r) -> x <= maxl m r) /\ In (maxl m r) (m :: r).
Proof.
  unfold maxl. induction r as [|y r IH]; intros m; simpl.
  - split; [intros x [H|[]]; lia | left; reflexivity].
  - destruct (IH (Z.max m y)) as [H1 H2]. split.
    + intros x [H|[H|H]].
      * subst x. specialize (H1 (Z.max m y) (or_introl eq_refl)). lia.
      * subst x. specialize (H1 (Z.max m y) (or_introl eq_refl)). lia.
      * apply H1. right. assumption.
    + destruct H2 as [H2|H2].
      * destruct (Z.max_spec m y) as [[_ E]|[_ E]]; rewrite E in *; simpl; auto.
      * right. right. assumption.
Qed.

Definition DInv (seen : list instr) (acc : option Z) : Prop :=
  match acc with
  | None => forall i, In i seen -> i_modes i = []
  | Some n => (forall i m, In i seen -> In m (i_modes i) -> m < n) /\
              (exists i m, In i seen /\ In m (i_modes i) /\ n = m + 1)
  end.

Lemma infer_fold : forall p seen acc,
  (forall i m, In i (seen ++ p) -> In m (i_modes i) -> 0 <= m) ->
  DInv seen acc -> DInv (seen ++ p) (fold_left infer_step p acc).
Proof.
  induction p as [|i rest IH]; intros seen acc Hnn HI; simpl.
  - rewrite app_nil_r. exact HI.
  - replace (seen ++ i :: rest) with ((seen ++ [i]) ++ rest) by (rewrite <- app_assoc; reflexivity).
    apply IH.
    + rewrite <- app_assoc. simpl. exact Hnn.
    + assert (Hi : forall m, In m (i_modes i) -> 0 <= m).
      { intros m Hm. apply (Hnn i m); [apply in_or_app; right; left; reflexivity | exact Hm]. }
      unfold infer_step. destruct (i_modes i) as [|m0 ms] eqn:Hmodes.
      * destruct acc as [n|]; simpl in *.
        -- destruct HI as [H1 [j [m [Hj [Hm Hn]]]]]. split.
           ++ intros k m' Hk Hm'. apply in_app_or in Hk. destruct Hk as [Hk|[Hk|[]]].
              ** eapply H1; eassumption.
              ** subst. rewrite Hmodes in Hm'. inversion Hm'.
           ++ exists j, m. split; [apply in_or_app; left; assumption | auto].
        -- intros k Hk. apply in_app_or in Hk. destruct Hk as [Hk|[Hk|[]]]; [auto | subst; assumption].
      * destruct (maxl_spec ms m0) as [Hle Hin].
        assert (Hnew : DInv (seen ++ [i]) (Some (maxl m0 ms + 1)) \/ True) by (right; trivial).
        destruct acc as [n|]; simpl in *.
        -- destruct HI as [H1 [j [m [Hj [Hm Hn]]]]].
           assert (0 <= m) by (apply (Hnn j m); [apply in_or_app; left; assumption | assumption]).
           destruct ((n =? 0) || (n <=? maxl m0 ms)) eqn:E; simpl.
           ++ split.
              ** intros k m' Hk Hm'. apply in_app_or in Hk. destruct Hk as [Hk|[Hk|[]]].
                 --- specialize (H1 k m' Hk Hm'). lia.
                 --- subst. rewrite Hmodes in Hm'. specialize (Hle m' Hm'). lia.
              ** exists i, (maxl m0 ms). split; [apply in_or_app; right; left; reflexivity|].
                 rewrite Hmodes. split; [exact Hin | reflexivity].
           ++ split.
              ** intros k m' Hk Hm'. apply in_app_or in Hk. destruct Hk as [Hk|[Hk|[]]].
                 --- eapply H1; eassumption.
                 --- subst. rewrite Hmodes in Hm'. specialize (Hle m' Hm'). lia.
              ** exists j, m. split; [apply in_or_app; left; assumption | auto].
        -- split.
           ++ intros k m' Hk Hm'. apply in_app_or in Hk. destruct Hk as [Hk|[Hk|[]]].
              ** rewrite (HI k Hk) in Hm'. inversion Hm'.
              ** subst. rewrite Hmodes in Hm'. specialize (Hle m' Hm'). lia.
           ++ exists i, (maxl m0 ms). split; [apply in_or_app; right; left; reflexivity|].
              rewrite Hmodes. split; [exact Hin | reflexivity].
Qed.

Theorem infer_d_spec : forall p d,
  (forall i m, In i p -> In m (i_modes i) -> 0 <= m) -> infer_d p = Some d ->
  (forall i m, In i p -> In m (i_modes i) -> m < d) /\
  (exists i m, In i p /\ In m (i_modes i) /\ d = m + 1).
Proof.
  intros p d Hnn H. unfold infer_d in H.
  assert (HI : DInv ([] ++ p) (fold_left infer_step p None)).
  { apply infer_fold; [simpl; exact Hnn | simpl; intros i []]. }
  rewrite H in HI. simpl in HI. exact HI.
Qed.
