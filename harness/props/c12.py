"""C12 — Execution never modifies what the caller passed in, even on failure."""
import json
import os
import subprocess
from fractions import Fraction

from common import (CASES_HEADER, REPO, RUN, VERIF, Check, cbool, clist, coq_eval_parallel, copt, cz,
                    parse_coq_list, run_impl)

IMPORTS = CASES_HEADER + "From PV Require Import Base.CasesLib C12.ExecModel C12.BufferModel.\n"
CORPUS = os.path.join(VERIF, "harness", "corpus", "c12.jsonl")

# sizes per tier: scripted programs, programs on the shipped simulators, repetitions of the array sizes
NPROG = {"quick": 100, "thorough": 1200}
NREAL = {"quick": 4, "thorough": 24}
NARR = {"quick": 1, "thorough": 3}


def A(kind, n, **kw):
    return [6, dict(kind=kind, n=n, dtype=kw.pop("dtype", "cfg"), **kw)]


NS = lambda occ: {"cls": "NumberState", "modes": [], "params": {"occupation_numbers": [5, occ]}}  # noqa: E731
VAC = {"cls": "Vacuum", "modes": [], "params": {}}
BS = lambda a, b: {"cls": "Beamsplitter", "modes": [a, b], "params": {"theta": [0, 0.63], "phi": [0, 0.3]}}  # noqa: E731
SQ = lambda m: {"cls": "Squeezing", "modes": [m], "params": {"r": [0, 0.3]}}  # noqa: E731
PNM = {"cls": "ParticleNumberMeasurement", "modes": [], "params": {}}
DET = lambda n: {"cls": "ImperfectParticleNumberMeasurement", "modes": [], "params": {"detector_efficiency_matrix": A("detector", n)}}  # noqa: E731
# (simulator, d, cutoff, instructions before, the instruction taking arrays, instructions after)
ARRAY_PROGRAMS = [
    ("sampling", 3, None, [NS([1, 1, 0]), BS(0, 1), BS(1, 2)], DET(3), []),
    ("purefock", 2, 4, [NS([1, 1]), BS(0, 1)], DET(3), []),
    ("fock", 2, 3, [VAC, SQ(0), BS(0, 1)], DET(3), []),
    ("gaussian", 2, 3, [VAC, SQ(0), BS(0, 1)], DET(3), []),
    ("sampling", 3, None, [NS([1, 1, 0])], {"cls": "Interferometer", "modes": [0, 1, 2], "params": {"matrix": A("unitary", 3, seed=4)}}, [PNM]),
    ("purefock", 3, 3, [NS([1, 1, 0])], {"cls": "Interferometer", "modes": [0, 1, 2], "params": {"matrix": A("unitary", 3, seed=4)}}, [PNM]),
    ("fock", 2, 3, [VAC, SQ(0)], {"cls": "Interferometer", "modes": [0, 1], "params": {"matrix": A("unitary", 2, seed=4)}}, [PNM]),
    ("gaussian", 3, None, [VAC, SQ(0)], {"cls": "Interferometer", "modes": [0, 1, 2], "params": {"matrix": A("unitary", 3, seed=4)}}, [PNM]),
    ("sampling", 3, None, [NS([1, 1, 0])], {"cls": "LossyInterferometer", "modes": [0, 1, 2], "params": {"matrix": A("lossy", 3, seed=4)}}, [PNM]),
    ("gaussian", 2, None, [VAC, SQ(0)], {"cls": "GaussianTransform", "modes": [0, 1], "params": {"passive": A("unitary", 2, seed=3), "active": A("zeros", 2, complex=True)}}, [PNM]),
    ("purefock", 2, 4, [VAC, SQ(0)], {"cls": "GaussianTransform", "modes": [0, 1], "params": {"passive": A("unitary", 2, seed=3), "active": A("zeros", 2, complex=True)}}, [PNM]),
    ("gaussian", 2, None, [VAC], {"cls": "Covariance", "modes": [], "params": {"cov": A("cov", 4)}}, [BS(0, 1), PNM]),
    ("gaussian", 2, None, [VAC], {"cls": "Mean", "modes": [], "params": {"mean": A("vector", 4)}}, [BS(0, 1), PNM]),
    ("gaussian", 2, None, [], {"cls": "Thermal", "modes": [], "params": {"mean_photon_numbers": A("vector", 2)}}, [BS(0, 1), PNM]),
    ("gaussian", 2, None, [VAC, SQ(0), BS(0, 1)], {"cls": "GeneraldyneMeasurement", "modes": [0], "params": {"detection_covariance": A("eye", 2)}}, []),
    ("gaussian", 2, None, [VAC, SQ(0)], {"cls": "DeterministicGaussianChannel", "modes": [0], "params": {"X": A("eye", 2, scale=0.9), "Y": A("eye", 2, scale=0.5)}}, [PNM]),
    ("gaussian", 3, None, [VAC], {"cls": "Graph", "modes": [0, 1, 2], "params": {"adjacency_matrix": A("adjacency", 3, seed=2)}}, [PNM]),
    ("purefock", 2, 4, [NS([1, 1]), BS(0, 1)], {"cls": "SNAP", "modes": [0], "params": {"theta": A("vector", 4)}}, [PNM]),
    ("fock", 2, 3, [VAC, SQ(0)], {"cls": "SNAP", "modes": [0], "params": {"theta": A("vector", 3)}}, [PNM]),
    ("sampling", 2, None, [NS([1, 1])], {"cls": "Loss", "modes": [0], "params": {"transmissivity": A("vector", 1)}}, [PNM]),
    ("sampling", 2, None, [], {"cls": "DistinguishableNumberState", "modes": [], "params": {"occupation_numbers": [5, [1, 1]], "particle_overlap": A("overlap", 2)}}, [BS(0, 1), PNM]),
]
# (layout, dtype of the array relative to the config, config dtype)
ARRAY_VARIANTS = [("C", "same", "float64"), ("F", "same", "float64"), ("C", "other", "float64"), ("list", "same", "float64"),
                  ("readonly", "same", "float64"), ("strided", "same", "float64"), ("C", "same", "float32")]


def array_cases(rng, thorough):
    """Every instruction class taking arrays, on the simulators that have it: the aliasing case (a
    C-contiguous ndarray of the config's dtype) always, with finite shots and shots=None; the
    other layouts / dtypes all in the thorough tier, one per program (drawn) in the quick tier."""
    import copy as _copy
    out = []
    for pi, (sim, d, cutoff, pre, ins, post) in enumerate(ARRAY_PROGRAMS):
        variants = ARRAY_VARIANTS if thorough else [ARRAY_VARIANTS[0], ARRAY_VARIANTS[1 + rng.randrange(len(ARRAY_VARIANTS) - 1)]]
        for vi, (layout, rel, cfg) in enumerate(variants):
            for shots in ((3, None) if (vi == 0 or thorough) else (3,)):
                ins2 = _copy.deepcopy(ins)
                for k, v in ins2["params"].items():
                    if v[0] == 6:
                        real = {"float64": "float64", "float32": "float32"}[cfg]
                        if rel == "other":
                            real = "float32" if cfg == "float64" else "float64"
                        v[1]["dtype"] = real
                        v[1]["layout"] = layout
                case = {"sim": sim, "d": d, "cutoff": cutoff, "seed": rng.randint(1, 10 ** 6), "shots": shots,
                        "dtype": cfg, "prog": pre + [ins2] + post, "faults": "tail3" if thorough else "tail2",
                        "no_other": vi > 0, "array_instruction": ins["cls"], "variant": [layout, rel, cfg]}
                out.append(case)
    return out

VARIANTS = {1: "repaired", 2: "before the fixes", 4: "try/finally only", 8: "caller's string kept only",
            16: "try/finally + string kept, validation not moved up front"}


# ----------------------------------------------------------------------------- Coq terms
def c_pval(p):
    return "(%s %s)" % (["PConst", "PStr", "PExpr", "PCallable"][p[0]], cz(p[1]))


def c_params(ps):
    return clist(ps, lambda kv: "(%s, %s)" % (cz(kv[0]), c_pval(kv[1])))


def c_instr(i):
    return "(mk_instr %s %s %s %s %s %s %s %s)" % (
        {"P": "KPrep", "G": "KGate", "M": "KMeas"}[i["kind"]], cbool(i["known"]), copt(i["nmodes"]),
        cbool(i["mid_ok"]), cbool(i["none_ok"]), clist(i["modes"]), c_params(i["params"]),
        copt(None if i["cond"] is None else i["cond"][1]))


def c_event(e):
    if e is None:
        return "EvRaise"
    return "(EvVal %s %s)" % (cz(e[0]), clist(e[1], clist))


HASH_P = 2 ** 61 - 1


def pack(xs):
    """Multiplicative fingerprint of an integer list, truncated to 61 bits after every step
    (length and every entry enter it; entries are >= -2).  Coq is slow at reading numerals, so the implementation's encoding
    of a run (about a hundred integers) is handed to the model as one 61-bit number and the
    model fingerprints its own encoding in the same way; a wrong match has probability
    about len/2^61 per comparison."""
    acc = len(xs) + 7
    for x in xs:
        if not isinstance(x, int) or x < -2:
            return 0
        acc = (acc * 1000003 + x + 3) & HASH_P
    return acc


def c_case(case, ncalls, expected_runs):
    """one program, its base history, and the expected encodings of the clean run and of the
    run with a fault at every call position"""
    init = "None" if case["init"] is None else "(Some (%s, %s))" % (cbool(case["init"][0]), cz(case["init"][1]))
    return "(%s, %s, %s, %s, %s, %s, %s)" % (
        cbool(case["validate"]), copt(case["sim_d"]), copt(case["shots"]), init,
        clist(case["prog"], c_instr), clist(case["hist"][:ncalls], c_event),
        clist(expected_runs, lambda l: cz(pack(l))))


STUB_BODY = """
Definition cases : list (bool * option Z * option Z * option (bool * Z) * list instr * hist * list Z) := [
%s].
Definition pack (l : list Z) : Z :=
  fold_left (fun acc x => Z.land (acc * 1000003 + x + 3) 2305843009213693951) l (Z.of_nat (List.length l) + 7).
(* run 0: the history as it is; run p+1: the first p events, then a raising call *)
Fixpoint codes (va : bool) (sd sh : option Z) (ini : option (bool * Z)) (prog : list instr) (h : hist)
  (k : nat) (exps : list Z) : list Z :=
  match exps with
  | [] => []
  | expd :: r =>
    let hk := match k with O => h | S p => firstn p h ++ [EvRaise] end in
    let m (v : variant) (w : Z) := if pack (ser_run (execute v va sd sh ini prog hk)) =? expd then w else 0 in
    (m repaired 1 + m current 2 + m (mkV true false false) 4 + m (mkV false true false) 8
     + m (mkV true true false) 16) :: codes va sd sh ini prog h (S k) r
  end.
Definition code (x : bool * option Z * option Z * option (bool * Z) * list instr * hist * list Z) : list Z :=
  let '(va, sd, sh, ini, prog, h, exps) := x in codes va sd sh ini prog h O exps.
Eval vm_compute in flat_map code cases.
"""


# ----------------------------------------------------------------------------- generators
def gen_events(rng, n=60):
    ev = []
    for _ in range(n):
        z = rng.choice([0, 1, 1, 2, 3, 5])
        k = rng.random()
        if k < 0.45:
            subs = [[]]
        elif k < 0.75:
            subs = [[rng.randint(0, 3)] for _ in range(rng.randint(2, 3))]
        elif k < 0.9:
            subs = [[rng.randint(0, 3)]]
        elif k < 0.95:
            subs = [[rng.randint(0, 2), rng.randint(0, 2)], []]
        else:
            subs = []
        ev.append([z, subs])
    return ev


def gen_stub_program(rng):
    d = rng.randint(1, 5)
    n = rng.randint(1, 6)
    prog = []
    active = list(range(d))
    wild = rng.random() < 0.25           # malformed stream: out-of-range / inactive modes, unknown classes
    for idx in range(n):
        if not active and not wild:
            break                            # every mode has been measured
        r = rng.random()
        if idx == 0 and r < 0.5:
            kind = "P"
        elif r < 0.4 and active:
            kind = "M"
        else:
            kind = "G"
        if wild and rng.random() < 0.15:
            kind = "P"
        k = rng.random()
        pool = active if not (wild and rng.random() < 0.3) else list(range(d + 1))
        if k < 0.2 or not pool:
            modes = []
        else:
            m = rng.randint(1, min(len(pool), 3))
            modes = rng.sample(pool, m)
        if wild and modes and rng.random() < 0.12:
            modes = modes + [modes[0]]           # repeated mode
        nmodes = None
        if rng.random() < 0.5:
            nmodes = len(modes) if modes else (rng.choice([len(active), 1, 2]) if wild else len(active))
        params = []
        for name in rng.sample([1, 2, 3], rng.choice([0, 0, 1, 1, 2, 3])):
            tag = rng.choice([0, 1, 1, 2, 3, 3])
            params.append([name, [tag, rng.randint(0, 9) if tag == 0 else 100 * idx + name]])
        cond = None
        if rng.random() < 0.35:
            cond = [rng.choice([1, 3]), 100 * idx + 50]
        ins = {"kind": kind, "known": not (wild and rng.random() < 0.1), "nmodes": nmodes,
               "mid_ok": rng.random() < 0.85, "none_ok": rng.random() < 0.7, "modes": modes,
               "params": params, "cond": cond}
        prog.append(ins)
        if kind == "M":
            meas = modes if modes else list(active)
            active = [a for a in active if a not in meas]
    case = {"prog": prog, "hist": gen_events(rng),
            "shots": rng.choice([1, 1, 3, 7, None, None, 0]) if wild else rng.choice([1, 3, 7, None]),
            "sim_d": rng.choice([d, d, d, None, 0]) if wild else rng.choice([d, d, None]),
            "validate": rng.random() < 0.8, "init": None}
    if rng.random() < 0.25:
        case["init"] = [True, d] if not wild else rng.choice([[True, d], [False, d], [True, d + 1]])
    return case


def load_corpus():
    out = []
    if os.path.exists(CORPUS):
        for line in open(CORPUS):
            line = line.strip()
            if line and not line.startswith("#"):
                out.append(json.loads(line))
    return out


# ----------------------------------------------------------------------------- the direct property
def decode_prog(ser):
    """flat program encoding -> list of (modes, params, cond)"""
    it = iter(ser)
    n = next(it)
    out = []
    for _ in range(n):
        modes = [next(it) for _ in range(next(it))]
        params = []
        for _ in range(next(it)):
            params.append((next(it), next(it), next(it)))
        c = next(it)
        cond = next(it) if c else None
        out.append((modes, params, cond))
    return out


def classify(before, after, failed):
    """Which way did the program change?  Returns a list of (key, what)."""
    b, a = decode_prog(before), decode_prog(after)
    out = []
    stage = "on-exception" if failed else "after-success"
    for idx, (x, y) in enumerate(zip(b, a)):
        if x[0] != y[0]:
            out.append(("C12:execute:modes-not-restored-%s" % stage,
                        "instruction %d: modes %s became %s" % (idx, x[0], y[0])))
        if x[1] != y[1]:
            kinds = set()
            for p, q in zip(x[1], y[1]):
                if p != q:
                    if p[1] == 1 and q[1] == 2:
                        kinds.add("C12:execute:str-param-becomes-expression")
                    else:
                        kinds.add("C12:execute:params-not-restored-%s" % stage)
            for k in sorted(kinds):
                out.append((k, "instruction %d: params %s became %s (tags: 0 value, 1 str, 2 Expression, 3 callable)"
                            % (idx, x[1], y[1])))
        if x[2] != y[2]:
            out.append(("C12:execute:condition-changed", "instruction %d" % idx))
    if len(a) != len(b):
        out.append(("C12:execute:program-length-changed", "%d -> %d" % (len(b), len(a))))
    return out


SIM_NAMES = {"purefock": "PureFockSimulator", "sampling": "SamplingSimulator", "gaussian": "GaussianSimulator", "fock": "FockSimulator"}


def gen_real_cases(rng, n):
    """Programs for the shipped simulators: mid-circuit measurements, parameters given as numbers,
    strings, Expression objects, callables and arrays, conditions; the first four are fixed shapes
    (one per simulator), the rest vary them."""
    def fparam():
        return [0, round(rng.uniform(0.1, 0.9), 3)]

    def uparam():
        k = rng.random()
        if k < 0.35:
            return [1, rng.choice(["x[0]*0.5", "0.1 + x[-1]*0.2", "0.3"])]
        if k < 0.5:
            return [2, rng.choice(["x[0]*0.25", "0.2"])]
        if k < 0.85:
            return [3, rng.randint(0, 2)]
        return fparam()

    def cond():
        k = rng.random()
        if k < 0.5:
            return None
        if k < 0.75:
            return [1, rng.choice(["x[0] >= 0", "x[0] > 0", "x[-1] < 5"])]
        return [3, rng.randint(0, 2)]

    out = []
    for k in range(n):
        sim = ["purefock", "sampling", "gaussian", "fock"][k % 4]
        seed = rng.randint(1, 10 ** 6)
        if sim == "purefock":
            prog = [{"cls": "StateVector", "modes": [] if rng.random() < 0.5 else [0, 1, 2], "params": {"occupation_numbers": [5, [1, 1, 2]]}},
                    {"cls": "Beamsplitter", "modes": [0, 1], "params": {"theta": fparam(), "phi": fparam()}},
                    {"cls": "ParticleNumberMeasurement", "modes": [0], "params": {}},
                    {"cls": "Phaseshifter", "modes": [2], "params": {"phi": [1, "x[0]*0.5"] if k < 4 else uparam()}, "cond": None if k < 4 else cond()},
                    {"cls": "Beamsplitter", "modes": [1, 2], "params": {"theta": [3, 0] if k < 4 else uparam(), "phi": fparam()}, "cond": [1, "x[0] >= 0"] if k < 4 else cond()}]
            case = {"sim": sim, "d": 3, "cutoff": 5, "seed": seed, "shots": rng.choice([1, 3]), "prog": prog}
        elif sim == "sampling":
            prog = [{"cls": "StateVector", "modes": [], "params": {"occupation_numbers": [5, [1, 1, 1]]}},
                    {"cls": "Interferometer", "modes": [0, 1, 2], "params": {"matrix": [4, [3, seed % 1000]]}},
                    {"cls": "ParticleNumberMeasurement", "modes": [1], "params": {}},
                    {"cls": "Phaseshifter", "modes": [2], "params": {"phi": [3, 1] if k < 4 else uparam()}, "cond": None if k < 4 else cond()},
                    {"cls": "ParticleNumberMeasurement", "modes": [], "params": {}}]
            case = {"sim": sim, "d": 3, "seed": seed, "shots": rng.choice([2, 4]), "prog": prog}
        elif sim == "gaussian":
            prog = [{"cls": "Vacuum", "modes": [], "params": {}},
                    {"cls": "Squeezing", "modes": [0], "params": {"r": fparam()}},
                    {"cls": "Beamsplitter", "modes": [0, 2], "params": {"theta": fparam()}},
                    {"cls": "HomodyneMeasurement", "modes": [0], "params": {}},
                    {"cls": "Displacement", "modes": [2], "params": {"r": [3, 2] if k < 4 else rng.choice([[3, 2], [1, "0.3"], [2, "0.2"]])}},
                    {"cls": "ParticleNumberMeasurement", "modes": [1, 2], "params": {}}]
            case = {"sim": sim, "d": 3, "seed": seed, "shots": 2, "prog": prog}
        else:
            prog = [{"cls": "Vacuum", "modes": [], "params": {}},
                    {"cls": "Squeezing", "modes": [1], "params": {"r": fparam()}},
                    {"cls": "Kerr", "modes": [1], "params": {"xi": [2, "0.1+0.2"] if k < 4 else rng.choice([[1, "0.3"], [2, "0.2"], [3, 2]])}},
                    {"cls": "ParticleNumberMeasurement", "modes": [], "params": {}}]
            case = {"sim": sim, "d": 2, "cutoff": 4, "seed": seed, "shots": 3, "prog": prog}
            if k >= 4 and rng.random() < 0.5:
                # run the rest on an initial_state argument
                case["prep"], case["prog"] = prog[:2], prog[2:]
        out.append(case)
    return out


def native_run(chk, pf_cases):
    """Build native/c12/driver.cpp against <repo>/src (fresh, every run) and call the kernels."""
    out_dir = os.path.join(RUN, "native")
    os.makedirs(out_dir, exist_ok=True)
    exe = os.path.join(out_dir, "c12_driver_%d" % os.getpid())
    src = os.path.join(REPO, "src")
    cmd = ["g++", "-std=c++17", "-O1", "-fopenmp", "-I", src, os.path.join(VERIF, "native", "c12", "driver.cpp")] + \
          [os.path.join(src, f) for f in ("pfaffian.cpp", "torontonian.cpp", "loop_torontonian.cpp", "torontonian_common.cpp",
                                          "permanent.cpp", "permanent_laplace.cpp")] + ["-o", exe]
    p = subprocess.run(cmd, capture_output=True, text=True, timeout=1200)
    if p.returncode != 0:
        chk.notes.append("native driver did not build: " + p.stderr[-500:])
        return None
    lines = ["pfaffian %d %s" % (n, " ".join(str(x) for x in m)) for n, m in pf_cases]
    lines += ["pfaffian32 4 0 1 2 3 -1 0 4 5 -2 -4 0 6 -3 -5 -6 0",
              "torontonian 2 0.5 0.1 0.1 0.4", "loop_torontonian 2 0.5 0.1 0.1 0.4 0.1 0.2",
              "permanent 2 1 0 2 0 3 0 4 0 1 2 2 1", "permanent_laplace 2 1 0 2 0 3 0 4 0 1 2 2 1"]
    q = subprocess.run([exe], input="\n".join(lines) + "\n", capture_output=True, text=True, timeout=600)
    try:
        os.remove(exe)
    except OSError:
        pass
    res = []
    for line in q.stdout.strip().splitlines():
        head, _, tail = line.partition("|")
        h = head.split()
        res.append({"kernel": h[0], "changed": h[1] == "1", "value": float(h[2]), "after": [float(x) for x in tail.split()]})
    return res


def run(chk: Check):
    chk.proofs()
    T = chk.thorough
    corr_broken = []
    rng = chk.rng

    # ------------------------------------------------------------------ scripted executor runs
    nprog = NPROG[chk.tier]
    cases = load_corpus() + [gen_stub_program(rng) for _ in range(nprog)]
    impl = run_impl("c12_impl.py", {"stub": cases}, timeout=3000)
    rows = []          # (case index, fault position or None, events, run)
    for ci, (case, res) in enumerate(zip(cases, impl["stub"])):
        for ri, r in enumerate(res["runs"]):
            p = None if ri == 0 else ri - 1
            events = case["hist"] if p is None else case["hist"][:p] + [None]
            rows.append((ci, p, events, r))
    # model vs implementation
    chunk = 40
    bodies = []
    for i in range(0, len(cases), chunk):
        items = []
        for case, res in zip(cases[i:i + chunk], impl["stub"][i:i + chunk]):
            exps = [r["ser"] for r in res["runs"]]
            items.append(c_case(case, res["ncalls"], exps))
        bodies.append(IMPORTS + STUB_BODY % ";\n".join(items))
    masks = []
    for o in coq_eval_parallel("c12_stub", bodies, jobs=4):
        masks += parse_coq_list(o)[0]
    if len(masks) != len(rows):
        corr_broken.append("model evaluation returned %d results for %d runs" % (len(masks), len(rows)))
    follows = {}
    nviol = 0
    seen_keys = set()
    nontriv = set()
    for (ci, p, events, r), mask in zip(rows, masks):
        case = cases[ci]
        follows[mask] = follows.get(mask, 0) + 1
        if mask == 0:
            corr_broken.append("executor model (no variant) != implementation: case %d fault position %s: %s"
                               % (ci, p, json.dumps({k: case[k] for k in ("prog", "shots", "sim_d", "validate", "init")})[:600]))
        failed = r["result"][0] != 0
        if r["ncalls"] >= 4 and any(i["params"] for i in case["prog"]) and any(i["kind"] == "M" for i in case["prog"][:-1]):
            nontriv.add((ci, p))
        # the property, directly
        problems = classify(r["before"], r["after"], failed)
        for o in r["obs"]:
            problems.append(("C12:global-random:written-by-piquasso" if o == "global-random-changed" else "C12:execute:%s" % o, o))
        if "rerun" in r and r["rerun"] != impl["stub"][ci]["runs"][0]["ser"]:
            problems.append(("C12:execute:re-execution-differs-after-failed-run",
                             "a fault-free execution on the objects left by a failed run differs from the execution on fresh objects"))
        for key, what in problems:
            nviol += 1
            if key not in seen_keys:
                seen_keys.add(key)
                chk.violation(key, what, {
                    "call": "Simulator.execute on harness/impl/c12_impl.py:StubSimulator (piquasso's own executor, scripted steps)",
                    "case": {k: case[k] for k in ("prog", "shots", "sim_d", "validate", "init")},
                    "events": events[: (p + 1 if p is not None else r["ncalls"])],
                    "fault_position": p, "before": r["before"], "after": r["after"], "result": r["result"],
                    "model_variants_matching": [VARIANTS[b] for b in VARIANTS if mask & b]})
    chk.stream("scripted executor: every call position of every program raised once (model vs implementation, exact)",
               len(rows), len(nontriv),
               samples=[{"prog": cases[-1]["prog"], "shots": cases[-1]["shots"], "runs": len(impl["stub"][-1]["runs"])}],
               note="implementation follows: " + ", ".join(
                   "%s: %d runs" % ("+".join(VARIANTS[b] for b in VARIANTS if m & b) or "no variant", n)
                   for m, n in sorted(follows.items())))
    chk.stream("scripted executor: program / Config / initial state / global random before == after; re-execution equal (search)",
               len(rows), len(nontriv), kind="search",
               note="%d failing observations" % nviol)

    # ------------------------------------------------------------------ shipped simulators, fault at every call
    real_cases = gen_real_cases(rng, NREAL[chk.tier])
    n_plain = len(real_cases)
    real_cases += array_cases(rng, T)
    impl2 = run_impl("c12_impl.py", {"real": real_cases, "globals": {},
                                     "initstate": {"sims": ["purefock", "fock", "gaussian", "sampling"], "seed": rng.randint(1, 10 ** 6),
                                                   "faults": "tail3" if T else "tail1"},
                                     "arrays": {"tests": [{"n": n, "seed": 100 + k} for k, n in enumerate([2, 3, 4, 6] * NARR[chk.tier])]}},
                     timeout=3000)
    nreal = nreal_nt = 0
    rng_shared = 0
    real_keys = set()

    def real_violation(key, what, case, r):
        if key in real_keys:
            return
        real_keys.add(key)
        chk.violation(key, what, {"call": "pq.%s(d=%s, config=Config(seed_sequence=%s, cutoff=%s)).execute(program, shots=%s)"
                                  % (SIM_NAMES[case["sim"]], case["d"], case["seed"], case.get("cutoff"), case["shots"]),
                                  "program": case["prog"], "prep": case.get("prep"), "fault_at_call": r["fault_at"],
                                  "calls": r["kinds"], "result": r["result"], "before": r["prog_before"], "after": r["prog_after"]})

    narrp = narrp_nt = 0
    for ci2, (case, res) in enumerate(zip(real_cases, impl2["real"])):
        clean = res["runs"][0]
        if ci2 >= n_plain:
            narrp += len(res["runs"])
            narrp_nt += sum(1 for r in res["runs"] if r["ncalls"] >= 3)
            nreal -= len(res["runs"])
            nreal_nt -= sum(1 for r in res["runs"] if r["fault_at"] is not None and r["kinds"] and r["fault_at"] >= 4)
        for r in res["runs"]:
            nreal += 1
            failed = r["result"][0] != "ok"
            if r["fault_at"] is not None and r["kinds"][-1].split(":")[0] in ("param", "expression", "condition", "validate", "step") and r["fault_at"] >= 4:
                nreal_nt += 1
            stage = "on-exception" if failed else "after-success"
            for idx, (x, y) in enumerate(zip(r["prog_before"], r["prog_after"])):
                if x[1] != y[1]:
                    real_violation("C12:execute:modes-not-restored-%s" % stage,
                                   "instruction %d (%s): modes %s became %s" % (idx, x[0], x[1], y[1]), case, r)
                if x[2] != y[2]:
                    strexpr = any(p[1][0] == "str" and q[1][0] == "Expression" for p, q in zip(x[2], y[2]))
                    other = any(p != q and not (p[1][0] == "str" and q[1][0] == "Expression") for p, q in zip(x[2], y[2]))
                    if strexpr:
                        real_violation("C12:execute:str-param-becomes-expression",
                                       "instruction %d (%s): params %s became %s" % (idx, x[0], x[2], y[2]), case, r)
                    if other:
                        real_violation("C12:execute:params-not-restored-%s" % stage,
                                       "instruction %d (%s): params %s became %s" % (idx, x[0], x[2], y[2]), case, r)
                if x[3] != y[3] or x[0] != y[0]:
                    real_violation("C12:execute:condition-changed", "instruction %d" % idx, case, r)
            if not r["state_same"]:
                real_violation("C12:execute:initial-state-changed", "arrays or config of the initial_state argument differ afterwards: %s" % r.get("state_diff"), case, r)
            if not r.get("handed_same", True) or not r.get("rerun_handed_same", True):
                real_violation("C12:execute:array-parameter-modified",
                               "an ndarray handed to %s (layout/dtype relative to config/config dtype %s, shots=%s) has other bytes afterwards: %s"
                               % (case.get("array_instruction", "an instruction"), case.get("variant"), case["shots"], r.get("handed_diff")), case, r)
            if not r.get("params_identity", True):
                real_violation("C12:execute:array-parameter-replaced", "instruction.params no longer holds the caller's ndarray object", case, r)
            if not r["config_same"]:
                real_violation("C12:execute:user-config-changed", "attributes of the caller's Config differ afterwards", case, r)
            if not r["global_random_same"]:
                real_violation("C12:global-random:written-by-piquasso", "random.getstate() differs after execute", case, r)
            rng_shared += bool(r["user_rng_advanced"])
            if "rerun" in r and r["prog_before"] == r["prog_after"] and r["rerun"][0] != clean["result"][0]:
                real_violation("C12:execute:re-execution-differs", "objects look unchanged but a second execution behaves differently: %s vs %s" % (r["rerun"], clean["result"][:2]), case, r)
            if "rerun" in r and r["prog_before"] != r["prog_after"] and r["rerun"][0] != clean["result"][0]:
                real_violation("C12:execute:re-execution-differs-after-failed-run",
                               "after a failed run a fault-free execution of the same objects gives %s instead of %s" % (r["rerun"], clean["result"][:1]), case, r)
            for name, (outcome, prog_same, rnd_same) in r.get("other", {}).items():
                if not prog_same:
                    real_violation("C12:%s:program-changed" % name, "%s modifies the program (%s)" % (name, outcome), case, r)
                if not rnd_same:
                    real_violation("C12:global-random:written-by-piquasso", "random.getstate() differs after %s" % name, case, r)
    chk.stream("shipped simulators (PureFock, Sampling, Gaussian, Fock): fault at every validate/step/parameter/condition call; snapshot before == after, re-execution, validate/copy/to_blackbird_code/as_code (search)",
               nreal, nreal_nt, kind="search",
               samples=[{"sim": c["sim"], "prog": c["prog"], "runs": len(x["runs"])} for c, x in list(zip(real_cases, impl2["real"]))[:1]],
               note="the caller's Config.rng state advanced in %d runs (Config.copy shares the Generator by design; not counted)" % rng_shared)

    ran = sum(1 for c, x in zip(real_cases[n_plain:], impl2["real"][n_plain:]) if x["runs"][0]["result"][0] == "ok")
    chk.stream("ndarray parameters of every array-taking instruction (detector matrices, interferometers, Gaussian blocks, adjacency, "
               "covariances, SNAP angles): C-contiguous of the config dtype and other layouts/dtypes, shots finite and None, clean and "
               "failing runs; bytes before == after (search)", narrp, narrp_nt, kind="search",
               samples=[{"sim": c["sim"], "instruction": c["array_instruction"], "variant": c["variant"], "shots": c["shots"]}
                        for c in real_cases[n_plain:n_plain + 2]],
               note="%d programs, %d of them execute to the end" % (len(real_cases) - n_plain, ran))

    # ---- initial_state handed to [every instruction of the simulator's map, a gate]; second execution
    init_res = impl2["initstate"]
    ninit = ninit_nt = 0
    changed = {}
    for x in init_res:
        if "runs" in x:
            for r in x["runs"]:
                for pth in r.get("changed_paths", []):
                    changed.setdefault(x["case"]["sim"], set()).add(pth)
    skipped = [x["skip"] for x in init_res if "skip" in x]
    for x in init_res:
        if "error" in x:
            corr_broken.append("initial_state stream: runner failed on %s/%s: %s" % (x["case"]["sim"], x["case"]["first"], x["error"]))
            continue
        if "runs" not in x:
            continue
        case = x["case"]
        clean = x["runs"][0]
        for r in x["runs"]:
            ninit += 1
            ninit_nt += r["ncalls"] >= 2
            if not r["state_same"] or not r.get("rerun_state_same", True):
                real_violation("C12:execute:initial-state-changed",
                               "%s: initial_state handed to [%s, ...] differs afterwards: %s" % (SIM_NAMES[case["sim"]], case["first"], r.get("state_diff")), case, r)
            if r.get("rerun_same_state") is False:
                real_violation("C12:execute:re-execution-differs",
                               "%s: executing [%s, ...] twice on the same initial_state gives different final states" % (SIM_NAMES[case["sim"]], case["first"]), case, r)
            aliased = [pq for pq in r.get("shared_with_initial_state", []) if pq[1] in changed.get(case["sim"], set())]
            if aliased:
                real_violation("C12:execute:initial-state-aliased",
                               "%s: the state the first step works on shares memory with the caller's initial_state in %s, an array that steps modify (State.copy must hand out fresh arrays)"
                               % (SIM_NAMES[case["sim"]], aliased), case, r)
            if not r.get("handed_same", True):
                real_violation("C12:execute:array-parameter-modified", "ndarray handed to %s modified: %s" % (case["first"], r.get("handed_diff")), case, r)
            if not r["config_same"]:
                real_violation("C12:execute:user-config-changed", "attributes of the caller's Config differ afterwards", case, r)
            for idx, (a0, a1) in enumerate(zip(r["prog_before"], r["prog_after"])):
                if a0 != a1:
                    real_violation("C12:execute:instruction-changed", "instruction %d (%s) differs afterwards: %s -> %s" % (idx, a0[0], a0, a1), case, r)
    okrun = sum(1 for x in init_res if "runs" in x and x["runs"][0]["result"][0] == "ok")
    chk.stream("initial_state argument x every instruction class of every simulator's _instruction_map as first step (in-place steps "
               "included), then a gate; twice on the same objects; arrays of the caller's state byte-for-byte, final states equal, "
               "no memory shared on arrays that steps modify (search; tie of C12_state_copy_fresh)", ninit, ninit_nt, kind="search",
               samples=[{"sim": x["case"]["sim"], "first": x["case"]["first"], "result": x["runs"][0]["result"][:2]} for x in init_res if "runs" in x][:2],
               note="%d programs (%d run to the end; the rest are refused, which is a failing run); arrays that steps modify: %s; not constructed: %s"
                    % (sum(1 for x in init_res if "runs" in x), okrun, {k: sorted(v) for k, v in changed.items()}, skipped))

    # who writes the `random` module's state
    writers = [g["call"] for g in impl2["globals"] if not g["same"]]
    if writers:
        chk.violation("C12:global-random:written-by-piquasso",
                      "the state of the process-global `random` module changes in: " + "; ".join(writers),
                      {"calls": writers, "observe": "random.getstate() before/after", "runner": "harness/impl/c12_real.py:globals_section"})
    chk.stream("writers of the process-global random state (constructors, repr, copy, validate, execute, as_code)",
               len(impl2["globals"]), len(impl2["globals"]), kind="search", exhaustive=True,
               samples=[g for g in impl2["globals"] if not g["same"]][:3])

    # ------------------------------------------------------------------ arrays
    narr = 0
    arr_bad = {}
    shipped_direct = set()
    for a in impl2["arrays"]:
        narr += 1
        if not a["same"]:
            if a["call"].startswith("piquasso._math.pfaffian"):
                shipped_direct.add(a["layout"])      # shipped binary; judged on the fresh build below
                continue
            arr_bad.setdefault(a["call"], []).append(a)
    for call, lst in sorted(arr_bad.items()):
        chk.violation("C12:%s:input-buffer-modified" % call,
                      "%s changes the caller's array (layouts: %s)" % (call, sorted({x["layout"] for x in lst})),
                      {"call": call, "layouts": sorted({x["layout"] for x in lst}), "n": lst[0]["n"],
                       "input": lst[0].get("input"), "after": lst[0].get("after"), "seed": lst[0]["seed"]})
    if shipped_direct:
        chk.notes.append("shipped binary piquasso._math.pfaffian.pfaffian (not rebuildable here: no pybind11) modifies C-contiguous input, layouts %s; the kernel is judged on the fresh build of src/pfaffian.cpp" % sorted(shipped_direct))
    chk.stream("matrix entry points x {C, Fortran, strided, read-only} buffers: bytes before == after (search)",
               narr, sum(1 for a in impl2["arrays"] if a["n"] >= 4), kind="search",
               samples=[{k: v for k, v in a.items() if k not in ("input", "after")} for a in impl2["arrays"] if not a["same"]][:2])

    # fresh build of the native kernels + the Pfaffian buffer model
    pf_cases = []
    for k in range(60 if T else 16):
        n = [2, 4, 4, 6, 4, 6, 8, 2][k % 8]
        up = [[rng.randint(-9, 9) for _ in range(n)] for _ in range(n)]
        m = [[(up[i][j] if i < j else (-up[j][i] if i > j else 0)) for j in range(n)] for i in range(n)]
        pf_cases.append((n, [x for row in m for x in row]))
    pf_cases.insert(0, (4, [0, 1, 2, 3, -1, 0, 4, 5, -2, -4, 0, 6, -3, -5, -6, 0]))
    native = native_run(chk, pf_cases)
    body = IMPORTS + """
Definition enc (q : Q) : list Z := let r := Qred q in [Qnum r; Zpos (Qden r)].
Definition pcases : list (nat * list Z) := %s.
Eval vm_compute in flat_map (fun c : nat * list Z =>
  let '(v, b, t) := pfaffian_kernel (fst c) (map q_of_z (snd c)) in
  (if t then 1 else 0) :: enc v ++ flat_map enc b) pcases.
""" % clist(pf_cases, lambda c: "(%d%%nat, %s)" % (c[0], clist(c[1])))
    flat = parse_coq_list(coq_eval_parallel("c12_pf", [body], jobs=1)[0])[0]
    pos = 0
    npf = npf_nt = ties = 0
    kernel_inplace = []
    for (n, m), nat in zip(pf_cases, native or []):
        tie = flat[pos]
        vals = [Fraction(flat[pos + 1 + 2 * i], flat[pos + 2 + 2 * i]) for i in range(1 + n * n)]
        pos += 1 + 2 * (1 + n * n)
        if tie:
            ties += 1
            continue
        npf += 1
        npf_nt += n >= 4
        close = lambda x, q: abs(x - float(q)) <= 1e-9 * (1 + abs(float(q)))
        if not close(nat["value"], vals[0]):
            corr_broken.append("pfaffian value: src/pfaffian.cpp gives %r, model %s on %s" % (nat["value"], vals[0], m))
        unchanged = all(a == b for a, b in zip(nat["after"], m))
        inplace = all(close(a, q) for a, q in zip(nat["after"], vals[1:]))
        if not unchanged:
            kernel_inplace.append((n, m, nat["after"]))
            if not inplace:
                corr_broken.append("pfaffian buffer after the call is neither the input nor the model's in-place result: %s -> %s" % (m, nat["after"]))
    if pos != len(flat) or not native:
        corr_broken.append("pfaffian model evaluation / native driver returned an unexpected amount of data")
    if kernel_inplace:
        n, m, after = kernel_inplace[0]
        chk.violation("C12:src/pfaffian.cpp:pfaffian_cpp:input-buffer-modified",
                      "pfaffian_cpp pivots and eliminates in the caller's buffer (reached with shared memory from piquasso._math.pfaffian.pfaffian for C-contiguous float arrays, read-only ones included)",
                      {"n": n, "input_row_major": m, "buffer_after": after, "driver": "native/c12/driver.cpp built from <repo>/src"})
    other_native = [x for x in (native or [])[len(pf_cases):] if x["changed"]]
    for x in other_native:
        if x["kernel"].startswith("pfaffian"):
            chk.violation("C12:src/pfaffian.cpp:pfaffian_cpp:input-buffer-modified", "pfaffian_cpp<float> changes its input buffer", x)
        else:
            chk.violation("C12:src:%s:input-buffer-modified" % x["kernel"], "native kernel changes its input buffers", x)
    chk.stream("src/pfaffian.cpp (fresh g++ build) vs exact rational model: value and buffer left behind",
               npf, npf_nt, samples=[{"n": pf_cases[0][0], "input": pf_cases[0][1], "after": (native or [{}])[0].get("after")}],
               note="%d inputs skipped because the model reports an exact pivot tie; %d of %d kernels calls left the buffer modified"
                    % (ties, len(kernel_inplace), npf))

    chk.assumptions += [
        "the stub simulator of harness/impl/c12_impl.py subclasses piquasso.api.simulator.Simulator without overriding the executor; its steps, _validate hooks, callables and Expression.__call__ are scripted",
        "the hand-written models C12/ExecModel.v, C12/HeapModel.v (not tied: it states what Config.copy / State.copy / the steps are taken to do), C12/BufferModel.v",
        "an instruction object is observed through .modes, .params (value kinds: plain, str, Expression, callable - by identity for callables) and .condition",
    ]
    chk.finish(
        rule="non-trivial scripted run: >= 4 external calls, some instruction with parameters, a measurement before the last instruction",
        explanation="Theorems of coq/theories/Props/C12.v about C12/ExecModel.v; tie = exact comparison of (result, program left behind, trace of what each call saw) between the model and piquasso's executor under the same script, for a fault at every call position; search = snapshot before == after on the implementation.",
        correspondence_broken=corr_broken,
    )
