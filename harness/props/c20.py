"""C20 — Condition and parameter expressions are safe and mean what Python means.

Translator (whitelist tables of piquasso/core/_expressions.py -> coq/theories/C20/WhitelistGen.v),
proofs (Props/C20.v re-proved against the regenerated tables), correspondence (pq_eval and
validate of the Coq model vs Expression; py_eval vs CPython eval) and the search (Expression vs
CPython eval, acceptance vs an independent grammar recogniser, no evaluation at construction)."""
import ast
import itertools
import json
import os
import re
import time

from common import CASES_HEADER, COQ, REPO, VERIF, Check, coq_eval_parallel, run_impl

# =============================================================================== translator
OPFUN = {"add": "op_add", "sub": "op_sub", "mul": "op_mul", "matmul": "op_matmul",
         "truediv": "op_truediv", "mod": "op_mod", "pow": "op_pow", "lshift": "op_lshift",
         "rshift": "op_rshift", "or_": "op_or", "xor": "op_xor", "and_": "op_and",
         "floordiv": "op_floordiv", "invert": "op_invert", "inv": "op_invert", "not_": "op_not",
         "pos": "op_pos", "neg": "op_neg", "eq": "op_eq", "ne": "op_ne", "lt": "op_lt",
         "le": "op_le", "gt": "op_gt", "ge": "op_ge", "is_": "op_is", "is_not": "op_is_not"}
BUILTIN = {"all": "bi_all", "any": "bi_any"}
BINOP = ["Add", "Sub", "Mult", "MatMult", "Div", "Mod", "Pow", "LShift", "RShift", "BitOr",
         "BitXor", "BitAnd", "FloorDiv"]
UNARYOP = ["Invert", "Not", "UAdd", "USub"]
BOOLOP = ["And", "Or"]
CMPOP = {"Eq": "Eq", "NotEq": "NotEq", "Lt": "Lt", "LtE": "LtE", "Gt": "Gt", "GtE": "GtE",
         "Is": "Is", "IsNot": "IsNot", "In": "In_", "NotIn": "NotIn"}
NODE = {"Expression": "KExpression", "BoolOp": "KBoolOp", "UnaryOp": "KUnaryOp", "BinOp": "KBinOp",
        "Compare": "KCompare", "Name": "KName", "Subscript": "KSubscript", "Slice": "KSlice",
        "Constant": "KConstant", "List": "KList", "Tuple": "KTuple"}
OTHER = ["NamedExpr", "Lambda", "IfExp", "Dict", "Set", "ListComp", "SetComp", "DictComp",
         "GeneratorExp", "Await", "Yield", "YieldFrom", "Call", "FormattedValue", "JoinedStr",
         "Attribute", "Starred", "comprehension", "arguments", "arg", "keyword", "Index", "ExtSlice"]
TABLES = {"BINOPS": ("binop", BINOP, "KBin"), "UNARYOPS": ("unaryop", UNARYOP, "KUn"),
          "BOOLOPS": ("boolop", BOOLOP, "KBool"), "CMPOPS": ("cmpop", list(CMPOP), "KCmp")}


class TranslateError(Exception):
    pass


def cls_term(name):
    if name in NODE:
        return NODE[name]
    if name in ("Load", "Store", "Del"):
        return "KCtx " + name
    if name in BINOP:
        return "KBin " + name
    if name in UNARYOP:
        return "KUn " + name
    if name in BOOLOP:
        return "KBool " + name
    if name in CMPOP:
        return "KCmp " + CMPOP[name]
    if name in OTHER:
        return "KOther O" + name[0].upper() + name[1:]
    raise TranslateError("ALLOWED names a class the model does not know: ast.%s" % name)


def _ast_attr(node, modname):
    """`<modname>.<X>` -> X"""
    if (isinstance(node, ast.Attribute) and isinstance(node.value, ast.Name)
            and node.value.id == modname and isinstance(node.ctx, ast.Load)):
        return node.attr
    raise TranslateError("expected %s.<name>, found %s" % (modname, ast.dump(node)[:80]))


def translate(source):
    """Static, fail-closed translation of the five tables.  Returns (coq_text, tables)."""
    mod = ast.parse(source)
    imports_ok = {"ast": False, "op": False}
    assigns = {}
    for st in mod.body:
        if isinstance(st, ast.Import):
            for a in st.names:
                if a.name == "ast" and a.asname is None:
                    imports_ok["ast"] = True
                elif a.name == "operator" and a.asname == "op":
                    imports_ok["op"] = True
                elif (a.asname or a.name) in ("ast", "op"):
                    raise TranslateError("ast/op rebound by an import")
            continue
        if isinstance(st, ast.ImportFrom):
            if any((a.asname or a.name) in ("ast", "op", "all", "any", "getattr", "set", "object")
                   or (a.asname or a.name) in TABLES or (a.asname or a.name) == "ALLOWED"
                   for a in st.names):
                raise TranslateError("a name the tables depend on is rebound by an import")
            continue
        if isinstance(st, ast.Assign):
            if len(st.targets) != 1 or not isinstance(st.targets[0], ast.Name):
                raise TranslateError("unsupported module-level assignment")
            name = st.targets[0].id
            if name in assigns or name in ("ast", "op", "all", "any", "getattr", "set", "object"):
                raise TranslateError("%s assigned twice or shadowed" % name)
            assigns[name] = st.value
            continue
        if isinstance(st, ast.ClassDef):
            if st.name in TABLES or st.name == "ALLOWED":
                raise TranslateError("table shadowed by a class")
            continue
        if isinstance(st, ast.Expr):
            v = st.value
            if isinstance(v, ast.Constant) and isinstance(v.value, str):
                continue  # docstring
            # exactly `ALLOWED.discard(object())`: removes nothing (a fresh object is in no set)
            if (isinstance(v, ast.Call) and isinstance(v.func, ast.Attribute) and v.func.attr == "discard"
                    and isinstance(v.func.value, ast.Name) and v.func.value.id == "ALLOWED"
                    and len(v.args) == 1 and not v.keywords and isinstance(v.args[0], ast.Call)
                    and isinstance(v.args[0].func, ast.Name) and v.args[0].func.id == "object"
                    and not v.args[0].args and not v.args[0].keywords):
                continue
            raise TranslateError("unsupported module-level statement: %s" % ast.dump(v)[:80])
        raise TranslateError("unsupported module-level statement: %s" % type(st).__name__)
    if not all(imports_ok.values()):
        raise TranslateError("expected `import ast` and `import operator as op`")
    tables = {}
    for tname, (_, members, _) in TABLES.items():
        if tname not in assigns or not isinstance(assigns[tname], ast.Dict):
            raise TranslateError("%s is not a dict display" % tname)
        rows = []
        for k, v in zip(assigns[tname].keys, assigns[tname].values):
            if k is None:
                raise TranslateError("dict unpacking in %s" % tname)
            kn = _ast_attr(k, "ast")
            if kn not in members:
                raise TranslateError("%s key ast.%s is not a %s" % (tname, kn, TABLES[tname][0]))
            if isinstance(v, ast.Name) and v.id in BUILTIN:
                fn = BUILTIN[v.id]
            else:
                f = _ast_attr(v, "op")
                if f not in OPFUN:
                    raise TranslateError("%s value op.%s unknown" % (tname, f))
                fn = OPFUN[f]
            if kn in [r[0] for r in rows]:
                raise TranslateError("duplicate key ast.%s in %s" % (kn, tname))
            rows.append((kn, fn))
        tables[tname] = rows
    if "ALLOWED" not in assigns:
        raise TranslateError("ALLOWED not assigned")
    parts = []

    def union(node):
        if isinstance(node, ast.BinOp) and isinstance(node.op, ast.BitOr):
            union(node.left)
            union(node.right)
        elif isinstance(node, ast.Set):
            names = []
            for e in node.elts:
                if (isinstance(e, ast.Call) and isinstance(e.func, ast.Name) and e.func.id == "getattr"
                        and len(e.args) == 3 and _is_name(e.args[0], "ast")
                        and isinstance(e.args[1], ast.Constant) and isinstance(e.args[1].value, str)):
                    # getattr(ast, "Index", object()): the class if this Python has it
                    if hasattr(ast, e.args[1].value):
                        names.append(e.args[1].value)
                else:
                    names.append(_ast_attr(e, "ast"))
            parts.append(("set", names))
        elif (isinstance(node, ast.Call) and isinstance(node.func, ast.Name) and node.func.id == "set"
              and len(node.args) == 1 and not node.keywords and isinstance(node.args[0], ast.Call)
              and isinstance(node.args[0].func, ast.Attribute) and node.args[0].func.attr == "keys"
              and isinstance(node.args[0].func.value, ast.Name)
              and node.args[0].func.value.id in TABLES and not node.args[0].args):
            parts.append(("keys", node.args[0].func.value.id))
        else:
            raise TranslateError("unsupported term in ALLOWED: %s" % ast.dump(node)[:80])

    union(assigns["ALLOWED"])
    allowed_names = []
    coq_parts = []
    for kind, payload in parts:
        if kind == "set":
            coq_parts.append("[" + "; ".join(cls_term(n) for n in payload) + "]")
            allowed_names += payload
        else:
            coq_parts.append("map %s (map fst %s)" % (TABLES[payload][2], payload))
            allowed_names += [k for k, _ in tables[payload]]
    tables["ALLOWED"] = sorted(set(allowed_names))

    def table(tname):
        ty = TABLES[tname][0]
        rows = "; ".join("(%s, %s)" % (CMPOP.get(k, k) if ty == "cmpop" else k, f) for k, f in tables[tname])
        return "Definition %s : list (%s * opfun) := [%s]." % (tname, ty, rows)

    text = ("(* GENERATED on every run by harness/props/c20.py (translate) from the tables of\n"
            "   piquasso/core/_expressions.py — do not edit. *)\n"
            "From Coq Require Import List.\nFrom PV Require Import C20.Ast.\nImport ListNotations.\n"
            + "\n".join(table(t) for t in TABLES) + "\n"
            + "Definition ALLOWED : list cls :=\n  " + "\n  ++ ".join(coq_parts) + ".\n")
    return text, tables


def _is_name(node, name):
    return isinstance(node, ast.Name) and node.id == name


GEN_PATH = os.path.join(COQ, "theories", "C20", "WhitelistGen.v")
FAIL_CLOSED_TEXT = ("(* GENERATED: the translator failed closed (%s); the empty tables make the\n"
                    "   theorems of Props/C20.v unprovable. *)\n"
                    "From Coq Require Import List.\nFrom PV Require Import C20.Ast.\nImport ListNotations.\n"
                    "Definition BINOPS : list (binop * opfun) := [].\n"
                    "Definition UNARYOPS : list (unaryop * opfun) := [].\n"
                    "Definition BOOLOPS : list (boolop * opfun) := [].\n"
                    "Definition CMPOPS : list (cmpop * opfun) := [].\n"
                    "Definition ALLOWED : list cls := [].\n")


def regenerate():
    src = open(os.path.join(REPO, "piquasso", "core", "_expressions.py")).read()
    err = None
    try:
        text, tables = translate(src)
    except (TranslateError, SyntaxError) as ex:
        err = str(ex)
        text, tables = FAIL_CLOSED_TEXT % err.replace("*", "x").replace("(", "[").replace(")", "]"), None
    old = open(GEN_PATH).read() if os.path.exists(GEN_PATH) else None
    if old != text:
        with open(GEN_PATH, "w") as f:
            f.write(text)
    return tables, err


# =============================================================================== generators
LEAF_NUM = ["0", "1", "2", "3", "0.5", "1.5", "x[0]", "x[1]", "x[2]", "x[-1]", "x[3]"]
LEAF_BOOL = ["True", "False"]
ARITH = ["+", "-", "*", "/", "%", "**", "^"]
CMP = ["==", "!=", "<", "<=", ">", ">="]
XVALS = [0, 1, 2, -1, 0.5]


def all_tuples():
    out = []
    for n in range(5):
        out += list(itertools.product(XVALS, repeat=n))
    return out


def jx(t):
    """outcome tuple -> tagged JSON"""
    return {"t": [({"f": float(v).hex()} if isinstance(v, float) else {"i": str(v)}) for v in t]}


class Gen:
    """Typed random generator of mostly well-typed strings of the grammar, depth <= 4."""

    def __init__(self, rng):
        self.r = rng

    def paren(self, s, leaf):
        if leaf:
            return s if self.r.random() < 0.9 else "(" + s + ")"
        return "(" + s + ")" if self.r.random() < 0.55 else s

    def sub(self, kind, d):
        s, leaf = self.gen(kind, d)
        return self.paren(s, leaf)

    def small(self):
        return self.r.choice(["0", "1", "2", "3", "x[0]", "x[1]", "-1", "True"])

    def gen(self, kind, d):
        r = self.r
        if kind == "any":
            kind = r.choice(["num", "num", "bool", "seq"])
        elif r.random() < 0.06:
            kind = r.choice(["num", "bool", "seq"])  # ill-typed on purpose
        if d <= 1:
            if kind == "num":
                return r.choice(LEAF_NUM), True
            if kind == "bool":
                return r.choice(LEAF_BOOL + ["x[0]", "0", "1"]), True
            return r.choice(["x", "x", "()", "(1,)", "[]", "(1, 0)", "[0, 1]"]), True
        p = r.random()
        if kind == "num":
            if p < 0.12:
                return r.choice(LEAF_NUM), True
            if p < 0.62:
                o = r.choice(ARITH)
                if o == "**":
                    return "%s ** %s" % (self.sub("num", min(d - 1, 2)), self.small()), False
                return "%s %s %s" % (self.sub("num", d - 1), o, self.sub("num", d - 1)), False
            if p < 0.72:
                return "%s%s" % (r.choice(["-", "+", "- ", "+"]), self.sub("num", d - 1)), False
            if p < 0.86:
                return "%s[%s]" % (self.sub("seq", d - 1), self.sub("num", d - 1)), False
            if p < 0.93:
                return "%s %s %s" % (self.sub("num", d - 1), r.choice(["and", "or"]), self.sub("num", d - 1)), False
            return self.gen("bool", d)
        if kind == "bool":
            if p < 0.3:
                return "%s %s %s" % (self.sub("num", d - 1), r.choice(CMP), self.sub("num", d - 1)), False
            if p < 0.5:
                n = r.choice([2, 2, 3])
                parts = [self.sub("num", d - 1)]
                for _ in range(n):
                    parts += [r.choice(CMP), self.sub("num", d - 1)]
                return " ".join(parts), False
            if p < 0.62:
                return "%s %s %s" % (self.sub("seq", d - 1), r.choice(["==", "!=", "<", ">="]), self.sub("seq", d - 1)), False
            if p < 0.85:
                n = r.choice([2, 2, 3, 4])
                o = r.choice(["and", "or"])
                return (" %s " % o).join(self.sub(r.choice(["bool", "bool", "num", "seq"]), d - 1) for _ in range(n)), False
            if p < 0.95:
                return "not %s" % self.sub(r.choice(["bool", "num", "seq"]), d - 1), False
            return r.choice(LEAF_BOOL), True
        # seq
        if p < 0.2:
            return "x", True
        if p < 0.55:
            def part():
                return "" if r.random() < 0.4 else self.sub("num", max(1, d - 2)) if r.random() < 0.7 else r.choice(["-1", "-2", "0", "1", "2", "5", "-7"])
            lo, up = part(), part()
            s = "%s:%s" % (lo, up)
            if r.random() < 0.4:
                s += ":" + r.choice(["", "1", "2", "-1", "-2", "0", "3", "x[0]"])
            return "%s[%s]" % (self.sub("seq", d - 1), s), False
        if p < 0.75:
            n = r.choice([0, 1, 2, 3])
            items = [self.sub(r.choice(["num", "num", "bool", "seq"]), d - 1) for _ in range(n)]
            if r.random() < 0.6:
                return "(" + ", ".join(items) + ("," if n == 1 else "") + ")", True
            return "[" + ", ".join(items) + "]", True
        if p < 0.87:
            return "%s + %s" % (self.sub("seq", d - 1), self.sub("seq", d - 1)), False
        if p < 0.95:
            if r.random() < 0.5:
                return "%s * %s" % (self.sub("seq", d - 1), self.small()), False
            return "%s * %s" % (self.small(), self.sub("seq", d - 1)), False
        return "%s[%s, %s]" % (self.sub("seq", d - 1), r.choice(["1:2", ":", "0", "::2"]), r.choice(["0", "1:", "x[9]"])), False

    def string(self):
        d = self.r.choice([2, 3, 3, 4, 4, 4])
        return self.gen(self.r.choice(["num", "bool", "bool", "seq", "any"]), d)[0]


def exhaustive_small():
    """Every string of depth <= 2 over a small leaf alphabet."""
    L = ["0", "1", "2", "True", "False", "0.5", "x", "x[0]", "x[1]", "x[-1]", "()"]
    out = list(L)
    for o in ["-", "+", "not "]:
        out += [o + a for a in L]
    for o in ARITH + CMP + ["and", "or"]:
        out += ["%s %s %s" % (a, o, b) for a in L for b in L]
    out += ["%s[%s]" % (a, b) for a in ["x", "(0, 1, 2)", "[0, 1]", "1"] for b in L]
    parts = ["", "0", "1", "2", "-1", "-2", "5", "0.5", "True"]
    out += ["x[%s:%s]" % (a, b) for a in parts for b in parts]
    out += ["x[%s:%s:%s]" % (a, b, c) for a in ["", "0", "-1", "3"] for b in ["", "1", "-1", "-5"] for c in ["", "1", "2", "-1", "-2", "0", "0.5"]]
    L3 = ["0", "1", "x[0]", "x[1]", "0.5"]
    out += ["%s %s %s %s %s" % (a, o1, b, o2, c) for a in L3 for b in L3 for c in L3
            for o1 in ["<", "==", ">="] for o2 in ["<", "!=", "<="]]
    L2 = ["0", "1", "x[0]", "x[9]", "()"]
    out += ["%s %s %s %s %s" % (a, o1, b, o2, c) for a in L2 for b in L2 for c in L2
            for o1 in ["and", "or"] for o2 in ["and", "or"]]
    out += ["x[%s, %s]" % (a, b) for a in ["1:2", ":", "0", "x[9]"] for b in ["0", "1:", "x[9]", "::2"]]
    return out


TOKEN_RE = re.compile(r"\s*(\d+\.\d*|\.\d+|\d+|[A-Za-z_]\w*|\*\*|//|<<|>>|<=|>=|==|!=|:=|->|[-+*/%^&|~<>()\[\]{},:.=@!;'\"])")
MUT_TOKENS = ["+", "-", "*", "/", "//", "%", "**", "^", "&", "|", "~", "<<", ">>", "@", "==", "!=", "<",
              "<=", ">", ">=", "is", "is not", "in", "not in", "not", "and", "or", "if", "else", "lambda",
              "for", ":", ",", ".", "(", ")", "[", "]", "{", "}", ":=", "=", ";", "0", "1", "2", "9", "1.5",
              "1j", "x", "y", "X", "True", "False", "None", "...", "'a'", "b''", "abs", "__import__", "await", "*x"]


def tokenize(s):
    toks, pos = [], 0
    while pos < len(s):
        m = TOKEN_RE.match(s, pos)
        if not m:
            break
        toks.append(m.group(1))
        pos = m.end()
    return toks


def mutations(seed):
    toks = tokenize(seed)
    out = []
    for i in range(len(toks)):
        out.append(" ".join(toks[:i] + toks[i + 1:]))
        for t in MUT_TOKENS:
            if t != toks[i]:
                out.append(" ".join(toks[:i] + [t] + toks[i + 1:]))
        out.append(" ".join(toks[:i] + [toks[i], toks[i]] + toks[i + 1:]))
    return out


WS_INSERTS = ["\n", "\r\n", "\r", "\n\n", "\\\n", " \\\n ", "\\", " \\ ", "\t", "\x0c", "\x0b", "\x1f", "\x00",
              "\u00a0", "\u2003", "\u3000", "\ufeff", " # c\n", "#c\n", "# c", ";", " ; ", ";\n", "\n;", "\n#\n", "\n \n",
              "\\\n\\\n", "\n\t", " \n"]
GAP_VARIANTS = ["", " ", "  ", "\t", "\x0c", "\n", "\\\n", " \t "]
PREFIXES = [")", "(", "]", "[", ",", ";", "\n", "#\n", "# c\n", "\\\n", "\\", "x=", "x =\n", "return ", "lambda: ", ":", "...", "\n\n \n",
            "\t\n", "\x0c\n", "\ufeff", "\u3000", "1\n", "1;", ")(", "0)or(", "0)\nor("]
SUFFIXES = [")", "(", "]", ",", ";", ";1", "\n1", "\n-1", "\n+ 1", "\n[0]", "\n,", "\n#", " #", " # c\n+ 1", "\\", "\\\n", "\\\n+1", ":", " if",
            " else 0", "\n\n", "\n \n\t", "\x00", "\x1a", "\n)", ")(", "\nand 1", " and\n1", "\n== 1", "\nx", " x", ")or(1", ")\nor(1"]
LINK_OPS = ["+", "-", "*", "and", "or", "==", "<", ",", ""]


def near_miss(seed, other, rng, budget):
    """Strings next to a grammar string at the level of characters between tokens: line breaks, comments,
    continuations, odd white space, separators, brackets that are unbalanced locally but balance over
    the whole string, leading/trailing garbage, and two expressions glued over a line break.  Most
    are not expressions for CPython (so they must be rejected); some are (white-space variants, line
    breaks inside brackets) and must keep their meaning."""
    toks = tokenize(seed)
    n = len(toks)
    out = []

    def join(parts):
        return " ".join(p for p in parts if p != "")

    # something inserted in one gap (including before the first and after the last token)
    for i in range(n + 1):
        for w in WS_INSERTS:
            out.append(join(toks[:i]) + w + join(toks[i:]))
            out.append(join(toks[:i] + [w] + toks[i:]))
    # one gap rendered differently, all others a single blank
    for i in range(1, n):
        for w in GAP_VARIANTS:
            out.append(" ".join(toks[:i]) + w + " ".join(toks[i:]))
    # every gap rendered the same way
    for w in GAP_VARIANTS + ["\n ", " \n"]:
        out.append(w.join(toks))
    # closing bracket early, opening bracket late: balanced over the string, not locally
    pairs = [(i, j) for i in range(1, n) for j in range(i, n)]
    rng.shuffle(pairs)
    for i, j in pairs[:budget]:
        for c, o in ((")", "("), ("]", "[")):
            for link in ("", "\n", " or ", "\nor ", " + \n", ","):
                out.append(join(toks[:i]) + c + link + join(toks[i:j]) + o + join(toks[j:]))
        out.append("(" + join(toks[:i]) + "\n" + join(toks[i:]) + ")")       # legal: break inside brackets
        out.append("[" + join(toks[:i]) + "\n" + join(toks[i:]) + "][0]")
    for pre in PREFIXES:
        out.append(pre + seed)
        out.append(pre + " " + seed)
    for suf in SUFFIXES:
        out.append(seed + suf)
        out.append(seed + " " + suf)
    for pre, suf in ((")", "("), ("]", "["), ("1)+(", "\n+(2"), ("1) + (\n", ""), ("", ") + (\n1"), ("(", "\n"), ("\n(", ")\n"),
                     ("(\n", "\n)"), ("[\n", "\n]"), ("(\\\n", ")"), ("(#c\n", ")"), ("(", "#c\n)"), ("(", "#c)")):
        out.append(pre + seed + suf)
    # two expressions over a line break / separator
    for op in LINK_OPS:
        for br in ("\n", " \n ", "\r\n", " # c\n", ";", "\\\n", "\n\n"):
            out.append(seed + " " + op + br + other)
            out.append(seed + br + op + " " + other)
            out.append("(" + seed + " " + op + br + other + ")")
            out.append(seed + ") " + op + " (" + br + other)
            out.append(seed + ")" + br + op + " (" + other)
    return out


HOSTILE = [
    "__import__('os')", "__import__('os').system('echo pwned > /tmp/c20_pwned')", "x.__class__",
    "x.__class__.__mro__[1].__subclasses__()", "(lambda: 0)()", "(lambda: x)()", "f'{x}'", "f'{x[0]!r:>{x[1]}}'",
    "(y := 1)", "(x := 1)", "[i for i in x]", "{i for i in x}", "{i: i for i in x}", "(i for i in x)",
    "1j", "x[0] + 1j", "b''", "b'a'[0]", "...", "x[...]", "None", "x[None:None]", "'a'", "'a' * 3", "\"x\"",
    "x if x else 0", "1 if True else 0", "{1: 2}", "{1, 2}", "{}", "*x", "[*x]", "(*x,)", "x[*x]", "**x",
    "await x", "yield", "yield x", "x()", "x(0)", "print(x)", "exec('1')", "eval('1')", "open('/etc/passwd')",
    "globals()", "type(x)", "getattr(x, 'count')", "x.count(1)", "x.index", "y", "X", "_", "x1", "xx", "True_",
    "\U0001d431", "\U0001d431[0]", "ｘ", "x́", "é", "x y", "x[0] x[1]", "1 +", "+", "", "   ",
    "\n", "x[0] == 1;", "x; y", "x\n1", "import os", "x = 1", "del x", "x[0] = 1", "x += 1", "pass", "return x",
    "x[0] // 2", "x[0] @ 2", "x[0] << 2", "x[0] >> 1", "x[0] & 1", "x[0] | 1", "~x[0]", "x[0] is 1", "x[0] is not 1",
    "1 in x", "1 not in x", "x[0] <> 1", "x[0] === 1", "x[0] =! 1", "not", "and", "x and", "lambda: 0", "lambda x: x",
    "x[0]:1", "x[", "x]", "(x", "x)", "x[0))", "((x))", "(((x[0])))", "x #comment", "x[0] # == 1", "#", "x\\\n[0]",
    "x[0]\\\n+1", " x", "x ", "\tx", "\x0cx", "　x", "x　", "x\x00", "x[0]\x00", "\x00", "0x10", "0o17", "0b11",
    "1_000", "1e3", "1e999", "-1e999", "1e999 - 1e999", "1e-999", ".5", "5.", "0.1 + 0.2", "00", "01", "1__0", "1e", "0x",
    "1if x else 2", "1or 2", "1and 2", "not-1", "- - 1", "-+-1", "--x[0]", "+x", "-x", "not x", "not not x",
    "x[1:2, 0]", "x[1:2, x[9]]", "x[0:1,]", "x[:, :]", "x[::, 1]", "x[1, 2]", "x[(1, 2)]", "x[1:2][0]", "x[()]",
    "x[x]", "x[x[0]]", "x[True]", "x[False:True]", "x[0.5]", "x[0.5:]", "x[::0]", "x[::0.5]", "x[0.5::0]", "x[1][0]",
    "1[0]", "True[0]", "(1, 2)[0]", "[1, 2][-1]", "[][0]", "()[0]", "(1, 2)[::-1]", "[x, x][1][0]",
    "1 / 0", "1 % 0", "0 ** -1", "1.5 % 0", "1 / 0.0", "x / 2", "x - x", "x + [1]", "x + (1,)", "[1] + [2]", "x * 2",
    "2 * x", "x * -1", "x * 0.5", "x * x", "x ** 2", "-x", "x ^ 1", "True ^ False", "True ^ 1", "1 ^ 3", "-1 ^ 3", "1.5 ^ 1",
    "True + True", "-True", "+True", "not 0.0", "not ()", "not (0,)", "not []", "() or 1", "[] and 1", "0.0 or -0.0",
    "-0.0", "0.0 * -1", "-0.0 + 0.0", "1 < 2 < 3", "1 < 2 > 3", "3 > 2 > 1 > 0", "1 == 1.0 == True", "0 < x[0] < x[9]",
    "0 > x[0] < x[9]", "x[9] < 0 < 1", "0 < (1 / 0) < 1", "() < ()", "(1,) < (1, 2)", "(1, 2) < (1,)", "(1, (2,)) < (1, 2)",
    "(1, 2) == [1, 2]", "(1, 2) < [1, 2]", "[1] < [2]", "1 < ()", "1 == ()", "x == x", "x != x", "x < x", "x <= x",
    "x[1:] == (1, 0)", "not x[0] or x[1:] == (1, 0)", "x[0] and x[9]", "x[0] or x[9]", "x[9] and 0", "0 and x[9] or 1",
    "1 or x[9] and x[8]", "(0 or 1) and 2", "0 or (1 and 2)", "1 and 2 or 0", "0 or 1 and 2", "0 or 0 or 0", "1 and 1 and 0",
    "2 ** 3 ** 2", "-2 ** 2", "(-2) ** 2", "2 ** -1", "2 ** 0.5", "10 % 4", "-7 % 3", "7 % -3", "10 / 4", "7 / 7", "2 * 3 + 4",
    "2 + 3 * 4", "(2 + 3) * 4", "1 - 2 - 3", "2 / 2 / 2", "2 ** 62 * 4", "3 ** 40", "2 ** 200 - 1", "2 ** 53 + 1.0",
    "9007199254740993 + 0.0", "9007199254740993 == 9007199254740992.0", "10 ** 400 / 2", "10 ** 400 * 1.0",
    "(" * 60 + "x" + ")" * 60, "(" * 300 + "x" + ")" * 300, "-" * 90 + "1", "not " * 50 + "x", "-" * 5000 + "1",
    "x[0]+" * 400 + "1", "x[0]+" * 3000 + "1", "[" * 120 + "]" * 120, "(x,)" + "[0]" * 100, "x" + "[0]" * 3000,
    "1 < " * 300 + "2", " and ".join(["x[0]"] * 500), "x[0] == 1 and " * 100 + "True",
    "x[0] > 5) or (\nx[1] > 5", "1) + (\n2", "1\n-1", "x[0]\n[1]", "x[0] == 1\nand x[1] == 2", "x[0] # comment\n+ 1", "x\n,",
    "(x[0] == 1\n and x[1] == 2)", "x[0] + 1\n", "[x[0],\n x[1]][1]", "x[0] +\\\n1", "(x[0] # c\n + 1)", "x[0]) + (x[1]", "x[0]] + [x[1]",
    "1) or (2", "x[0] == 1;", "x[0] == 1; 2", "x[0]\\", "\\\nx[0]", "x[0]\n\n", "\n\nx[0]", "x[0]\r", "x[0]\r\n+1", "x [0]", "x\t[0]", "x\x0c[0]",
    "nan", "inf", "-inf", "Infinity", "  NaN ", "007", "0_1", "\u0663", "\uff11\uff12", "1e-3", "1_000", " 2 ", "-3", "+0.5", "1e5", "0x1f", "1__0", "_1",
    "1" * 5000, "1" + "0" * 4300, "1." + "0" * 5000, "x[" + "1" * 50 + "]", "x[-" + "1" * 50 + ":]",
]


# =============================================================================== Coq side
IMPORTS = (CASES_HEADER.replace("QArith ", "") +
           "From Coq Require Import PrimFloat SpecFloat.\n"
           "From PV Require Import C20.Ast C20.ExprModel C20.PyValue.\nOpen Scope string_scope.\n")
EXN = {"TypeError", "ZeroDivisionError", "IndexError", "ValueError", "OverflowError", "NameError"}


class Unser(Exception):
    pass


def cval(v):
    k, a = next(iter(v.items()))
    if k == "i":
        n = int(a)
        return "(VInt (%d))" % n if n < 0 else "(VInt %d)" % n
    if k == "b":
        return "(VBool %s)" % ("true" if a else "false")
    if k == "f":
        if a == "nan":
            return "(VFloat nan)"
        if a == "inf":
            return "(VFloat infinity)"
        if a == "-inf":
            return "(VFloat neg_infinity)"
        if a.startswith("-"):
            return "(VFloat (- %s)%%float)" % a[1:]
        return "(VFloat (%s)%%float)" % a
    if k == "t":
        return "(VTuple [%s])" % "; ".join(cval(e) for e in a)
    if k == "l":
        return "(VList [%s])" % "; ".join(cval(e) for e in a)
    if k == "n":
        return "VNone"
    if k == "s":
        return "(VSlice %s %s %s)" % tuple(cval(e) for e in a)
    raise Unser(a)


def cres(r):
    if "v" in r:
        return "(Ok %s)" % cval(r["v"])
    e = r["e"]
    if e == "InvalidExpression":
        return "(Unsupported UnsNode)"
    return "(Raise %s)" % (e if e in EXN else "OtherExn")


def cx(xj):
    return "None" if xj is None else "(Some %s)" % cval(xj)


def coq_file(recs):
    """One small Definition per tree (elaborating one huge list literal is super-linear)."""
    defs = []
    for k, r in enumerate(recs):
        evs = []
        for e in r["evals"]:
            evs.append("(%s, %s, %s)" % (cx(e["x"]), cres(e["impl"]), cres(e["cpy"])))
        defs.append("Definition c%d : tcase := (%s,\n [%s])." % (k, r["coq"], "; ".join(evs)))
    rows = "\n".join(
        "Eval vm_compute in (Z.b2z (model_accepts (fst c%d)) :: Z.b2z (shape (fst c%d)) :: verdicts c%d)." % (k, k, k)
        for k in range(len(recs)))
    return IMPORTS + "\n".join(defs) + "\n" + rows + "\n"


def parse_ll(out):
    rows = []
    for m in re.finditer(r"=\s*(\[[^\]]*\])\s*:\s*list Z", out):
        rows.append(json.loads(m.group(1).replace(";", ",")))
    return rows


# =============================================================================== the check
def node_kinds(coq):
    return sorted(set(re.findall(r"\((Constant|Name|Tuple|EList|UnaryOp|BinOp|BoolOp|Compare|Subscript|Slice|Other)\b", coq or "")))


def root_kind(coq):
    m = re.match(r"\((\w+)", coq or "")
    return m.group(1) if m else "?"


def run(chk: Check):
    T = chk.thorough
    rng = chk.rng
    corr_broken = []

    # ---- translator, then proofs against the regenerated tables
    static_tables, terr = regenerate()
    chk.proofs()
    if terr:
        chk.proof_broken = list(getattr(chk, "proof_broken", [])) + ["translator failed closed: " + terr]

    # ---- streams of strings
    tuples = all_tuples()
    streams = {}
    corpus_path = os.path.join(VERIF, "harness", "corpus", "c20.jsonl")
    corpus = []
    if os.path.exists(corpus_path):
        for line in open(corpus_path):
            line = line.strip()
            if line:
                corpus.append(json.loads(line))
    streams["corpus"] = [c["src"] for c in corpus]
    streams["hostile"] = list(HOSTILE)
    streams["exhaustive-depth2"] = exhaustive_small()
    g = Gen(rng)
    nrand = 20000 if T else 1500
    streams["random-depth<=4"] = [g.string() for _ in range(nrand)]
    nseeds = 300 if T else 12
    seeds = []
    while len(seeds) < nseeds:
        s = g.string()
        if 4 <= len(tokenize(s)) <= 22:
            seeds.append(s)
    muts = []
    for s in seeds:
        muts += mutations(s)
    streams["single-token-mutations"] = muts
    n_near = 120 if T else 14
    near_seeds = []
    while len(near_seeds) < n_near + 1:
        sd = g.string()
        if 3 <= len(tokenize(sd)) <= 16:
            near_seeds.append(sd)
    near = []
    for a, b in zip(near_seeds, near_seeds[1:]):
        near += near_miss(a, b, rng, 40 if T else 12)
    for a in ["x[0] > 5", "x[0] + 1", "1", "x[0] == 1 and x[1] == 2", "not x[0] or x[1:] == (1, 0)"]:
        near += near_miss(a, "x[1] > 5", rng, 40 if T else 12)
    streams["near-miss-strings"] = near

    seen = set()
    req = []
    origin = []
    per_string = 8 if T else 4
    fixed_x = {c["src"]: c.get("xs") for c in corpus}
    for name, strs in streams.items():
        for s in strs:
            if s in seen:
                continue
            seen.add(s)
            if fixed_x.get(s):
                xs = fixed_x[s]
            elif name == "near-miss-strings":
                xs = [jx(rng.choice([t for t in tuples if len(t) == 4])), jx(rng.choice(tuples))]
            elif name in ("hostile", "corpus"):
                xs = [jx(t) for t in [(), (1,), (0, 2), (2, 1, 0, -1), (0.5, -1, 1, 2), (0, 0, 0, 0)]] + [{"l": [{"i": "1"}, {"i": "0"}]}, None]
            elif name == "exhaustive-depth2" and T:
                xs = [jx(t) for t in tuples if len(t) <= 2] + [jx(rng.choice(tuples)) for _ in range(4)]
            else:
                xs = [jx(()), jx(rng.choice([t for t in tuples if len(t) == 4]))] + [jx(rng.choice(tuples)) for _ in range(per_string - 2)]
            req.append([s, xs])
            origin.append(name)
    t_impl = time.time()
    use = set(k for k, o in enumerate(origin) if o in ("corpus", "hostile") or k % (5 if T else 23) == 0)
    impl = {"records": [], "tables": None}
    batch = 30000  # bounds the size of one JSON exchange with the runner
    for b0 in range(0, len(req), batch):
        part = run_impl("c20_impl.py", {"strings": req[b0:b0 + batch],
                                        "use_sites": [k - b0 for k in use if b0 <= k < b0 + batch]}, timeout=3000)
        impl["records"] += part["records"]
        if impl["tables"] is None:
            impl["tables"] = part["tables"]
        elif part["tables"] != impl["tables"]:
            corr_broken.append("whitelist tables changed between runner batches")
    t_impl = time.time() - t_impl
    recs = impl["records"]
    for r, o in zip(recs, origin):
        r["stream"] = o

    # ---- translator cross-check: static reading == what the imported module holds
    rt = impl["tables"]
    if static_tables is not None:
        names = dict(OPFUN, **BUILTIN)
        for t in TABLES:
            want = [[k, f] for k, f in static_tables[t]]
            got = [[k, names.get(f, f)] for k, f in rt[t]]
            if want != got:
                corr_broken.append("translator: static %s %s != runtime %s" % (t, want, got))
        if sorted(static_tables["ALLOWED"]) != sorted(rt["ALLOWED"]):
            corr_broken.append("translator: static ALLOWED %s != runtime %s" % (static_tables["ALLOWED"], rt["ALLOWED"]))
    if not os.path.realpath(rt["source_file"]).startswith(os.path.realpath(REPO)):
        corr_broken.append("runner imported piquasso from %s, not from %s" % (rt["source_file"], REPO))

    # ---- search: the property stated on the implementation, independent of the model
    stats = {"accepted": 0, "rejected": 0, "syntax": 0, "other_exception_at_construction": {},
             "evals": 0, "resource_skipped": 0, "value": 0, "exception": {}, "nontrivial": 0}
    viol_cases = set()
    for i, r in enumerate(recs):
        c = r["construct"]
        if c == "ok":
            stats["accepted"] += 1
        elif c == "InvalidExpression":
            stats["rejected"] += 1
            if r["parse"] == "SyntaxError":
                stats["syntax"] += 1
        else:
            stats["other_exception_at_construction"][c] = stats["other_exception_at_construction"].get(c, 0) + 1
        short = r["src"] if len(r["src"]) <= 120 else r["src"][:60] + "...(%d chars)" % len(r["src"])
        wit = {"src": short, "call": "piquasso.core._expressions.Expression(src)"}
        if r["events"] or r["eval_calls_in_init"]:
            chk.violation("C20:Expression.__init__:evaluates-during-construction",
                          "construction triggered evaluation (audit events %s, %d _eval calls)" % (r["events"], r["eval_calls_in_init"]), wit)
        if r["parse"] == "ok" and r.get("in_grammar") is not None:
            if c == "ok" and not r["in_grammar"]:
                chk.violation("C20:Expression.__init__:accepted-outside-grammar:" + r.get("offender", "?"),
                              "a string outside the property's grammar is accepted", wit)
            if c == "InvalidExpression" and r["in_grammar"]:
                chk.violation("C20:Expression.__init__:rejected-inside-grammar:" + r.get("message", "")[:30],
                              "a string of the property's grammar is rejected: " + r.get("message", ""), wit)
        if c == "ok" and (r["parse"] != "ok" or r.get("compile", "ok") != "ok"):
            stats["accepted_but_cpython_rejects"] = stats.get("accepted_but_cpython_rejects", 0) + 1
            chk.violation("C20:Expression.__init__:accepted-string-cpython-rejects",
                          "Expression accepts a string that CPython does not compile as an expression "
                          "(ast.parse: %s, compile(src.strip(), '<s>', 'eval'): %s)" % (r["parse"], r.get("compile")),
                          dict(wit, src_repr=repr(short)))
        if c != "ok" and r["parse"] == "ok":
            stats["cpython_parses"] = stats.get("cpython_parses", 0) + 1
        if r.get("same_tree") is False:
            chk.violation("C20:Expression.__init__:tree-differs-from-cpython-parse",
                          "the tree held by the Expression is not ast.parse(src.strip(), mode='eval')", dict(wit, src_repr=repr(short)))
        if r.get("resource_skipped"):
            stats["resource_skipped"] += 1
        for j, e in enumerate(r["evals"]):
            stats["evals"] += 1
            if "v" in e["cpy"]:
                stats["value"] += 1
            else:
                stats["exception"][e["cpy"]["e"]] = stats["exception"].get(e["cpy"]["e"], 0) + 1
            w = dict(wit, x=e["x"], implementation=e["impl"], python=e["cpy"],
                     call="piquasso.core._expressions.Expression(src)(x) vs eval(src, {'__builtins__': {}}, {'x': x})")
            a, b = dict(e["impl"]), dict(e["cpy"])
            msg = a.pop("m", "")
            if a != b:
                viol_cases.add((i, j))
                if a.get("e") == "InvalidExpression":
                    cls_ = "slice-inside-subscript-tuple" if r.get("slice_in_tuple") else "other"
                    chk.violation("C20:Expression._eval:accepted-then-unsupported-at-call:" + cls_,
                                  "an accepted expression raises InvalidExpression('%s') when evaluated; Python gives %s" % (msg, b), w)
                else:
                    chk.violation("C20:Expression.__call__:differs-from-python:" + root_kind(r.get("coq")),
                                  "value/exception differs from Python's", w)
            elif "trace_impl" in e or e.get("traced_equal") is False:
                viol_cases.add((i, j))
                chk.violation("C20:Expression.__call__:evaluation-order",
                              "the subscriptions performed on x differ from Python's (order, short-circuit or evaluate-once)",
                              dict(w, trace_impl=e.get("trace_impl"), trace_python=e.get("trace_cpy")))
    # ---- search at the use sites of piquasso/api/instruction.py
    n_use = n_use_eval = 0
    for r in recs:
        u = r.get("use")
        if not u:
            continue
        n_use += 1
        wit = {"src": r["src"][:120], "call": "pq.Phaseshifter(phi=0.25).when(src) / pq.Phaseshifter(phi=src)"}
        if u["when"] != r["construct"] or u["param"] != r["construct"]:
            chk.violation("C20:Instruction.when/_get_unresolved_params:acceptance-differs-from-Expression",
                          "when(): %s, str parameter: %s, Expression(): %s" % (u["when"], u["param"], r["construct"]), wit)
        by_x = {json.dumps(e["x"]): e for e in r["evals"]}
        for e in u["evals"]:
            n_use_eval += 1
            ref = by_x.get(json.dumps(e["x"]))
            if ref is None:
                continue
            want = {k: v for k, v in ref["impl"].items() if k != "m"}
            for site, wrapper in (("condition", "PiquassoException"), ("param", "InvalidParameter")):
                got = dict(e[site])
                wrapped = got.pop("wrapped", None)
                if got != want or ("e" in got and wrapped != wrapper):
                    chk.violation("C20:Instruction.%s:differs-from-Expression" % ("_is_condition_met" if site == "condition" else "_resolve_params"),
                                  "use site gives %s (wrapped in %s), Expression(src)(x) gives %s" % (got, wrapped, want),
                                  dict(wit, x=e["x"]))
    chk.stream("search: use sites Instruction.when / str parameters / _is_condition_met / _resolve_params vs Expression",
               n_use + n_use_eval, n_use_eval, kind="search",
               samples=[{"src": r["src"], "use": r["use"]["when"]} for r in recs if r.get("use")][:1])
    if os.path.exists("/tmp/c20_pwned"):
        chk.violation("C20:Expression.__init__:hostile-string-executed",
                      "the side effect of a hostile corpus string was observed (/tmp/c20_pwned exists)",
                      {"src": "__import__('os').system('echo pwned > /tmp/c20_pwned')"})
    nontrivial = len({r["src"] for r in recs if r["construct"] == "ok" and r.get("nodes", 0) >= 4})
    chk.stream("search: Expression vs CPython eval, acceptance vs grammar recogniser, audit of construction",
               len(recs) + stats["evals"], nontrivial, kind="search",
               samples=[{"src": recs[len(recs) // 3]["src"], "construct": recs[len(recs) // 3]["construct"]}],
               note=json.dumps({k: v for k, v in stats.items() if k != "nontrivial"}))
    if stats["other_exception_at_construction"]:
        chk.notes.append("construction rejected with an exception other than InvalidExpression (parser resource limits; "
                         "rejected without evaluation, class not fixed by the property): %s"
                         % stats["other_exception_at_construction"])

    # ---- correspondence: model vs implementation, specification vs CPython
    todo = []
    seen_terms = set()
    for i, r in enumerate(recs):
        if not (r.get("coq") and len(r["coq"]) < 200000 and r["construct"] in ("ok", "InvalidExpression")):
            continue
        if r["stream"] == "near-miss-strings":
            # white-space variants parse to the tree of their seed: run each distinct tree once
            k = (r["coq"], r["construct"])
            if k in seen_terms:
                continue
            seen_terms.add(k)
        todo.append(i)
    unser = sum(1 for r in recs if r["parse"] == "ok" and not r.get("coq"))
    for r in recs:
        keep = []
        for e in r["evals"]:
            try:
                cx(e["x"]), cres(e["impl"]), cres(e["cpy"])
                keep.append(e)
            except Unser:
                pass
        r["evals_coq"] = keep
    # few, large files: loading the Coq libraries dominates the cost of a cases file
    chunk = min(4000, max(200, -(-len(todo) // 4)))
    groups = [todo[k:k + chunk] for k in range(0, len(todo), chunk)]
    bodies = [coq_file([dict(recs[i], evals=recs[i]["evals_coq"]) for i in gidx]) for gidx in groups]
    t_coq = time.time()
    outs = coq_eval_parallel("c20_cases", bodies, timeout=2400, jobs=4)
    t_coq = time.time() - t_coq
    chk.notes.append("timing: implementation runner %.0fs, model evaluation in coqc %.0fs (%d files)" % (t_impl, t_coq, len(bodies)))
    n_tie = n_ood = n_acc = 0
    attributed = 0
    for gidx, o in zip(groups, outs):
        rows = parse_ll(o)
        if len(rows) != len(gidx):
            corr_broken.append("coq output has %d rows for %d cases" % (len(rows), len(gidx)))
            continue
        for i, row in zip(gidx, rows):
            r = recs[i]
            n_acc += 1
            acc, shp, vs = row[0], row[1], row[2:]
            short = r["src"][:100]
            if shp != 1:
                corr_broken.append("parser-shape assumption fails on %r" % short)
            if (acc == 1) != (r["construct"] == "ok"):
                corr_broken.append("validate: model %s, implementation %s on %r" % (bool(acc), r["construct"], short))
            if shp == 1 and r.get("in_grammar") is not None and (acc == 1) != r["in_grammar"]:
                corr_broken.append("model validate (%s) != grammar recogniser (%s) on %r" % (bool(acc), r["in_grammar"], short))
            for e, v in zip(r["evals_coq"], vs):
                j = r["evals"].index(e)
                if v == 4:
                    n_ood += 1
                    continue
                n_tie += 1
                if v in (1, 3):
                    if v == 1 and (i, j) in viol_cases:
                        attributed += 1  # the model agrees with CPython; the implementation is what differs
                    else:
                        corr_broken.append("pq_eval != implementation on %r x=%s impl=%s" % (short, e["x"], e["impl"]))
                if v in (2, 3):
                    corr_broken.append("py_eval (specification) != CPython on %r x=%s python=%s" % (short, e["x"], e["cpy"]))
    acc_trees = [recs[i] for i in todo if recs[i]["construct"] == "ok"]
    chk.stream("tie: validate/shape of the model vs Expression() on every parsed tree", n_acc,
               len({r["coq"] for r in (recs[i] for i in todo) if r.get("nodes", 0) >= 4}),
               samples=[{"src": r["src"], "accepted": r["construct"] == "ok"} for r in [recs[todo[len(todo) // 2]]]] if todo else [],
               note="%d parsed trees not serialisable (too deep/large) and compared on the Python side only" % unser)
    chk.stream("tie: pq_eval (model, vm_compute) vs Expression(src)(x), and py_eval vs CPython eval, exact", n_tie,
               min(n_tie, len({(r["coq"], json.dumps(e["x"])) for r in acc_trees for e in r["evals_coq"] if r.get("nodes", 0) >= 4})),
               samples=[{"src": r["src"], "x": r["evals"][0]["x"], "result": r["evals"][0]["impl"]} for r in acc_trees[5:6] if r["evals"]],
               note="%d evaluations outside the executable value domain (float %% and **, NaN, int>2^53 with float, huge powers) counted and skipped; "
                    "%d model!=implementation cases attributed to reported violations (model = CPython there)" % (n_ood, attributed))
    per = {}
    for r in recs:
        per[r["stream"]] = per.get(r["stream"], 0) + 1
    chk.notes.append("strings per stream (deduplicated): %s" % per)

    chk.assumptions += [
        "CPython's parser is trusted: the property starts from the tree ast.parse returns; the parser-shape invariants (Slice only in a subscript, BoolOp >= 2 values, Compare ops/comparators of equal length) are evaluated on every parsed tree",
        "primitive operators are shared by construction (operator.* called by both); the executable instance in C20/PyValue.v is only used to run the model",
        "comparisons on the outcome domain return bool and truthiness is total and pure (section hypotheses of eval_agrees; proved for the executable instance)",
    ]
    chk.finish(
        rule="non-trivial = distinct accepted tree with >= 4 nodes (per outcome tuple for evaluations)",
        explanation="Theorems of Props/C20.v hold for every tree and every primitive semantics, re-proved against the whitelist "
                    "regenerated from the source; tie = exact three-way comparison on generated, mutated and hostile strings; "
                    "search = Expression vs CPython eval and vs an independent recogniser.",
        correspondence_broken=corr_broken,
    )


def replay(chk: Check, path):
    """./check C20 --replay <file>: re-run the witnesses of a replay file on the implementation
    and on CPython and print both results."""
    data = json.load(open(path))
    seen = set()
    req = []
    for v in data.get("violations", []):
        w = v.get("witness", {})
        src, x = w.get("src"), w.get("x")
        if src is None or "...(" in src or (src, json.dumps(x)) in seen:
            continue
        seen.add((src, json.dumps(x)))
        req.append([src, [x] if x is not None else [jx(())]])
    if not req:
        print("nothing to replay (witnesses too long to be stored inline, or broken obligations only): %s"
              % (data.get("broken_obligations") or data.get("broken_correspondence")))
        return
    out = run_impl("c20_impl.py", {"strings": req})
    bad = 0
    for r in out["records"]:
        print("src=%r construct=%s in_grammar=%s" % (r["src"], r["construct"], r.get("in_grammar")))
        for e in r["evals"]:
            same = {k: v for k, v in e["impl"].items() if k != "m"} == e["cpy"]
            bad += 0 if same else 1
            print("   x=%s implementation=%s python=%s %s" % (json.dumps(e["x"]), e["impl"], e["cpy"], "" if same else "<-- differs"))
    print("%d evaluation(s) still differ" % bad)
    raise SystemExit(1 if bad else 0)
