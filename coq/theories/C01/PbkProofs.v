(* C01 — the recursive enumeration of partitions_bounded_k lists exactly the vectors of the
   sector that satisfy its documented contract, in the order of the sector. *)
From Coq Require Import ZArith List Bool Arith Lia.
From PV Require Import Comb.FockModel Comb.FockProofs
  C01.PermModel C01.TableProofs C01.EmbedModel C01.EmbedProofs C01.OnModesProofs
  C01.PruneModel C01.PruneProofs.
Import ListNotations.
Local Open Scope nat_scope.

(* the sector on nat vectors, first coordinate descending *)
Fixpoint secN (d n : nat) : list (list nat) :=
  match d with
  | O => match n with O => [[]] | S _ => [] end
  | S d' => flat_map (fun val => map (cons val) (secN d' (n - val))) (rev (seq 0 (S n)))
  end.

Fixpoint boundsb (bs x : list nat) : bool :=
  match bs, x with
  | [], [] => true
  | b :: bs', v :: x' => (v <=? b) && boundsb bs' x'
  | _, _ => false
  end.
Fixpoint defZ (cs : list bool) (ts x : list nat) : Z :=
  match cs, ts, x with
  | c :: cs', t :: ts', v :: x' =>
      ((if c then Z.of_nat t - Z.of_nat v else 0) + defZ cs' ts' x')%Z
  | _, _, _ => 0%Z
  end.
Definition Pb (bs : list nat) (cs : list bool) (ts : list nat) (diff lim : Z) (x : list nat) : bool :=
  boundsb bs x && (diff + defZ cs ts x <=? lim)%Z.
(* constrained boxes have bound <= target *)
Fixpoint okbt (bs : list nat) (cs : list bool) (ts : list nat) : Prop :=
  match bs, cs, ts with
  | b :: bs', c :: cs', t :: ts' => (c = true -> b <= t) /\ okbt bs' cs' ts'
  | _, _, _ => True
  end.

Lemma flat_map_nil {X Y} (f : X -> list Y) l : (forall x, In x l -> f x = []) -> flat_map f l = [].
Proof.
  induction l as [|a l IH]; intros H; [reflexivity|]. simpl. rewrite H by (now left).
  apply IH. intros x Hx. apply H. now right.
Qed.

Lemma flat_map_ext_in {X Y} (f g : X -> list Y) l :
  (forall x, In x l -> f x = g x) -> flat_map f l = flat_map g l.
Proof.
  induction l as [|a l IH]; intros H; [reflexivity|]. simpl. rewrite H by (now left).
  f_equal. apply IH. intros x Hx. apply H. now right.
Qed.

Lemma filter_flat_map {X Y} (P : Y -> bool) (f : X -> list Y) l :
  filter P (flat_map f l) = flat_map (fun x => filter P (f x)) l.
Proof.
  induction l as [|a l IH]; [reflexivity|]. simpl. rewrite filter_app. now rewrite IH.
Qed.

Lemma filter_map_comm {X Y} (P : Y -> bool) (f : X -> Y) l :
  filter P (map f l) = map f (filter (fun x => P (f x)) l).
Proof.
  induction l as [|a l IH]; [reflexivity|]. simpl. destruct (P (f a)); simpl; now rewrite IH.
Qed.

Lemma filter_none {X} (P : X -> bool) l : (forall x, In x l -> P x = false) -> filter P l = [].
Proof.
  induction l as [|a l IH]; intros H; [reflexivity|]. simpl. rewrite H by (now left).
  apply IH. intros x Hx. apply H. now right.
Qed.

Lemma rev_seq_S n : rev (seq 0 (S n)) = n :: rev (seq 0 n).
Proof. rewrite seq_S, rev_app_distr. reflexivity. Qed.

Lemma secN_1 n : secN 1 n = [[n]].
Proof.
  cbn [secN]. rewrite rev_seq_S. cbn [flat_map]. rewrite Nat.sub_diag. cbn [map app].
  rewrite flat_map_nil; [reflexivity|].
  intros val Hv. apply in_rev, in_seq in Hv.
  destruct (n - val) eqn:E; [lia | reflexivity].
Qed.

Lemma defZ_nonneg bs : forall cs ts x, okbt bs cs ts -> boundsb bs x = true -> (0 <= defZ cs ts x)%Z.
Proof.
  induction bs as [|b bs IH]; intros cs ts x Hok Hb.
  - destruct x; [|discriminate]. destruct cs, ts; simpl; lia.
  - destruct x as [|v x]; [discriminate|]. cbn [boundsb] in Hb.
    apply andb_true_iff in Hb. destruct Hb as [Hv Hb]. apply Nat.leb_le in Hv.
    destruct cs as [|c cs]; [simpl; lia|]. destruct ts as [|t ts]; [simpl; lia|].
    cbn [okbt] in Hok. destruct Hok as [Hc Hok]. cbn [defZ].
    specialize (IH cs ts x Hok Hb). destruct c; [specialize (Hc eq_refl)|]; lia.
Qed.

Theorem pbk_fill_spec bs : forall cs ts,
  bs <> [] -> length cs = length bs -> length ts = length bs -> okbt bs cs ts ->
  forall rem diff lim,
  pbk_fill bs cs ts rem diff lim = filter (Pb bs cs ts diff lim) (secN (length bs) rem).
Proof.
  induction bs as [|b bs IH]; intros cs ts Hne Hlc Hlt Hok rem diff lim; [congruence|].
  destruct cs as [|c cs]; [discriminate|]. destruct ts as [|tg ts]; [discriminate|].
  cbn [length] in Hlc, Hlt. injection Hlc as Hlc. injection Hlt as Hlt.
  cbn [okbt] in Hok. destruct Hok as [Hc Hok].
  destruct bs as [|b2 bs'].
  - (* last box *)
    destruct cs; [|discriminate]. destruct ts; [|discriminate].
    cbn [pbk_fill length]. rewrite secN_1. cbn [filter]. unfold Pb. cbn [boundsb defZ].
    destruct (Nat.ltb_spec b rem) as [H|H].
    + replace (rem <=? b) with false by (symmetry; apply Nat.leb_gt; lia). reflexivity.
    + replace (rem <=? b) with true by (symmetry; apply Nat.leb_le; lia). cbn [andb].
      destruct c.
      * replace (diff + (Z.of_nat tg - Z.of_nat rem + 0))%Z with (diff + (Z.of_nat tg - Z.of_nat rem))%Z by lia.
        destruct (_ <=? lim)%Z; reflexivity.
      * replace (diff + (0 + 0))%Z with diff by lia. destruct (_ <=? lim)%Z; reflexivity.
  - (* inner box *)
    set (tail := b2 :: bs') in *.
    assert (Htl : tail <> []) by (unfold tail; congruence).
    change (length (b :: tail)) with (S (length tail)).
    cbn [secN]. rewrite filter_flat_map.
    change (pbk_fill (b :: tail) (c :: cs) (tg :: ts) rem diff lim)
      with (flat_map (fun val =>
              let nd := if c then (diff + (Z.of_nat tg - Z.of_nat val))%Z else diff in
              if (lim <? nd)%Z then []
              else map (cons val) (pbk_fill tail cs ts (rem - val) nd lim))
            (rev (seq 0 (S (Nat.min b rem))))).
    set (m := Nat.min b rem).
    assert (Hsplit : rev (seq 0 (S rem)) = rev (seq (S m) (rem - m)) ++ rev (seq 0 (S m))).
    { rewrite <- rev_app_distr. f_equal. rewrite <- seq_app. f_equal. unfold m. lia. }
    rewrite Hsplit, flat_map_app.
    rewrite (flat_map_nil _ (rev (seq (S m) (rem - m)))).
    2:{ intros val Hv. apply in_rev, in_seq in Hv. rewrite filter_map_comm.
        rewrite filter_none; [reflexivity|]. intros x _. unfold Pb. cbn [boundsb].
        replace (val <=? b) with false; [reflexivity|]. symmetry. apply Nat.leb_gt. unfold m in Hv. lia. }
    cbn [app]. apply flat_map_ext_in. intros val Hv. apply in_rev, in_seq in Hv.
    assert (Hvb : val <= b) by (unfold m in Hv; lia).
    cbv zeta. set (nd := if c then (diff + (Z.of_nat tg - Z.of_nat val))%Z else diff).
    rewrite filter_map_comm.
    assert (HP : forall x, Pb (b :: tail) (c :: cs) (tg :: ts) diff lim (val :: x) = Pb tail cs ts nd lim x).
    { intros x. unfold Pb. cbn [boundsb defZ].
      replace (val <=? b) with true by (symmetry; now apply Nat.leb_le). cbn [andb]. f_equal.
      unfold nd. destruct c; f_equal; lia. }
    rewrite (filter_ext _ _ HP).
    rewrite <- (IH cs ts Htl Hlc Hlt Hok (rem - val) nd lim).
    destruct (Z.ltb_spec lim nd) as [Hgt|Hle]; [|reflexivity].
    rewrite (IH cs ts Htl Hlc Hlt Hok (rem - val) nd lim).
    rewrite filter_none; [reflexivity|]. intros x _. unfold Pb.
    destruct (boundsb tail x) eqn:Eb; [|reflexivity]. cbn [andb].
    pose proof (defZ_nonneg tail cs ts x Hok Eb). apply Z.leb_gt. lia.
Qed.

(* ---------------------------------------------------------------- secN is piquasso's sector *)
Lemma rev_seq_sub n : rev (seq 0 (S n)) = map (fun m => n - m) (seq 0 (S n)).
Proof.
  induction n as [|n IH]; [reflexivity|].
  rewrite rev_seq_S, IH.
  replace (map (fun m => S n - m) (seq 0 (S (S n))))
    with (S n :: map (fun m => S n - m) (seq 1 (S n))) by reflexivity.
  rewrite <- seq_shift, map_map. reflexivity.
Qed.

Lemma flat_map_map {X Y W} (f : Y -> list W) (g : X -> Y) l :
  flat_map f (map g l) = flat_map (fun x => f (g x)) l.
Proof. induction l as [|a l IH]; [reflexivity|]. simpl. now rewrite IH. Qed.

Lemma secN_sectorN d : forall n, secN d n = sectorN d n.
Proof.
  induction d as [|d IH]; intros n.
  - destruct n; reflexivity.
  - cbn [secN]. unfold sectorN. cbn [sector].
    rewrite concat_map, map_map. rewrite rev_seq_sub, flat_map_map.
    rewrite flat_map_concat_map. f_equal. apply map_ext_in. intros m Hm. apply in_seq in Hm.
    rewrite map_map. replace (n - (n - m)) with m by lia. rewrite IH. unfold sectorN.
    rewrite map_map. apply map_ext. intros t. cbn [map]. f_equal. lia.
Qed.

(* the recursive enumeration lists the sector filtered by (bounds, accumulated difference) *)
Theorem pbk_fill_is_filtered_sector d bs cs ts rem diff lim :
  length bs = S d -> length cs = S d -> length ts = S d -> okbt bs cs ts ->
  pbk_fill bs cs ts rem diff lim = filter (Pb bs cs ts diff lim) (sectorN (S d) rem).
Proof.
  intros Hb Hc Ht Hok. rewrite <- secN_sectorN, <- Hb.
  apply pbk_fill_spec; auto; try congruence. intros ->. discriminate.
Qed.
