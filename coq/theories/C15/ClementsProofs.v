(* C15 — theorems about the Clements model (ClementsModel.v), for every dimension d and every
   commutative ring with involution. *)
From Coq Require Import List Arith Bool Lia Ring.
From PV Require Import C15.ClementsModel C15.MatProofs.
Import ListNotations.

(* generic fold invariants *)
Lemma fold_left_inv : forall (S X : Type) (P : S -> Prop) (f : S -> X -> S) l init,
  P init -> (forall s x, In x l -> P s -> P (f s x)) -> P (fold_left f l init).
Proof.
  intros S X P f l. induction l; intros init H0 Hs; simpl; [assumption|].
  apply IHl; [apply Hs; [now left|assumption]|]. intros. apply Hs; [now right|assumption].
Qed.

(* ascending loop  for j in range(n) *)
Lemma fold_seq_inv : forall (S : Type) (P : nat -> S -> Prop) (f : S -> nat -> S) n init,
  P 0%nat init -> (forall j s, (j < n)%nat -> P j s -> P (Datatypes.S j) (f s j)) ->
  P n (fold_left f (seq 0 n) init).
Proof.
  intros S P f n. induction n; intros init H0 Hs; [simpl; assumption|].
  rewrite seq_S, fold_left_app. simpl. apply Hs; [lia|].
  apply IHn; [assumption|]. intros. apply Hs; [lia|assumption].
Qed.

(* descending loop  for j in reversed(range(n)) *)
Lemma fold_rev_seq_inv : forall (S : Type) (P : nat -> S -> Prop) (f : S -> nat -> S) n init,
  P n init -> (forall j s, (j < n)%nat -> P (Datatypes.S j) s -> P j (f s j)) ->
  P 0%nat (fold_left f (rev (seq 0 n)) init).
Proof.
  intros S P f n. induction n; intros init H0 Hs; [simpl; assumption|].
  rewrite seq_S, rev_app_distr. simpl. apply IHn.
  - apply Hs; [lia|assumption].
  - intros. apply Hs; [lia|assumption].
Qed.

Section Clements.
Context {A : Type} {O : ROps A} {L : RLaws O}.
Local Open Scope rng_scope.
Add Ring Aring2 : (rth (RLaws := L)).

(* coefficients of a beamsplitter: c, s real with c^2+s^2 = 1, |e| = 1 *)
Definition coef_ok (c s e : A) : Prop :=
  c^* = c /\ s^* = s /\ c * c + s * s = r1 /\ e * e^* = r1.
Definition unitc (T : BS A) : Prop := coef_ok (bs_c T) (bs_s T) (bs_e T).
Definition validm (d : nat) (T : BS A) : Prop :=
  (bs_i T < d)%nat /\ (bs_j T < d)%nat /\ bs_i T <> bs_j T.
Definition okbs (d : nat) (T : BS A) : Prop := validm d T /\ unitc T.

Lemma unit_comm : forall e : A, e * e^* = r1 -> e^* * e = r1.
Proof. intros e H. rewrite <- H. ring. Qed.

(* ------------------------------------------------------------ embedded beamsplitter is unitary *)
Lemma embed_adj : forall d T, validm d T ->
  madj d (embed d T) =
  emb2 d (bs_i T) (bs_j T) (bs_e T * bs_c T)^* (bs_e T * bs_s T)^* (- bs_s T)^* (bs_c T)^*.
Proof. intros d T (Hi & Hj & Hij). unfold embed. now apply madj_emb2. Qed.

Lemma embed_unitary : forall d T, okbs d T -> unitary d (embed d T).
Proof.
  intros d T [Hv (Hc & Hs & Hcs & He)]. pose proof Hv as (Hi & Hj & Hij).
  pose proof (unit_comm _ He) as He'.
  assert (Hcc : bs_c T * bs_c T = r1 - bs_s T * bs_s T) by (rewrite <- Hcs; ring).
  split; [apply wf_mk|]. rewrite embed_adj by assumption. unfold embed.
  rewrite !emb2_mul by assumption. rewrite !conj_mul, !conj_opp, Hc, Hs.
  split; rewrite <- (emb2_id d (bs_i T) (bs_j T)); f_equal;
    first [ ring [He Hcc] | ring [He' Hcc] ].
Qed.

Lemma wf_embed : forall d T, wf d (embed d T).
Proof. intros. apply wf_mk. Qed.

(* ------------------------------------------------------------ products of beamsplitters *)
Lemma prodl_snoc : forall d l T, prodl d (l ++ [T]) = mmul d (embed d T) (prodl d l).
Proof. intros. unfold prodl. now rewrite fold_left_app. Qed.

Lemma wf_prodl : forall d l, wf d (prodl d l).
Proof.
  intros d l. destruct l using rev_ind; [apply wf_mid|]. rewrite prodl_snoc. apply wf_mmul.
Qed.

Lemma prodl_app : forall d l1 l2, prodl d (l1 ++ l2) = mmul d (prodl d l2) (prodl d l1).
Proof.
  intros d l1 l2. induction l2 using rev_ind.
  - rewrite app_nil_r. simpl. unfold prodl at 2. simpl. now rewrite mmul_id_l by apply wf_prodl.
  - rewrite app_assoc, !prodl_snoc, IHl2. now rewrite mmul_assoc.
Qed.

Lemma unitary_prodl : forall d l, Forall (okbs d) l -> unitary d (prodl d l).
Proof.
  intros d l. induction l using rev_ind; intros H.
  - apply unitary_mid.
  - apply Forall_app in H. destruct H as [H1 H2]. inversion H2; subst.
    rewrite prodl_snoc. apply unitary_mmul; [now apply embed_unitary|now apply IHl].
Qed.

(* ------------------------------------------------------------ the commute step (theorem 2) *)
(* BS(c,s,e)^-1 diag(.., e1, .., e2, ..) = diag(.., e1', .., e2, ..) BS(c,s,e'),
   e' = -e1 conj(e2), e1' = -e2 conj(e), on the embedded d x d matrices *)
Lemma commute_identity : forall d T phis,
  okbs d T -> length phis = d ->
  nth (bs_j T) phis r0 * (nth (bs_j T) phis r0)^* = r1 ->
  let '(out, phis') := commute_step ([], phis) T in
  mmul d (madj d (embed d T)) (mdiag d phis) = mmul d (mdiag d phis') (prodl d out).
Proof.
  intros d T phis [Hv (Hc & Hs & Hcs & He)] Hlen He2. pose proof Hv as (Hi & Hj & Hij).
  unfold commute_step. simpl app. unfold prodl. simpl fold_left.
  rewrite (mmul_id_r d (embed d _)) by apply wf_embed.
  apply wf_ext with (d := d); try apply wf_mmul.
  intros r k Hr Hk. rewrite embed_adj by assumption.
  rewrite emb2_mul_l by assumption. rewrite mdiag_mul_l by assumption.
  rewrite !get_mdiag by assumption. unfold embed; simpl.
  rewrite get_emb2 by assumption. rewrite !nth_upd, !upd_length, Hlen.
  destruct (Nat.ltb_spec (bs_i T) d); [|lia]. destruct (Nat.ltb_spec (bs_j T) d); [|lia].
  rewrite !conj_mul, !conj_opp, Hc, Hs.
  set (e2 := nth (bs_j T) phis r0) in *. set (e1 := nth (bs_i T) phis r0).
  destruct (Nat.eqb_spec r (bs_i T)) as [->|Hri];
    [|destruct (Nat.eqb_spec r (bs_j T)) as [->|Hrj]];
    (destruct (Nat.eqb_spec k (bs_i T)) as [->|Hki];
      [|destruct (Nat.eqb_spec k (bs_j T)) as [->|Hkj]]);
    fold e1; fold e2; eqb_cases; try (ring [He2]).
Qed.

(* ------------------------------------------------------------ the elimination passes *)
Variable angles : A -> A -> A * A * A.
Variable phase : A -> A.
Hypothesis angles_unit : forall x y, let '(c, s, e) := angles x y in coef_ok c s e.

Local Notation direct_step := (direct_step angles).
Local Notation inverse_step := (inverse_step angles).

Lemma apply_direct_spec : forall d column U, wf d U ->
  let '(ops, U') := apply_direct angles d column U in
  U' = mmul d (prodl d ops) U /\ Forall (okbs d) ops.
Proof.
  intros d column U HU. unfold apply_direct.
  apply (fold_left_inv _ _ (fun st : list (BS A) * mat A =>
    let '(ops, U') := st in U' = mmul d (prodl d ops) U /\ Forall (okbs d) ops)).
  - split; [|constructor]. unfold prodl; simpl. now rewrite mmul_id_l.
  - intros [ops U1] j Hj [HU1 Hok]. apply in_seq in Hj. unfold ClementsModel.direct_step.
    pose proof (angles_unit (get U1 (column + j)%nat j) (- get U1 (column + j + 1)%nat j)) as Ha.
    destruct (angles _ _) as [[c s] e]. split.
    + rewrite prodl_snoc, mmul_assoc, <- HU1. reflexivity.
    + apply Forall_app. split; [assumption|]. constructor; [|constructor].
      split; [unfold validm; simpl; lia|exact Ha].
Qed.

Lemma apply_inverse_spec : forall d column U, wf d U ->
  let '(ops, U') := apply_inverse angles d column U in
  U' = mmul d U (madj d (prodl d ops)) /\ Forall (okbs d) ops.
Proof.
  intros d column U HU. unfold apply_inverse.
  apply (fold_left_inv _ _ (fun st : list (BS A) * mat A =>
    let '(ops, U') := st in U' = mmul d U (madj d (prodl d ops)) /\ Forall (okbs d) ops)).
  - split; [|constructor]. unfold prodl; simpl. now rewrite madj_mid, mmul_id_r.
  - intros [ops U1] j Hj [HU1 Hok]. apply in_rev, in_seq in Hj. unfold ClementsModel.inverse_step.
    pose proof (angles_unit (get U1 (column + j + 1)%nat (j + 1)%nat) (get U1 (column + j + 1)%nat j)) as Ha.
    destruct (angles _ _) as [[c s] e]. split.
    + rewrite prodl_snoc, madj_mmul, <- mmul_assoc, <- HU1. reflexivity.
    + apply Forall_app. split; [assumption|]. constructor; [|constructor].
      split; [unfold validm; simpl; lia|exact Ha].
Qed.

(* the residual matrix is  (product of the direct ops) U (product of the inverse ops)^dagger *)
Lemma eliminate_spec : forall d U, wf d U ->
  let '(first, last, R) := eliminate angles d U in
  R = mmul d (mmul d (prodl d last) U) (madj d (prodl d first))
  /\ Forall (okbs d) first /\ Forall (okbs d) last.
Proof.
  intros d U HU. unfold eliminate.
  apply (fold_left_inv _ _ (fun st : list (BS A) * list (BS A) * mat A =>
    let '(first, last, R) := st in
    R = mmul d (mmul d (prodl d last) U) (madj d (prodl d first))
    /\ Forall (okbs d) first /\ Forall (okbs d) last)).
  - split; [|split; constructor]. unfold prodl; simpl.
    now rewrite madj_mid, mmul_id_l, mmul_id_r.
  - intros [[first last] R] column _ (HR & Hf & Hl). unfold column_step.
    assert (HwR : wf d R) by (rewrite HR; apply wf_mmul).
    destruct (Nat.even column).
    + pose proof (apply_direct_spec d column R HwR) as Hd.
      destruct (apply_direct angles d column R) as [ops R']. destruct Hd as [HR' Hops].
      split; [|split; [assumption|apply Forall_app; now split]].
      rewrite HR', HR, prodl_app. now rewrite !mmul_assoc.
    + pose proof (apply_inverse_spec d column R HwR) as Hd.
      destruct (apply_inverse angles d column R) as [ops R']. destruct Hd as [HR' Hops].
      split; [|split; [apply Forall_app; now split|assumption]].
      rewrite HR', HR, prodl_app, madj_mmul. now rewrite !mmul_assoc.
Qed.

(* ------------------------------------------------------------ commuting the phases through *)
Definition units (v : list A) : Prop := forall k, (k < length v)%nat -> nth k v r0 * (nth k v r0)^* = r1.

Lemma commute_step_units : forall d T phis out, okbs d T -> length phis = d -> units phis ->
  let '(out', phis') := commute_step (out, phis) T in
  length phis' = d /\ units phis' /\
  out' = out ++ fst (commute_step ([], phis) T) /\ phis' = snd (commute_step ([], phis) T)
  /\ Forall (okbs d) (fst (commute_step ([], phis) T)).
Proof.
  intros d T phis out [Hv (Hc & Hs & Hcs & He)] Hlen Hu. pose proof Hv as (Hi & Hj & Hij).
  unfold commute_step. simpl. rewrite !upd_length. split; [assumption|].
  split; [|split; [reflexivity|split; [reflexivity|]]].
  - intros k Hk. rewrite !upd_length in Hk. rewrite !nth_upd, !upd_length, Hlen.
    destruct (Nat.ltb_spec (bs_i T) d); [|lia]. destruct (Nat.ltb_spec (bs_j T) d); [|lia].
    pose proof (Hu (bs_j T)) as Hj2. rewrite Hlen in Hj2. specialize (Hj2 Hj).
    destruct (Nat.eqb_spec k (bs_j T)) as [->|]; [exact Hj2|].
    destruct (Nat.eqb_spec k (bs_i T)) as [->|]; [|now apply Hu].
    rewrite conj_opp, conj_mul, conj_inv.
    transitivity ((nth (bs_j T) phis r0 * (nth (bs_j T) phis r0)^* ) * (bs_e T * (bs_e T)^* )); [ring|].
    rewrite Hj2, He. ring.
  - constructor; [|constructor]. split; [exact Hv|]. unfold unitc, coef_ok; simpl.
    repeat split; try assumption.
    pose proof (Hu (bs_i T)) as Hi2. rewrite Hlen in Hi2. specialize (Hi2 Hi).
    pose proof (Hu (bs_j T)) as Hj2. rewrite Hlen in Hj2. specialize (Hj2 Hj).
    rewrite conj_opp, conj_mul, conj_inv.
    transitivity ((nth (bs_i T) phis r0 * (nth (bs_i T) phis r0)^* )
                  * (nth (bs_j T) phis r0 * (nth (bs_j T) phis r0)^* )); [ring|].
    rewrite Hi2, Hj2. ring.
Qed.

Lemma commute_spec : forall d l phis out,
  Forall (okbs d) l -> length phis = d -> units phis ->
  let '(out', phis') := fold_left commute_step l (out, phis) in
  exists com, out' = out ++ com /\ Forall (okbs d) com /\ length phis' = d /\ units phis' /\
    mmul d (madj d (prodl d (rev l))) (mdiag d phis) = mmul d (mdiag d phis') (prodl d com).
Proof.
  intros d l. induction l as [|T rest IH]; intros phis out Hok Hlen Hu; cbn [fold_left rev].
  - exists []. rewrite app_nil_r. repeat split; try assumption; try constructor.
    unfold prodl; simpl. rewrite madj_mid.
    rewrite mmul_id_l, mmul_id_r by apply wf_mk. reflexivity.
  - apply Forall_cons_iff in Hok. destruct Hok as [HT Hrest].
    pose proof (commute_step_units d T phis out HT Hlen Hu) as Hst.
    pose proof (commute_identity d T phis HT Hlen) as Hci.
    destruct HT as [Hv Hun]. pose proof Hv as (Hi & Hj & Hij).
    assert (He2 : nth (bs_j T) phis r0 * (nth (bs_j T) phis r0)^* = r1)
      by (apply Hu; lia).
    specialize (Hci He2).
    destruct (commute_step (out, phis) T) as [out1 phis1].
    destruct (commute_step ([], phis) T) as [o1 p1]. simpl in Hst.
    destruct Hst as (Hl1 & Hu1 & Ho1 & Hp1 & Hok1). subst out1 phis1.
    specialize (IH p1 (out ++ o1) Hrest Hl1 Hu1).
    destruct (fold_left commute_step rest (out ++ o1, p1)) as [out' phis'].
    destruct IH as (com & Hout & Hcom & Hl' & Hu' & Heq).
    exists (o1 ++ com). rewrite app_assoc. split; [assumption|].
    split; [apply Forall_app; now split|]. split; [assumption|]. split; [assumption|].
    rewrite prodl_snoc, madj_mmul, mmul_assoc, Hci, <- mmul_assoc, Heq, mmul_assoc.
    now rewrite <- prodl_app.
Qed.

(* ------------------------------------------------------------ phases written back *)
Lemma phis_of_seq : forall d (v : list A) k, (k < d)%nat ->
  nth k (phis_of d (map (fun m => mkPS m (nth m v r0)) (seq 0 d))) r0 = nth k v r0.
Proof.
  intros d v k Hk. unfold phis_of.
  assert (H : forall n, (n <= d)%nat ->
    let w := fold_left (fun (u : list A) (p : PS A) => upd u (ps_mode p) (ps_e p))
               (map (fun m => mkPS m (nth m v r0)) (seq 0 n)) (repeat r0 d) in
    length w = d /\ forall q, nth q w r0 = if (q <? n)%nat then nth q v r0 else r0).
  { induction n; intros Hn.
    - simpl. split; [apply repeat_length|]. intros q.
      destruct (Nat.lt_ge_cases q d); [apply nth_repeat|].
      apply nth_overflow. rewrite repeat_length. lia.
    - cbv zeta. rewrite seq_S, map_app, fold_left_app, Nat.add_0_l. cbn [map fold_left ps_mode ps_e].
      destruct (IHn ltac:(lia)) as [Hl Hq]. split; [now rewrite upd_length|].
      intros q. rewrite nth_upd, Hl, Hq.
      destruct (Nat.ltb_spec n d); [|lia].
      destruct (Nat.eqb_spec q n) as [->|].
      + destruct (Nat.ltb_spec n (S n)); [reflexivity|lia].
      + destruct (Nat.ltb_spec q n), (Nat.ltb_spec q (S n)); try lia; reflexivity. }
  destruct (H d (le_n d)) as [_ Hq]. rewrite Hq.
  destruct (Nat.ltb_spec k d); [reflexivity|lia].
Qed.

Lemma mdiag_ext : forall d (v w : list A),
  (forall k, (k < d)%nat -> nth k v r0 = nth k w r0) -> mdiag d v = mdiag d w.
Proof.
  intros. unfold mdiag. apply mk_ext. intros i j Hi Hj.
  destruct (i =? j)%nat; [now apply H|reflexivity].
Qed.

(* ------------------------------------------------------------ recomposition (theorem 3) *)
Hypothesis phase_unit : forall z, z * z^* = r1 -> phase z = z.

Definition is_diag_unit (d : nat) (R : mat A) : Prop :=
  (forall i j, (i < d)%nat -> (j < d)%nat -> i <> j -> get R i j = r0) /\
  (forall i, (i < d)%nat -> get R i i * (get R i i)^* = r1).

Theorem clements_recompose : forall d U, wf d U ->
  is_diag_unit d (snd (eliminate angles d U)) ->
  inverse_clements d (clements angles phase d U) = U.
Proof.
  intros d U HU [Hoff Hdiag]. unfold clements.
  pose proof (eliminate_spec d U HU) as Hel.
  destruct (eliminate angles d U) as [[first last] R]. simpl in Hoff, Hdiag.
  destruct Hel as (HR & Hf & Hl).
  assert (HwR : wf d R) by (rewrite HR; apply wf_mmul).
  (* middle phases = diagonal of R *)
  assert (Hmid : map phase (diag_of d R) = diag_of d R).
  { unfold diag_of. rewrite map_map. apply map_ext_in. intros i Hi. apply in_seq in Hi.
    apply phase_unit, Hdiag. lia. }
  rewrite Hmid.
  assert (HRd : R = mdiag d (diag_of d R)).
  { apply wf_ext with (d := d); [assumption|apply wf_mk|]. intros i j Hi Hj.
    rewrite get_mdiag by assumption. unfold diag_of.
    destruct (Nat.eqb_spec i j) as [->|Hij].
    - rewrite nth_indep with (d' := get R 0%nat 0%nat) by (rewrite map_length, seq_length; lia).
      now rewrite nth_map_seq.
    - now apply Hoff. }
  assert (Hlen : length (diag_of d R) = d) by (unfold diag_of; now rewrite map_length, seq_length).
  assert (Hun : units (diag_of d R)).
  { intros k Hk. rewrite Hlen in Hk. unfold diag_of.
    rewrite nth_indep with (d' := get R 0%nat 0%nat) by (rewrite map_length, seq_length; lia).
    rewrite nth_map_seq by assumption. now apply Hdiag. }
  pose proof (commute_spec d (rev last) (diag_of d R) [] (Forall_rev Hl) Hlen Hun) as Hc.
  unfold commute. destruct (fold_left commute_step (rev last) ([], diag_of d R)) as [com phis].
  destruct Hc as (com' & Hcom & Hokc & Hlp & Hup & Heq). simpl in Hcom. subst com'.
  rewrite rev_involutive in Heq.
  unfold inverse_clements. simpl fst. simpl snd.
  rewrite (mdiag_ext d _ phis) by (intros; now apply phis_of_seq).
  rewrite prodl_app, <- mmul_assoc, <- Heq, <- HRd.
  destruct (unitary_prodl d last Hl) as (_ & HL1 & _).
  destruct (unitary_prodl d first Hf) as (_ & HF1 & _).
  rewrite HR. rewrite <- !mmul_assoc, HL1, mmul_id_l by assumption.
  now rewrite mmul_assoc, HF1, mmul_id_r.
Qed.

End Clements.
