(* C17 (closing a gap of C06's fermionic part) - the code's full fermionic basis loop
   get_fock_space_basis (zeros, then next_second_quantized repeatedly) equals the recursive
   specification across sector boundaries, for every d and every cutoff c <= d+1. *)
From Coq Require Import ZArith List Bool Lia ZifyBool.
From PV Require Import Comb.FockModel Comb.Binom Comb.FermiModel Comb.FermiProofs
  C17.FermiRepModel C17.FermiWalkProofs.
Import ListNotations.
Open Scope Z_scope.

(* ---------------------------------------------------------------- to_sq (to_fq v) = v *)
Lemma existsb_sh k X : existsb (Z.eqb (k + 1)) (sh X) = existsb (Z.eqb k) X.
Proof.
  induction X as [|x r IH]; [reflexivity|].
  unfold sh in *. cbn [map existsb]. rewrite IH. f_equal. lia.
Qed.

Lemma existsb_sh_0 X : Forall (fun x => 0 <= x) X -> existsb (Z.eqb 0) (sh X) = false.
Proof.
  induction 1 as [|x r Hx Hr IH]; [reflexivity|].
  unfold sh in *. cbn [map existsb]. rewrite IH.
  assert (E : (0 =? x + 1) = false) by lia. rewrite E. reflexivity.
Qed.

Lemma to_fq_from_ge v : forall i, Forall (fun x => i <= x) (to_fq_from i v).
Proof.
  induction v as [|x v IH]; intros i; cbn [to_fq_from]; [constructor|].
  assert (W : Forall (fun y => i <= y) (to_fq_from (i + 1) v)).
  { eapply Forall_impl; [|apply (IH (i + 1))]. intros a Ha. cbv beta in *. lia. }
  destruct (x =? 1); [constructor; [lia|exact W]|exact W].
Qed.

Lemma to_fq_nonneg v : Forall (fun x => 0 <= x) (to_fq v).
Proof. apply to_fq_from_ge. Qed.

Lemma to_sq_S X n :
  to_sq X (S n) =
  (if existsb (Z.eqb 0) X then 1 else 0)
    :: map (fun m => if existsb (Z.eqb (Z.of_nat m + 1)) X then 1 else 0) (seq 0 n).
Proof.
  unfold to_sq. cbn [seq map]. f_equal. rewrite <- seq_shift, map_map.
  apply map_ext. intros m. rewrite Nat2Z.inj_succ, <- Z.add_1_r. reflexivity.
Qed.

Lemma to_sq_to_fq v : Forall (fun x => x = 0 \/ x = 1) v -> to_sq (to_fq v) (length v) = v.
Proof.
  induction 1 as [|x v Hx Hv IH]; [reflexivity|].
  cbn [length]. rewrite to_sq_S. destruct Hx as [->| ->].
  - rewrite to_fq_cons0. rewrite existsb_sh_0 by apply to_fq_nonneg. f_equal.
    rewrite <- IH at 2. unfold to_sq. apply map_ext. intros m. rewrite existsb_sh. reflexivity.
  - rewrite to_fq_cons1. unfold c0s. cbn [existsb]. change (0 =? 0) with true. cbn [orb]. f_equal.
    rewrite <- IH at 2. unfold to_sq. apply map_ext. intros m.
    assert (E : (Z.of_nat m + 1 =? 0) = false) by lia. rewrite E. cbn [orb].
    rewrite existsb_sh. reflexivity.
Qed.

(* ---------------------------------------------------------------- chains under next_sq *)
Definition NS (a b : list Z) : Prop := next_sq a = b.

Lemma chain_map_inv {T S} (R : T -> T -> Prop) (R' : S -> S -> Prop) (g : T -> S) :
  forall l, chain R' (map g l) ->
  (forall x y, In x l -> In y l -> R' (g x) (g y) -> R x y) -> chain R l.
Proof.
  induction l as [|a l IH]; intros C H; [constructor|].
  destruct l as [|b l]; [constructor|].
  cbn [map] in C. inversion C as [| |x y l' Hxy Hc]; subst.
  constructor.
  - apply H; [left; reflexivity|right; left; reflexivity|exact Hxy].
  - apply IH; [exact Hc|]. intros x y Hx Hy. apply H; right; assumption.
Qed.

Lemma f_sector_nonempty d n : (n <= d)%nat -> f_sector d n <> [].
Proof.
  intros Hn E. destruct (fq_sector_hd d n Hn) as [l El].
  rewrite <- fq_sector_spec, E in El. discriminate.
Qed.

Lemma hd_map_ne {T S} (g : T -> S) (l : list T) d1 d2 : l <> [] -> hd d1 (map g l) = g (hd d2 l).
Proof. destruct l; [congruence|reflexivity]. Qed.

Lemma hd_In {T} (l : list T) d : l <> [] -> In (hd d l) l.
Proof. destruct l; [congruence|]. intros _. left. reflexivity. Qed.

Lemma sector_chain d n : chain NS (f_sector d n).
Proof.
  apply (chain_map_inv NS (step (Z.of_nat d)) to_fq).
  - rewrite fq_sector_spec. apply fq_sector_chain.
  - intros x y Hx Hy H. apply f_sector_valid in Hx. apply f_sector_valid in Hy.
    destruct Hx as [Lx _]. destruct Hy as [Ly [By _]].
    unfold NS, next_sq, next_fq. rewrite Lx. unfold step, nx in H. rewrite H.
    rewrite <- Ly. apply to_sq_to_fq. exact By.
Qed.

Lemma sector_link d n : (S n <= d)%nat ->
  NS (last (f_sector d n) []) (hd [] (f_sector d (S n))).
Proof.
  intros Hn.
  pose proof (f_sector_nonempty d n ltac:(lia)) as N1.
  pose proof (f_sector_nonempty d (S n) Hn) as N2.
  set (v := last (f_sector d n) []). set (w := hd [] (f_sector d (S n))).
  pose proof (f_sector_valid d n v (last_In _ [] N1)) as [Lv [_ Ov]].
  pose proof (f_sector_valid d (S n) w (hd_In _ [] N2)) as [Lw [Bw _]].
  assert (Ev : to_fq v = last (fq_sector d n) []).
  { rewrite <- fq_sector_spec. symmetry. apply last_map_ne. exact N1. }
  assert (Ew : to_fq w = fq_start (S n)).
  { destruct (fq_sector_hd d (S n) Hn) as [l El].
    pose proof (hd_map_ne to_fq (f_sector d (S n)) [] [] N2) as H.
    rewrite fq_sector_spec, El in H. cbn [hd] in H. symmetry. exact H. }
  assert (Nq : fq_sector d n <> []).
  { rewrite <- fq_sector_spec. intros E. apply map_eq_nil in E. contradiction. }
  pose proof (fq_sector_last d n Nq) as Hl. rewrite <- Ev in Hl. unfold nx in Hl.
  unfold NS, next_sq, next_fq. rewrite Lv, Hl.
  unfold ones in Ov. rewrite Ov. change (map Z.of_nat (seq 0 (S n))) with (fq_start (S n)).
  rewrite <- Ew, <- Lw. apply to_sq_to_fq. exact Bw.
Qed.

Lemma f_sector_0 d : f_sector d 0 = [repeat 0 d].
Proof.
  induction d as [|d IH]; [reflexivity|].
  cbn [f_sector app]. rewrite IH. reflexivity.
Qed.

Lemma basis_spec_chain d : forall c, (c <= d + 1)%nat -> chain NS (f_basis_spec d c).
Proof.
  induction c as [|c IH]; intros Hc; [constructor|].
  rewrite f_basis_spec_S. apply chain_app with (dflt := []).
  - apply IH. lia.
  - apply sector_chain.
  - intros H1 H2. destruct c as [|c']; [exfalso; apply H1; reflexivity|].
    rewrite f_basis_spec_S.
    rewrite last_app_ne by (apply f_sector_nonempty; lia).
    apply sector_link. lia.
Qed.

(* get_fock_space_basis(d, c) is the recursive specification, for every d and c <= d+1 *)
Theorem f_basis_is_spec d c : (c <= d + 1)%nat -> f_basis d (Z.of_nat c) = f_basis_spec d c.
Proof.
  intros Hc. unfold f_basis. rewrite f_cutoff_dim_length, Nat2Z.id.
  destruct c as [|c]; [reflexivity|].
  pose proof (basis_spec_chain d (S c) Hc) as C.
  assert (E : exists l, f_basis_spec d (S c) = repeat 0 d :: l).
  { unfold f_basis_spec. cbn [seq map concat]. rewrite f_sector_0. cbn [app]. eexists. reflexivity. }
  destruct E as [l E]. rewrite E in *. cbn [length]. apply iterate_chain. exact C.
Qed.
