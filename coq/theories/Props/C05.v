(* C05 — Passive-state probability interfaces agree with a unitary dilation.
   Only statements closed by [exact]; proofs live in C05/. *)
From Coq Require Import ZArith QArith List Permutation Ring NArith.
From PV Require Import Comb.FockModel C05.PassiveModel C05.BookProofs C05.RyserProofs C05.MixtureProofs
  C05.TierBProofs C05.RyserGeneral C05.RyserLink.
Import ListNotations.

(* ---- post-selection bookkeeping (state.py), for every number of modes and mode set ---- *)

(* active and post-selected modes partition [0, total) *)
Theorem C05_active_ps_partition : forall total ps,
  NoDup ps -> (forall p, In p ps -> (p < total)%nat) ->
  Permutation (active_modes total ps ++ ps) (seq 0 total).
Proof. exact active_ps_partition. Qed.
Print Assumptions C05_active_ps_partition.

(* state.py:d is the number of active modes *)
Theorem C05_active_count : forall total ps,
  NoDup ps -> (forall p, In p ps -> (p < total)%nat) ->
  length (active_modes total ps) = d_active total ps /\ (length ps <= total)%nat.
Proof. exact active_length. Qed.
Print Assumptions C05_active_count.

(* assembling full_occupation_number inverts deleting the post-selected coordinates *)
Theorem C05_assemble_then_delete : forall total dct occ,
  wf_dict total dct -> length occ = d_active total (ps_modes dct) ->
  length (full_occupation total dct occ) = total /\
  delete_coords (ps_modes dct) (full_occupation total dct occ) = occ /\
  map (fun p => nth p (full_occupation total dct occ) 0%Z) (ps_modes dct) = ps_photons dct.
Proof. exact assemble_then_delete. Qed.
Print Assumptions C05_assemble_then_delete.

Theorem C05_delete_then_assemble : forall total dct v,
  wf_dict total dct -> length v = total ->
  map (fun p => nth p v 0%Z) (ps_modes dct) = ps_photons dct ->
  full_occupation total dct (delete_coords (ps_modes dct) v) = v.
Proof. exact delete_then_assemble. Qed.
Print Assumptions C05_delete_then_assemble.

(* _set_postselection: modes given in the active numbering land on the original modes
   active[m]; the dictionary stays duplicate-free and in range; the cutoff drops by the
   post-selected photons *)
Theorem C05_set_postselection : forall total dct cutoff modes counts,
  wf_dict total dct -> NoDup modes -> length modes = length counts ->
  (forall m, In m modes -> (m < d_active total (ps_modes dct))%nat) ->
  let act := active_modes total (ps_modes dct) in
  let '(dct', cutoff') := set_postselection total dct cutoff modes counts in
  dct' = dct ++ combine (map (fun m => nth m act 0%nat) modes) counts /\
  wf_dict total dct' /\ cutoff' = (cutoff - sumZ counts)%Z.
Proof. exact set_postselection_spec. Qed.
Print Assumptions C05_set_postselection.

(* sampling.py:map_to_original_modes inverts the active numbering *)
Theorem C05_map_to_original_inverts_active : forall total ps m,
  NoDup ps -> (forall p, In p ps -> (p < total)%nat) -> (m < d_active total ps)%nat ->
  map_to_original [m] ps = [nth m (active_modes total ps) 0%nat].
Proof. exact map_to_original_inverts_active. Qed.
Print Assumptions C05_map_to_original_inverts_active.

(* fock_probabilities (repaired): the rows handed to the probability routine have one entry
   per mode of the transmission matrix, carry the post-selected photon numbers, and are
   aligned with the keys of fock_probabilities_map *)
Theorem C05_fock_probabilities_basis_arity : forall total dct cutoff,
  wf_dict total dct ->
  exists rows,
    fock_probabilities_rows total dct cutoff = Some rows /\
    map (delete_coords (ps_modes dct)) rows = table_keys total dct cutoff /\
    Forall (fun r => length r = total /\
                     map (fun p => nth p r 0%Z) (ps_modes dct) = ps_photons dct) rows /\
    rows = map (full_occupation total dct) (table_keys total dct cutoff).
Proof. exact fock_probabilities_basis_arity. Qed.
Print Assumptions C05_fock_probabilities_basis_arity.

(* the mechanism of the defect of the unrepaired tree, for every state: handing the ACTIVE
   number of modes to get_postselected_fock_basis yields rows that are too short whenever
   anything is post-selected *)
Theorem C05_basis_with_active_d_is_too_short : forall total cutoff pm pp rows,
  pm <> [] ->
  postselected_fock_basis (total - length pm) cutoff pm pp = Some rows ->
  Forall (fun r => (length r < total)%nat) rows.
Proof. exact postselected_basis_active_d_too_short. Qed.
Print Assumptions C05_basis_with_active_d_is_too_short.

(* ---- Ryser precomputation: the lowest-set-bit recurrence fills, for EVERY subset, the direct
   sum of the selected columns (any carrier, no algebraic law needed) ---- *)
Theorem C05_subset_row_sums : forall (A : Type) (a0 : A) (aadd : A -> A -> A) (M : list (list A)) (k : N),
  (N.to_nat k < 2 ^ length M)%nat ->
  nth (N.to_nat k) (subset_row_sums A a0 aadd M) [] = entry A a0 aadd M k 0.
Proof. exact subset_row_sums_spec. Qed.
Print Assumptions C05_subset_row_sums.

Theorem C05_subset_sum_is_sum_over_set_bits : forall (M : list (list Z)) p c r,
  (r < length M)%nat ->
  nth r (bits_sum Z 0%Z Z.add M (length M) p c) 0%Z = bit_total (nth r M []) p c.
Proof. exact bits_sum_is_sum_over_set_bits. Qed.
Print Assumptions C05_subset_sum_is_sum_over_set_bits.

(* Ryser's formula in finite-difference form (signed sum over all column subsets) equals the
   permanent by definition: every size, any commutative ring *)
Theorem C05_ryser_formula_is_permanent :
  forall (A : Type) (a0 a1 : A) (aadd amul asub : A -> A -> A) (aopp : A -> A),
  ring_theory a0 a1 aadd amul asub aopp (@eq A) ->
  forall n (M : list (list A)), length M = n -> Forall (fun r => length r = n) M ->
  FS A a0 a1 aadd amul asub n 0 M (repeat a0 n) = perm A a0 a1 aadd amul M.
Proof. exact ryser_formula_is_permanent. Qed.
Print Assumptions C05_ryser_formula_is_permanent.

(* the loop of probabilities.py -- sign(n - popcount) * product of the row sums read from the
   table of _precompute_subset_row_sums, subsets 1 .. 2^n - 1 -- equals the permanent by
   definition, for every square matrix with n >= 1 rows over any commutative ring *)
Theorem C05_ryser_is_permanent :
  forall (A : Type) (a0 a1 : A) (aadd amul asub : A -> A -> A) (aopp : A -> A),
  ring_theory a0 a1 aadd amul asub aopp (@eq A) ->
  forall M : list (list A), (1 <= length M)%nat -> Forall (fun r => length r = length M) M ->
  ryser_sum A a0 a1 aadd amul aopp M = perm A a0 a1 aadd amul M.
Proof. exact ryser_is_permanent. Qed.
Print Assumptions C05_ryser_is_permanent.

(* the open finding lives on complex transmission entries only: for a REAL transmission
   matrix (any Gram matrix, input, outcome) the coefficient-extraction formula as coded,
   B_m = G * outer(v, conj v), equals the repaired one, B_m = G * outer(conj v, v) *)
Theorem C05_ryser_coded_eq_repaired_on_real : forall N D d G Dg s t,
  real_matrix (firstn d N) ->
  ryser_coeff true N D d G Dg s t = ryser_coeff false N D d G Dg s t.
Proof. exact ryser_coded_eq_repaired_on_real. Qed.
Print Assumptions C05_ryser_coded_eq_repaired_on_real.

(* two photons, any number of detected + loss modes: the sum over ordered pairs of output
   rows of |perm|^2 is 2|x|^2|y|^2 + 2|<y,x>|^2; for the columns of an isometry scaled by D it
   is 2 D^4 (distinct input modes) resp. 4 D^4 (same input mode): with the 1/(s! t!) weights
   the outcomes carry total probability one *)
Theorem C05_two_photon_total : forall l : list (Zi * Zi),
  S2 amp2 l = (2 * S1 nx l * S1 ny l + 2 * zin2 (overlap_xy l))%Z.
Proof. exact two_photon_total. Qed.
Print Assumptions C05_two_photon_total.

Theorem C05_two_photon_total_isometry : forall (l : list (Zi * Zi)) (D : Z),
  S1 nx l = (D * D)%Z -> S1 ny l = (D * D)%Z -> overlap_xy l = zi0 ->
  S2 amp2 l = (2 * D ^ 4)%Z.
Proof. exact two_photon_total_isometry. Qed.
Print Assumptions C05_two_photon_total_isometry.

Theorem C05_two_photon_total_bunched : forall (l : list Zi) (D : Z),
  S1 nx (map (fun x => (x, x)) l) = (D * D)%Z ->
  S2 amp2 (map (fun x => (x, x)) l) = (4 * D ^ 4)%Z.
Proof. exact two_photon_total_bunched. Qed.
Print Assumptions C05_two_photon_total_bunched.

(* ---- uniform overlap, over any commutative ring: overlap one reproduces indistinguishable
   bosons, overlap zero classical particles.  The premise on Pcl / Pind says that a species
   with no particles leaves the vacuum with probability one (true of pind / pcl: permanent of
   the empty matrix). ---- *)
Theorem C05_overlap_one_is_indistinguishable :
  forall (A : Type) (a0 a1 : A) (aadd amul asub : A -> A -> A) (aopp : A -> A),
  ring_theory a0 a1 aadd amul asub aopp (@eq A) ->
  forall is0 : A -> bool, (forall a, is0 a = true -> a = a0) ->
  forall (Pind Pcl : list Z -> list Z -> A),
  (forall s t, length t = length s -> Pcl (zeros s) t = ind A a0 a1 (zl_eq t (zeros s))) ->
  forall s t, nonneg s -> nonneg t -> length t = length s ->
  mix_num A a0 a1 aadd amul asub is0 Pind Pcl a1 s t =
  amul (input_norm A a0 a1 aadd amul asub a1 s) (Pind s t).
Proof. exact overlap_one_is_indistinguishable. Qed.
Print Assumptions C05_overlap_one_is_indistinguishable.

Theorem C05_overlap_zero_is_classical :
  forall (A : Type) (a0 a1 : A) (aadd amul asub : A -> A -> A) (aopp : A -> A),
  ring_theory a0 a1 aadd amul asub aopp (@eq A) ->
  forall is0 : A -> bool, (forall a, is0 a = true -> a = a0) ->
  forall (Pind Pcl : list Z -> list Z -> A),
  (forall s t, length t = length s -> Pind (zeros s) t = ind A a0 a1 (zl_eq t (zeros s))) ->
  forall s t, nonneg s -> nonneg t -> length t = length s ->
  mix_num A a0 a1 aadd amul asub is0 Pind Pcl a0 s t =
  amul (input_norm A a0 a1 aadd amul asub a0 s) (Pcl s t).
Proof. exact overlap_zero_is_classical. Qed.
Print Assumptions C05_overlap_zero_is_classical.

(* ---- marginal = sum of the table: regrouping any finite table by a projection ---- *)
Theorem C05_marginal_is_sum_of_table :
  forall (A : Type) (a0 a1 : A) (aadd amul asub : A -> A -> A) (aopp : A -> A),
  ring_theory a0 a1 aadd amul asub aopp (@eq A) ->
  forall (X Y : Type) (eqb : Y -> Y -> bool), (forall a b, eqb a b = true <-> a = b) ->
  forall (proj : X -> Y) (f : X -> A) (ys : list Y) (l : list X),
  NoDup ys -> (forall x, In x l -> In (proj x) ys) ->
  asum A a0 aadd (map (fun y => asum A a0 aadd (map f (filter (fun x => eqb (proj x) y) l))) ys)
  = asum A a0 aadd (map f l).
Proof. exact regroup_by_projection. Qed.
Print Assumptions C05_marginal_is_sum_of_table.

(* ---- non-vacuity ---- *)
(* the ring hypotheses are satisfiable: the integers *)
Example C05_overlap_one_at_Z : forall (Pind Pcl : list Z -> list Z -> Z) s t, nonneg s ->
  mix_num Z 0%Z 1%Z Z.add Z.mul Z.sub (fun _ => false) Pind Pcl 1%Z s t =
  (input_norm Z 0%Z 1%Z Z.add Z.mul Z.sub 1%Z s * conv Z 0%Z Z.add Z.mul (fun _ => false) Pind Pcl s s t)%Z.
Proof.
  intros. apply (mix_num_overlap_one Z 0%Z 1%Z Z.add Z.mul Z.sub Z.opp Zth); auto. discriminate.
Qed.
(* Hong-Ou-Mandel on the rational beamsplitter (3/5, 4/5): P(1,1) = (9/25 - 16/25)^2 *)
Example C05_example_hom :
  pind [[(3, 0); (-4, 0)]; [(4, 0); (3, 0)]]%Z 5 0 [1; 1]%Z [1; 1]%Z = (49 # 625)%Q.
Proof. vm_compute. reflexivity. Qed.
(* classical particles on the same beamsplitter: 81/625 + 256/625 *)
Example C05_example_classical :
  pcl [[(3, 0); (-4, 0)]; [(4, 0); (3, 0)]]%Z 5 2 [1; 1]%Z [1; 1]%Z = (337 # 625)%Q.
Proof. vm_compute. reflexivity. Qed.
(* the premise of the two overlap theorems on the concrete reference: no particles in, vacuum out *)
Example C05_example_vacuum :
  Qeq_bool (pcl [[(3, 0); (-4, 0)]; [(4, 0); (3, 0)]]%Z 5 2 [0; 0]%Z [0; 0]%Z) 1 = true /\
  Qeq_bool (pcl [[(3, 0); (-4, 0)]; [(4, 0); (3, 0)]]%Z 5 2 [0; 0]%Z [1; 0]%Z) 0 = true /\
  Qeq_bool (pind [[(3, 0); (-4, 0)]; [(4, 0); (3, 0)]]%Z 5 0 [0; 0]%Z [0; 0]%Z) 1 = true /\
  Qeq_bool (pind [[(3, 0); (-4, 0)]; [(4, 0); (3, 0)]]%Z 5 0 [0; 0]%Z [0; 1]%Z) 0 = true.
Proof. vm_compute. repeat split; reflexivity. Qed.
(* the unrepaired call on the smallest lossy post-selected state (2 modes, mode 0
   post-selected to 1 photon, cutoff 3 -> 2): one row of length 1 for a 2-mode matrix *)
Example C05_example_unrepaired_call :
  postselected_fock_basis 1 2 [0%nat] [1%Z] = Some [[1%Z]].
Proof. reflexivity. Qed.
Example C05_example_map_to_original : map_to_original [0; 1; 2]%nat [3; 1]%nat = [0; 2; 4]%nat.
Proof. reflexivity. Qed.
