(* Proofs about the bosonic Fock basis enumeration and index functions. *)
From Coq Require Import ZArith List Bool Lia ZifyBool.
From Coq Require FinFun.
From Coq Require Import Sorted.
From PV Require Import Comb.FockModel Comb.Binom.
Import ListNotations.
Open Scope Z_scope.

(* ---------- generic list facts ---------- *)
Lemma sumZ_app l1 l2 : sumZ (l1 ++ l2) = sumZ l1 + sumZ l2.
Proof. unfold sumZ. induction l1; simpl; lia. Qed.

Lemma length_concat_map {A B} (f : A -> list B) l :
  length (concat (map f l)) = fold_right Nat.add 0%nat (map (fun a => length (f a)) l).
Proof. induction l; simpl; [reflexivity|]. rewrite app_length. lia. Qed.

Lemma map_concat_map {A B C} (g : B -> C) (f : A -> list B) l :
  map g (concat (map f l)) = concat (map (fun a => map g (f a)) l).
Proof. induction l; simpl; [reflexivity|]. rewrite map_app. now f_equal. Qed.

Lemma map_seq_shift_gen (K n : nat) : forall s,
  map (fun z => z + Z.of_nat K) (map Z.of_nat (seq s n)) = map Z.of_nat (seq (K + s) n).
Proof.
  induction n as [|n IH]; intros s; simpl; [reflexivity|].
  f_equal; [lia|]. rewrite IH. f_equal. f_equal. lia.
Qed.

Lemma map_seq_shift (K n : nat) :
  map (fun z => z + Z.of_nat K) (map Z.of_nat (seq 0 n)) = map Z.of_nat (seq K n).
Proof. rewrite map_seq_shift_gen. now rewrite Nat.add_0_r. Qed.

(* ---------- fock_index, recursive characterisation ---------- *)
Lemma index_fold t :
  fold_left index_step (rev t) (0, 0, 0) = (sumZ t, fock_index t, Z.of_nat (length t)).
Proof.
  induction t as [|x t IH].
  - reflexivity.
  - unfold fock_index. cbn [rev]. rewrite !fold_left_app. rewrite IH.
    cbn [fold_left index_step]. unfold fock_index in IH.
    destruct (fold_left index_step (rev t) (0,0,0)) as [[s a] i] eqn:E.
    inversion IH; subst. cbn [length sumZ fold_right].
    f_equal; [f_equal|]; unfold sumZ; lia.
Qed.

Lemma fock_index_cons x t :
  fock_index (x :: t) =
  fock_index t + comb (x + sumZ t + Z.of_nat (length t)) (Z.of_nat (length t) + 1).
Proof.
  unfold fock_index at 1. cbn [rev]. rewrite fold_left_app, index_fold.
  cbn [fold_left index_step]. f_equal. f_equal. lia.
Qed.

Lemma fock_index_nil : fock_index [] = 0.
Proof. reflexivity. Qed.

(* ---------- validity of listed vectors ---------- *)
Definition valid (d : nat) (n : Z) (v : list Z) : Prop :=
  length v = d /\ sumZ v = n /\ Forall (fun x => 0 <= x) v.

Lemma sector_valid d : forall n v, In v (sector d n) -> valid d (Z.of_nat n) v.
Proof.
  induction d as [|d IH]; intros n v Hin.
  - destruct n; simpl in Hin; [|contradiction].
    destruct Hin as [<-|[]]. repeat split. constructor.
  - cbn [sector] in Hin. apply in_concat in Hin. destruct Hin as [l [Hl Hv]].
    apply in_map_iff in Hl. destruct Hl as [m [<- Hm]].
    apply in_map_iff in Hv. destruct Hv as [t [<- Ht]].
    apply in_seq in Hm. destruct (IH _ _ Ht) as [H1 [H2 H3]].
    repeat split.
    + simpl. now rewrite H1.
    + unfold sumZ in *. simpl. lia.
    + constructor; [lia | exact H3].
Qed.

Lemma basis_S d c : basis d (S c) = basis d c ++ sector d c.
Proof.
  unfold basis. rewrite seq_S, map_app, concat_app. simpl. now rewrite app_nil_r.
Qed.

Lemma sector_S_basis d n :
  sector (S d) n = map (fun t => (Z.of_nat n - sumZ t) :: t) (basis d (S n)).
Proof.
  cbn [sector]. unfold basis. rewrite map_concat_map. f_equal.
  apply map_ext_in. intros m _. apply map_ext_in. intros t Ht.
  destruct (sector_valid _ _ _ Ht) as [_ [-> _]]. reflexivity.
Qed.

(* ---------- sizes ---------- *)
Lemma sector_0_length n : length (sector 0 n) = match n with O => 1%nat | _ => 0%nat end.
Proof. destruct n; reflexivity. Qed.

Lemma basis_0_length n : length (basis 0 (S n)) = 1%nat.
Proof.
  induction n as [|n IH]; [reflexivity|].
  rewrite basis_S, app_length, IH. simpl. reflexivity.
Qed.

Lemma sumnat_binom (f : nat -> nat) (g : nat -> Z) l :
  (forall m, In m l -> Z.of_nat (f m) = g m) ->
  Z.of_nat (fold_right Nat.add 0%nat (map f l)) = fold_right Z.add 0 (map g l).
Proof.
  induction l as [|a l IH]; intros H; simpl; [reflexivity|].
  rewrite Nat2Z.inj_add, H by (now left). rewrite IH; [reflexivity|].
  intros m Hm. apply H. now right.
Qed.

Lemma basis_length d : forall n, Z.of_nat (length (basis d (S n))) = binom (d + n) d.
Proof.
  induction d as [|d IH]; intros n.
  - rewrite basis_0_length, binom_n_0. reflexivity.
  - unfold basis. rewrite length_concat_map.
    rewrite (sumnat_binom _ (fun m => binom (d + m) d)).
    + rewrite binom_hockey. f_equal. lia.
    + intros m _. rewrite sector_S_basis, map_length. apply IH.
Qed.

Lemma basis_length_0 d : length (basis d 0) = 0%nat.
Proof. reflexivity. Qed.

Lemma sector_length d n : Z.of_nat (length (sector (S d) n)) = binom (d + n) d.
Proof. rewrite sector_S_basis, map_length. apply basis_length. Qed.

(* dimension formula of the code agrees with the enumeration
   (cutoff_fock_space_dim = comb(d+cutoff-1, d)) *)
Theorem cutoff_dim_length d c :
  (1 <= d)%nat -> cutoff_dim (Z.of_nat c) (Z.of_nat d) = Z.of_nat (length (basis d c)).
Proof.
  intros Hd. unfold cutoff_dim. destruct c as [|c].
  - rewrite basis_length_0, comb_spec. unfold binomZ.
    destruct (_ <? 0) eqn:?; [reflexivity|].
    destruct (Z.of_nat d <? 0) eqn:?; [lia|]. cbn [orb].
    apply binom_gt. lia.
  - rewrite basis_length.
    replace (Z.of_nat d + Z.of_nat (S c) - 1) with (Z.of_nat (d + c)) by lia.
    apply comb_nat.
Qed.

Theorem sym_card_length d n :
  sym_card (Z.of_nat (S d)) (Z.of_nat n) = Z.of_nat (length (sector (S d) n)).
Proof.
  unfold sym_card. rewrite sector_length.
  replace (Z.of_nat (S d) + Z.of_nat n - 1) with (Z.of_nat (d + n)) by lia.
  rewrite comb_nat. rewrite binom_sym by lia. f_equal. lia.
Qed.

(* ---------- the index of the i-th listed vector is i ---------- *)
Theorem index_enum d : forall c,
  map fock_index (basis d c) = map Z.of_nat (seq 0 (length (basis d c))).
Proof.
  induction d as [|d IH]; intros c.
  - induction c as [|c IHc]; [reflexivity|].
    rewrite basis_S, map_app, app_length, seq_app, map_app, IHc. f_equal.
    destruct c as [|c]; [reflexivity|].
    simpl. reflexivity.
  - induction c as [|c IHc]; [reflexivity|].
    rewrite basis_S, map_app, app_length, seq_app, map_app, IHc. f_equal.
    cbn [Nat.add].
    rewrite sector_S_basis, map_length, map_map.
    rewrite <- map_seq_shift, <- IH, map_map.
    apply map_ext_in. intros t Ht.
    rewrite fock_index_cons. f_equal.
    assert (Hlen : length t = d).
    { unfold basis in Ht. apply in_concat in Ht. destruct Ht as [l [Hl Ht]].
      apply in_map_iff in Hl. destruct Hl as [m [<- _]].
      now destruct (sector_valid _ _ _ Ht). }
    rewrite Hlen.
    replace (Z.of_nat c - sumZ t + sumZ t + Z.of_nat d) with (Z.of_nat (d + c)) by lia.
    replace (Z.of_nat d + 1) with (Z.of_nat (S d)) by lia.
    rewrite comb_nat.
    destruct c as [|c].
    + rewrite basis_length_0, Nat.add_0_r. apply binom_gt. lia.
    + rewrite basis_length. f_equal. lia.
Qed.

Corollary index_nth d c i :
  (i < length (basis d c))%nat -> fock_index (nth i (basis d c) []) = Z.of_nat i.
Proof.
  intros Hi.
  pose proof (index_enum d c) as H.
  apply (f_equal (fun l => nth i l 0)) in H.
  rewrite (nth_indep _ 0 (fock_index [])) in H by (now rewrite map_length).
  rewrite map_nth in H. rewrite H.
  rewrite (nth_indep _ 0 (Z.of_nat 0)) by (now rewrite map_length, seq_length).
  rewrite map_nth, seq_nth by assumption. reflexivity.
Qed.

Theorem basis_nodup d c : NoDup (basis d c).
Proof.
  apply (NoDup_map_inv fock_index). rewrite index_enum.
  apply FinFun.Injective_map_NoDup; [|apply seq_NoDup].
  intros x y. lia.
Qed.

(* ---------- completeness ---------- *)
Lemma in_basis_intro d c n v : (n < c)%nat -> In v (sector d n) -> In v (basis d c).
Proof.
  intros Hn Hv. unfold basis. apply in_concat. exists (sector d n). split; [|exact Hv].
  apply in_map. apply in_seq. lia.
Qed.

Lemma sector_complete d : forall n v, valid d (Z.of_nat n) v -> In v (sector d n).
Proof.
  induction d as [|d IH]; intros n v [Hlen [Hsum Hpos]].
  - destruct v; [|discriminate]. unfold sumZ in Hsum. simpl in Hsum.
    destruct n; [now left | lia].
  - destruct v as [|x t]; [discriminate|].
    inversion Hpos as [|? ? Hx Ht]; subst.
    unfold sumZ in Hsum. cbn [fold_right] in Hsum. fold (sumZ t) in Hsum.
    assert (Hst : 0 <= sumZ t).
    { clear -Ht. induction Ht; unfold sumZ in *; simpl; lia. }
    rewrite sector_S_basis. apply in_map_iff. exists t. split.
    + f_equal. lia.
    + apply (in_basis_intro d (S n) (Z.to_nat (sumZ t))); [lia|].
      apply IH. repeat split; [simpl in Hlen; lia | lia | exact Ht].
Qed.

Theorem basis_complete d c v :
  In v (basis d c) <->
  (length v = d /\ Forall (fun x => 0 <= x) v /\ sumZ v < Z.of_nat c).
Proof.
  split.
  - intros Hin. unfold basis in Hin. apply in_concat in Hin.
    destruct Hin as [l [Hl Hv]]. apply in_map_iff in Hl. destruct Hl as [n [<- Hn]].
    apply in_seq in Hn. destruct (sector_valid _ _ _ Hv) as [H1 [H2 H3]].
    repeat split; [exact H1 | exact H3 | lia].
  - intros [Hlen [Hpos Hsum]].
    assert (Hst : 0 <= sumZ v).
    { clear -Hpos. induction Hpos; unfold sumZ in *; simpl; lia. }
    apply (in_basis_intro d c (Z.to_nat (sumZ v))); [lia|].
    apply sector_complete. repeat split; [exact Hlen | lia | exact Hpos].
Qed.

(* the other direction of "mutually inverse": basis[index v] = v *)
Theorem nth_index d c v :
  length v = d -> Forall (fun x => 0 <= x) v -> sumZ v < Z.of_nat c ->
  nth (Z.to_nat (fock_index v)) (basis d c) [] = v.
Proof.
  intros H1 H2 H3.
  assert (Hin : In v (basis d c)) by (apply basis_complete; auto).
  destruct (In_nth _ _ [] Hin) as [i [Hi Hnth]].
  rewrite <- Hnth at 1. rewrite index_nth by exact Hi. now rewrite Nat2Z.id.
Qed.

(* index = offset of the sector + sub-space index *)
Theorem fock_index_split x t :
  fock_index (x :: t) =
  cutoff_dim (x + sumZ t) (Z.of_nat (S (length t))) + fock_subspace_index (x :: t).
Proof.
  unfold fock_subspace_index. cbn [tl]. rewrite fock_index_cons. unfold cutoff_dim.
  rewrite Z.add_comm. f_equal. f_equal; lia.
Qed.

(* ---------- the vectorised index (int32 accumulators, int64 arr_comb) ---------- *)
Lemma comb_nonneg n k : 0 <= comb n k.
Proof.
  rewrite comb_spec. unfold binomZ. destruct (_ || _); [lia | apply binom_nonneg].
Qed.

Lemma fock_index_nonneg t : 0 <= fock_index t.
Proof.
  induction t as [|x t IH]; [reflexivity|].
  rewrite fock_index_cons. pose proof (comb_nonneg (x + sumZ t + Z.of_nat (length t))
    (Z.of_nat (length t) + 1)). lia.
Qed.

Lemma sumZ_nonneg t : Forall (fun x => 0 <= x) t -> 0 <= sumZ t.
Proof. intros H. induction H; unfold sumZ in *; simpl; lia. Qed.

Lemma index_arr_fold t :
  Forall (fun x => 0 <= x) t -> sumZ t < 2^31 -> fock_index t < 2^31 ->
  Z.of_nat (length t) < 2^31 ->
  fold_left index_step_arr (rev t) (Some (0, 0, 0)) =
  Some (sumZ t, fock_index t, Z.of_nat (length t)).
Proof.
  induction t as [|x t IH]; intros Hpos Hsum Hidx Hlen; [reflexivity|].
  inversion Hpos as [|? ? Hx Ht]; subst.
  pose proof (sumZ_nonneg t Ht) as Hst.
  pose proof (fock_index_nonneg t) as Hit.
  assert (Hs : sumZ (x :: t) = x + sumZ t) by reflexivity.
  rewrite fock_index_cons in Hidx.
  set (c := comb (x + sumZ t + Z.of_nat (length t)) (Z.of_nat (length t) + 1)) in *.
  pose proof (comb_nonneg (x + sumZ t + Z.of_nat (length t)) (Z.of_nat (length t) + 1)) as Hc.
  fold c in Hc.
  cbn [rev]. rewrite fold_left_app, IH; [| exact Ht | lia | lia | cbn [length] in Hlen; lia].
  cbn [fold_left index_step_arr].
  assert (E1 : int32_ok (sumZ t + x) = true) by (unfold int32_ok; lia).
  rewrite E1. cbn [negb].
  replace (sumZ t + x + Z.of_nat (length t)) with (x + sumZ t + Z.of_nat (length t)) by lia.
  rewrite arr_comb_spec.
  - rewrite <- comb_spec. fold c.
    assert (E2 : int32_ok (fock_index t + c) = true) by (unfold int32_ok; lia).
    rewrite E2. rewrite fock_index_cons. fold c. cbn [length]. f_equal. f_equal; [f_equal|]; lia.
  - lia.
  - rewrite <- comb_spec. fold c. cbn [length] in Hlen. nia.
Qed.

Theorem fock_index_arr_spec v :
  Forall (fun x => 0 <= x) v -> sumZ v < 2^31 -> fock_index v < 2^31 ->
  Z.of_nat (length v) < 2^31 ->
  fock_index_arr v = Some (fock_index v).
Proof.
  intros. unfold fock_index_arr. now rewrite index_arr_fold.
Qed.

(* ---------- ordering: by total, then anti-lexicographic inside a sector ---------- *)
Fixpoint lex_gt (a b : list Z) : Prop :=
  match a, b with
  | x :: a', y :: b' => x > y \/ (x = y /\ lex_gt a' b')
  | _, _ => False
  end.

Definition before (a b : list Z) : Prop :=
  sumZ a < sumZ b \/ (sumZ a = sumZ b /\ lex_gt a b).

Lemma SS_app {A} (R : A -> A -> Prop) l1 l2 :
  StronglySorted R l1 -> StronglySorted R l2 ->
  (forall a b, In a l1 -> In b l2 -> R a b) -> StronglySorted R (l1 ++ l2).
Proof.
  intros H1 H2 H. induction H1 as [|a l Hl IHl Ha]; cbn [app]; [exact H2|].
  constructor.
  - apply IHl. intros x y Hx Hy. apply H; [now right | exact Hy].
  - apply Forall_app. split; [exact Ha|].
    rewrite Forall_forall. intros y Hy. apply H; [now left | exact Hy].
Qed.

Lemma SS_concat_seq {A} (R : A -> A -> Prop) (F : nat -> list A) : forall len s,
  (forall m, StronglySorted R (F m)) ->
  (forall m m' a b, (m < m')%nat -> In a (F m) -> In b (F m') -> R a b) ->
  StronglySorted R (concat (map F (seq s len))).
Proof.
  induction len as [|len IH]; intros s Hb Hc; cbn [seq map concat]; [constructor|].
  apply SS_app; [apply Hb | now apply IH |].
  intros a b Ha Hin. apply in_concat in Hin. destruct Hin as [l [Hl Hbl]].
  apply in_map_iff in Hl. destruct Hl as [m' [<- Hm']]. apply in_seq in Hm'.
  apply (Hc s m'); [lia | exact Ha | exact Hbl].
Qed.

Lemma SS_map_in {A B} (R : A -> A -> Prop) (R' : B -> B -> Prop) (f : A -> B) l :
  StronglySorted R l ->
  (forall a b, In a l -> In b l -> R a b -> R' (f a) (f b)) ->
  StronglySorted R' (map f l).
Proof.
  intros H. induction H as [|a l Hl IHl Ha]; intros Hf; cbn [map]; constructor.
  - apply IHl. intros x y Hx Hy. apply Hf; now right.
  - rewrite Forall_forall in *. intros y Hy. apply in_map_iff in Hy.
    destruct Hy as [x [<- Hx]]. apply Hf; [now left | now right | now apply Ha].
Qed.

Theorem sector_sorted d : forall n, StronglySorted lex_gt (sector d n).
Proof.
  induction d as [|d IH]; intros n.
  - destruct n; simpl; repeat constructor.
  - cbn [sector]. apply SS_concat_seq.
    + intros m. apply (SS_map_in lex_gt); [apply IH|].
      intros a b _ _ Hab. right. now split.
    + intros m m' a b Hlt Ha Hb.
      apply in_map_iff in Ha. destruct Ha as [ta [<- _]].
      apply in_map_iff in Hb. destruct Hb as [tb [<- _]].
      left. lia.
Qed.

Theorem basis_sorted d c : StronglySorted before (basis d c).
Proof.
  unfold basis. apply SS_concat_seq.
  - intros n. rewrite <- (map_id (sector d n)).
    apply (SS_map_in lex_gt); [apply sector_sorted|].
    intros a b Ha Hb Hab. right. split; [|exact Hab].
    destruct (sector_valid _ _ _ Ha) as [_ [-> _]].
    destruct (sector_valid _ _ _ Hb) as [_ [-> _]]. reflexivity.
  - intros m m' a b Hlt Ha Hb. left.
    destruct (sector_valid _ _ _ Ha) as [_ [-> _]].
    destruct (sector_valid _ _ _ Hb) as [_ [-> _]]. lia.
Qed.

(* ---------- non-vacuity ---------- *)
Example basis_3_4_size : length (basis 3 4) = 20%nat.
Proof. reflexivity. Qed.
Example basis_3_3 :
  basis 2 3 = [[0;0];[1;0];[0;1];[2;0];[1;1];[0;2]].
Proof. reflexivity. Qed.
Example index_0312 : fock_index [0;3;1;2] = 190.
Proof. reflexivity. Qed.
