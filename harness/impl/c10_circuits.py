"""C10: circuits described by JSON specs, built identically for the NumPy, TensorFlow and JAX
connectors.  A spec is
  {"d": 2, "cutoff": 4, "batch": null | [[prep...], [prep...]],
   "prep": [["number", [1, 0], 1.0], ...]         (superposition of number states, coefficient real)
   "gates": [[name, modes, {argname: ["p", k] | ["c", value]}], ...],
   "output": "probs" | "mean_photon" | "mean_position0" | "state_re_im"}
Parameters are referred to by index into the parameter vector `theta`.
"""
import piquasso as pq

GATES = {
    "Displacement": pq.Displacement,
    "Squeezing": pq.Squeezing,
    "Phaseshifter": pq.Phaseshifter,
    "Beamsplitter": pq.Beamsplitter,
    "Kerr": pq.Kerr,
    "CrossKerr": pq.CrossKerr,
    "CubicPhase": pq.CubicPhase,
    "Squeezing2": pq.Squeezing2,
    "Beamsplitter5050": pq.Beamsplitter5050,
}


def _args(argspec, theta):
    out = {}
    for name, (kind, val) in argspec.items():
        out[name] = theta[val] if kind == "p" else val
    return out


def _prep_program(d, prep):
    with pq.Program() as p:
        if not prep:
            pq.Q(all) | pq.Vacuum()
        for kind, occ, coef in prep:
            pq.Q(all) | pq.StateVector(tuple(occ)) * coef
    return p


def build(spec, theta, np_like=None):
    """Returns the pq.Program for the spec with the parameters theta (indexable)."""
    d = spec["d"]
    with pq.Program() as program:
        if spec.get("batch"):
            pq.Q(all) | pq.BatchPrepare([_prep_program(d, pr) for pr in spec["batch"]])
        else:
            if not spec.get("prep"):
                pq.Q(all) | pq.Vacuum()
            for kind, occ, coef in spec.get("prep", []):
                pq.Q(all) | pq.StateVector(tuple(occ)) * coef
        for name, modes, argspec in spec["gates"]:
            if name == "Interferometer":
                # the matrix is built from 2*k*k real parameters starting at argspec["start"]
                k = len(modes)
                s = argspec["start"][1]
                rows = []
                for a in range(k):
                    rows.append([np_like.complex128(theta[s + 2 * (a * k + b)]) * (1 + 0j)
                                 + np_like.complex128(theta[s + 2 * (a * k + b) + 1]) * 1j
                                 for b in range(k)])
                mat = np_like.stack([np_like.stack(r) for r in rows])
                pq.Q(*modes) | pq.Interferometer(mat)
            else:
                pq.Q(*modes) | GATES[name](**_args(argspec, theta))
    return program


def run(spec, theta, connector, np_like):
    """Execute and return the differentiable output as a flat array of the connector's type."""
    sim = pq.PureFockSimulator(d=spec["d"], config=pq.Config(cutoff=spec["cutoff"], validate=spec.get("validate", True)),
                               connector=connector)
    state = sim.execute(build(spec, theta, np_like)).state
    out = spec["output"]
    if out == "probs":
        res = state.fock_probabilities
    elif out == "mean_photon":
        res = state.mean_photon_number()
    elif out.startswith("mean_position"):
        res = state.mean_position(int(out[len("mean_position"):]))
    elif out == "state_re_im":
        sv = state.state_vector
        res = np_like.concatenate([np_like.real(sv).reshape(-1), np_like.imag(sv).reshape(-1)])
    else:
        raise ValueError(out)
    return np_like.reshape(res, (-1,))
