(* C14 — Gaussian states are hbar-invariant and representation-consistent.
   Only statements closed by [exact]; models in C14/ReprModel.v, proofs in C14/*Proofs.v.
   "Ring K" abbreviates: the operations of K form a commutative ring (Leibniz equality). *)
From Coq Require Import List Arith Permutation Reals ZArith QArith.
From PV Require Import C14.ReprModel C14.IndexProofs C14.ReprProofs C14.RealInst C14.SurdRun C14.ObsModel C14.ObsProofs.
Import ListNotations.
Close Scope R_scope.
Close Scope Q_scope.
Close Scope Z_scope.
Open Scope nat_scope.

Definition Ring {A} (K : ops A) : Prop :=
  Ring_theory.ring_theory (o0 K) (o1 K) (oadd K) (omul K) (osub K) (oopp K) eq.

(* 1. the two index vectors are inverse permutations of 0..2d-1, for every d *)
Theorem C14_xxpp_xpxp_inverse : forall d : nat,
  length (x2p_list d) = 2 * d /\ length (p2x_list d) = 2 * d /\
  Permutation (x2p_list d) (seq 0 (2 * d)) /\ Permutation (p2x_list d) (seq 0 (2 * d)) /\
  (forall k, k < 2 * d -> nth (nth k (x2p_list d) 0) (p2x_list d) 0 = k) /\
  (forall k, k < 2 * d -> nth (nth k (p2x_list d) 0) (x2p_list d) 0 = k).
Proof. exact xxpp_xpxp_inverse. Qed.
Print Assumptions C14_xxpp_xpxp_inverse.

(* 2. get (set sigma mu) = (sigma, mu): every ring, every d, every matrix/vector, hbar invertible *)
Theorem C14_set_get_cov : forall (A : Type) (K : ops A), Ring K ->
  forall hbar ihbar isq i4 : A, omul K ihbar hbar = o1 K -> omul K (r4 K) i4 = o1 K ->
  forall (d : nat) (mean : vec A) (cov : mat A) (i j : nat), i < 2 * d -> j < 2 * d ->
  xpxp_cov K hbar d (set_xpxp K ihbar i4 isq d mean cov) i j = cov i j.
Proof. exact set_get_cov. Qed.
Print Assumptions C14_set_get_cov.

Theorem C14_set_get_mean : forall (A : Type) (K : ops A), Ring K ->
  forall ihbar rt2 sh isq i4 : A, omul K isq (omul K rt2 sh) = o1 K ->
  forall (d : nat) (mean : vec A) (cov : mat A) (k : nat), k < 2 * d ->
  xpxp_mean K rt2 sh d (set_xpxp K ihbar i4 isq d mean cov) k = mean k.
Proof. exact set_get_mean. Qed.
Print Assumptions C14_set_get_mean.

Theorem C14_set_get_xxpp_cov : forall (A : Type) (K : ops A), Ring K ->
  forall hbar ihbar isq i4 : A, omul K ihbar hbar = o1 K -> omul K (r4 K) i4 = o1 K ->
  forall (d : nat) (mean : vec A) (cov : mat A) (i j : nat), i < 2 * d -> j < 2 * d ->
  xxpp_cov K hbar d (set_xxpp K ihbar i4 isq d mean cov) i j = cov i j.
Proof. exact set_get_xxpp_cov. Qed.
Print Assumptions C14_set_get_xxpp_cov.

Theorem C14_set_get_xxpp_mean : forall (A : Type) (K : ops A), Ring K ->
  forall ihbar rt2 sh isq i4 : A, omul K isq (omul K rt2 sh) = o1 K ->
  forall (d : nat) (mean : vec A) (cov : mat A) (k : nat), k < 2 * d ->
  xxpp_mean K rt2 sh d (set_xxpp K ihbar i4 isq d mean cov) k = mean k.
Proof. exact set_get_xxpp_mean. Qed.
Print Assumptions C14_set_get_xxpp_mean.

(* set (get (m, C, G)) = (m, C, G) *)
Theorem C14_get_set_C : forall (A : Type) (K : ops A), Ring K ->
  forall hbar ihbar i4 : A, omul K ihbar hbar = o1 K -> omul K (r4 K) i4 = o1 K ->
  forall (d : nat) (s : gstate A) (a b : nat), a < d -> b < d ->
  re (set_xpxp_cov_C K ihbar i4 d (xpxp_cov K hbar d s) a b) = re (gC s a b) /\
  im (set_xpxp_cov_C K ihbar i4 d (xpxp_cov K hbar d s) a b) = im (gC s a b).
Proof. exact get_set_C. Qed.
Print Assumptions C14_get_set_C.

Theorem C14_get_set_G : forall (A : Type) (K : ops A), Ring K ->
  forall hbar ihbar i4 : A, omul K ihbar hbar = o1 K -> omul K (r4 K) i4 = o1 K ->
  forall (d : nat) (s : gstate A) (a b : nat), a < d -> b < d ->
  re (set_xpxp_cov_G K ihbar i4 d (xpxp_cov K hbar d s) a b) = re (gG s a b) /\
  im (set_xpxp_cov_G K ihbar i4 d (xpxp_cov K hbar d s) a b) = im (gG s a b).
Proof. exact get_set_G. Qed.
Print Assumptions C14_get_set_G.

Theorem C14_get_set_m : forall (A : Type) (K : ops A), Ring K ->
  forall rt2 sh isq : A, omul K isq (omul K rt2 sh) = o1 K ->
  forall (d : nat) (s : gstate A) (k : nat), k < d ->
  re (set_xpxp_mean K isq (xpxp_mean K rt2 sh d s) k) = re (gm s k) /\
  im (set_xpxp_mean K isq (xpxp_mean K rt2 sh d s) k) = im (gm s k).
Proof. exact get_set_m. Qed.
Print Assumptions C14_get_set_m.

(* the same over the reals, for every hbar > 0 with the code's constants *)
Theorem C14_set_get_real : forall hbar : R, (0 < hbar)%R -> forall d (mean : vec R) (cov : mat R),
  (forall i j, i < 2 * d -> j < 2 * d ->
     xpxp_cov KR hbar d (set_xpxp KR (/ hbar)%R (/ 4)%R (/ sqrt (2 * hbar))%R d mean cov) i j = cov i j) /\
  (forall k, k < 2 * d ->
     xpxp_mean KR (sqrt 2)%R (sqrt hbar) d (set_xpxp KR (/ hbar)%R (/ 4)%R (/ sqrt (2 * hbar))%R d mean cov) k = mean k).
Proof. exact set_get_real. Qed.
Print Assumptions C14_set_get_real.

Theorem C14_get_set_real : forall hbar : R, (0 < hbar)%R -> forall d (s : gstate R),
  let s' := set_xpxp KR (/ hbar)%R (/ 4)%R (/ sqrt (2 * hbar))%R d
              (xpxp_mean KR (sqrt 2)%R (sqrt hbar) d s) (xpxp_cov KR hbar d s) in
  (forall k, k < d -> gm s' k = gm s k) /\
  (forall a b, a < d -> b < d -> gC s' a b = gC s a b /\ gG s' a b = gG s a b).
Proof. exact get_set_real. Qed.
Print Assumptions C14_get_set_real.

(* 3. scaling laws: means with sqrt(hbar), covariances and correlations with hbar;
   normalised moments are hbar-free *)
Theorem C14_mean_scales_with_sqrt_hbar : forall (A : Type) (K : ops A), Ring K ->
  forall (rt2 sh : A) (d : nat) (s : gstate A) (k : nat),
  xxpp_mean K rt2 sh d s k = omul K sh (xxpp_mean K rt2 (o1 K) d s k).
Proof. exact mean_scales_with_sqrt_hbar. Qed.
Print Assumptions C14_mean_scales_with_sqrt_hbar.

Theorem C14_cov_scales_with_hbar : forall (A : Type) (K : ops A), Ring K ->
  forall (hbar : A) (d : nat) (s : gstate A) (i j : nat),
  xxpp_cov K hbar d s i j = omul K hbar (xxpp_cov K (o1 K) d s i j).
Proof. exact cov_scales_with_hbar. Qed.
Print Assumptions C14_cov_scales_with_hbar.

Theorem C14_corr_scales_with_hbar : forall (A : Type) (K : ops A), Ring K ->
  forall (hbar rt2 sh : A) (d : nat) (s : gstate A) (i j : nat), omul K sh sh = hbar ->
  xxpp_corr K hbar rt2 sh d s i j = omul K hbar (xxpp_corr K (o1 K) rt2 (o1 K) d s i j).
Proof. exact corr_scales_with_hbar. Qed.
Print Assumptions C14_corr_scales_with_hbar.

Theorem C14_normalised_cov_hbar_free : forall (A : Type) (K : ops A), Ring K ->
  forall hbar ihbar : A, omul K ihbar hbar = o1 K ->
  forall (d : nat) (s : gstate A) (i j : nat),
  omul K (xpxp_cov K hbar d s i j) ihbar = xpxp_cov K (o1 K) d s i j.
Proof. exact normalised_cov_hbar_free. Qed.
Print Assumptions C14_normalised_cov_hbar_free.

Theorem C14_normalised_mean_hbar_free : forall (A : Type) (K : ops A), Ring K ->
  forall rt2 sh ish : A, omul K ish sh = o1 K ->
  forall (d : nat) (s : gstate A) (k : nat),
  omul K (xpxp_mean K rt2 sh d s k) ish = xpxp_mean K rt2 (o1 K) d s k.
Proof. exact normalised_mean_hbar_free. Qed.
Print Assumptions C14_normalised_mean_hbar_free.

Theorem C14_hbar_scaling_real : forall hbar : R, (0 < hbar)%R -> forall d (s : gstate R),
  (forall k, xpxp_mean KR (sqrt 2)%R (sqrt hbar) d s k = (sqrt hbar * xpxp_mean KR (sqrt 2)%R 1%R d s k)%R) /\
  (forall i j, xpxp_cov KR hbar d s i j = (hbar * xpxp_cov KR 1%R d s i j)%R) /\
  (forall k, (xpxp_mean KR (sqrt 2)%R (sqrt hbar) d s k * / sqrt hbar)%R = xpxp_mean KR (sqrt 2)%R 1%R d s k) /\
  (forall i j, (xpxp_cov KR hbar d s i j * / hbar)%R = xpxp_cov KR 1%R d s i j).
Proof. exact hbar_scaling_real. Qed.
Print Assumptions C14_hbar_scaling_real.

(* 4a. reduced commutes with every representation: every mode list without repetition, any order *)
Theorem C14_reduced_xxpp_mean : forall (A : Type) (K : ops A) (rt2 sh : A) (d n : nat) (md : nat -> nat),
  (forall a, a < n -> md a < d) ->
  forall (s : gstate A) (k : nat), k < 2 * n ->
  xxpp_mean K rt2 sh n (reduced md s) k = xxpp_mean K rt2 sh d s (sel_xxpp d n md k).
Proof. exact reduced_xxpp_mean. Qed.
Print Assumptions C14_reduced_xxpp_mean.

Theorem C14_reduced_xxpp_cov : forall (A : Type) (K : ops A) (hbar : A) (d n : nat) (md : nat -> nat),
  (forall a, a < n -> md a < d) -> (forall a b, a < n -> b < n -> md a = md b -> a = b) ->
  forall (s : gstate A) (i j : nat), i < 2 * n -> j < 2 * n ->
  xxpp_cov K hbar n (reduced md s) i j = xxpp_cov K hbar d s (sel_xxpp d n md i) (sel_xxpp d n md j).
Proof. exact reduced_xxpp_cov. Qed.
Print Assumptions C14_reduced_xxpp_cov.

Theorem C14_reduced_xpxp_mean : forall (A : Type) (K : ops A) (rt2 sh : A) (d n : nat) (md : nat -> nat),
  (forall a, a < n -> md a < d) ->
  forall (s : gstate A) (a e : nat), a < n -> e < 2 ->
  xpxp_mean K rt2 sh n (reduced md s) (2 * a + e) = xpxp_mean K rt2 sh d s (2 * md a + e).
Proof. exact reduced_xpxp_mean. Qed.
Print Assumptions C14_reduced_xpxp_mean.

Theorem C14_reduced_xpxp_cov : forall (A : Type) (K : ops A) (hbar : A) (d n : nat) (md : nat -> nat),
  (forall a, a < n -> md a < d) -> (forall a b, a < n -> b < n -> md a = md b -> a = b) ->
  forall (s : gstate A) (a e b f : nat), a < n -> e < 2 -> b < n -> f < 2 ->
  xpxp_cov K hbar n (reduced md s) (2 * a + e) (2 * b + f)
  = xpxp_cov K hbar d s (2 * md a + e) (2 * md b + f).
Proof. exact reduced_xpxp_cov. Qed.
Print Assumptions C14_reduced_xpxp_cov.

Theorem C14_reduced_complex_displacement : forall (A : Type) (K : ops A) (d n : nat) (md : nat -> nat),
  (forall a, a < n -> md a < d) ->
  forall (s : gstate A) (k : nat), k < 2 * n ->
  complex_displacement K n (reduced md s) k = complex_displacement K d s (sel_xxpp d n md k).
Proof. exact reduced_complex_displacement. Qed.
Print Assumptions C14_reduced_complex_displacement.

Theorem C14_reduced_complex_cov : forall (A : Type) (K : ops A) (d n : nat) (md : nat -> nat),
  (forall a, a < n -> md a < d) -> (forall a b, a < n -> b < n -> md a = md b -> a = b) ->
  forall (s : gstate A) (i j : nat), i < 2 * n -> j < 2 * n ->
  complex_cov K n (reduced md s) i j = complex_cov K d s (sel_xxpp d n md i) (sel_xxpp d n md j).
Proof. exact reduced_complex_cov. Qed.
Print Assumptions C14_reduced_complex_cov.

(* 4b. rotated: x -> c x + s p, p -> -s x + c p on the means; sigma -> R sigma R^T *)
Theorem C14_rotated_xxpp_mean_x : forall (A : Type) (K : ops A), Ring K ->
  forall (rt2 sh c sn : A) (d : nat) (s : gstate A) (a : nat), a < d ->
  xxpp_mean K rt2 sh d (rotated K c sn s) a =
  oadd K (omul K c (xxpp_mean K rt2 sh d s a)) (omul K sn (xxpp_mean K rt2 sh d s (d + a))).
Proof. exact rotated_xxpp_mean_x. Qed.
Print Assumptions C14_rotated_xxpp_mean_x.

Theorem C14_rotated_xxpp_mean_p : forall (A : Type) (K : ops A), Ring K ->
  forall (rt2 sh c sn : A) (d : nat) (s : gstate A) (a : nat), a < d ->
  xxpp_mean K rt2 sh d (rotated K c sn s) (d + a) =
  oadd K (omul K (oopp K sn) (xxpp_mean K rt2 sh d s a)) (omul K c (xxpp_mean K rt2 sh d s (d + a))).
Proof. exact rotated_xxpp_mean_p. Qed.
Print Assumptions C14_rotated_xxpp_mean_p.

Theorem C14_rotated_xxpp_cov : forall (A : Type) (K : ops A), Ring K ->
  forall hbar c sn : A, oadd K (omul K c c) (omul K sn sn) = o1 K ->
  forall (d : nat) (s : gstate A) (i j : nat), i < 2 * d -> j < 2 * d ->
  xxpp_cov K hbar d (rotated K c sn s) i j = rot_conj A K c sn d (xxpp_cov K hbar d s) i j.
Proof. exact rotated_xxpp_cov. Qed.
Print Assumptions C14_rotated_xxpp_cov.

Theorem C14_rotated_xpxp_cov : forall (A : Type) (K : ops A), Ring K ->
  forall hbar c sn : A, oadd K (omul K c c) (omul K sn sn) = o1 K ->
  forall (d : nat) (s : gstate A) (i j : nat), i < 2 * d -> j < 2 * d ->
  xpxp_cov K hbar d (rotated K c sn s) i j = rot_conj A K c sn d (xxpp_cov K hbar d s) (x2p d i) (x2p d j).
Proof. exact rotated_xpxp_cov. Qed.
Print Assumptions C14_rotated_xpxp_cov.

Theorem C14_rotated_xpxp_mean : forall (A : Type) (K : ops A), Ring K ->
  forall (rt2 sh c sn : A) (d : nat) (s : gstate A) (a : nat), a < d ->
  xpxp_mean K rt2 sh d (rotated K c sn s) (2 * a) =
    oadd K (omul K c (xpxp_mean K rt2 sh d s (2 * a))) (omul K sn (xpxp_mean K rt2 sh d s (2 * a + 1))) /\
  xpxp_mean K rt2 sh d (rotated K c sn s) (2 * a + 1) =
    oadd K (omul K (oopp K sn) (xpxp_mean K rt2 sh d s (2 * a))) (omul K c (xpxp_mean K rt2 sh d s (2 * a + 1))).
Proof. exact rotated_xpxp_mean. Qed.
Print Assumptions C14_rotated_xpxp_mean.

Theorem C14_rotated_complex_displacement : forall (A : Type) (K : ops A), Ring K ->
  forall (c sn : A) (d : nat) (s : gstate A) (a : nat), a < d ->
  complex_displacement K d (rotated K c sn s) a = cmul K (complex_displacement K d s a) (c, oopp K sn) /\
  complex_displacement K d (rotated K c sn s) (d + a) = cmul K (complex_displacement K d s (d + a)) (c, sn).
Proof. exact rotated_complex_displacement. Qed.
Print Assumptions C14_rotated_complex_displacement.

(* the complex representation is the W-transform of the xxpp representation
   (sigma_c = W sigma_xxpp W^dagger / hbar, sqrt(hbar) mu_c = W mu_xxpp), cross-multiplied *)
Theorem C14_complex_cov_is_W_conj : forall (A : Type) (K : ops A), Ring K ->
  forall (hbar : A) (d : nat) (s : gstate A) (i j : nat), i < 2 * d -> j < 2 * d ->
  cscale K (omul K (r2 K) hbar) (complex_cov K d s i j) = W_conj2 A K d (xxpp_cov K hbar d s) i j.
Proof. exact complex_cov_is_W_conj. Qed.
Print Assumptions C14_complex_cov_is_W_conj.

Theorem C14_complex_displacement_is_W : forall (A : Type) (K : ops A), Ring K ->
  forall (rt2 sh : A) (d : nat) (s : gstate A) (a : nat), a < d ->
  cscale K (omul K rt2 sh) (complex_displacement K d s a) =
    (xxpp_mean K rt2 sh d s a, xxpp_mean K rt2 sh d s (d + a)) /\
  cscale K (omul K rt2 sh) (complex_displacement K d s (d + a)) =
    (xxpp_mean K rt2 sh d s a, oopp K (xxpp_mean K rt2 sh d s (d + a))).
Proof. exact complex_displacement_is_W. Qed.
Print Assumptions C14_complex_displacement_is_W.

(* 5. observables as functions of the normalised moments only *)
(* mean photon number: 4 n = tr(sigma/hbar) - 2d + 2 |mu/sqrt(hbar)|^2 *)
Theorem C14_mean_photon_number_from_normalised : forall (A : Type) (K : ops A), Ring K ->
  forall (rt2 : A) (d : nat) (s : gstate A), omul K rt2 rt2 = r2 K ->
  omul K (r4 K) (mean_photon_number K d s) =
  oadd K (sumn K (2 * d) (fun k => osub K (xxpp_cov K (o1 K) d s k k) (o1 K)))
    (omul K (r2 K) (sumn K (2 * d)
       (fun k => omul K (xxpp_mean K rt2 (o1 K) d s k) (xxpp_mean K rt2 (o1 K) d s k)))).
Proof. exact mean_photon_number_from_normalised. Qed.
Print Assumptions C14_mean_photon_number_from_normalised.

(* fidelity / threshold probability: same value at any two hbar, whatever the numerical kernel *)
Theorem C14_fidelity_same_at_any_two_hbar : forall (A : Type) (K : ops A), Ring K ->
  forall h ih sh ish h' ih' sh' ish' rt2 : A,
  omul K ih h = o1 K -> omul K ish sh = o1 K -> omul K ih' h' = o1 K -> omul K ish' sh' = o1 K ->
  forall (R : Type) (kernel : list (list A) -> list (list A) -> list A -> list A -> R) d s1 s2,
  fidelity_model K R kernel h ih rt2 sh ish d s1 s2 = fidelity_model K R kernel h' ih' rt2 sh' ish' d s1 s2.
Proof. exact fidelity_same_at_any_two_hbar. Qed.
Print Assumptions C14_fidelity_same_at_any_two_hbar.

Theorem C14_threshold_same_at_any_two_hbar : forall (A : Type) (K : ops A), Ring K ->
  forall h ih sh ish h' ih' sh' ish' rt2 : A,
  omul K ih h = o1 K -> omul K ish sh = o1 K -> omul K ih' h' = o1 K -> omul K ish' sh' = o1 K ->
  forall (R : Type) (kernel : list (list A) -> list A -> list nat -> R) d s occ,
  threshold_model K R kernel h ih rt2 sh ish d s occ = threshold_model K R kernel h' ih' rt2 sh' ish' d s occ.
Proof. exact threshold_same_at_any_two_hbar. Qed.
Print Assumptions C14_threshold_same_at_any_two_hbar.

(* purity: the determinant (Laplace expansion, every size) is homogeneous; with the repaired
   numerator hbar^d the squared purity is the same at any two hbar (cross-multiplied) *)
Theorem C14_det_homogeneous : forall (A : Type) (K : ops A), Ring K ->
  forall (n : nat) (k : A) (M : nat -> nat -> A),
  det K n (fun i j => omul K k (M i j)) = omul K (rpow K k n) (det K n M).
Proof. exact det_scale. Qed.
Print Assumptions C14_det_homogeneous.

Theorem C14_purity_hbar_free : forall (A : Type) (K : ops A), Ring K ->
  forall (h h' : A) (d : nat) (s : gstate A),
  omul K (purity_sq_num K h d) (purity_sq_den K h' d s) =
  omul K (purity_sq_num K h' d) (purity_sq_den K h d s).
Proof. exact purity_hbar_free. Qed.
Print Assumptions C14_purity_hbar_free.

(* the shipped numerator 2^d makes get_purity depend on hbar (one-mode vacuum, hbar 1 vs 2) *)
Theorem C14_shipped_purity_depends_on_hbar_refuted :
  exists (d : nat) (s : gstate Z) (h h' : Z),
    Z.mul (purity_sq_num_shipped KZ d) (purity_sq_den KZ h' d s) <>
    Z.mul (purity_sq_num_shipped KZ d) (purity_sq_den KZ h d s).
Proof. exact shipped_purity_depends_on_hbar_refuted. Qed.
Print Assumptions C14_shipped_purity_depends_on_hbar_refuted.

(* moments of a string of n quadratures scale with sqrt(hbar)^n *)
Theorem C14_xp_string_moment_scales : forall (A : Type) (K : ops A), Ring K ->
  forall (hbar rt2 sh i2 : A) (d : nat) (s : gstate A) (ops : list nat), omul K sh sh = hbar ->
  xp_string_moment K hbar rt2 sh i2 d s ops =
  cscale K (rpow K sh (length ops)) (xp_string_moment K (o1 K) rt2 (o1 K) i2 d s ops).
Proof. exact xp_string_moment_scales. Qed.
Print Assumptions C14_xp_string_moment_scales.

(* 6. observables computed from the ladder moments.  [prep K i4 hb ihb sh isq d nu N] is the state
   with normalised moments (nu, N) written under hbar = hb by the setters.  Its ladder moments do
   not depend on hbar, and density matrix / Fock probabilities, parity, phase-shifter value,
   photon-number variance are functions of the ladder moments whatever their kernels compute. *)
Theorem C14_ladder_from_normalised : forall (A : Type) (K : ops A), Ring K ->
  forall hbar ihbar rt2 sh isq irt2 i4 : A,
  omul K ihbar hbar = o1 K -> omul K isq (omul K rt2 sh) = o1 K -> omul K irt2 rt2 = o1 K ->
  forall d (mean nu : vec A) (cov N : mat A),
  (forall k, mean k = omul K sh (nu k)) -> (forall i j, cov i j = omul K hbar (N i j)) ->
  st_eq (set_xpxp K ihbar i4 isq d mean cov) (set_xpxp K (o1 K) i4 irt2 d nu N).
Proof. exact ladder_from_normalised. Qed.
Print Assumptions C14_ladder_from_normalised.

Theorem C14_same_ladder_moments_at_any_two_hbar : forall (A : Type) (K : ops A), Ring K ->
  forall h ih sh isq h' ih' sh' isq' rt2 irt2 i4 : A,
  omul K ih h = o1 K -> omul K isq (omul K rt2 sh) = o1 K ->
  omul K ih' h' = o1 K -> omul K isq' (omul K rt2 sh') = o1 K -> omul K irt2 rt2 = o1 K ->
  forall d nu N, st_eq (prep A K i4 h ih sh isq d nu N) (prep A K i4 h' ih' sh' isq' d nu N).
Proof. exact same_ladder_moments_at_any_two_hbar. Qed.
Print Assumptions C14_same_ladder_moments_at_any_two_hbar.

Theorem C14_ladder_observable_same_at_any_two_hbar : forall (A : Type) (K : ops A), Ring K ->
  forall h ih sh isq h' ih' sh' isq' rt2 irt2 i4 : A,
  omul K ih h = o1 K -> omul K isq (omul K rt2 sh) = o1 K ->
  omul K ih' h' = o1 K -> omul K isq' (omul K rt2 sh') = o1 K -> omul K irt2 rt2 = o1 K ->
  forall (R : Type) (F : gstate A -> R), (forall s s', st_eq s s' -> F s = F s') ->
  forall d nu N, F (prep A K i4 h ih sh isq d nu N) = F (prep A K i4 h' ih' sh' isq' d nu N).
Proof. exact ladder_observable_same_at_any_two_hbar. Qed.
Print Assumptions C14_ladder_observable_same_at_any_two_hbar.

Theorem C14_density_model_ext : forall (A : Type) (K : ops A) (R Occ : Type) kernel d s s' (occ : Occ),
  st_eq s s' -> density_model K R Occ kernel d s occ = density_model K R Occ kernel d s' occ.
Proof. exact density_model_ext. Qed.
Print Assumptions C14_density_model_ext.

Theorem C14_parity_model_ext : forall (A : Type) (K : ops A) (R : Type) kernel d s s',
  st_eq s s' -> parity_model K R kernel d s = parity_model K R kernel d s'.
Proof. exact parity_model_ext. Qed.
Print Assumptions C14_parity_model_ext.

Theorem C14_phaseshifter_model_ext : forall (A : Type) (K : ops A) (R : Type)
  (kernel : list (list (Cx A)) -> list (Cx A) -> list (Cx A) -> R) i2 d s s' z,
  st_eq s s' -> phaseshifter_model K kernel i2 d s z = phaseshifter_model K kernel i2 d s' z.
Proof. exact phaseshifter_model_ext. Qed.
Print Assumptions C14_phaseshifter_model_ext.

Theorem C14_variance_photon_number_ext : forall (A : Type) (K : ops A) d s s',
  st_eq s s' -> variance_photon_number K d s = variance_photon_number K d s'.
Proof. exact variance_photon_number_ext. Qed.
Print Assumptions C14_variance_photon_number_ext.

Theorem C14_density_same_at_any_two_hbar : forall (A : Type) (K : ops A), Ring K ->
  forall h ih sh isq h' ih' sh' isq' rt2 irt2 i4 : A,
  omul K ih h = o1 K -> omul K isq (omul K rt2 sh) = o1 K ->
  omul K ih' h' = o1 K -> omul K isq' (omul K rt2 sh') = o1 K -> omul K irt2 rt2 = o1 K ->
  forall (R Occ : Type) kernel d nu N (occ : Occ),
  density_model K R Occ kernel d (prep A K i4 h ih sh isq d nu N) occ
  = density_model K R Occ kernel d (prep A K i4 h' ih' sh' isq' d nu N) occ.
Proof. exact density_same_at_any_two_hbar. Qed.
Print Assumptions C14_density_same_at_any_two_hbar.

Theorem C14_parity_same_at_any_two_hbar : forall (A : Type) (K : ops A), Ring K ->
  forall h ih sh isq h' ih' sh' isq' rt2 irt2 i4 : A,
  omul K ih h = o1 K -> omul K isq (omul K rt2 sh) = o1 K ->
  omul K ih' h' = o1 K -> omul K isq' (omul K rt2 sh') = o1 K -> omul K irt2 rt2 = o1 K ->
  forall (R : Type) kernel d nu N,
  parity_model K R kernel d (prep A K i4 h ih sh isq d nu N)
  = parity_model K R kernel d (prep A K i4 h' ih' sh' isq' d nu N).
Proof. exact parity_same_at_any_two_hbar. Qed.
Print Assumptions C14_parity_same_at_any_two_hbar.

Theorem C14_phaseshifter_same_at_any_two_hbar : forall (A : Type) (K : ops A), Ring K ->
  forall h ih sh isq h' ih' sh' isq' rt2 irt2 i4 : A,
  omul K ih h = o1 K -> omul K isq (omul K rt2 sh) = o1 K ->
  omul K ih' h' = o1 K -> omul K isq' (omul K rt2 sh') = o1 K -> omul K irt2 rt2 = o1 K ->
  forall (R : Type) (kernel : list (list (Cx A)) -> list (Cx A) -> list (Cx A) -> R) i2 d nu N z,
  phaseshifter_model K kernel i2 d (prep A K i4 h ih sh isq d nu N) z
  = phaseshifter_model K kernel i2 d (prep A K i4 h' ih' sh' isq' d nu N) z.
Proof. exact phaseshifter_same_at_any_two_hbar. Qed.
Print Assumptions C14_phaseshifter_same_at_any_two_hbar.

Theorem C14_variance_same_at_any_two_hbar : forall (A : Type) (K : ops A), Ring K ->
  forall h ih sh isq h' ih' sh' isq' rt2 irt2 i4 : A,
  omul K ih h = o1 K -> omul K isq (omul K rt2 sh) = o1 K ->
  omul K ih' h' = o1 K -> omul K isq' (omul K rt2 sh') = o1 K -> omul K irt2 rt2 = o1 K ->
  forall d nu N,
  variance_photon_number K d (prep A K i4 h ih sh isq d nu N)
  = variance_photon_number K d (prep A K i4 h' ih' sh' isq' d nu N).
Proof. exact variance_same_at_any_two_hbar. Qed.
Print Assumptions C14_variance_same_at_any_two_hbar.

(* purify: the array handed to williamson is hbar-free, and the purification has the ladder
   moments of the one built at hbar = 1 whatever williamson / beta compute *)
Theorem C14_purify_williamson_arg_hbar_free : forall (A : Type) (K : ops A), Ring K ->
  forall hbar ihbar : A, omul K ihbar hbar = o1 K -> forall d s,
  purify_williamson_arg K hbar ihbar d s = purify_williamson_arg K (o1 K) (o1 K) d s.
Proof. exact purify_williamson_arg_hbar_free. Qed.
Print Assumptions C14_purify_williamson_arg_hbar_free.

Theorem C14_purify_hbar_free : forall (A : Type) (K : ops A), Ring K ->
  forall hbar ihbar rt2 sh isq irt2 i4 : A,
  omul K ihbar hbar = o1 K -> omul K isq (omul K rt2 sh) = o1 K -> omul K irt2 rt2 = o1 K ->
  forall (beta_kernel : list (list A) -> mat A) d s,
  st_eq (purify_model K beta_kernel hbar ihbar rt2 sh isq i4 d s)
        (purify_model K beta_kernel (o1 K) (o1 K) rt2 (o1 K) irt2 i4 d s).
Proof. exact purify_hbar_free. Qed.
Print Assumptions C14_purify_hbar_free.

(* ---- non-vacuity: the model computes, the hypotheses are satisfiable ---- *)
Example C14_indices_d3 : x2p_list 3 = [0; 3; 1; 4; 2; 5] /\ p2x_list 3 = [0; 2; 4; 1; 3; 5].
Proof. split; reflexivity. Qed.

(* the exact ring Q[sqrt2, sqrt hbar] used by the tie satisfies the constant hypotheses at hbar = 37/10 *)
Example C14_surd_constants :
  let hb := (37 # 10)%Q in let K := KS hb in
  omul K (c_ihbar hb) (c_hbar hb) = o1 K /\ omul K (c_isq hb) (omul K c_rt2 c_sh) = o1 K /\
  omul K (r4 K) c_i4 = o1 K /\ omul K c_rt2 c_rt2 = r2 K /\ omul K c_sh c_sh = c_hbar hb /\
  omul K (c_ish hb) c_sh = o1 K.
Proof. vm_compute. repeat split. Qed.

(* a round trip evaluated: one mode, hbar = 37/10, mean (1/2, 1/3), cov diag(37/5, 37/20) *)
Example C14_round_trip_runs :
  let hb := (37 # 10)%Q in
  let st := via_xpxp hb 1 [(1 # 2)%Q; (1 # 3)%Q] [[(37 # 5)%Q; 0%Q]; [0%Q; (37 # 20)%Q]] in
  out_vec 2 (xpxp_mean (KS hb) c_rt2 c_sh 1 st) = [1; 2; 0; 1; 0; 1; 0; 1;  1; 3; 0; 1; 0; 1; 0; 1]%Z /\
  out_mat 2 (xpxp_cov (KS hb) (c_hbar hb) 1 st)
    = [37; 5; 0; 1; 0; 1; 0; 1;  0; 1; 0; 1; 0; 1; 0; 1;  0; 1; 0; 1; 0; 1; 0; 1;  37; 20; 0; 1; 0; 1; 0; 1]%Z.
Proof. vm_compute. split; reflexivity. Qed.
