(* C07 — base algebra used by the generated gate blocks and by the moment model.
   Definitions only.  A base ring B is given by a record of operations; complex numbers over
   B are pairs (re, im).  Instances here: Q and the exact field Q(sqrt 2) with normalised rationals (to run);
   the instance R ("for all real parameters") is in GatesProofs.v. *)
From Coq Require Import List QArith.
Import ListNotations.

Record Ops (B : Type) := mkOps {
  o0 : B; o1 : B;
  oadd : B -> B -> B; omul : B -> B -> B; osub : B -> B -> B; oopp : B -> B }.
Arguments o0 {B}. Arguments o1 {B}. Arguments oadd {B}. Arguments omul {B}.
Arguments osub {B}. Arguments oopp {B}.

Definition Cx (B : Type) : Type := (B * B)%type.

Section Complex.
  Context {B : Type} (o : Ops B).
  Definition c0 : Cx B := (o0 o, o0 o).
  Definition c1 : Cx B := (o1 o, o0 o).
  Definition ci : Cx B := (o0 o, o1 o).
  Definition cadd (x y : Cx B) : Cx B := (oadd o (fst x) (fst y), oadd o (snd x) (snd y)).
  Definition csub (x y : Cx B) : Cx B := (osub o (fst x) (fst y), osub o (snd x) (snd y)).
  Definition copp (x : Cx B) : Cx B := (oopp o (fst x), oopp o (snd x)).
  Definition cmul (x y : Cx B) : Cx B :=
    (osub o (omul o (fst x) (fst y)) (omul o (snd x) (snd y)),
     oadd o (omul o (fst x) (snd y)) (omul o (snd x) (fst y))).
  Definition cconj (x : Cx B) : Cx B := (fst x, oopp o (snd x)).
  Definition creal (a : B) : Cx B := (a, o0 o).
  Fixpoint cnat (n : nat) : Cx B :=
    match n with O => c0 | S k => cadd (cnat k) c1 end.
End Complex.

(* e^{i phi} from the two symbols cos phi, sin phi *)
Definition cexpi {B : Type} (c s : B) : Cx B := (c, s).

(* operations of a commutative ring with involution, as a record (used by the moment model) *)
Record COps (A : Type) := mkCOps {
  z0 : A; z1 : A;
  zadd : A -> A -> A; zmul : A -> A -> A; zsub : A -> A -> A; zopp : A -> A;
  zconj : A -> A }.
Arguments z0 {A}. Arguments z1 {A}. Arguments zadd {A}. Arguments zmul {A}.
Arguments zsub {A}. Arguments zopp {A}. Arguments zconj {A}.

Definition CxOps {B} (o : Ops B) : COps (Cx B) :=
  mkCOps (Cx B) (c0 o) (c1 o) (cadd o) (cmul o) (csub o) (copp o) (cconj o).

(* The symbols a gate block may mention.  cos_x/sin_x stand for cos/sin of the parameter x
   (np.cos(x), np.sin(x), np.exp(1j*x)), cosh_r/sinh_r for np.cosh(r)/np.sinh(r), p_s for the
   raw parameter s, half for 1/2, rt2i for 1/np.sqrt(2). *)
Record Env (B : Type) := mkEnv {
  cos_theta : B; sin_theta : B;
  cos_phi : B; sin_phi : B;
  cos_int_ : B; sin_int_ : B;
  cos_ext : B; sin_ext : B;
  cosh_r : B; sinh_r : B;
  p_s : B;
  half : B; rt2i : B }.
Arguments cos_theta {B}. Arguments sin_theta {B}. Arguments cos_phi {B}. Arguments sin_phi {B}.
Arguments cos_int_ {B}. Arguments sin_int_ {B}. Arguments cos_ext {B}. Arguments sin_ext {B}.
Arguments cosh_r {B}. Arguments sinh_r {B}. Arguments p_s {B}. Arguments half {B}.
Arguments rt2i {B}.

(* ---- instance: Q with reduced fractions (runs every gate except those mentioning 1/sqrt 2) *)
Definition q_add (x y : Q) : Q := Qred (x + y).
Definition q_sub (x y : Q) : Q := Qred (x - y).
Definition q_mul (x y : Q) : Q := Qred (x * y).
Definition q_opp (x : Q) : Q := Qred (- x).
Definition QOps : Ops Q := mkOps Q 0 1 q_add q_mul q_sub q_opp.

(* ---- instance: Q(sqrt 2) = { a + b sqrt 2 }, rationals kept reduced *)
Definition QS : Type := (Q * Q)%type.
Definition qs_add (x y : QS) : QS := (Qred (fst x + fst y), Qred (snd x + snd y)).
Definition qs_sub (x y : QS) : QS := (Qred (fst x - fst y), Qred (snd x - snd y)).
Definition qs_opp (x : QS) : QS := (Qred (- fst x), Qred (- snd x)).
Definition qs_mul (x y : QS) : QS :=
  (Qred (fst x * fst y + 2 * (snd x * snd y)), Qred (fst x * snd y + snd x * fst y)).
Definition QSOps : Ops QS := mkOps QS (0, 0) (1, 0) qs_add qs_mul qs_sub qs_opp.
Definition qs_of_Q (q : Q) : QS := (Qred q, 0).
Definition qs_half : QS := (1 # 2, 0).
Definition qs_rt2i : QS := (0, 1 # 2).
(* value of a + b sqrt 2 with sqrt 2 replaced by the rational approximation s *)
Definition qs_approx (s : Q) (x : QS) : Q := fst x + snd x * s.
