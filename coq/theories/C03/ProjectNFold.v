(* C03 - the chain rule for any number of measurements: from any reachable branch (any
   register, any scale), measuring pairwise disjoint mode lists L1, ..., Lk one after the
   other gives the same outcomes, vectors, scales (hence states), registers and weights as
   measuring L1 ++ ... ++ Lk at once.  Two steps from an arbitrary branch first, then
   induction over k. *)
From Coq Require Import ZArith QArith Qfield List Bool Arith Lia.
From PV Require Import C03.ExecModel C03.ExecProofs C03.ProjectModel C03.ProjectProofs.
Import ListNotations.
Open Scope nat_scope.

(* ------------------------------------------------------------------ registers *)
Lemma index_of_map_nth (reg X : list nat) p :
  NoDup reg -> Forall (fun i => i < length reg) X -> p < length reg ->
  index_of (nth p reg 0) (map (fun i => nth i reg 0) X) = index_of p X.
Proof.
  intros ND F Hp. induction X as [|a r IH]; simpl; auto.
  inversion F; subst.
  destruct (Nat.eqb_spec (nth a reg 0) (nth p reg 0)) as [E|E]; destruct (Nat.eqb_spec a p) as [E'|E']; auto.
  all: try (exfalso; apply E'; now apply (NoDup_nth_inj reg)).
  all: try (subst; congruence).
  all: try (f_equal; now apply IH).
Qed.

Lemma aux_lt M d : Forall (fun i => i < d) (aux M d).
Proof. apply Forall_forall. intros i Hi. apply aux_In in Hi. lia. Qed.

Lemma index_of_inj (reg : list nat) a b :
  In a reg -> In b reg -> index_of a reg = index_of b reg -> a = b.
Proof. intros Ha Hb E. rewrite <- (nth_index_of a reg Ha), <- (nth_index_of b reg Hb). now rewrite E. Qed.

(* the positions of L2 in the register left by the measurement of L1 are the positions of
   (positions of L2 in reg) inside the auxiliary positions *)
Lemma remap_after_delete reg L1 L2 :
  NoDup reg -> incl L1 reg -> incl L2 (filter (fun m => negb (memb m L1)) reg) ->
  remap_modes (delete_modes_from_active reg (remap_modes reg L1)) L2
  = remap_modes (aux (remap_modes reg L1) (length reg)) (remap_modes reg L2).
Proof.
  intros ND H1 H2. rewrite delete_is_select_aux by auto.
  set (X := aux (remap_modes reg L1) (length reg)).
  assert (FX : Forall (fun i => i < length reg) X) by apply aux_lt.
  clearbody X. unfold remap_modes.
  rewrite map_map. apply map_ext_in. intros l Hl.
  apply H2, filter_In in Hl. destruct Hl as [Hl _].
  rewrite <- (nth_index_of l reg Hl) at 1. unfold select.
  apply index_of_map_nth; auto. now apply index_of_lt.
Qed.

Lemma remap_incl_aux reg L1 L2 :
  incl L1 reg -> incl L2 (filter (fun m => negb (memb m L1)) reg) ->
  incl (remap_modes reg L2) (aux (remap_modes reg L1) (length reg)).
Proof.
  intros H1 H2 i Hi. unfold remap_modes in Hi. apply in_map_iff in Hi. destruct Hi as (l & <- & Hl).
  apply H2, filter_In in Hl. destruct Hl as [Hl Hn]. apply aux_In. split.
  - now apply index_of_lt.
  - intros Hin. unfold remap_modes in Hin. apply in_map_iff in Hin. destruct Hin as (l' & E & Hl').
    apply index_of_inj in E; auto. subst l'.
    apply negb_true_iff, memb_false_iff in Hn. contradiction.
Qed.

Lemma delete_length reg L :
  NoDup reg -> incl L reg ->
  length (delete_modes_from_active reg (remap_modes reg L)) = length (aux (remap_modes reg L) (length reg)).
Proof. intros ND H. rewrite delete_is_select_aux by auto. apply select_length. Qed.

Lemma incl_filter_incl (L reg : list nat) (f : nat -> bool) : incl L (filter f reg) -> incl L reg.
Proof. intros H x Hx. apply H, filter_In in Hx. tauto. Qed.

Section NFold.
  Variable A : Type.
  Variable nrm : A -> Q.
  Notation pstate := (pstate A).
  Notation pbranch := (pbranch A).
  Notation project := (project A).
  Notation weight := (weight A nrm).
  Notation outcomes := (outcomes A).
  Notation child := (child A nrm).
  Notation same_branch := (same_branch A).
  Notation positive := (positive A nrm).
  Notation measure := (measure A nrm).
  Notation measure_branch := (measure_branch A nrm).
  Notation measure_seq := (measure_seq A nrm).

  (* what every reachable branch satisfies *)
  Definition good (b : pbranch) : Prop :=
    NoDup (pb_reg A b) /\ positive (pb_phi A b) /\ (0 < pb_scale A b)%Q.

  Lemma Qpos_neq0 (x : Q) : (0 < x)%Q -> ~ (x == 0)%Q.
  Proof. intros H E. rewrite E in H. now apply Qlt_irrefl in H. Qed.

  Lemma good_child L b s :
    good b -> incl L (pb_reg A b) -> In s (outcomes (remap_modes (pb_reg A b) L) (pb_phi A b)) ->
    good (child L b s).
  Proof.
    intros (ND & P & C) Hin Hs. unfold good, ProjectProofs.child. simpl. repeat split.
    - rewrite delete_active_spec by auto. now apply NoDup_filter.
    - now apply positive_project.
    - assert (W : (0 < weight (project (length (pb_reg A b)) (remap_modes (pb_reg A b) L) s (pb_phi A b)))%Q).
      { apply weight_pos. now apply positive_project. now apply project_nonempty. }
      apply Qlt_shift_div_l.
      + rewrite <- (Qmult_0_l 0). apply Qmult_lt_compat_nonneg; split; auto; apply Qle_refl.
      + rewrite Qmult_0_l. assumption.
  Qed.

  (* ---- two steps from an arbitrary branch *)
  Lemma two_step_child b L1 L2 s1 s2 :
    good b -> incl L1 (pb_reg A b) ->
    incl L2 (filter (fun m => negb (memb m L1)) (pb_reg A b)) ->
    In s1 (outcomes (remap_modes (pb_reg A b) L1) (pb_phi A b)) ->
    In s2 (outcomes (remap_modes (aux (remap_modes (pb_reg A b) L1) (length (pb_reg A b))) (remap_modes (pb_reg A b) L2))
                    (project (length (pb_reg A b)) (remap_modes (pb_reg A b) L1) s1 (pb_phi A b))) ->
    same_branch (child L2 (child L1 b s1) s2) (child (L1 ++ L2) b (s1 ++ s2)).
  Proof.
    intros (ND & P & C) H1 H2 Hs1 Hs2.
    assert (HM2 : incl (remap_modes (pb_reg A b) L2)
                       (aux (remap_modes (pb_reg A b) L1) (length (pb_reg A b)))) by (now apply remap_incl_aux).
    assert (Hl : length s1 = length (remap_modes (pb_reg A b) L1)).
    { apply outcomes_In in Hs1. destruct Hs1 as (p & _ & <-). apply select_length. }
    assert (W1 : (0 < weight (project (length (pb_reg A b)) (remap_modes (pb_reg A b) L1) s1 (pb_phi A b)))%Q).
    { apply weight_pos. now apply positive_project. now apply project_nonempty. }
    assert (W12 : (0 < weight (project (length (aux (remap_modes (pb_reg A b) L1) (length (pb_reg A b))))
                                       (remap_modes (aux (remap_modes (pb_reg A b) L1) (length (pb_reg A b))) (remap_modes (pb_reg A b) L2))
                                       s2 (project (length (pb_reg A b)) (remap_modes (pb_reg A b) L1) s1 (pb_phi A b))))%Q).
    { apply weight_pos. apply positive_project. now apply positive_project. now apply project_nonempty. }
    assert (EM : remap_modes (pb_reg A b) (L1 ++ L2) = remap_modes (pb_reg A b) L1 ++ remap_modes (pb_reg A b) L2)
      by (unfold remap_modes; apply map_app).
    assert (ER : delete_modes_from_active (delete_modes_from_active (pb_reg A b) (remap_modes (pb_reg A b) L1))
                   (remap_modes (delete_modes_from_active (pb_reg A b) (remap_modes (pb_reg A b) L1)) L2)
                 = delete_modes_from_active (pb_reg A b) (remap_modes (pb_reg A b) (L1 ++ L2))).
    { rewrite (delete_active_spec (pb_reg A b) (L1 ++ L2)).
      - rewrite delete_active_spec.
        + rewrite delete_active_spec by auto. rewrite filter_filter.
          apply filter_ext. intros m. now rewrite memb_app, negb_orb.
        + rewrite delete_active_spec by auto. exact H2.
      - apply incl_app; auto. now apply incl_filter_incl in H2. }
    unfold ProjectProofs.same_branch, ProjectProofs.child. cbn [pb_out pb_phi pb_freq pb_reg pb_scale].
    rewrite ER.
    rewrite (remap_after_delete (pb_reg A b) L1 L2) by auto.
    rewrite (delete_length (pb_reg A b) L1) by auto.
    rewrite EM. rewrite <- (project_project A (length (pb_reg A b)) (remap_modes (pb_reg A b) L1) (remap_modes (pb_reg A b) L2) s1 s2 (pb_phi A b)) by auto.
    set (w1 := weight (project (length (pb_reg A b)) (remap_modes (pb_reg A b) L1) s1 (pb_phi A b))) in *.
    set (w12 := weight (project (length (aux (remap_modes (pb_reg A b) L1) (length (pb_reg A b))))
                                (remap_modes (aux (remap_modes (pb_reg A b) L1) (length (pb_reg A b))) (remap_modes (pb_reg A b) L2))
                                s2 (project (length (pb_reg A b)) (remap_modes (pb_reg A b) L1) s1 (pb_phi A b)))) in *.
    pose proof (Qpos_neq0 _ W1) as N1. pose proof (Qpos_neq0 _ W12) as N12. pose proof (Qpos_neq0 _ C) as NC.
    split; [now rewrite app_assoc|]. split; [reflexivity|]. split; [|split].
    - field. auto.
    - reflexivity.
    - field. auto.
  Qed.

  (* two lists of branches that agree up to == on weights and scales *)
  Definition equiv (l l' : list pbranch) : Prop :=
    (forall x, In x l -> exists x', In x' l' /\ same_branch x x') /\
    (forall x', In x' l' -> exists x, In x l /\ same_branch x x').

  Lemma same_branch_refl b : same_branch b b.
  Proof. unfold ProjectProofs.same_branch. repeat split; reflexivity. Qed.

  Lemma same_branch_trans a b c : same_branch a b -> same_branch b c -> same_branch a c.
  Proof.
    unfold ProjectProofs.same_branch. intros (A1 & A2 & A3 & A4 & A5) (B1 & B2 & B3 & B4 & B5).
    repeat split; try congruence; eapply Qeq_trans; eauto.
  Qed.

  Lemma equiv_refl l : equiv l l.
  Proof. split; intros x Hx; exists x; split; auto; apply same_branch_refl. Qed.

  Lemma equiv_trans a b c : equiv a b -> equiv b c -> equiv a c.
  Proof.
    intros [A1 A2] [B1 B2]. split.
    - intros x Hx. destruct (A1 x Hx) as (y & Hy & S1). destruct (B1 y Hy) as (z & Hz & S2).
      exists z. split; auto. eapply same_branch_trans; eauto.
    - intros z Hz. destruct (B2 z Hz) as (y & Hy & S2). destruct (A2 y Hy) as (x & Hx & S1).
      exists x. split; auto. eapply same_branch_trans; eauto.
  Qed.

  Theorem two_step_from_branch b L1 L2 :
    good b -> incl L1 (pb_reg A b) ->
    incl L2 (filter (fun m => negb (memb m L1)) (pb_reg A b)) ->
    equiv (measure L2 (measure_branch L1 b)) (measure_branch (L1 ++ L2) b).
  Proof.
    intros G H1 H2. pose proof G as (ND & P & C).
    assert (HM2 : incl (remap_modes (pb_reg A b) L2)
                       (aux (remap_modes (pb_reg A b) L1) (length (pb_reg A b)))) by (now apply remap_incl_aux).
    assert (EM : remap_modes (pb_reg A b) (L1 ++ L2) = remap_modes (pb_reg A b) L1 ++ remap_modes (pb_reg A b) L2)
      by (unfold remap_modes; apply map_app).
    split.
    - intros x Hx. unfold ProjectModel.measure in Hx. apply in_flat_map in Hx. destruct Hx as (b1 & Hb1 & Hx).
      apply measure_branch_In in Hb1. destruct Hb1 as (s1 & Hs1 & ->).
      apply measure_branch_In in Hx. destruct Hx as (s2 & Hs2 & ->).
      simpl in Hs2. rewrite (remap_after_delete _ L1 L2) in Hs2 by auto.
      exists (child (L1 ++ L2) b (s1 ++ s2)). split.
      + apply measure_branch_In. exists (s1 ++ s2). split; auto. rewrite EM.
        apply (outcomes_split A (length (pb_reg A b))); auto. exists s1, s2. auto.
      + now apply two_step_child.
    - intros x' Hx'. apply measure_branch_In in Hx'. destruct Hx' as (s & Hs & ->).
      rewrite EM in Hs. apply (outcomes_split A (length (pb_reg A b))) in Hs; auto.
      destruct Hs as (s1 & s2 & -> & Hs1 & Hs2).
      exists (child L2 (child L1 b s1) s2). split.
      + unfold ProjectModel.measure. apply in_flat_map. exists (child L1 b s1). split.
        * apply measure_branch_In. exists s1. auto.
        * apply measure_branch_In. exists s2. split; auto. simpl.
          rewrite (remap_after_delete _ L1 L2) by auto. exact Hs2.
      + now apply two_step_child.
  Qed.

  (* ---- measuring is a congruence for [equiv] *)
  Lemma child_congr L b b' s : same_branch b b' -> same_branch (child L b s) (child L b' s).
  Proof.
    unfold ProjectProofs.same_branch, ProjectProofs.child. intros (E1 & E2 & E3 & E4 & E5). simpl.
    rewrite E1, E2, E4. repeat split; auto.
    - now rewrite E3, E5.
    - now rewrite E5.
  Qed.

  Lemma measure_congr L l l' : equiv l l' -> equiv (measure L l) (measure L l').
  Proof.
    intros [H1 H2]. split.
    - intros x Hx. apply in_flat_map in Hx. destruct Hx as (b & Hb & Hx).
      destruct (H1 b Hb) as (b' & Hb' & S). apply measure_branch_In in Hx. destruct Hx as (s & Hs & ->).
      exists (child L b' s). split; [|now apply child_congr].
      apply in_flat_map. exists b'. split; auto. apply measure_branch_In. exists s. split; auto.
      destruct S as (_ & E2 & _ & E4 & _). now rewrite <- E2, <- E4.
    - intros x' Hx'. apply in_flat_map in Hx'. destruct Hx' as (b' & Hb' & Hx').
      destruct (H2 b' Hb') as (b & Hb & S). apply measure_branch_In in Hx'. destruct Hx' as (s & Hs & ->).
      exists (child L b s). split; [|now apply child_congr].
      apply in_flat_map. exists b. split; auto. apply measure_branch_In. exists s. split; auto.
      destruct S as (_ & E2 & _ & E4 & _). now rewrite E2, E4.
  Qed.

  Lemma measure_seq_congr Ls l l' : equiv l l' -> equiv (measure_seq Ls l) (measure_seq Ls l').
  Proof.
    revert l l'. induction Ls as [|L r IH]; intros l l' E; simpl; auto.
    apply IH. now apply measure_congr.
  Qed.

  (* ---- pairwise disjoint mode lists inside a register, in program order *)
  Fixpoint disjoint_in (reg : list nat) (Ls : list (list nat)) : Prop :=
    match Ls with
    | [] => True
    | L :: rest => incl L reg /\ disjoint_in (filter (fun m => negb (memb m L)) reg) rest
    end.

  Lemma measure_singleton L b : measure L [b] = measure_branch L b.
  Proof. unfold ProjectModel.measure. simpl. apply app_nil_r. Qed.

  (* DESIGN theorem 6 in full: k measurements one after the other = one joint measurement *)
  Theorem nfold_from_branch : forall n Ls b,
    length Ls <= n -> Ls <> [] -> good b -> disjoint_in (pb_reg A b) Ls ->
    equiv (measure_seq Ls [b]) (measure_seq [concat Ls] [b]).
  Proof.
    induction n as [|n IH]; intros Ls b Hn Hne G D.
    - destruct Ls; [congruence|simpl in Hn; lia].
    - destruct Ls as [|L1 [|L2 rest]]; [congruence| |].
      + cbn [concat]. rewrite app_nil_r. apply equiv_refl.
      + destruct D as (H1 & H2 & D3).
        change (measure_seq (L1 :: L2 :: rest) [b]) with (measure_seq rest (measure L2 (measure L1 [b]))).
        rewrite measure_singleton.
        apply equiv_trans with (measure_seq rest (measure_branch (L1 ++ L2) b)).
        * apply measure_seq_congr. now apply two_step_from_branch.
        * rewrite <- measure_singleton.
          change (measure_seq rest (measure (L1 ++ L2) [b])) with (measure_seq ((L1 ++ L2) :: rest) [b]).
          replace (concat (L1 :: L2 :: rest)) with (concat ((L1 ++ L2) :: rest)) by (simpl; now rewrite app_assoc).
          apply IH; auto.
          -- simpl in *. lia.
          -- discriminate.
          -- simpl. split.
             ++ apply incl_app; auto. now apply incl_filter_incl in H2.
             ++ rewrite filter_filter in D3.
                erewrite filter_ext; [exact D3|]. intros m. simpl. now rewrite memb_app, negb_orb.
  Qed.

  (* from the initial state of d modes: any state with non-zero listed amplitudes (normalised
     or not), any non-empty list of pairwise disjoint mode lists below d *)
  Theorem nfold_sequential_eq_joint d (psi : pstate) Ls :
    positive psi -> Ls <> [] -> disjoint_in (seq 0 d) Ls ->
    equiv (measure_seq Ls (pinitial A d psi)) (measure_seq [concat Ls] (pinitial A d psi)).
  Proof.
    intros P Hne D. apply (nfold_from_branch (length Ls)); auto.
    unfold good. simpl. repeat split; auto. apply seq_NoDup.
  Qed.
End NFold.
