(* C02 — chain-rule sampler = joint law (telescoping), every number of modes. *)
From Coq Require Import Reals Lra List Bool Arith Lia.
From PV Require Import Base.CasesLib C02.DistModel C02.DistProofs.
Import ListNotations.
Open Scope R_scope.

(* ---- chain-rule sampler *)
Section ChainLaw.
  Variable X : Type.
  Variable eqbX : X -> X -> bool.
  Hypothesis eqbX_spec : forall x y, eqbX x y = true <-> x = y.
  Variable outs : list X.
  Hypothesis outs_nodup : NoDup outs.
  Variable P : list X -> R.
  Hypothesis P_nonneg : forall s, 0 <= P s.
  (* the tables are consistent: summing out the last entry gives the shorter table *)
  Hypothesis P_consistent : forall s, rsum (map (fun x => P (s ++ [x])) outs) = P s.

  Definition eql (s : list X) : list X -> bool := fun s' => list_eqb eqbX s' s.

  Lemma eql_spec : forall s s', eql s s' = true <-> s' = s.
  Proof.
    unfold eql. intros s s'. revert s. induction s' as [|x s' IH]; intros [|y s]; simpl; split; intros H;
      auto; try discriminate.
    - apply andb_true_iff in H. destruct H as [H1 H2]. apply eqbX_spec in H1. apply IH in H2. congruence.
    - inversion H; subst. apply andb_true_iff. split; [apply eqbX_spec; auto | apply IH; auto].
  Qed.

  Lemma elem_le_sum : forall (g : X -> R) l x, (forall y, 0 <= g y) -> In x l -> g x <= rsum (map g l).
  Proof.
    induction l as [|y l IH]; intros x Hg HI; [contradiction|]. destruct HI as [E|I]; rewrite map_cons, rsum_cons.
    - subst. assert (0 <= rsum (map g l)).
      { clear -Hg. induction l as [|a l IHl]; [cbn; lra|]. rewrite map_cons, rsum_cons. specialize (Hg a). (nr; lra). }
      (nr; lra).
    - specialize (IH x Hg I). specialize (Hg y). (nr; lra).
  Qed.

  Lemma P_zero_ext : forall t q, Forall (fun x => In x outs) t -> P q = 0 -> P (q ++ t) = 0.
  Proof.
    induction t as [|x t IH]; intros q HF H0; [rewrite app_nil_r; auto|].
    inversion HF as [|? ? Hin HF']; subst.
    assert (P (q ++ [x]) = 0).
    { pose proof (elem_le_sum (fun y => P (q ++ [y])) outs x (fun y => P_nonneg _) Hin) as Hle.
      rewrite P_consistent, H0 in Hle. pose proof (P_nonneg (q ++ [x])). simpl in Hle. (nr; lra). }
    replace (q ++ x :: t) with ((q ++ [x]) ++ t) by (rewrite <- app_assoc; reflexivity).
    apply IH; auto.
  Qed.

  Lemma chain_support : forall m q s, firstn (length q) s <> q ->
    mass (chain (N:=RN) outs P m q) (eql s) = 0.
  Proof.
    induction m as [|m IH]; intros q s Hne.
    - simpl chain. rewrite mass_dret. destruct (eql s q) eqn:E; auto.
      apply eql_spec in E. subst. rewrite firstn_all in Hne. contradiction.
    - simpl chain. rewrite mass_dbind.
      assert (G : forall l : list (X * R), rsum (map (fun ap => snd ap * mass (chain (N:=RN) outs P m (q ++ [fst ap])) (eql s)) l) = 0).
      { induction l as [|[x p] l IHl]; [reflexivity|]. rewrite map_cons, rsum_cons.
        rewrite IHl. simpl fst. rewrite IH; [simpl; (nr; lra)|].
        intros Hf. apply Hne.
        rewrite <- (firstn_skipn (length (q ++ [x])) s), Hf, <- app_assoc.
        rewrite firstn_app, Nat.sub_diag, firstn_all. simpl. apply app_nil_r. }
      apply G.
  Qed.

  Lemma sum_single : forall (g : X -> R) l x0, NoDup l -> In x0 l ->
    (forall x, x <> x0 -> g x = 0) -> rsum (map g l) = g x0.
  Proof.
    induction l as [|y l IH]; intros x0 ND HI Hz; [contradiction|].
    inversion ND as [|? ? Hnin ND']; subst. rewrite map_cons, rsum_cons. destruct HI as [E|I].
    - subst. assert (rsum (map g l) = 0).
      { clear -Hnin Hz. induction l as [|z l IHl]; [reflexivity|]. rewrite map_cons, rsum_cons.
        rewrite IHl; [|intros HI; apply Hnin; right; auto].
        rewrite Hz; [(nr; lra)|]. intros ->. apply Hnin. left. auto. }
      (nr; lra).
    - rewrite (IH x0 ND' I Hz). rewrite Hz; [(nr; lra)|]. intros ->. contradiction.
  Qed.

  Theorem chain_rule_law : forall n pre t,
    length t = n -> Forall (fun x => In x outs) t -> P pre <> 0 ->
    mass (chain (N:=RN) outs P n pre) (eql (pre ++ t)) = P (pre ++ t) / P pre.
  Proof.
    induction n as [|n IH]; intros pre t HL HF Hp.
    - destruct t; try discriminate. simpl chain. rewrite mass_dret, app_nil_r.
      assert (E : eql pre pre = true) by (apply eql_spec; auto). rewrite E. (nr; field). auto.
    - destruct t as [|x0 t]; try discriminate. inversion HF as [|? ? Hin HF']; subst. simpl in HL. injection HL as HL'.
      simpl chain. rewrite mass_dbind.
      assert (Htot : total (N:=RN) (map (fun x => (x, P (pre ++ [x]))) outs) = P pre).
      { unfold total. rewrite map_map. simpl. apply P_consistent. }
      unfold choice. rewrite Htot, map_map, map_map. simpl fst. simpl snd.
      rewrite (sum_single _ outs x0 outs_nodup Hin).
      + replace (pre ++ x0 :: t) with ((pre ++ [x0]) ++ t) by (rewrite <- app_assoc; reflexivity).
        destruct (Req_dec (P (pre ++ [x0])) 0) as [Hz|Hnz].
        * rewrite Hz, (P_zero_ext t (pre ++ [x0]) HF' Hz). unfold Rdiv. (nr; lra).
        * rewrite (IH (pre ++ [x0]) t HL' HF' Hnz). (nr; field). auto.
      + intros x Hne. rewrite chain_support; [(nr; lra)|].
        rewrite app_length. simpl length. intros Hf.
        replace (pre ++ x0 :: t) with ((pre ++ [x0]) ++ t) in Hf by (rewrite <- app_assoc; reflexivity).
        rewrite firstn_app in Hf.
        replace (length pre + 1 - length (pre ++ [x0]))%nat with O in Hf by (rewrite app_length; simpl; lia).
        rewrite firstn_all2 in Hf by (rewrite app_length; simpl; lia).
        simpl in Hf. rewrite app_nil_r in Hf. apply app_inv_head in Hf. congruence.
  Qed.

  (* with P [] = 1 : the law of the sampler over n modes is the joint table P *)
  Corollary chain_rule_joint : forall t, Forall (fun x => In x outs) t -> P [] = 1 ->
    mass (chain (N:=RN) outs P (length t) []) (eql t) = P t.
  Proof.
    intros t HF H1. pose proof (chain_rule_law (length t) [] t eq_refl HF) as H.
    simpl app in H. rewrite H; [rewrite H1; (nr; field) | rewrite H1; (nr; lra)].
  Qed.
End ChainLaw.
