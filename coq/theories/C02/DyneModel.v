(* C02 — what gaussian/simulation_steps.py hands to rng.multivariate_normal.
   Definitions only.  Matrices are lists of rows over a number structure. *)
From Coq Require Import ZArith QArith List Bool Arith.
From PV Require Import C02.DistModel.
Import ListNotations.
Local Open Scope nat_scope.

(* gaussian/simulation_steps.py:_map_modes_to_xpxp_indices *)
Definition xpxp_indices (modes : list nat) : list nat :=
  flat_map (fun m => [2 * m; 2 * m + 1]) modes.

Section Dyne.
  Variable N : num.
  Notation "a +' b" := (nadd a b) (at level 50, left associativity).
  Notation "a *' b" := (nmul a b) (at level 40, left associativity).
  Notation "a -' b" := (nsub a b) (at level 50, left associativity).
  Notation "a /' b" := (ndiv a b) (at level 40, left associativity).

  Definition vec := list N.
  Definition mat := list (list N).
  Definition mget (M : mat) (i j : nat) : N := nth j (nth i M []) n0.
  Definition n2 : N := n1 +' n1.

  (* v[indices], M[np.ix_(indices, indices)] *)
  Definition sub_vec (idx : list nat) (v : vec) : vec := map (fun i => nth i v n0) idx.
  Definition sub_mat (idx : list nat) (M : mat) : mat :=
    map (fun i => map (fun j => mget M i j) idx) idx.

  (* scipy.linalg.block_diag of k copies of detection_covariance, entry (i, j) *)
  Definition block_diag_entry (sm : mat) (i j : nat) : N :=
    if Nat.eqb (i / 2) (j / 2) then mget sm (i mod 2) (j mod 2) else n0.
  Definition block_diag (sm : mat) (k : nat) : mat :=
    map (fun i => map (fun j => block_diag_entry sm i j) (seq 0 (2 * k))) (seq 0 (2 * k)).

  Definition mat_map2 (f : N -> N -> N) (A B : mat) : mat :=
    map (fun rows => map (fun ab => f (fst ab) (snd ab)) (combine (fst rows) (snd rows)))
        (combine A B).

  (* gaussian/simulation_steps.py:_get_generaldyne_samples — the (mean, cov) arguments.
     halved = true : the repaired code (fixes/C02-generaldyne-covariance.diff),
                     cov = (sigma[idx, idx] + hbar * block_diag(sigma_m)) / 2;
     halved = false: the code as found, cov = sigma[idx, idx] + hbar * block_diag(sigma_m),
                     twice the covariance of the outcome density. *)
  Definition dyne_mean_arg (mu : vec) (modes : list nat) : vec :=
    sub_vec (xpxp_indices modes) mu.
  Definition dyne_cov_arg (halved : bool) (hbar : N) (sigma sm : mat) (modes : list nat) : mat :=
    mat_map2 (fun s b => if halved then (s +' hbar *' b) /' n2 else s +' hbar *' b)
             (sub_mat (xpxp_indices modes) sigma)
             (block_diag sm (length modes)).

  (* number of columns of one sample *)
  Definition dyne_sample_entries (mu : vec) (modes : list nat) : nat :=
    length (dyne_mean_arg mu modes).

  (* HomodyneMeasurement: detection covariance diag(z^2, 1/z^2) (instructions/measurements.py)
     after the phase shift exp(-i phi) on the measured modes
     (gaussian/simulation_steps.py:homodyne_measurement), which in xpxp coordinates is the
     rotation x' = c x + s p, p' = -s x + c p on every measured mode (c = cos phi, s = sin phi) *)
  Definition homodyne_detection_cov (z : N) : mat :=
    [[z *' z; n0]; [n0; (n1 /' z) *' (n1 /' z)]].

  Definition rot_entry (c s : N) (modes : list nat) (i j : nat) : N :=
    if Nat.eqb i j then (if existsb (Nat.eqb (i / 2)) modes then c else n1)
    else if Nat.eqb (i / 2) (j / 2) && existsb (Nat.eqb (i / 2)) modes then
           (if Nat.eqb (i mod 2) 0 then s else n0 -' s)
         else n0.
  Definition rot_mat (c s : N) (modes : list nat) (dim : nat) : mat :=
    map (fun i => map (fun j => rot_entry c s modes i j) (seq 0 dim)) (seq 0 dim).

  Definition dot (a b : vec) : N := nsum (map (fun ab => fst ab *' snd ab) (combine a b)).
  Definition mat_vec (M : mat) (v : vec) : vec := map (fun r => dot r v) M.
  Definition col (M : mat) (j : nat) : vec := map (fun r => nth j r n0) M.
  Definition mat_mul (A B : mat) : mat :=
    map (fun r => map (fun j => dot r (col B j)) (seq 0 (length (hd [] B)))) A.
  Definition transpose (M : mat) : mat := map (fun j => col M j) (seq 0 (length (hd [] M))).

  Definition homodyne_mean_arg (c s : N) (mu : vec) (modes : list nat) : vec :=
    dyne_mean_arg (mat_vec (rot_mat c s modes (length mu)) mu) modes.
  Definition homodyne_cov_arg (halved : bool) (hbar c s z : N) (sigma : mat) (modes : list nat) : mat :=
    let R := rot_mat c s modes (length sigma) in
    dyne_cov_arg halved hbar (mat_mul (mat_mul R sigma) (transpose R)) (homodyne_detection_cov z) modes.
End Dyne.

Arguments mget {N}. Arguments sub_vec {N}. Arguments sub_mat {N}. Arguments block_diag {N}.
Arguments block_diag_entry {N}.
Arguments dyne_mean_arg {N}. Arguments dyne_cov_arg {N}. Arguments dyne_sample_entries {N}.
Arguments homodyne_mean_arg {N}. Arguments homodyne_cov_arg {N}. Arguments homodyne_detection_cov {N}.
Arguments mat_map2 {N}. Arguments n2 {N}.
