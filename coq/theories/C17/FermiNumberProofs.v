(* C17 - passive gates conserve the particle number: for every list of passive gates the final
   state vector of the model has zero amplitude outside the sector of the input's particle
   number (induction over the gate list via FermiSequenceProofs.gates_keep_clean). *)
From Coq Require Import ZArith List Bool Lia ZifyBool.
From PV Require Import Comb.FockModel Comb.Binom Comb.FermiModel Comb.FermiProofs
  C17.FermiRepModel C17.FermiWalkProofs C17.FermiParityProofs C17.FermiBasisProofs
  C17.FermiSequenceProofs.
Import ListNotations.
Open Scope Z_scope.

(* particle number of the basis vector at index i *)
Definition num (d : nat) (i : Z) : Z := sumZ (nth (Z.to_nat i) (f_basis_spec d (S d)) []).
Definition off_sector (d : nat) (N : Z) (i : Z) : Prop := num d i <> N.

Lemma num_f_index d v : length v = d -> bits v -> num d (f_index v) = sumZ v.
Proof. intros Hl Hb. unfold num. rewrite (proj2 (nth_f_index d v Hl Hb)). reflexivity. Qed.

Section Number.
Variable A : Type.
Variables (zero one : A) (add mul : A -> A -> A) (opp : A -> A).

Lemma passive_gate_ok_number d N modes U :
  NoDup modes -> Forall (fun q => 0 <= q < Z.of_nat d) modes -> (length modes <= d)%nat ->
  gate_ok A (off_sector d N) d (S d) (GPassive modes U).
Proof.
  intros Hnd Hrange Hk. cbn [gate_ok]. unfold interf_index_list.
  set (k := length modes) in *.
  change (f_basis k (Z.of_nat (S d)))
    with (sq_walk k (f_cutoff_dim (Z.of_nat k) (Z.of_nat (S d)))).
  change (f_basis (d - k) (Z.of_nat (S d)))
    with (sq_walk (d - k) (f_cutoff_dim (Z.of_nat (d - k)) (Z.of_nat (S d)))).
  rewrite !sq_walk_full by lia.
  apply Forall_forall. intros ind Hind. apply in_map_iff in Hind. destruct Hind as [n [<- Hn]].
  set (AUX := firstn (Z.to_nat (f_cutoff_dim (Z.of_nat (d - k)) (Z.of_nat (S d - n))))
                     (f_basis_spec (d - k) (S (d - k)))).
  set (nsub := firstn (Z.to_nat (f_cutoff_dim (Z.of_nat k) (Z.of_nat (S n)))
                       - Z.to_nat (f_cutoff_dim (Z.of_nat k) (Z.of_nat n)))
                      (skipn (Z.to_nat (f_cutoff_dim (Z.of_nat k) (Z.of_nat n)))
                             (f_basis_spec k (S k)))).
  set (F := fun col auxocc => f_index (full_occ d modes col auxocc)).
  change (map (fun col => map (fun auxocc => f_index (full_occ d modes col auxocc)) AUX) nsub)
    with (map (fun col => map (F col) AUX) nsub).
  intros a i Hi Ha H0 Hw indrow Hrow.
  rewrite map_length in Hi.
  assert (HaA : (a < length AUX)%nat).
  { destruct nsub as [|c0 rest]; [cbn [length] in Hi; lia|]. cbn [map hd] in Ha.
    rewrite map_length in Ha. exact Ha. }
  rewrite (nth_map' (fun col => map (F col) AUX) nsub [] []) in H0, Hw by exact Hi.
  rewrite (nth_map' (F (nth i nsub [])) AUX 0 []) in H0, Hw by exact HaA.
  apply in_map_iff in Hrow. destruct Hrow as [col [<- Hcol]].
  rewrite (nth_map' (F col) AUX 0 []) by exact HaA.
  set (aux := nth a AUX []) in *.
  assert (Baux : bits aux).
  { assert (Hin : In aux AUX) by (apply nth_In; exact HaA).
    apply in_firstn in Hin. apply basis_elem_valid in Hin. apply Hin. }
  destruct (nsub_sector k n (nth i nsub []) (nth_In _ _ Hi)) as [L1 [B1 S1]].
  destruct (nsub_sector k n col Hcol) as [L2 [B2 S2]].
  destruct (full_occ_valid d modes _ aux B1 Baux) as [Lv1 Bv1].
  destruct (full_occ_valid d modes _ aux B2 Baux) as [Lv2 Bv2].
  unfold F in *. split; [apply (nth_f_index d _ Lv2 Bv2)|].
  unfold off_sector in *. rewrite (num_f_index d _ Lv1 Bv1) in Hw. rewrite (num_f_index d _ Lv2 Bv2).
  assert (Hlen : length (scatter (repeat 0 d) (aux_modes d modes) aux) = d)
    by (rewrite scatter_length; apply repeat_length).
  unfold full_occ in *.
  rewrite scatter_sum in Hw; [|exact Hnd|rewrite Hlen; exact Hrange|exact L1].
  rewrite scatter_sum; [|exact Hnd|rewrite Hlen; exact Hrange|exact L2].
  rewrite S1 in Hw. rewrite S2. exact Hw.
Qed.

Definition passive_wf (d : nat) (g : gate A) : Prop :=
  match g with
  | GPassive modes U =>
      NoDup modes /\ Forall (fun q => 0 <= q < Z.of_nat d) modes /\ (length modes <= d)%nat
  | _ => False
  end.

Hypothesis mul_0_r : forall x, mul x zero = zero.
Hypothesis add_0_0 : add zero zero = zero.

Theorem passive_conserves_number d occ gs i :
  length occ = d -> bits occ -> Forall (passive_wf d) gs ->
  0 <= i -> num d i <> sumZ occ ->
  sget A zero (run_program A zero one add mul opp d (S d) occ gs) i = zero.
Proof.
  intros L B Hgs Hi Hw.
  apply (program_keeps_clean A zero one add mul opp mul_0_r add_0_0 (off_sector d (sumZ occ)));
    try assumption.
  - unfold off_sector. rewrite (num_f_index d occ L B). intros H. apply H. reflexivity.
  - eapply Forall_impl; [|exact Hgs]. intros g Hg.
    destruct g as [modes U|modes c s e ebar|modes e|modes c isn]; cbn [passive_wf] in Hg;
      try contradiction.
    destruct Hg as [H1 [H2 H3]]. apply passive_gate_ok_number; assumption.
Qed.

End Number.
