(* C17 - The fermionic simulators agree with each other and with exclusion.
   Only statements closed by [exact]; proofs live in C17/ (and Comb/FermiProofs.v). *)
From Coq Require Import ZArith List.
From PV Require Import Comb.FockModel Comb.FermiModel Comb.FermiProofs
  C17.FermiRepModel C17.FermiWalkProofs C17.FermiRepProofs C17.FermiParityProofs
  C17.FermiBasisProofs C17.FermiSequenceProofs C17.FermiNumberProofs.
From mathcomp Require ssralg seq.
From PV Require C17.FermiDetMC C17.FermiRepDetMC C17.FermiCompoundMC C17.FermiCompoundModelMC
  C17.FermiBlockNormMC C17.FermiNormStatement.
Import ListNotations.
Open Scope Z_scope.

(* the first-quantised walk of the code (arange(n), then next_first_quantized) lists the
   n-subsets of [0,d) in the order of the recursive specification, for every d and n *)
Theorem C17_walk_is_sector : forall d n, fq_walk (Z.of_nat d) n = map to_fq (f_sector d n).
Proof. exact fq_walk_f_sector. Qed.
Print Assumptions C17_walk_is_sector.

(* the code's full basis loop (zeros, then next_second_quantized, f_cutoff_dim times) is the
   recursive specification across sector boundaries, for every d and every cutoff c <= d+1 *)
Theorem C17_fermionic_basis_loop_is_spec : forall d c, (c <= d + 1)%nat ->
  f_basis d (Z.of_nat c) = f_basis_spec d c.
Proof. exact f_basis_is_spec. Qed.
Print Assumptions C17_fermionic_basis_loop_is_spec.

(* every strictly increasing index list sits at the position given by the rank formula *)
Theorem C17_rank_is_position : forall d n X, incr 0 X (Z.of_nat d) -> length X = n ->
  (Z.to_nat (f_subspace_index_fq X (Z.of_nat d)) < length (fq_sector d n))%nat /\
  nth (Z.to_nat (f_subspace_index_fq X (Z.of_nat d))) (fq_sector d n) [] = X.
Proof. exact valid_pos. Qed.
Print Assumptions C17_rank_is_position.

(* generic variant: entry (rank R, rank C) of sector n is the first-row Laplace minor,
   over any structure with 0 + x = x, 1 * x = x, x * 1 = x; all d = len U, cutoff, n < cutoff *)
Theorem C17_rep_is_laplace_minor :
  forall (A : Type) (zero one : A) (add mul : A -> A -> A) (opp : A -> A),
  (forall x, add zero x = x) -> (forall x, mul one x = x) -> (forall x, mul x one = x) ->
  forall (U : list (list A)) (cutoff n : nat), (n < cutoff)%nat ->
  forall R C, valid (length U) n R -> valid (length U) n C ->
  mget A zero (nth n (reps_generic A zero one add mul opp U cutoff) [])
       (rank (length U) R) (rank (length U) C)
  = lminor A zero one add mul opp (mget A zero U) R C.
Proof. exact reps_generic_minor. Qed.
Print Assumptions C17_rep_is_laplace_minor.

(* the generic and the numba variant are the same function (no algebraic law needed) *)
Theorem C17_variants_agree :
  forall (A : Type) (zero one : A) (add mul : A -> A -> A) (opp : A -> A) U cutoff,
  reps_numba A zero one add mul opp U cutoff = reps_generic A zero one add mul opp U cutoff.
Proof. exact variants_agree. Qed.
Print Assumptions C17_variants_agree.

(* the Laplace recursion is MathComp's determinant of the restricted matrix *)
Theorem C17_laplace_minor_is_det :
  forall (R : ssralg.GRing.ComRing.type) (n : nat) (Uf : Z -> Z -> ssralg.GRing.ComRing.sort R)
         (rs cs : list Z),
  seq.size rs = n -> seq.size cs = n ->
  FermiRepDetMC.mc_lminor Uf rs cs = FermiRepDetMC.det_restricted Uf n rs cs.
Proof. exact FermiRepDetMC.mc_lminor_det. Qed.
Print Assumptions C17_laplace_minor_is_det.

(* both code variants compute the compound matrix: rep_n[rank R, rank C] = det U[R, C] *)
Theorem C17_fermi_rep_is_minor :
  forall (R : ssralg.GRing.ComRing.type) (U : list (list (ssralg.GRing.ComRing.sort R))) cutoff n rs cs,
  (n < cutoff)%nat -> valid (length U) n rs -> valid (length U) n cs ->
  FermiRepDetMC.mc_mget (nth n (FermiRepDetMC.mc_reps_generic U cutoff) [])
                        (rank (length U) rs) (rank (length U) cs)
  = FermiRepDetMC.det_restricted (FermiRepDetMC.mc_mget U) n rs cs.
Proof. exact FermiRepDetMC.fermi_rep_is_det. Qed.
Print Assumptions C17_fermi_rep_is_minor.

Theorem C17_fermi_rep_numba_is_minor :
  forall (R : ssralg.GRing.ComRing.type) (U : list (list (ssralg.GRing.ComRing.sort R))) cutoff n rs cs,
  (n < cutoff)%nat -> valid (length U) n rs -> valid (length U) n cs ->
  FermiRepDetMC.mc_mget (nth n (FermiRepDetMC.mc_reps_numba U cutoff) [])
                        (rank (length U) rs) (rank (length U) cs)
  = FermiRepDetMC.det_restricted (FermiRepDetMC.mc_mget U) n rs cs.
Proof. exact FermiRepDetMC.fermi_rep_numba_is_det. Qed.
Print Assumptions C17_fermi_rep_numba_is_minor.

(* Cauchy-Binet consequence (CoqEAL's BinetCauchy): the compound matrix of a unitary is unitary.
   For U with U * conj(U)^T = 1 (c = any ring involution/morphism playing the conjugation) and
   increasing index functions f, g : 'I_n -> 'I_d, the model's Laplace minors satisfy
   sum over increasing h of  lminor U f h * c (lminor U g h)  =  [f = g],  for all d and n *)
Theorem C17_compound_of_unitary_is_unitary :
  forall (R : ssralg.GRing.ComRing.type) (d n : nat) (c : FermiCompoundModelMC.conj_type R)
         (Uf : Z -> Z -> ssralg.GRing.ComRing.sort R),
  @FermiCompoundModelMC.is_unitary_fn R d c Uf ->
  @FermiCompoundModelMC.compound_rows_orthonormal R d n c Uf.
Proof. exact FermiCompoundModelMC.unitary_compound_unitary. Qed.
Print Assumptions C17_compound_of_unitary_is_unitary.

(* per sector block: for a unitary U the n-th compound block  y_f = sum_h lminor U f h * x_h
   (f, h increasing index functions 'I_n -> 'I_d) preserves  sum_f y_f * conj y_f,  for every
   amplitude function x, all d and n *)
Theorem C17_unitary_block_preserves_norm :
  forall (R : ssralg.GRing.ComRing.type) (d n : nat) (c : FermiCompoundModelMC.conj_type R)
         (Uf : Z -> Z -> ssralg.GRing.ComRing.sort R),
  @FermiCompoundModelMC.is_unitary_fn R d c Uf ->
  @FermiBlockNormMC.block_norm_preserved R d n c Uf.
Proof. exact FermiBlockNormMC.unitary_block_norm_preserved. Qed.
Print Assumptions C17_unitary_block_preserves_norm.

(* matrix form: M M^dagger = 1 implies sum (M x)_i conj (M x)_i = sum x_i conj x_i *)
Theorem C17_block_preserves_norm :
  forall (R : ssralg.GRing.ComRing.type) (c : FermiCompoundModelMC.conj_type R) (m : nat),
  @FermiBlockNormMC.block_norm_mx_preserved R c m.
Proof. exact FermiBlockNormMC.block_norm_mx. Qed.
Print Assumptions C17_block_preserves_norm.

(* NOT proved - full-strength statement kept as a Prop: one passive gate of the model with a
   unitary matrix preserves sum |amplitude|^2 (the lift of the block theorem through the
   gather/scatter of the index list) *)
Definition C17_passive_norm_preserved_statement : Prop :=
  forall (A : Type) (zero one : A) (add mul sub : A -> A -> A) (opp conj : A -> A),
  FermiNormStatement.passive_norm_preserved_statement A zero one add mul sub opp conj.

(* Ising-XX (entries j and 3-j of a table row) and two-mode squeezing (entries 0 and 3) connect
   vectors that agree outside the two gate modes and are complementary on them *)
Theorem C17_pairs_differ_in_two_modes : forall d a b aux j,
  a <> b -> (a < d)%nat -> (b < d)%nat -> (j < 4)%nat ->
  let v := row_vector d a b aux j in
  let w := row_vector d a b aux (3 - j) in
  (forall i, i <> a -> i <> b -> nth i v 0 = nth i w 0) /\
  nth a v 0 + nth a w 0 = 1 /\ nth b v 0 + nth b w 0 = 1 /\
  (sumZ v - sumZ w = -2 \/ sumZ v - sumZ w = 0 \/ sumZ v - sumZ w = 2).
Proof. exact pairs_differ_in_two_modes. Qed.
Print Assumptions C17_pairs_differ_in_two_modes.

Theorem C17_pairs_conserve_parity : forall d a b aux j,
  a <> b -> (a < d)%nat -> (b < d)%nat -> (j < 4)%nat ->
  (sumZ (row_vector d a b aux j)) mod 2 = (sumZ (row_vector d a b aux (3 - j))) mod 2.
Proof. exact pairs_conserve_parity. Qed.
Print Assumptions C17_pairs_conserve_parity.

(* the table rows of the model are the indices of these vectors *)
Theorem C17_ising_table_rows : forall d cutoff a b,
  ising_indices d cutoff [Z.of_nat a; Z.of_nat b] =
  map (fun aux => map (fun j => f_index (row_vector d a b aux j)) (seq 0 4))
      (sq_walk (d - 2) (f_cutoff_dim (Z.of_nat d - 2) cutoff)).
Proof. exact ising_indices_row. Qed.
Print Assumptions C17_ising_table_rows.

(* controlled phase multiplies amplitudes in place: it connects no two basis vectors *)
Theorem C17_cphase_diagonal : forall (A : Type) (zero : A) (mul : A -> A -> A)
  d cutoff modes e psi i, 0 <= i ->
  sget A zero (apply_cphase A zero mul d cutoff modes e psi) i = sget A zero psi i \/
  sget A zero (apply_cphase A zero mul d cutoff modes e psi) i = mul e (sget A zero psi i).
Proof. exact cphase_diagonal. Qed.
Print Assumptions C17_cphase_diagonal.

(* parity of the particle number is conserved by every gate sequence: for every occupation
   input on d modes and every list of well-formed gates (passive gates on distinct modes,
   two-mode squeezing / Ising-XX on two different modes, controlled phase; cutoff d+1), the
   final state vector of the model has no amplitude on a basis vector of the other parity
   (induction over the gate list; over any structure with x*0 = 0 and 0+0 = 0) *)
Theorem C17_parity_conserved :
  forall (A : Type) (zero one : A) (add mul : A -> A -> A) (opp : A -> A),
  (forall x, mul x zero = zero) -> add zero zero = zero ->
  forall d occ gs i, length occ = d -> bits occ -> Forall (gate_wf A d) gs ->
  0 <= i -> cls d i <> sumZ occ mod 2 ->
  sget A zero (run_program A zero one add mul opp d (S d) occ gs) i = zero.
Proof. exact parity_conserved. Qed.
Print Assumptions C17_parity_conserved.

(* passive gates conserve the particle number: for every occupation input and every list of
   passive gates (interferometers / beamsplitters / phase shifters on distinct modes below d,
   cutoff d+1) the final state vector has no amplitude outside the input's number sector *)
Theorem C17_passive_conserves_number :
  forall (A : Type) (zero one : A) (add mul : A -> A -> A) (opp : A -> A),
  (forall x, mul x zero = zero) -> add zero zero = zero ->
  forall d occ gs i, length occ = d -> bits occ -> Forall (passive_wf A d) gs ->
  0 <= i -> num d i <> sumZ occ ->
  sget A zero (run_program A zero one add mul opp d (S d) occ gs) i = zero.
Proof. exact passive_conserves_number. Qed.
Print Assumptions C17_passive_conserves_number.

(* the same invariant for any class of indices the gate tables respect *)
Theorem C17_gates_keep_class :
  forall (A : Type) (zero one : A) (add mul : A -> A -> A) (opp : A -> A),
  (forall x, mul x zero = zero) -> add zero zero = zero ->
  forall (bad : Z -> Prop) d cutoff gs psi,
  Forall (gate_ok A bad d cutoff) gs -> clean A zero bad psi ->
  clean A zero bad (fold_left (fun st g => apply_gate A zero one add mul opp d cutoff g st) gs psi).
Proof. exact gates_keep_clean. Qed.
Print Assumptions C17_gates_keep_class.

(* exclusion: the basis consists of exactly the 0/1 vectors (shared Comb/FermiProofs.v) *)
Theorem C17_occupations_are_bits : forall d c v,
  In v (f_basis_spec d c) <->
  (length v = d /\ Forall (fun x => x = 0 \/ x = 1) v /\ (ones v < c)%nat).
Proof. exact f_basis_spec_complete. Qed.
Print Assumptions C17_occupations_are_bits.

(* non-vacuity *)
Example C17_example_cphase : cphase_indices 3 4 [0; 2] = [5; 7].
Proof. vm_compute. reflexivity. Qed.
Example C17_example_minor :
  nth 2 (reps_generic Z 0 1 Z.add Z.mul Z.opp [[1; 2; 3]; [4; 5; 6]; [7; 8; 10]] 4) []
  = [[-3; -6; -3]; [-6; -11; -4]; [-3; -2; 2]].
Proof. vm_compute. reflexivity. Qed.
Example C17_example_parity_class : cls 3 5 = 0 /\ cls 3 2 = 1.
Proof. split; vm_compute; reflexivity. Qed.
Example C17_example_valid : valid 5 3 [0; 2; 4] /\ rank 5 [0; 2; 4] = 4.
Proof. repeat split; vm_compute; congruence. Qed.
