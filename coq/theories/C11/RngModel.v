(* C11 (a) — provenance model of every random draw of a piquasso process.
   Definitions only.

   A generator is (stream, position); a stream is named by the library that owns it and the
   seed it was created from; the position is the list of sampling requests already served
   (so that equal positions mean equal generator states).  The value of a draw is the
   symbolic term built from the generator it reads: two results are the same term exactly
   when they read the same generator states with the same request.

   Transcribed from /repo/piquasso/api/config.py (Config.__init__, seed_sequence setter,
   copy), api/simulator.py (Simulator.__init__, __repr__), api/result.py (Result.samples),
   _utils.py (sample_from_probability_map), _simulators/passive/sampling.py
   (_generate_samples) and _simulators/gaussian/simulation_steps.py
   (_get_particle_number_measurement_samples). *)
From Coq Require Import ZArith List Bool.
Import ListNotations.
Open Scope Z_scope.

(* a seed value: given by the user, or the k-th int.from_bytes(os.urandom(8)) of the process
   (plus an offset, for the per-shot seeds seed + idx) *)
Inductive seedv := Given (z : Z) | Fresh (k : nat) (off : Z).

Definition seed_plus (s : seedv) (i : Z) : seedv :=
  match s with Given z => Given (z + i) | Fresh k o => Fresh k (o + i) end.

Definition seedv_eqb (a b : seedv) : bool :=
  match a, b with
  | Given x, Given y => x =? y
  | Fresh k o, Fresh k' o' => Nat.eqb k k' && (o =? o')
  | _, _ => false
  end.

Inductive lib := Np | Py.      (* numpy.random.default_rng(seed) | random.Random(seed) *)
Definition stream := (lib * seedv)%type.
Definition req := (nat * nat)%type.          (* (program, shots) of a sampling call *)
Record gen := mkGen { g_stream : stream; g_pos : list req }.

Definition fresh_gen (l : lib) (s : seedv) : gen := mkGen (l, s) [].
Definition advance (g : gen) (r : req) : gen := mkGen (g_stream g) (g_pos g ++ [r]).

(* which generator a measurement reads *)
Inductive source :=
  | PerShot    (* default_rng(seed_sequence + idx) per shot: PassiveSimulator and
                  GaussianSimulator ParticleNumberMeasurement *)
  | OwnedNp    (* config.rng: threshold, homodyne/general-dyne, imperfect detection ... *)
  | PyDraw.    (* sample_from_probability_map: pure/mixed/fermionic Fock
                  ParticleNumberMeasurement *)

Inductive draw :=
  | DGen (s : stream) (pos : list req) (r : req)
  | DShots (seeds : list seedv) (r : req).
(* Result.samples: the draw, then shuffled by random.Random(config.seed_sequence) *)
Record result := mkRes { r_draw : draw; r_shuffle : seedv }.

(* the two defects of the tree as it was, as switches; [repaired] is the code with
   fixes/C11-seed-zero.diff and fixes/C11-config-owned-python-rng.diff applied *)
Record variant := mkVar {
  v_zero_unseeded : bool;   (* "seed_sequence or urandom": 0 counts as no seed *)
  v_global_py : bool        (* the seed_sequence setter calls random.seed(...) and the Fock
                               measurements draw from the process-global random module *)
}.
Definition current := mkVar true true.
Definition repaired := mkVar false false.

Record config := mkCfg { cf_seed : seedv; cf_np : nat; cf_py : nat }.

Record world := mkW {
  w_glob : gen;               (* state of the process-global random module *)
  w_cells : list gen;         (* generator objects, shared by reference *)
  w_cfgs : list config;       (* Config objects the caller holds *)
  w_sims : list config;       (* simulator.config of the simulators the caller holds *)
  w_fresh : nat;              (* os.urandom calls so far *)
  w_out : list result         (* results of the executions, in order *)
}.

Definition init_world : world :=
  mkW (fresh_gen Py (Fresh 0 0)) [] [] [] 1 [].

Inductive op :=
  | NewConfig (seed : option Z)          (* pq.Config(seed_sequence=seed) *)
  | CopyConfig (c : nat)                 (* configs[c].copy() *)
  | NewSimulator (c : option nat)        (* Simulator(d, config=configs[c]) / Simulator(d) *)
  | Execute (s : nat) (src : source) (prog shots : nat)
                                         (* simulators[s].execute(program, shots).samples *)
  | GlobalDraw (r : req)                 (* the process itself calls random.random() *)
  | ReprConfig                           (* repr(config) / repr(simulator): builds Config() *)
  | SetSeed (c : nat) (z : Z).           (* configs[c].seed_sequence = z  (the setter, after
                                            construction): new generators for this object;
                                            copies taken earlier keep the old ones *)

Fixpoint set_nth {A} (l : list A) (i : nat) (x : A) : list A :=
  match l, i with
  | [], _ => []
  | _ :: r, O => x :: r
  | a :: r, S j => a :: set_nth r j x
  end.

(* Config.__init__ + seed_sequence setter: returns the new world (without registering the
   config anywhere) and the config *)
Definition make_config (v : variant) (w : world) (seed : option Z) : world * config :=
  let unseeded := match seed with
                  | None => true
                  | Some z => v_zero_unseeded v && (z =? 0)
                  end in
  let sv := if unseeded then Fresh (w_fresh w) 0
            else match seed with Some z => Given z | None => Given 0 end in
  let fr := if unseeded then S (w_fresh w) else w_fresh w in
  let n := length (w_cells w) in
  let cfg := mkCfg sv n (S n) in
  (mkW (if v_global_py v then fresh_gen Py sv else w_glob w)
       (w_cells w ++ [fresh_gen Np sv; fresh_gen Py sv])
       (w_cfgs w) (w_sims w) fr (w_out w),
   cfg).

Definition dummy_cfg := mkCfg (Given 0) 0 0.
Definition dummy_gen := fresh_gen Np (Given 0).

(* per-shot seeds, sequential branch: "for idx in range(shots): samples.append(f(seed+idx))" *)
Fixpoint shots_seq (seed : seedv) (idx : Z) (n : nat) (acc : list seedv) : list seedv :=
  match n with
  | O => acc
  | S m => shots_seq seed (idx + 1) m (acc ++ [seed_plus seed idx])
  end.
(* dask branch: compute_list built in idx order, dask.compute of the list keeps the order *)
Definition shots_dask (seed : seedv) (n : nat) : list seedv :=
  map (fun i => seed_plus seed (Z.of_nat i)) (seq 0 n).

Definition step (v : variant) (use_dask : bool) (w : world) (o : op) : world :=
  match o with
  | NewConfig seed =>
      let '(w', cfg) := make_config v w seed in
      mkW (w_glob w') (w_cells w') (w_cfgs w' ++ [cfg]) (w_sims w') (w_fresh w') (w_out w')
  | CopyConfig c =>
      match nth_error (w_cfgs w) c with
      | Some cfg => mkW (w_glob w) (w_cells w) (w_cfgs w ++ [cfg]) (w_sims w) (w_fresh w) (w_out w)
      | None => w
      end
  | NewSimulator (Some c) =>
      match nth_error (w_cfgs w) c with
      | Some cfg => mkW (w_glob w) (w_cells w) (w_cfgs w) (w_sims w ++ [cfg]) (w_fresh w) (w_out w)
      | None => w
      end
  | NewSimulator None =>
      let '(w', cfg) := make_config v w None in
      mkW (w_glob w') (w_cells w') (w_cfgs w') (w_sims w' ++ [cfg]) (w_fresh w') (w_out w')
  | ReprConfig => fst (make_config v w None)
  | SetSeed c z =>
      match nth_error (w_cfgs w) c with
      | None => w
      | Some _ =>
          let n := length (w_cells w) in
          mkW (if v_global_py v then fresh_gen Py (Given z) else w_glob w)
              (w_cells w ++ [fresh_gen Np (Given z); fresh_gen Py (Given z)])
              (set_nth (w_cfgs w) c (mkCfg (Given z) n (S n)))
              (w_sims w) (w_fresh w) (w_out w)
      end
  | GlobalDraw r =>
      mkW (advance (w_glob w) r) (w_cells w) (w_cfgs w) (w_sims w) (w_fresh w) (w_out w)
  | Execute s src prog shots =>
      match nth_error (w_sims w) s with
      | None => w
      | Some cfg =>
          let r := (prog, shots) in
          match src with
          | PerShot =>
              let seeds := if use_dask then shots_dask (cf_seed cfg) shots
                           else shots_seq (cf_seed cfg) 0 shots [] in
              mkW (w_glob w) (w_cells w) (w_cfgs w) (w_sims w) (w_fresh w)
                  (w_out w ++ [mkRes (DShots seeds r) (cf_seed cfg)])
          | OwnedNp =>
              let g := nth (cf_np cfg) (w_cells w) dummy_gen in
              mkW (w_glob w) (set_nth (w_cells w) (cf_np cfg) (advance g r))
                  (w_cfgs w) (w_sims w) (w_fresh w)
                  (w_out w ++ [mkRes (DGen (g_stream g) (g_pos g) r) (cf_seed cfg)])
          | PyDraw =>
              if v_global_py v then
                let g := w_glob w in
                mkW (advance g r) (w_cells w) (w_cfgs w) (w_sims w) (w_fresh w)
                    (w_out w ++ [mkRes (DGen (g_stream g) (g_pos g) r) (cf_seed cfg)])
              else
                let g := nth (cf_py cfg) (w_cells w) dummy_gen in
                mkW (w_glob w) (set_nth (w_cells w) (cf_py cfg) (advance g r))
                    (w_cfgs w) (w_sims w) (w_fresh w)
                    (w_out w ++ [mkRes (DGen (g_stream g) (g_pos g) r) (cf_seed cfg)])
          end
      end
  end.

Definition run (v : variant) (use_dask : bool) (w : world) (h : list op) : world :=
  fold_left (step v use_dask) h w.

(* ------------------------------------------------------------------ equality of results *)
Definition lib_eqb (a b : lib) : bool :=
  match a, b with Np, Np | Py, Py => true | _, _ => false end.
Definition stream_eqb (a b : stream) : bool := lib_eqb (fst a) (fst b) && seedv_eqb (snd a) (snd b).
Definition req_eqb (a b : req) : bool := Nat.eqb (fst a) (fst b) && Nat.eqb (snd a) (snd b).
Fixpoint leqb {A} (e : A -> A -> bool) (a b : list A) : bool :=
  match a, b with
  | [], [] => true
  | x :: r, y :: t => e x y && leqb e r t
  | _, _ => false
  end.
(* When are two generator states of one stream the same?  Equal request lists: always.
   For a Python generator more is known: random.choices(k=shots) and random.random() consume
   exactly shots resp. one value whatever the weights, so the state is determined by the
   number of values consumed (a GlobalDraw is the request (0, 1)). *)
Definition consumed (p : list req) : nat := fold_right (fun r acc => (snd r + acc)%nat) O p.
Definition pos_eqb (l : lib) (p p' : list req) : bool :=
  match l with
  | Py => Nat.eqb (consumed p) (consumed p')
  | Np => leqb req_eqb p p'
  end.
Definition draw_eqb (a b : draw) : bool :=
  match a, b with
  | DGen s p r, DGen s' p' r' => stream_eqb s s' && pos_eqb (fst s) p p' && req_eqb r r'
  | DShots l r, DShots l' r' => leqb seedv_eqb l l' && req_eqb r r'
  | _, _ => false
  end.
Definition result_eqb (a b : result) : bool :=
  draw_eqb (r_draw a) (r_draw b) && seedv_eqb (r_shuffle a) (r_shuffle b).

(* the equality pattern of a list of results: for each result the index of the first result
   equal to it (what the tie compares with the implementation) *)
Fixpoint first_eq (x : result) (l : list result) (i : Z) : Z :=
  match l with
  | [] => i
  | y :: r => if result_eqb x y then i else first_eq x r (i + 1)
  end.
Definition pattern (l : list result) : list Z := map (fun x => first_eq x l 0) l.

(* the scenario of the property: a fresh Config(seed_sequence=z), anything (h1), a fresh
   simulator from it, anything (h2), then the first execution *)
Definition fresh_run (v : variant) (dask : bool) (w : world) (z : Z) (h1 h2 : list op)
           (src : source) (prog shots : nat) : option result :=
  let c := length (w_cfgs w) in
  let w1 := run v dask (step v dask w (NewConfig (Some z))) h1 in
  let s := length (w_sims w1) in
  let w2 := run v dask (step v dask w1 (NewSimulator (Some c))) h2 in
  let w3 := step v dask w2 (Execute s src prog shots) in
  nth_error (w_out w3) (length (w_out w2)).

(* an intervening operation that does not use the config c / the simulator s under test
   (using them is, by design, what advances their generator) *)
Definition avoids (c s : nat) (o : op) : Prop :=
  match o with
  | CopyConfig c' => c' <> c
  | NewSimulator (Some c') => c' <> c
  | Execute s' _ _ _ => s' <> s
  | SetSeed c' _ => c' <> c
  | _ => True
  end.
