(* C01 — definitions for the statement "a passive gate on an ordered subset of the modes acts
   as the permanent formula of the embedded d x d matrix" (rep_on_modes).  Definitions only. *)
From Coq Require Import ZArith List Bool Arith.
From PV Require Import Comb.FockModel C01.PermModel.
Import ListNotations.
Local Open Scope nat_scope.

(* v[modes,] on nat vectors (out-of-range reads 0) *)
Definition gatherN (v : list nat) (ms : list nat) : list nat := map (fun m => nth m v 0) ms.

(* product of the factorials of the entries *)
Fixpoint fact_list (l : list nat) : nat :=
  match l with [] => 1 | x :: r => fact x * fact_list r end.

(* indices.py:get_auxiliary_modes on nat lists (same function as C16.IndexModel.aux_modes) *)
Definition auxN (d : nat) (ms : list nat) : list nat :=
  filter (fun i => negb (existsb (Nat.eqb i) ms)) (seq 0 d).

Section EmbedModel.
Variable A : Type.
Variables (a0 a1 : A) (aadd amul : A -> A -> A).

(* the image of a natural number in the ring *)
Definition nA (n : nat) : A := nscale A a0 aadd n a1.

(* the permanent with multiplicities in list form (= perm_mult, PermProofs.permanent_permL) *)
Definition PM (U : list (list A)) (t s : list nat) : A :=
  permL A a0 a1 aadd amul (entry A a0 U) (photons t) (photons s).

(* the closed form of the embedded matrix's permanent: zero unless the occupation numbers
   outside the addressed modes agree, and then (prod of their factorials) times the permanent
   of the k x k block on the gathered occupation numbers *)
Definition embed_formula (G : list (list A)) (d : nat) (ms : list nat) (v v' : list nat) : A :=
  let aux := auxN d ms in
  if list_eq_dec Nat.eq_dec (gatherN v aux) (gatherN v' aux)
  then amul (nA (fact_list (gatherN v aux))) (PM G (gatherN v ms) (gatherN v' ms))
  else a0.

End EmbedModel.
