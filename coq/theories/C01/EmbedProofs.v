(* C01 — rep_on_modes: the permanent (with multiplicities) of the d x d matrix obtained by
   embedding a k x k block G at an ordered subset ms of the modes factorises: it vanishes
   unless the occupation numbers outside ms agree, and then equals (product of their
   factorials) times the permanent of G on the occupation numbers gathered at ms.
   Hence applying the k-mode sector representations through the index list of ms (C16:
   apply_index_list = gate_apply) is the permanent formula of the embedded matrix. *)
From Coq Require Import ZArith List Bool Arith Lia Ring Permutation.
From PV Require Import Comb.FockModel C16.IndexModel C16.IndexProofs
  C01.PermModel C01.PermProofs C01.TableProofs C01.SymProofs C01.EmbedModel.
Import ListNotations.
Local Open Scope nat_scope.

(* ---------------------------------------------------------------- vectors *)
Lemma nth_dec_at v : forall f m,
  nth m (dec_at f v) 0 = if Nat.eqb m f then pred (nth m v 0) else nth m v 0.
Proof.
  induction v as [|x r IH]; intros f m.
  - destruct f, m; simpl; try reflexivity; now destruct (Nat.eqb _ _).
  - destruct f as [|f], m as [|m]; simpl; try reflexivity. apply IH.
Qed.

Lemma gatherN_dec_notin v f l : ~ In f l -> gatherN (dec_at f v) l = gatherN v l.
Proof.
  intros H. unfold gatherN. apply map_ext_in. intros m Hm. rewrite nth_dec_at.
  destruct (Nat.eqb_spec m f); [subst; contradiction | reflexivity].
Qed.

Lemma gatherN_dec_in v ms : forall a, NoDup ms -> a < length ms ->
  gatherN (dec_at (nth a ms 0) v) ms = dec_at a (gatherN v ms).
Proof.
  induction ms as [|m ms IH]; intros a Hnd Ha; [simpl in Ha; lia|].
  inversion Hnd as [|? ? Hnotin Hnd']; subst.
  destruct a as [|a].
  - cbn [nth gatherN map dec_at]. f_equal.
    + rewrite nth_dec_at, Nat.eqb_refl. reflexivity.
    + apply gatherN_dec_notin. exact Hnotin.
  - cbn [nth gatherN map dec_at]. f_equal.
    + rewrite nth_dec_at. destruct (Nat.eqb_spec m (nth a ms 0)) as [E|]; [|reflexivity].
      exfalso. apply Hnotin. rewrite E. apply nth_In. simpl in Ha. lia.
    + apply IH; [exact Hnd' | simpl in Ha; lia].
Qed.

Lemma gatherN_eq_iff v v' l :
  gatherN v l = gatherN v' l <-> (forall m, In m l -> nth m v 0 = nth m v' 0).
Proof. unfold gatherN. apply map_ext_in_iff. Qed.

Lemma gatherN_length v l : length (gatherN v l) = length l.
Proof. apply map_length. Qed.

Lemma nth_gatherN v l b : b < length l -> nth b (gatherN v l) 0 = nth (nth b l 0) v 0.
Proof.
  intros H. unfold gatherN.
  rewrite (nth_indep _ 0 ((fun m => nth m v 0) 0)) by (now rewrite map_length).
  apply (map_nth (fun m => nth m v 0)).
Qed.

Lemma total_app l1 l2 : total (l1 ++ l2) = total l1 + total l2.
Proof. induction l1; simpl; lia. Qed.

Lemma total_perm l l' : Permutation l l' -> total l = total l'.
Proof. induction 1; simpl; lia. Qed.

Lemma gatherN_seq v : gatherN v (seq 0 (length v)) = v.
Proof.
  apply (nth_ext _ _ 0 0).
  - now rewrite gatherN_length, seq_length.
  - intros n Hn. rewrite gatherN_length, seq_length in Hn.
    rewrite nth_gatherN by (now rewrite seq_length). now rewrite seq_nth.
Qed.

Lemma total_split d ms v : modes_ok d ms -> length v = d ->
  total v = total (gatherN v ms) + total (gatherN v (auxN d ms)).
Proof.
  intros Hok Hlen. rewrite <- total_app. unfold gatherN. rewrite <- map_app.
  rewrite <- (gatherN_seq v) at 1. rewrite Hlen. apply total_perm. unfold gatherN.
  apply Permutation_map. apply Permutation_sym. exact (modes_aux_perm d ms Hok).
Qed.

Lemma total0_nth v : total v = 0 -> forall m, nth m v 0 = 0.
Proof.
  induction v as [|x r IH]; intros H m; [now destruct m|].
  simpl in H. destruct m; simpl; [lia | apply IH; lia].
Qed.

Lemma fact_list_dec v f : forall l, NoDup l -> In f l -> nth f v 0 <> 0 ->
  fact_list (gatherN v l) = nth f v 0 * fact_list (gatherN (dec_at f v) l).
Proof.
  induction l as [|m l IH]; intros Hnd Hin Hpos; [destruct Hin|].
  inversion Hnd as [|? ? Hnotin Hnd']; subst.
  cbn [gatherN map fact_list]. fold (gatherN v l). fold (gatherN (dec_at f v) l).
  destruct Hin as [->|Hin].
  - rewrite (gatherN_dec_notin v f l Hnotin). rewrite nth_dec_at, Nat.eqb_refl.
    destruct (nth f v 0) as [|x]; [lia|]. cbn [pred fact]. lia.
  - rewrite (IH Hnd' Hin Hpos). rewrite nth_dec_at.
    destruct (Nat.eqb_spec m f); [subst; contradiction|]. lia.
Qed.

(* ---------------------------------------------------------------- pos_of *)
Lemma pos_of_some f ms : forall a, pos_of f ms = Some a -> nth a ms 0 = f /\ a < length ms.
Proof.
  induction ms as [|m ms IH]; intros a H; [discriminate|].
  cbn [pos_of] in H. destruct (Nat.eqb_spec f m).
  - injection H as <-. subst. simpl. split; [reflexivity | lia].
  - destruct (pos_of f ms) as [a'|]; [|discriminate]. injection H as <-.
    destruct (IH a' eq_refl). simpl. split; [assumption | lia].
Qed.

Lemma pos_of_none f ms : pos_of f ms = None -> ~ In f ms.
Proof.
  induction ms as [|m ms IH]; intros H; [tauto|].
  cbn [pos_of] in H. destruct (Nat.eqb_spec f m); [discriminate|].
  destruct (pos_of f ms); [discriminate|]. intros [E|E]; [congruence | now apply IH].
Qed.

Lemma pos_of_nth ms : forall b, NoDup ms -> b < length ms -> pos_of (nth b ms 0) ms = Some b.
Proof.
  induction ms as [|m ms IH]; intros b Hnd Hb; [simpl in Hb; lia|].
  inversion Hnd as [|? ? Hnotin Hnd']; subst.
  destruct b as [|b]; cbn [nth pos_of].
  - now rewrite Nat.eqb_refl.
  - destruct (Nat.eqb_spec (nth b ms 0) m) as [E|].
    + exfalso. apply Hnotin. rewrite <- E. apply nth_In. simpl in Hb. lia.
    + rewrite IH by (auto; simpl in Hb; lia). reflexivity.
Qed.

Section Embed.
Variable A : Type.
Variables (a0 a1 : A) (aadd amul asub : A -> A -> A) (aopp : A -> A).
Hypothesis Aring : ring_theory a0 a1 aadd amul asub aopp (@eq A).
Add Ring ARing4 : Aring.

Notation asum := (asum A a0 aadd).
Notation nscale := (nscale A a0 aadd).
Notation entry := (entry A a0).
Notation permL := (permL A a0 a1 aadd amul).
Notation PM := (PM A a0 a1 aadd amul).
Notation nA := (nA A a0 a1 aadd).
Notation embed := (embed A a0).
Notation embed_formula := (embed_formula A a0 a1 aadd amul).

(* ---------------------------------------------------------------- naturals in the ring *)
Lemma nscale_nA n x : nscale n x = amul (nA n) x.
Proof.
  unfold EmbedModel.nA. induction n as [|n IH]; simpl; [ring|].
  rewrite IH. ring.
Qed.

Lemma nA_add n m : nA (n + m) = aadd (nA n) (nA m).
Proof.
  unfold EmbedModel.nA. induction n as [|n IH]; simpl; [ring|].
  rewrite IH. ring.
Qed.

Lemma nA_mul n m : nA (n * m) = amul (nA n) (nA m).
Proof.
  induction n as [|n IH]; cbn [Nat.mul].
  - unfold EmbedModel.nA. simpl. ring.
  - rewrite nA_add, IH. replace (nA (S n)) with (aadd a1 (nA n)) by reflexivity. ring.
Qed.

Lemma nA_1 : nA 1 = a1.
Proof. unfold EmbedModel.nA. simpl. ring. Qed.

(* ---------------------------------------------------------------- sums *)
Lemma asum_zero' {X} (F : X -> A) l : (forall x, In x l -> F x = a0) -> asum (map F l) = a0.
Proof.
  induction l as [|x l IH]; intros H; [reflexivity|].
  cbn [map]. rewrite (asum_cons A a0 aadd), H by (now left).
  rewrite IH by (intros; apply H; now right). ring.
Qed.

Lemma asum_support (F : nat -> A) l l1 l2 :
  Permutation l (l1 ++ l2) -> (forall j, In j l2 -> F j = a0) ->
  asum (map F l) = asum (map F l1).
Proof.
  intros HP Hz.
  rewrite (asum_perm A a0 a1 aadd amul asub aopp Aring _ (map F (l1 ++ l2)))
    by (now apply Permutation_map).
  rewrite map_app, (asum_app A a0 a1 aadd amul asub aopp Aring), (asum_zero' F l2 Hz). ring.
Qed.

Lemma map_nth_seq {X} (F : nat -> X) l :
  map F l = map (fun b => F (nth b l 0)) (seq 0 (length l)).
Proof.
  induction l as [|x l IH]; [reflexivity|].
  cbn [length seq map nth]. f_equal. rewrite <- seq_shift, map_map. exact IH.
Qed.

(* ---------------------------------------------------------------- expansion along any
   occupied row (square case) *)
Lemma photons_from_perm_dec t : forall i a, nth a t 0 <> 0 ->
  Permutation (photons_from i t) ((i + a) :: photons_from i (dec_at a t)).
Proof.
  induction t as [|x r IH]; intros i a H; [destruct a; simpl in H; lia|].
  destruct a as [|a]; cbn [nth] in H.
  - destruct x as [|x]; [lia|]. cbn [dec_at pred photons_from repeat app].
    rewrite Nat.add_0_r. reflexivity.
  - cbn [dec_at photons_from].
    rewrite (IH (S i) a H). replace (S i + a) with (i + S a) by lia.
    apply Permutation_sym, Permutation_middle.
Qed.

Lemma permL_perm_rows e ps ps' qs : Permutation ps ps' -> length ps = length qs ->
  permL e ps qs = permL e ps' qs.
Proof.
  intros HP Hlen.
  rewrite (permL_transpose A a0 a1 aadd amul asub aopp Aring e qs ps Hlen).
  rewrite (permL_perm_columns A a0 a1 aadd amul asub aopp Aring _ qs ps ps' HP).
  symmetry. apply (permL_transpose A a0 a1 aadd amul asub aopp Aring e qs ps').
  rewrite <- Hlen. symmetry. now apply Permutation_length.
Qed.

Lemma PM_row U t s a : nth a t 0 <> 0 -> total t = total s ->
  PM U t s =
  asum (map (fun j => nscale (nth j s 0) (amul (entry U a j) (PM U (dec_at a t) (dec_at j s))))
            (seq 0 (length s))).
Proof.
  intros Ha Htot. unfold EmbedModel.PM, photons.
  rewrite (permL_perm_rows _ _ _ _ (photons_from_perm_dec t 0 a Ha))
    by (fold (photons t); fold (photons s);
        rewrite !photons_length; exact Htot).
  cbn [PermModel.permL Nat.add].
  rewrite (laplace_regroup A a0 a1 aadd amul asub aopp Aring
             (fun qr => amul (entry U a (fst qr))
                          (permL (entry U) (photons_from 0 (dec_at a t)) (snd qr))) s 0).
  apply (asum_map_ext A a0 aadd). intros j _. reflexivity.
Qed.

Lemma asum_delta (F : nat -> A) f l : NoDup l -> In f l ->
  (forall j, In j l -> j <> f -> F j = a0) -> asum (map F l) = F f.
Proof.
  induction l as [|x l IH]; intros Hnd Hin Hz; [destruct Hin|].
  inversion Hnd as [|? ? Hnotin Hnd']; subst. cbn [map]. rewrite (asum_cons A a0 aadd).
  destruct Hin as [->|Hin].
  - rewrite asum_zero'; [ring|]. intros j Hj. apply Hz; [now right|]. intros ->. contradiction.
  - rewrite (Hz x) by ((now left) || (intros ->; contradiction)).
    rewrite IH; auto; [ring|]. intros j Hj. apply Hz. now right.
Qed.

Lemma fact_list_zero v l : (forall m, nth m v 0 = 0) -> fact_list (gatherN v l) = 1.
Proof.
  intros H. induction l as [|m l IH]; [reflexivity|].
  cbn [gatherN map fact_list]. fold (gatherN v l). rewrite IH, H. reflexivity.
Qed.

Lemma pos_of_notin j ms : ~ In j ms -> pos_of j ms = None.
Proof.
  intros H. destruct (pos_of j ms) as [b|] eqn:E; [|reflexivity].
  destruct (pos_of_some j ms b E) as [<- Hb]. exfalso. apply H. now apply nth_In.
Qed.

Section Main.
Variables (G : list (list A)) (d : nat) (ms : list nat).
Hypothesis Hok : modes_ok d ms.
Let E := embed G a1 ms d.
Let aux := auxN d ms.
Let k := length ms.

Lemma aux_in m : In m aux <-> m < d /\ ~ In m ms.
Proof. exact (aux_modes_In d ms m). Qed.
Lemma aux_nodup : NoDup aux.
Proof. exact (aux_modes_NoDup d ms). Qed.
Lemma ms_lt m : In m ms -> m < d.
Proof. destruct Hok as [_ H]. rewrite Forall_forall in H. apply H. Qed.
Lemma ms_nodup : NoDup ms.
Proof. apply Hok. Qed.

Lemma entry_embed f j : f < d -> j < d ->
  entry E f j = match pos_of f ms, pos_of j ms with
                | Some a, Some b => entry G a b
                | _, _ => if Nat.eqb f j then a1 else a0
                end.
Proof.
  intros Hf Hj. unfold E, PermModel.entry, PermModel.embed.
  rewrite (nth_map_lt _ (seq 0 d) f 0 []) by (now rewrite seq_length).
  rewrite (nth_map_lt _ (seq 0 d) j 0 a0) by (now rewrite seq_length).
  rewrite !seq_nth by assumption. reflexivity.
Qed.

Theorem embed_PM : forall n v v',
  length v = d -> length v' = d -> total v = n -> total v' = n ->
  PM E v v' = embed_formula G d ms v v'.
Proof.
  induction n as [|n IH]; intros v v' Hl Hl' Ht Ht'.
  - unfold EmbedModel.embed_formula. fold aux.
    assert (Heq : gatherN v aux = gatherN v' aux).
    { apply gatherN_eq_iff. intros m _. now rewrite !total0_nth. }
    destruct (list_eq_dec Nat.eq_dec (gatherN v aux) (gatherN v' aux)) as [_|C]; [|contradiction].
    assert (Hu : total (gatherN v ms) = 0).
    { pose proof (total_split d ms v Hok Hl). lia. }
    unfold EmbedModel.PM, photons.
    rewrite (total_0_photons v Ht 0), (total_0_photons _ Hu 0). cbn [PermModel.permL].
    rewrite (fact_list_zero v aux (total0_nth v Ht)), nA_1. ring.
  - destruct (first_nz v) as [f|] eqn:Ef.
    2:{ apply first_nz_none in Ef. lia. }
    pose proof (first_nz_pos v f Ef) as Hf.
    assert (Hfd : f < d).
    { rewrite <- Hl. destruct (Nat.lt_ge_cases f (length v)) as [H|H]; [exact H|].
      rewrite nth_overflow in Hf by exact H. lia. }
    rewrite (PM_row E v v' f Hf) by lia. rewrite Hl'.
    set (T := fun j => nscale (nth j v' 0)
                         (amul (entry E f j) (PM E (dec_at f v) (dec_at j v')))).
    change (asum (map T (seq 0 d)) = embed_formula G d ms v v').
    assert (HIH : forall j, j < d -> nth j v' 0 <> 0 ->
              PM E (dec_at f v) (dec_at j v') = embed_formula G d ms (dec_at f v) (dec_at j v')).
    { intros j Hj Hpos. apply IH; rewrite ?length_dec_at; auto.
      - pose proof (total_dec_pos v f Hf). lia.
      - pose proof (total_dec_pos v' j Hpos). lia. }
    destruct (pos_of f ms) as [a|] eqn:Ep.
    + (* the first occupied mode is addressed by the gate *)
      destruct (pos_of_some f ms a Ep) as [Hfa Hak].
      assert (Hfms : In f ms) by (rewrite <- Hfa; now apply nth_In).
      rewrite (asum_support T (seq 0 d) ms aux).
      2:{ apply Permutation_sym. exact (modes_aux_perm d ms Hok). }
      2:{ intros j Hj. apply aux_in in Hj. destruct Hj as [Hjd Hjn]. unfold T.
          rewrite entry_embed by assumption. rewrite Ep, (pos_of_notin j ms Hjn).
          destruct (Nat.eqb_spec f j); [subst; contradiction|]. rewrite nscale_nA. ring. }
      rewrite (map_nth_seq T ms). fold k.
      set (u := gatherN v ms). set (u' := gatherN v' ms).
      set (P := fact_list (gatherN v aux)).
      assert (Hterm : forall b, In b (seq 0 k) ->
                T (nth b ms 0) =
                nscale (nth b u' 0)
                  (amul (entry G a b)
                     (if list_eq_dec Nat.eq_dec (gatherN v aux) (gatherN v' aux)
                      then amul (nA P) (PM G (dec_at a u) (dec_at b u')) else a0))).
      { intros b Hb. apply in_seq in Hb. assert (Hbk : b < length ms) by (unfold k in Hb; lia).
        assert (Hjms : In (nth b ms 0) ms) by (now apply nth_In).
        pose proof (ms_lt _ Hjms) as Hjd. unfold T.
        rewrite entry_embed by assumption. rewrite Ep, (pos_of_nth ms b ms_nodup Hbk).
        unfold u'. rewrite (nth_gatherN v' ms b Hbk).
        destruct (Nat.eq_dec (nth (nth b ms 0) v' 0) 0) as [Hz|Hnz]; [rewrite Hz; reflexivity|].
        rewrite (HIH _ Hjd Hnz). unfold EmbedModel.embed_formula. fold aux.
        rewrite (gatherN_dec_notin v f aux) by (intros Hc; apply aux_in in Hc; tauto).
        rewrite (gatherN_dec_notin v' (nth b ms 0) aux) by (intros Hc; apply aux_in in Hc; tauto).
        replace (gatherN (dec_at f v) ms) with (gatherN (dec_at (nth a ms 0) v) ms) by (now rewrite Hfa).
        rewrite (gatherN_dec_in v ms a ms_nodup Hak).
        rewrite (gatherN_dec_in v' ms b ms_nodup Hbk). reflexivity. }
      rewrite (asum_map_ext A a0 aadd _ _ _ Hterm).
      unfold EmbedModel.embed_formula. fold aux. fold u. fold u'. fold P.
      destruct (list_eq_dec Nat.eq_dec (gatherN v aux) (gatherN v' aux)) as [e|ne].
      * assert (Hua : nth a u 0 <> 0).
        { unfold u. rewrite (nth_gatherN v ms a Hak), Hfa. exact Hf. }
        assert (Htu : total u = total u').
        { pose proof (total_split d ms v Hok Hl) as H1. pose proof (total_split d ms v' Hok Hl') as H2.
          pose proof e as e2. unfold aux in e2. rewrite e2 in H1. unfold u, u'. lia. }
        rewrite (PM_row G u u' a Hua Htu).
        replace (length u') with k by (unfold u', k; now rewrite gatherN_length).
        rewrite <- (asum_scal A a0 a1 aadd amul asub aopp Aring).
        apply (asum_map_ext A a0 aadd). intros b _. rewrite !nscale_nA. ring.
      * apply asum_zero'. intros b _. rewrite nscale_nA. ring.
    + (* the first occupied mode is a spectator *)
      pose proof (pos_of_none f ms Ep) as Hfn.
      assert (Hfaux : In f aux) by (apply aux_in; tauto).
      rewrite (asum_delta T f (seq 0 d)); [| apply seq_NoDup | apply in_seq; lia |].
      2:{ intros j Hj Hne. apply in_seq in Hj. unfold T.
          rewrite entry_embed by (auto; lia). rewrite Ep.
          destruct (Nat.eqb_spec f j); [congruence|]. rewrite nscale_nA. ring. }
      unfold T. rewrite entry_embed by assumption. rewrite Ep, Nat.eqb_refl.
      unfold EmbedModel.embed_formula at 1. fold aux.
      destruct (Nat.eq_dec (nth f v' 0) 0) as [Hz|Hnz].
      * rewrite Hz. cbn [PermModel.nscale].
        destruct (list_eq_dec Nat.eq_dec (gatherN v aux) (gatherN v' aux)) as [e|ne]; [|reflexivity].
        exfalso. rewrite gatherN_eq_iff in e. specialize (e f Hfaux). lia.
      * rewrite (HIH f Hfd Hnz). unfold EmbedModel.embed_formula. fold aux.
        rewrite (gatherN_dec_notin v f ms Hfn), (gatherN_dec_notin v' f ms Hfn).
        destruct (list_eq_dec Nat.eq_dec (gatherN v aux) (gatherN v' aux)) as [e|ne];
        destruct (list_eq_dec Nat.eq_dec (gatherN (dec_at f v) aux) (gatherN (dec_at f v') aux)) as [e'|ne'].
        -- assert (Hff : nth f v 0 = nth f v' 0) by (rewrite gatherN_eq_iff in e; now apply e).
           rewrite (fact_list_dec v f aux aux_nodup Hfaux Hf), nA_mul, nscale_nA, Hff. ring.
        -- exfalso. apply ne'. apply gatherN_eq_iff. intros m Hm. rewrite !nth_dec_at.
           rewrite gatherN_eq_iff in e. rewrite (e m Hm). reflexivity.
        -- exfalso. apply ne. apply gatherN_eq_iff. intros m Hm.
           rewrite gatherN_eq_iff in e'. specialize (e' m Hm). rewrite !nth_dec_at in e'.
           destruct (Nat.eqb_spec m f); [subst; lia | exact e'].
        -- rewrite nscale_nA. ring.
Qed.

End Main.
End Embed.

(* the list form used above is the permanent with multiplicities of PermModel *)
Lemma PM_perm_mult A a0 a1 aadd amul U t s :
  PM A a0 a1 aadd amul U t s = perm_mult A a0 a1 aadd amul U t s.
Proof. unfold PM, perm_mult. symmetry. apply permanent_permL. Qed.

(* entries between different spectator occupation numbers vanish *)
Corollary embed_PM_vanishes A a0 a1 aadd amul asub aopp
  (Aring : ring_theory a0 a1 aadd amul asub aopp (@eq A)) G d ms :
  modes_ok d ms -> forall v v', length v = d -> length v' = d -> total v = total v' ->
  gatherN v (auxN d ms) <> gatherN v' (auxN d ms) ->
  PM A a0 a1 aadd amul (embed A a0 G a1 ms d) v v' = a0.
Proof.
  intros Hok v v' Hl Hl' Ht Hne.
  rewrite (embed_PM A a0 a1 aadd amul asub aopp Aring G d ms Hok (total v) v v') by auto.
  unfold embed_formula.
  destruct (list_eq_dec Nat.eq_dec (gatherN v (auxN d ms)) (gatherN v' (auxN d ms))); [contradiction | reflexivity].
Qed.
