(* C03 - chain rule of measurement for the projective model (ProjectModel.v):
   measuring L1 and then L2 gives the same outcomes, weights, branch states and registers as
   measuring L1 ++ L2 at once, for every state, every split and every order of the modes. *)
From Coq Require Import ZArith QArith Qfield List Bool Arith Lia.
From PV Require Import C03.ExecModel C03.ExecProofs C03.ProjectModel.
Import ListNotations.
Open Scope nat_scope.

(* ------------------------------------------------------------------ lists *)
Lemma vec_eqb_eq a b : vec_eqb a b = true <-> a = b.
Proof.
  revert b. induction a as [|x r IH]; destruct b as [|y s]; simpl; split; try discriminate; auto.
  - intros H. apply andb_prop in H. destruct H as [H1 H2]. apply Nat.eqb_eq in H1. apply IH in H2. congruence.
  - intros H. inversion H; subst. rewrite Nat.eqb_refl. simpl. now apply IH.
Qed.

Lemma vec_eqb_refl a : vec_eqb a a = true.
Proof. now apply vec_eqb_eq. Qed.

Lemma vec_eqb_app a1 a2 s1 s2 :
  length a1 = length s1 ->
  vec_eqb (a1 ++ a2) (s1 ++ s2) = vec_eqb a1 s1 && vec_eqb a2 s2.
Proof.
  revert s1. induction a1 as [|x r IH]; destruct s1 as [|y s]; simpl; try discriminate; auto.
  intros H. inversion H. rewrite IH by auto. now rewrite andb_assoc.
Qed.

Lemma filter_map_comm {X Y} (f : X -> Y) (p : Y -> bool) l :
  filter p (map f l) = map f (filter (fun x => p (f x)) l).
Proof. induction l as [|a r IH]; simpl; auto. destruct (p (f a)); simpl; now rewrite IH. Qed.

Lemma filter_filter {X} (p q : X -> bool) l :
  filter q (filter p l) = filter (fun x => p x && q x) l.
Proof. induction l as [|a r IH]; simpl; auto. destruct (p a); simpl; [destruct (q a)|]; now rewrite IH. Qed.

Lemma map_nth_seq (l : list nat) : map (fun i => nth i l 0) (seq 0 (length l)) = l.
Proof.
  induction l as [|a r IH]; simpl; auto. f_equal. rewrite <- seq_shift, map_map. exact IH.
Qed.

Lemma memb_false_iff m l : memb m l = false <-> ~ In m l.
Proof. rewrite <- memb_In. destruct (memb m l); split; auto; try discriminate. intros H; exfalso; now apply H. Qed.

Lemma memb_app m l1 l2 : memb m (l1 ++ l2) = memb m l1 || memb m l2.
Proof. induction l1 as [|a r IH]; simpl; auto. destruct (Nat.eqb a m); auto. Qed.

(* ------------------------------------------------------------------ select / aux / remap *)
Lemma select_app M1 M2 v : select (M1 ++ M2) v = select M1 v ++ select M2 v.
Proof. unfold select. now rewrite map_app. Qed.

Lemma select_length M v : length (select M v) = length M.
Proof. unfold select. now rewrite map_length. Qed.

Lemma select_select Y X v :
  Forall (fun i => i < length X) Y ->
  select Y (select X v) = select (map (fun i => nth i X 0) Y) v.
Proof.
  intros H. unfold select. rewrite map_map. apply map_ext_in. intros i Hi.
  rewrite Forall_forall in H. specialize (H i Hi).
  rewrite (nth_indep _ 0 (nth 0 v 0)) by (now rewrite map_length).
  exact (map_nth (fun m => nth m v 0) X 0 i).
Qed.

Lemma aux_NoDup M d : NoDup (aux M d).
Proof. unfold aux. apply NoDup_filter. apply seq_NoDup. Qed.

Lemma aux_In M d i : In i (aux M d) <-> i < d /\ ~ In i M.
Proof.
  unfold aux. rewrite filter_In, in_seq, negb_true_iff, memb_false_iff. intuition lia.
Qed.

Lemma remap_lt X M : incl M X -> Forall (fun i => i < length X) (remap_modes X M).
Proof.
  intros H. apply Forall_forall. intros i Hi. unfold remap_modes in Hi. apply in_map_iff in Hi.
  destruct Hi as (m & <- & Hm). apply index_of_lt. now apply H.
Qed.

Lemma NoDup_nth_inj (X : list nat) i j :
  NoDup X -> i < length X -> j < length X -> nth i X 0 = nth j X 0 -> i = j.
Proof. intros ND Hi Hj E. now apply (proj1 (NoDup_nth X 0) ND). Qed.

Lemma index_of_nth (X : list nat) i : NoDup X -> i < length X -> index_of (nth i X 0) X = i.
Proof.
  intros ND Hi. apply NoDup_nth_inj with (X := X); auto.
  - apply index_of_lt. now apply nth_In.
  - apply nth_index_of. now apply nth_In.
Qed.

(* positions of X that are not positions of M inside X, read through X = X without M *)
Lemma aux_remap_select X M :
  NoDup X -> incl M X ->
  map (fun i => nth i X 0) (aux (remap_modes X M) (length X)) = filter (fun m => negb (memb m M)) X.
Proof.
  intros ND Hin. unfold aux.
  transitivity (filter (fun m => negb (memb m M)) (map (fun i => nth i X 0) (seq 0 (length X))));
    [|now rewrite map_nth_seq].
  rewrite filter_map_comm. f_equal.
  apply filter_ext_in. intros i Hi. apply in_seq in Hi. f_equal.
  destruct (memb (nth i X 0) M) eqn:E1.
  - apply memb_In in E1. apply memb_In. unfold remap_modes. apply in_map_iff.
    exists (nth i X 0). split; auto. apply index_of_nth; auto. lia.
  - apply memb_false_iff. apply memb_false_iff in E1. intros H. apply E1.
    unfold remap_modes in H. apply in_map_iff in H. destruct H as (m & Hm & HmM).
    rewrite <- Hm. rewrite nth_index_of; auto.
Qed.

(* the same statement for the executor's bookkeeping: the new register is the old one read
   at the auxiliary positions *)
Theorem delete_is_select_aux X L :
  NoDup X -> incl L X ->
  delete_modes_from_active X (remap_modes X L) = select (aux (remap_modes X L) (length X)) X.
Proof.
  intros ND Hin. rewrite delete_active_spec by auto. unfold select. now rewrite aux_remap_select.
Qed.

Lemma filter_aux M1 M2 d :
  filter (fun m => negb (memb m M2)) (aux M1 d) = aux (M1 ++ M2) d.
Proof.
  unfold aux. rewrite filter_filter. apply filter_ext. intros i. rewrite memb_app, negb_orb. reflexivity.
Qed.

Section ProjectiveProofs.
  Variable A : Type.
  Variable nrm : A -> Q.
  Notation pstate := (pstate A).
  Notation project := (project A).
  Notation weight := (weight A nrm).
  Notation outcomes := (outcomes A).

  (* ---- the two index selections commute: branch_state_is_projection / chain rule, state part *)
  Theorem project_project d M1 M2 s1 s2 (psi : pstate) :
    incl M2 (aux M1 d) -> length s1 = length M1 ->
    project (length (aux M1 d)) (remap_modes (aux M1 d) M2) s2 (project d M1 s1 psi)
    = project d (M1 ++ M2) (s1 ++ s2) psi.
  Proof.
    intros Hin Hl. unfold ProjectModel.project.
    rewrite filter_map_comm, map_map, filter_filter. simpl.
    assert (S1 : forall v, select (remap_modes (aux M1 d) M2) (select (aux M1 d) v) = select M2 v).
    { intros v. rewrite select_select by (now apply remap_lt).
      change (map (fun i => nth i (aux M1 d) 0) (remap_modes (aux M1 d) M2))
        with (remap_modes_inverse (aux M1 d) (remap_modes (aux M1 d) M2)).
      now rewrite remap_inverse. }
    assert (S2 : forall v, select (aux (remap_modes (aux M1 d) M2) (length (aux M1 d))) (select (aux M1 d) v)
                           = select (aux (M1 ++ M2) d) v).
    { intros v. rewrite select_select.
      - rewrite aux_remap_select; auto using aux_NoDup. now rewrite filter_aux.
      - apply Forall_forall. intros i Hi. apply aux_In in Hi. lia. }
    erewrite filter_ext.
    - apply map_ext. intros [v a]. simpl. now rewrite S2.
    - intros [v a]. simpl.
      rewrite S1, select_app, vec_eqb_app; auto. now rewrite select_length.
  Qed.

  (* ---- weights *)
  Lemma weight_map (g : vec -> vec) (l : pstate) :
    weight (map (fun p => (g (fst p), snd p)) l) = weight l.
  Proof. induction l as [|p r IH]; simpl; auto. now rewrite IH. Qed.

  Lemma weight_project d M s psi :
    weight (project d M s psi) = weight (filter (fun p => vec_eqb (select M (fst p)) s) psi).
  Proof. unfold ProjectModel.project. apply weight_map. Qed.

  Definition positive (psi : pstate) : Prop := Forall (fun p => 0 < nrm (snd p))%Q psi.

  Lemma weight_nonneg psi : positive psi -> (0 <= weight psi)%Q.
  Proof.
    induction 1 as [|p r Hp Hr IH]; simpl. apply Qle_refl.
    apply Qle_trans with (0 + 0)%Q. apply Qle_refl. apply Qplus_le_compat; auto. now apply Qlt_le_weak.
  Qed.

  Lemma weight_pos psi : positive psi -> psi <> [] -> (0 < weight psi)%Q.
  Proof.
    intros P N. destruct psi as [|p r]; [congruence|]. inversion P; subst. simpl.
    apply Qlt_le_trans with (nrm (snd p) + 0)%Q.
    - rewrite Qplus_0_r. assumption.
    - apply Qplus_le_compat. apply Qle_refl. now apply weight_nonneg.
  Qed.

  Lemma positive_filter f psi : positive psi -> positive (filter f psi).
  Proof.
    unfold positive. rewrite !Forall_forall. intros H p Hp. apply filter_In in Hp. apply H. tauto.
  Qed.

  Lemma positive_project d M s psi : positive psi -> positive (project d M s psi).
  Proof.
    intros P. unfold ProjectModel.project, positive. apply Forall_forall. intros p Hp.
    apply in_map_iff in Hp. destruct Hp as (q & <- & Hq). simpl.
    apply (positive_filter _ _ P) in Hq || (pose proof (positive_filter (fun p0 => vec_eqb (select M (fst p0)) s) psi P) as PF;
                                            unfold positive in PF; rewrite Forall_forall in PF; now apply PF).
  Qed.

  (* ---- outcomes *)
  Lemma vmem_In s l : vmem s l = true <-> In s l.
  Proof.
    induction l as [|a r IH]; simpl. split; [discriminate|tauto].
    destruct (vec_eqb a s) eqn:E.
    - apply vec_eqb_eq in E. split; auto.
    - rewrite IH. split; auto. intros [H|H]; auto. subst. rewrite vec_eqb_refl in E. discriminate.
  Qed.

  Lemma vnodup_In s l : In s (vnodup l) <-> In s l.
  Proof.
    induction l as [|a r IH]; simpl; [tauto|].
    destruct (vmem a r) eqn:E.
    - rewrite IH. apply vmem_In in E. split; auto. intros [H|H]; auto. now subst.
    - simpl. rewrite IH. tauto.
  Qed.

  Lemma vnodup_NoDup l : NoDup (vnodup l).
  Proof.
    induction l as [|a r IH]; simpl. constructor.
    destruct (vmem a r) eqn:E; auto. constructor; auto.
    rewrite vnodup_In. intros H. apply vmem_In in H. congruence.
  Qed.

  Lemma outcomes_In M (psi : pstate) s : In s (outcomes M psi) <-> exists p, In p psi /\ select M (fst p) = s.
  Proof.
    unfold ProjectModel.outcomes. rewrite vnodup_In, in_map_iff. split; intros (p & H1 & H2); exists p; auto.
  Qed.

  Lemma project_nonempty d M s (psi : pstate) : In s (outcomes M psi) -> project d M s psi <> [].
  Proof.
    intros H. apply outcomes_In in H. destruct H as (p & Hp & Hs).
    unfold ProjectModel.project. intros E. apply map_eq_nil in E.
    assert (In p (filter (fun p0 => vec_eqb (select M (fst p0)) s) psi)).
    { apply filter_In. split; auto. now apply vec_eqb_eq. }
    rewrite E in H. contradiction.
  Qed.

  (* ---- the outcomes with non-zero weight partition the state: the weights sum to |psi|^2 *)
  Lemma sum_indicator (k : vec) (x : Q) (O : list vec) :
    NoDup O -> In k O ->
    (fold_right (fun s acc => (if vec_eqb k s then x else 0) + acc) 0 O == x)%Q.
  Proof.
    induction O as [|a r IH]; intros ND Hin; simpl. contradiction.
    inversion ND; subst. destruct (vec_eqb k a) eqn:E.
    - apply vec_eqb_eq in E. subst a.
      assert (Z : (fold_right (fun s acc => (if vec_eqb k s then x else 0) + acc) 0 r == 0)%Q).
      { clear IH ND Hin H2. induction r as [|b r' IHr]; simpl. reflexivity.
        destruct (vec_eqb k b) eqn:Eb.
        - apply vec_eqb_eq in Eb. subst. exfalso. apply H1. now left.
        - rewrite IHr. ring. intros H. apply H1. now right. }
      rewrite Z. ring.
    - destruct Hin as [H|H]. subst. rewrite vec_eqb_refl in E. discriminate.
      rewrite IH; auto. ring.
  Qed.

  Lemma partition_weight (key : vec -> vec) (O : list vec) (psi : pstate) :
    NoDup O -> (forall p, In p psi -> In (key (fst p)) O) ->
    (fold_right (fun s acc => weight (filter (fun p => vec_eqb (key (fst p)) s) psi) + acc) 0 O == weight psi)%Q.
  Proof.
    intros ND. induction psi as [|p r IH]; intros Hin; simpl.
    - clear. induction O; simpl. reflexivity. rewrite IHO. ring.
    - assert (E : (fold_right (fun s acc => weight (filter (fun p0 => vec_eqb (key (fst p0)) s) (p :: r)) + acc) 0 O
                   == fold_right (fun s acc => (if vec_eqb (key (fst p)) s then nrm (snd p) else 0) + acc) 0 O
                      + fold_right (fun s acc => weight (filter (fun p0 => vec_eqb (key (fst p0)) s) r) + acc) 0 O)%Q).
      { clear. induction O as [|a O' IHO]; simpl. ring.
        rewrite IHO. destruct (vec_eqb (key (fst p)) a); simpl; ring. }
      rewrite E, sum_indicator, IH; auto.
      + reflexivity.
      + intros q Hq. apply Hin. now right.
      + apply Hin. now left.
  Qed.

  Theorem weights_sum_norm d M (psi : pstate) :
    (fold_right (fun s acc => weight (project d M s psi) + acc) 0 (outcomes M psi) == weight psi)%Q.
  Proof.
    rewrite <- (partition_weight (select M) (outcomes M psi) psi).
    - clear. induction (outcomes M psi) as [|a r IH]; simpl. reflexivity.
      rewrite IH, weight_project. reflexivity.
    - apply vnodup_NoDup.
    - intros p Hp. apply outcomes_In. eauto.
  Qed.

  (* ---- one measurement from the full register, and the two-step / joint comparison *)
  Notation pbranch := (pbranch A).
  Notation measure_seq := (measure_seq A nrm).
  Notation pinitial := (pinitial A).

  Lemma index_of_seq m d : m < d -> index_of m (seq 0 d) = m.
  Proof.
    intros H. pose proof (index_of_nth (seq 0 d) m (seq_NoDup d 0)) as E.
    rewrite seq_length, seq_nth in E by auto. simpl in E. auto.
  Qed.

  Lemma remap_seq d L : Forall (fun m => m < d) L -> remap_modes (seq 0 d) L = L.
  Proof.
    intros H. unfold remap_modes. rewrite <- (map_id L) at 2. apply map_ext_in. intros m Hm.
    rewrite Forall_forall in H. now apply index_of_seq, H.
  Qed.

  Lemma delete_seq d L : Forall (fun m => m < d) L ->
    delete_modes_from_active (seq 0 d) L = aux L d.
  Proof.
    intros H. rewrite <- (remap_seq d L H) at 1. rewrite delete_active_spec. reflexivity.
    intros m Hm. rewrite Forall_forall in H. apply in_seq. specialize (H m Hm). lia.
  Qed.

  (* the branch that measure_branch produces for the outcome s *)
  Definition child (L : list nat) (b : pbranch) (s : vec) : pbranch :=
    let reg := pb_reg A b in
    let M := remap_modes reg L in
    let phi' := project (length reg) M s (pb_phi A b) in
    mkPB A (pb_out A b ++ s) phi' ((pb_scale A b * weight phi') * pb_freq A b)%Q
         (delete_modes_from_active reg M) (pb_scale A b / (pb_scale A b * weight phi'))%Q.

  Lemma measure_branch_In L b x :
    In x (measure_branch A nrm L b) <->
    exists s, In s (outcomes (remap_modes (pb_reg A b) L) (pb_phi A b)) /\ x = child L b s.
  Proof.
    unfold measure_branch, child. rewrite in_map_iff.
    split; intros (s & H1 & H2); exists s; split; auto.
  Qed.

  Definition init_branch (d : nat) (psi : pstate) : pbranch := mkPB A [] psi 1%Q (seq 0 d) 1%Q.

  Lemma measure_initial_In d L (psi : pstate) x :
    Forall (fun m => m < d) L ->
    In x (measure_seq [L] (pinitial d psi)) <->
    exists s, In s (outcomes L psi) /\ x = child L (init_branch d psi) s.
  Proof.
    intros H. unfold ProjectModel.measure_seq, ProjectModel.pinitial, measure. simpl.
    rewrite app_nil_r. fold (init_branch d psi). rewrite measure_branch_In. simpl.
    now rewrite remap_seq by auto.
  Qed.

  (* DESIGN theorem 6: sequential = joint.  Every branch obtained by measuring L1 and then L2
     is a branch of the joint measurement of L1 ++ L2 with the same outcome tuple, the same
     vector, an equal scale (hence the same state), the same register and an equal weight
     -- and conversely.  L1, L2: any disjoint lists of modes below d, in any order; the
     state need NOT be normalised. *)
  Definition same_branch (b b' : pbranch) : Prop :=
    pb_out A b = pb_out A b' /\ pb_phi A b = pb_phi A b' /\ (pb_freq A b == pb_freq A b')%Q /\
    pb_reg A b = pb_reg A b' /\ (pb_scale A b == pb_scale A b')%Q.

  Lemma two_step_In d L1 L2 (psi : pstate) x :
    Forall (fun m => m < d) L1 ->
    In x (measure_seq [L1; L2] (pinitial d psi)) <->
    exists s1 s2, In s1 (outcomes L1 psi) /\
      In s2 (outcomes (remap_modes (aux L1 d) L2) (project d L1 s1 psi)) /\
      x = child L2 (child L1 (init_branch d psi) s1) s2.
  Proof.
    intros H1.
    change (measure_seq [L1; L2] (pinitial d psi))
      with (measure A nrm L2 (measure_seq [L1] (pinitial d psi))).
    unfold measure. rewrite in_flat_map.
    assert (R : forall s1, pb_reg A (child L1 (init_branch d psi) s1) = aux L1 d).
    { intros s1. simpl. now rewrite remap_seq, delete_seq by auto. }
    assert (P : forall s1, pb_phi A (child L1 (init_branch d psi) s1) = project d L1 s1 psi).
    { intros s1. simpl. now rewrite remap_seq, seq_length by auto. }
    split.
    - intros (b1 & Hb1 & Hb). apply measure_initial_In in Hb1; auto.
      destruct Hb1 as (s1 & Hs1 & ->). apply measure_branch_In in Hb.
      destruct Hb as (s2 & Hs2 & ->). rewrite R, P in Hs2. exists s1, s2. auto.
    - intros (s1 & s2 & Hs1 & Hs2 & ->).
      exists (child L1 (init_branch d psi) s1). split.
      + apply measure_initial_In; auto. exists s1. auto.
      + apply measure_branch_In. exists s2. rewrite R, P. auto.
  Qed.

  Lemma outcomes_split d L1 L2 (psi : pstate) s :
    incl L2 (aux L1 d) ->
    In s (outcomes (L1 ++ L2) psi) <->
    exists s1 s2, s = s1 ++ s2 /\ In s1 (outcomes L1 psi) /\
                  In s2 (outcomes (remap_modes (aux L1 d) L2) (project d L1 s1 psi)).
  Proof.
    intros Hin.
    assert (S1 : forall v, select (remap_modes (aux L1 d) L2) (select (aux L1 d) v) = select L2 v).
    { intros v. rewrite select_select by (now apply remap_lt).
      change (map (fun i => nth i (aux L1 d) 0) (remap_modes (aux L1 d) L2))
        with (remap_modes_inverse (aux L1 d) (remap_modes (aux L1 d) L2)).
      now rewrite remap_inverse. }
    rewrite outcomes_In. split.
    - intros (p & Hp & <-). exists (select L1 (fst p)), (select L2 (fst p)). split; [apply select_app|]. split.
      + apply outcomes_In. eauto.
      + apply outcomes_In. exists (select (aux L1 d) (fst p), snd p). split; [|apply S1].
        unfold ProjectModel.project. apply in_map_iff. exists p. split; auto.
        apply filter_In. split; auto. apply vec_eqb_refl.
    - intros (s1 & s2 & -> & Hs1 & Hs2). apply outcomes_In in Hs2. destruct Hs2 as (q & Hq & <-).
      unfold ProjectModel.project in Hq. apply in_map_iff in Hq. destruct Hq as (p & <- & Hp).
      apply filter_In in Hp. destruct Hp as [Hp E]. apply vec_eqb_eq in E. exists p. split; auto.
      simpl. now rewrite S1, select_app, E.
  Qed.

  Theorem sequential_eq_joint d L1 L2 (psi : pstate) :
    positive psi ->
    Forall (fun m => m < d) L1 -> incl L2 (aux L1 d) ->
    (forall b, In b (measure_seq [L1; L2] (pinitial d psi)) ->
               exists b', In b' (measure_seq [L1 ++ L2] (pinitial d psi)) /\ same_branch b b') /\
    (forall b', In b' (measure_seq [L1 ++ L2] (pinitial d psi)) ->
                exists b, In b (measure_seq [L1; L2] (pinitial d psi)) /\ same_branch b b').
  Proof.
    intros P H1 H2.
    assert (H12 : Forall (fun m => m < d) (L1 ++ L2)).
    { apply Forall_app. split; auto. apply Forall_forall. intros m Hm. apply H2, aux_In in Hm. lia. }
    assert (SB : forall s1 s2, In s1 (outcomes L1 psi) ->
                 In s2 (outcomes (remap_modes (aux L1 d) L2) (project d L1 s1 psi)) ->
                 same_branch (child L2 (child L1 (init_branch d psi) s1) s2)
                             (child (L1 ++ L2) (init_branch d psi) (s1 ++ s2))).
    { intros s1 s2 Hs1 Hs2.
      assert (Hl : length s1 = length L1).
      { apply outcomes_In in Hs1. destruct Hs1 as (p & _ & <-). apply select_length. }
      assert (W1 : (0 < weight (project d L1 s1 psi))%Q).
      { apply weight_pos. now apply positive_project. now apply project_nonempty. }
      assert (W12 : (0 < weight (project (length (aux L1 d)) (remap_modes (aux L1 d) L2) s2 (project d L1 s1 psi)))%Q).
      { apply weight_pos. apply positive_project. now apply positive_project. now apply project_nonempty. }
      unfold same_branch, child. simpl.
      rewrite !remap_seq, !delete_seq, !seq_length by auto.
      rewrite <- project_project in * by auto.
      set (w1 := weight (project d L1 s1 psi)) in *.
      set (w12 := weight (project (length (aux L1 d)) (remap_modes (aux L1 d) L2) s2 (project d L1 s1 psi))) in *.
      assert (N1 : ~ (w1 == 0)%Q) by (intros E; rewrite E in W1; now apply Qlt_irrefl in W1).
      assert (N12 : ~ (w12 == 0)%Q) by (intros E; rewrite E in W12; now apply Qlt_irrefl in W12).
      split; [reflexivity|]. split; [reflexivity|]. split; [|split].
      - field. auto.
      - rewrite delete_active_spec by auto. apply filter_aux.
      - field. auto. }
    split.
    - intros b Hb. apply two_step_In in Hb; auto. destruct Hb as (s1 & s2 & Hs1 & Hs2 & ->).
      eexists. split; [|apply SB; eauto].
      apply measure_initial_In; auto. exists (s1 ++ s2). split; auto.
      apply (outcomes_split d); auto. exists s1, s2. auto.
    - intros b' Hb'. apply measure_initial_In in Hb'; auto. destruct Hb' as (s & Hs & ->).
      apply (outcomes_split d) in Hs; auto. destruct Hs as (s1 & s2 & -> & Hs1 & Hs2).
      eexists. split; [|apply SB; eauto].
      apply two_step_In; auto. exists s1, s2. auto.
  Qed.

  (* the weights of the branches of one measurement sum to (squared norm of the measured
     state) x (weight of the branch): for ANY branch -- unnormalised preparation, state left
     by a post-selection, anything *)
  Theorem measure_branch_weights_sum L (b : pbranch) :
    (sumQ (map (pb_freq A) (measure_branch A nrm L b)) == branch_norm A nrm b * pb_freq A b)%Q.
  Proof.
    unfold measure_branch, branch_norm. rewrite map_map. simpl.
    rewrite <- (weights_sum_norm (length (pb_reg A b)) (remap_modes (pb_reg A b) L) (pb_phi A b)).
    induction (outcomes (remap_modes (pb_reg A b) L) (pb_phi A b)) as [|s r IH]; simpl.
    - ring.
    - rewrite IH. ring.
  Qed.

  (* in particular the exact weights of a measurement of the initial state sum to its squared
     norm (to 1 only if it is normalised) *)
  Theorem exact_weights_sum d L (psi : pstate) :
    (sumQ (map (pb_freq A) (measure_seq [L] (pinitial d psi))) == weight psi)%Q.
  Proof.
    unfold ProjectModel.measure_seq, ProjectModel.pinitial, measure. simpl. rewrite app_nil_r.
    rewrite measure_branch_weights_sum. unfold branch_norm. simpl. ring.
  Qed.

  (* a post-selection keeps the scale and the weight of the branch: the norm it removes is
     seen by the next measurement *)
  Theorem postselect_keeps_scale L counts (b : pbranch) x :
    In x (postselect_branch A L counts b) ->
    pb_scale A x = pb_scale A b /\ pb_freq A x = pb_freq A b /\ pb_out A x = pb_out A b.
  Proof. intros [<-|[]]. simpl. auto. Qed.
End ProjectiveProofs.
