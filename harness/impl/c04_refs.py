"""C04: defining sums computed exactly in Python (fractions / integers), generators for the
hafnian, Pfaffian and torontonian streams, and the comparison of those kernels.
Imported by harness/props/c04.py (not an implementation runner)."""
import itertools
import json
import math
from fractions import Fraction
from functools import lru_cache


# ------------------------------------------------------------------ Gaussian integers as pairs
def gmul(a, b):
    return (a[0] * b[0] - a[1] * b[1], a[0] * b[1] + a[1] * b[0])


def gadd(a, b):
    return (a[0] + b[0], a[1] + b[1])


def gscale(k, a):
    return (k * a[0], k * a[1])


def perm_ref(M, rows, cols):
    """permanent of M with row i repeated rows[i] times and column j repeated cols[j] times:
    sum over the bijections of the expanded matrix, organised as an expansion over the expanded
    rows with the remaining column multiplicities as state (exact)."""
    exp_rows = [i for i, r in enumerate(rows) for _ in range(r)]
    if len(exp_rows) != sum(cols):
        raise ValueError("totals differ")
    A = [[(int(x[0]), int(x[1])) for x in row] for row in M]
    memo = {}

    def f(pos, c):
        if pos == len(exp_rows):
            return (1, 0)
        key = (pos, c)
        if key in memo:
            return memo[key]
        i = exp_rows[pos]
        acc = (0, 0)
        for j, cj in enumerate(c):
            if cj:
                c2 = c[:j] + (cj - 1,) + c[j + 1:]
                acc = gadd(acc, gscale(cj, gmul(A[i][j], f(pos + 1, c2))))
        memo[key] = acc
        return acc

    v = f(0, tuple(cols))
    return (Fraction(v[0]), Fraction(v[1]))


def laplace_ref(M, rows, cols):
    """entry j = permanent with one copy of column j removed (None where cols[j] = 0);
    the kernel returns the single entry [1] when there is nothing to expand"""
    if len(M) == 0 or len(cols) == 0 or sum(rows) == 0 or sum(cols) == 0:
        return [(Fraction(1), Fraction(0))]
    out = []
    for j, cj in enumerate(cols):
        if cj == 0:
            out.append(None)
        else:
            c2 = list(cols)
            c2[j] -= 1
            out.append(perm_ref(M, rows, c2))
    return out


def haf_ref(M, occ, diag=None):
    """hafnian (diag None) / loop hafnian of the matrix expanded by the occupation numbers:
    sum over perfect matchings (with loops of weight diag[i])"""
    A = [[(int(x[0]), int(x[1])) for x in row] for row in M]
    D = None if diag is None else [(int(x[0]), int(x[1])) for x in diag]
    memo = {}

    def f(c):
        if sum(c) == 0:
            return (1, 0)
        if c in memo:
            return memo[c]
        i = next(k for k, x in enumerate(c) if x)
        c1 = c[:i] + (c[i] - 1,) + c[i + 1:]
        acc = (0, 0)
        if D is not None:
            acc = gmul(D[i], f(c1))
        for j, cj in enumerate(c1):
            if cj:
                c2 = c1[:j] + (cj - 1,) + c1[j + 1:]
                acc = gadd(acc, gscale(cj, gmul(A[i][j], f(c2))))
        memo[c] = acc
        return acc

    if sum(occ) % 2 and D is None:
        return (Fraction(0), Fraction(0))
    v = f(tuple(occ))
    return (Fraction(v[0]), Fraction(v[1]))


def pf_ref(M):
    n = len(M)
    if n % 2:
        return Fraction(0)

    def f(av):
        if not av:
            return 1
        i, rest = av[0], av[1:]
        s = 0
        for k, j in enumerate(rest):
            if M[i][j]:
                s += (-1) ** k * M[i][j] * f(rest[:k] + rest[k + 1:])
        return s

    return Fraction(f(tuple(range(n))))


def det_frac(B):
    n = len(B)
    B = [row[:] for row in B]
    d = Fraction(1)
    for k in range(n):
        p = next((i for i in range(k, n) if B[i][k] != 0), None)
        if p is None:
            return Fraction(0)
        if p != k:
            B[k], B[p] = B[p], B[k]
            d = -d
        d *= B[k][k]
        for i in range(k + 1, n):
            f = B[i][k] / B[k][k]
            if f:
                for j in range(k, n):
                    B[i][j] -= f * B[k][j]
    return d


def tor_terms(M, y=None):
    """per mode subset Z: (N-|Z|, det(I-A_Z), y_Z^T (I-A_Z)^{-1} y_Z) exactly (xpxp ordering)"""
    n = len(M) // 2
    out = []
    for k in range(n + 1):
        for Z in itertools.combinations(range(n), k):
            idx = [i for m in Z for i in (2 * m, 2 * m + 1)]
            B = [[(1 if i == j else 0) - M[i][j] for j in idx] for i in idx]
            d = det_frac(B)
            q = Fraction(0)
            if y is not None and idx:
                Bb = [B[a] + [y[idx[a]]] for a in range(len(idx))] + [[y[i] for i in idx] + [Fraction(0)]]
                q = -det_frac(Bb) / d
            out.append((n - k, d, q))
    return out


def tor_value(terms):
    """sum (-1)^(N-|Z|) exp(q/2) / sqrt(det): the only inexact step (float sqrt/exp of exact rationals,
    accumulated with fsum)"""
    return math.fsum(((-1) ** s) * math.exp(float(q) / 2) / math.sqrt(float(d)) for s, d, q in terms)


def compositions_upto(d, total):
    """all vectors of d non-negative integers with sum <= total"""
    if d == 0:
        return [()]
    out = []
    for x in range(total + 1):
        for rest in compositions_upto(d - 1, total - x):
            out.append((x,) + rest)
    return out


def check_integer_bookkeeping(chk, impl, mo_cases, kept_cases, corr_broken, header):
    """exact tie of utils.match_occupation_numbers / get_kept_edges with C04/HafModel.v, and the
    property stated directly on the implementation (incidences reproduce the occupation vector,
    the kept-edge vectors are every sub-multiset exactly once)"""
    from common import coq_eval_parallel

    def nl(v):
        return "[" + "; ".join(str(int(x)) for x in v) + "]"
    imports = header + ("From PV Require Import Base.CasesLib C04.PermModel C04.HafModel.\n"
                        "Close Scope Z_scope.\nOpen Scope nat_scope.\n"
                        "Definition nl_eqb := list_eqb Nat.eqb.\n"
                        "Definition ok (x : list nat * list nat * list nat) : bool :=\n"
                        "  let '(occ, reps, idx) := x in\n"
                        "  match match_occupation_numbers occ with\n"
                        "  | MoOk es _ => nl_eqb (mo_reps es) reps && nl_eqb (mo_indices es) idx\n"
                        "  | _ => false end.\n"
                        "Definition okk (x : list nat * list (list nat)) : bool :=\n"
                        "  let '(reps, ks) := x in\n"
                        "  list_eqb nl_eqb (map (get_kept_edges reps) (seq 0 (fold_right Nat.mul 1 (map S reps)))) ks.\n")
    bad_impl = 0
    items = []
    for occ, r in zip(mo_cases, impl["mo"]):
        if "err" in r:
            chk.violation("C04:match_occupation_numbers:exception", r["err"][:120], {"occupation_numbers": occ})
            items.append("(%s, [], [])" % nl(occ))
            continue
        items.append("(%s, %s, %s)" % (nl(occ), nl(r["reps"]), nl(r["idx"])))
        # direct statement: incidences (+ at most one unmatched particle) give back the occupation
        inc = [0] * len(occ)
        for k, rep in enumerate(r["reps"]):
            inc[r["idx"][2 * k]] += rep
            inc[r["idx"][2 * k + 1]] += rep
        rest = [o - i for o, i in zip(occ, inc)]
        if min(rest, default=0) < 0 or sum(rest) != sum(occ) % 2 or any(x <= 0 for x in r["reps"][:-1] if len(occ) > 1):
            bad_impl += 1
            chk.violation("C04:match_occupation_numbers:incidence", "the edges do not reproduce the occupation numbers",
                          {"occupation_numbers": occ, "edge_reps": r["reps"], "edge_indices": r["idx"]})
    kitems = []
    for reps, r in zip(kept_cases, impl["kept"]):
        if isinstance(r, dict):
            chk.violation("C04:get_kept_edges:exception", r["err"][:120], {"edge_reps": reps})
            continue
        kitems.append("(%s, [%s])" % (nl(reps), "; ".join(nl(k) for k in r)))
        import itertools
        want = sorted(itertools.product(*[range(x + 1) for x in reps]))
        if sorted(tuple(k) for k in r) != want:
            chk.violation("C04:get_kept_edges:enumeration", "the kept-edge vectors are not every sub-multiset exactly once",
                          {"edge_reps": reps})
    nch = 4
    bodies = []
    for k in range(nch):
        bodies.append(imports + "Definition cases := [%s].\nEval vm_compute in map Z.of_nat (mismatches_nat ok cases).\n"
                      % ";\n".join(items[k::nch]))
    bodies.append(imports + "Definition kcases := [%s].\nEval vm_compute in map Z.of_nat (mismatches_nat okk kcases).\n" % ";\n".join(kitems))
    mm = ("Fixpoint mm_from {X} (f : X -> bool) (i : nat) (l : list X) : list nat :=\n"
          "  match l with [] => [] | a :: r => if f a then mm_from f (S i) r else i :: mm_from f (S i) r end.\n"
          "Definition mismatches_nat {X} (f : X -> bool) (l : list X) := mm_from f 0 l.\n")
    bodies = [b.replace("Definition nl_eqb", mm + "Definition nl_eqb", 1) for b in bodies]
    outs = coq_eval_parallel("c04_mo", bodies, timeout=1200, jobs=4)
    import re
    n_bad = 0
    for k, o in enumerate(outs):
        m = re.search(r"=\s*(\[[^:]*\]|nil)\s*:\s*list Z", o, re.S)
        idxs = [int(x) for x in re.findall(r"\d+", m.group(1).replace("%Z", ""))] if m else [-1]
        for t in idxs:
            n_bad += 1
            if k < nch:
                j = k + t * nch if t >= 0 else -1
                corr_broken.append("match_occupation_numbers: model != implementation at occupation %s" % (mo_cases[j] if j >= 0 else "?"))
            else:
                corr_broken.append("get_kept_edges: model != implementation at edge_reps %s" % (kept_cases[t] if t >= 0 else "?"))
    chk.stream("hafnian reduction bookkeeping: utils.match_occupation_numbers on every occupation vector with total <= 8 on <= 6 modes and "
               "utils.get_kept_edges on every index of every repetition vector with total <= 4 on <= 5 edges, exact vs C04/HafModel.v",
               len(mo_cases) + sum(len(r) for r in impl["kept"] if not isinstance(r, dict)),
               sum(1 for o in mo_cases if sum(o) >= 2 and len(o) >= 2), exhaustive=True,
               samples=[{"occupation_numbers": mo_cases[-7], "edge_reps": impl["mo"][-7].get("reps"), "edge_indices": impl["mo"][-7].get("idx")}])


# ------------------------------------------------------------------ generators
def sym_gauss(rng, n, real_only=False):
    M = [[[0, 0] for _ in range(n)] for _ in range(n)]
    for i in range(n):
        for j in range(i, n):
            x = [rng.randint(-3, 3), 0 if real_only else rng.randint(-3, 3)]
            M[i][j] = x
            M[j][i] = list(x)
    return M


# matrix rescaled by 2^(2m), loop diagonal by 2^m: haf, lhaf scale exactly by 2^(m*n);
# 2^(2m) runs over about 1.5e-8 .. 4e3
HAF_SCALE_M = (-13, -11, -10, -9, -8, -6, -5, -3, -1, 1, 3, 5, 6)
SYM_SPARSE = ("zero-row-col", "block-diagonal", "zero-diagonal", "random-mask", "diagonal-only")


def sym_sparsify(rng, M, kind):
    n = len(M)
    M = [[list(x) for x in row] for row in M]
    if n < 2:
        return M
    def z(i, j):
        M[i][j] = [0, 0]
        M[j][i] = [0, 0]
    if kind == "zero-row-col":
        i = rng.randrange(n)
        for j in range(n):
            z(i, j)
    elif kind == "block-diagonal":
        a = max(1, n // 2)
        for i in range(n):
            for j in range(n):
                if (i < a) != (j < a):
                    z(i, j)
    elif kind == "zero-diagonal":
        for i in range(n):
            z(i, i)
    elif kind == "random-mask":
        for i in range(n):
            for j in range(i, n):
                if rng.random() < 0.5:
                    z(i, j)
    elif kind == "diagonal-only":
        for i in range(n):
            for j in range(n):
                if i != j:
                    z(i, j)
    return M


def py_edge_count(occ):
    """number of distinct edges chosen by utils.py:match_occupation_numbers (pure Python port,
    used only to steer the generator to both sides of the `reduced dimension <= 10` branch;
    the implementation's own count is recorded by the runner)"""
    nvec = list(occ)
    if len(nvec) == 1:
        return 1
    edges = 0
    while sum(nvec) > 1:
        order = sorted(range(len(nvec)), key=lambda i: nvec[i])
        a, b_ = order[-1], order[-2]
        if nvec[a] // 2 > nvec[b_]:
            nvec[a] -= 2 * (nvec[a] // 2)
        else:
            nvec[a] -= nvec[b_]
            nvec[b_] = 0
        edges += 1
    return edges


def haf_payload(c):
    """what is sent to the implementation: entries rescaled exactly"""
    m = c.get("m")
    out = {k: c[k] for k in ("kind", "occ", "prec", "strided", "via", "cutoff") if k in c}
    sm, sd = (2.0 ** (2 * m), 2.0 ** m) if m is not None else (1, 1)
    out["M"] = [[[x[0] * sm, x[1] * sm] for x in row] for row in c["M"]]
    if "diag" in c:
        out["diag"] = [[x[0] * sd, x[1] * sd] for x in c["diag"]]
    return out


def real_payload(c):
    out = {k: c[k] for k in ("kind", "prec", "strided", "via", "y") if k in c}
    if c["kind"] == "pf" and "e" in c:
        sc = 2.0 ** c["e"]
        out["M"] = [[x * sc for x in row] for row in c["M"]]
    else:
        out["M"] = c["M"]
    return out


def gen_haf_cases(rng, thorough):
    cases = []
    n_each = 60 if thorough else 16
    occs_fixed = [[1, 1], [2, 2], [0, 2], [1, 1, 1, 1], [2, 0, 2], [3, 1], [0, 0], [1, 0], [1, 2], [4], [1, 1, 1, 1, 1, 1],
                  [2, 2, 2], [3, 3], [1, 3, 2, 0], [6, 0, 2], [2, 1, 1]]

    def add(kind, M, occ, diag, prec, t, **kw):
        cases.append(dict({"kind": kind, "M": M, "occ": occ, "diag": diag, "prec": prec, "strided": t % 3 == 1}, **kw))

    for t in range(n_each):
        if t < len(occs_fixed):
            occ = occs_fixed[t]
        else:
            d = rng.randint(1, 6)
            occ = [0] * d
            for _ in range(rng.randint(0, 8 if d > 3 else 10)):
                occ[rng.randrange(d)] += 1
        d = len(occ)
        M = sym_gauss(rng, d, rng.random() < 0.2)
        diag = [[rng.randint(-3, 3), rng.randint(-3, 3)] for _ in range(d)]
        kw = {}
        if t % 3 == 2 and d >= 2:
            kw["sparse"] = SYM_SPARSE[(t // 3) % len(SYM_SPARSE)]
            M = sym_sparsify(rng, M, kw["sparse"])
        if t % 4 == 3:
            # loop weights with exact zeros in a random subset of positions
            for i in range(d):
                if rng.random() < 0.5:
                    diag[i] = [0, 0]
            kw["diag_zeros"] = sum(1 for x in diag if x == [0, 0])
        n = sum(occ)
        for kind in ("haf", "lhaf"):
            add(kind, M, occ, diag, "d", t, via="connector" if t % 4 == 0 else "module", **kw)
            # rescaled copies: small and large scales, few distinct edges here (reduced dimension <= 10)
            ms = [m for m in HAF_SCALE_M if abs(m) * max(1, n) <= 400]
            if n > 0 and ms:
                add(kind, M, occ, diag, "d", t + 1, m=rng.choice([m for m in ms if m < -7] or ms), **kw)
                add(kind, M, occ, diag, "d", t + 2, m=rng.choice(ms), **kw)
            if t % 2 == 0:
                mf = [m for m in HAF_SCALE_M if abs(m) * max(1, n) <= 50]
                add(kind, M, occ, diag, "f", t + 2, **dict(kw, **({"m": rng.choice(mf)} if (mf and t % 4 == 0 and n) else {})))
    # plain hafnians of dimension up to 8 (all occupations 1) and high-repetition patterns
    for n in (2, 4, 6, 8):
        M = sym_gauss(rng, n)
        diag = [[rng.randint(-2, 2), rng.randint(-2, 2)] for _ in range(n)]
        for kind in ("haf", "lhaf"):
            add(kind, M, [1] * n, diag, "d", 0)
            add(kind, M, [1] * n, diag, "d", 0, m=rng.choice(HAF_SCALE_M))
    for occ in ([10, 10], [7, 9, 4], [20, 0], [12]) if thorough else ([6, 6], [5, 4, 3]):
        M = sym_gauss(rng, len(occ), True)
        diag = [[rng.randint(-1, 1), 0] for _ in occ]
        for kind in ("haf", "lhaf"):
            add(kind, M, occ, diag, "d", 0, cls="high")
            add(kind, M, occ, diag, "d", 0, cls="high", m=rng.choice([m for m in HAF_SCALE_M if abs(m) * sum(occ) <= 400]))
    # occupations with MORE than 5 distinct edges (reduced dimension > 10: the kernels first
    # normalise the matrix): 8 modes inside the property's range, and 12..13 singly occupied
    # modes (beyond dimension 8, same code path) -- unscaled and rescaled
    many = []
    tries = 0
    while len(many) < (4 if thorough else 2) and tries < 4000:
        tries += 1
        occ = [rng.randint(1, 6) for _ in range(8)]
        if sum(occ) % 2 == 0 and sum(occ) <= 26 and py_edge_count(occ) >= 6:
            many.append(occ)
    many += [[1] * 12] + ([[1] * 13 + [1]] if thorough else [])
    for occ in many:
        d = len(occ)
        M = sym_gauss(rng, d, True)
        # keep the magnitudes moderate: entries in {-1, 0, 1} plus a few 2s
        M = [[[max(-2, min(2, x[0])), 0] for x in row] for row in M]
        diag = [[rng.randint(-1, 1), 0] for _ in range(d)]
        for kind in ("haf", "lhaf"):
            add(kind, M, occ, diag, "d", 0, cls="many-edges")
            add(kind, M, occ, diag, "d", 0, cls="many-edges", m=rng.choice([m for m in HAF_SCALE_M if abs(m) * sum(occ) <= 400 and m < -4]))
    # batched variants: entry i is the value with occupation[-1] = i
    for t in range(12 if thorough else 4):
        d = rng.randint(2, 4)
        occ = [rng.randint(0, 3) for _ in range(d)]
        occ[-1] = 0
        M = sym_gauss(rng, d)
        diag = [[rng.randint(-2, 2), rng.randint(-2, 2)] for _ in range(d)]
        kw = {}
        if t % 2 == 1:
            kw["sparse"] = SYM_SPARSE[t % len(SYM_SPARSE)]
            M = sym_sparsify(rng, M, kw["sparse"])
        cut = rng.randint(1, 7)
        for mm in (None, rng.choice([m for m in HAF_SCALE_M if abs(m) * (sum(occ) + cut) <= 300])):
            km = dict(kw, **({} if mm is None else {"m": mm}))
            cases.append(dict({"kind": "haf_batch", "M": M, "occ": occ, "cutoff": cut, "prec": "d", "strided": False}, **km))
            cases.append(dict({"kind": "lhaf_batch", "M": M, "occ": occ, "diag": diag, "cutoff": cut, "prec": "d", "strided": False}, **km))
    return cases


PF_SCALE_E = (-27, -20, -17, -13, -7, -3, 3, 7, 13)


def gen_real_cases(rng, thorough):
    cases = []
    # Pfaffian: integer antisymmetric matrices, n <= 8 (odd n, singular leading blocks, structured
    # zeros: pivoting and the early `element == 0` exit key on exact zeros), unscaled and rescaled
    for t in range(80 if thorough else 24):
        n = [0, 1, 2, 3, 4, 4, 6, 6, 8, 8, 5, 7][t % 12]
        M = [[0] * n for _ in range(n)]
        for i in range(n):
            for j in range(i + 1, n):
                x = rng.randint(-3, 3)
                if t % 5 == 3 and j == i + 1 and i % 2 == 0:
                    x = 0          # zero on the first super-diagonal: pivoting needed
                M[i][j], M[j][i] = x, -x
        kw = {}
        if t % 4 == 2 and n >= 4:
            kind = ("block-diagonal", "zero-row-col", "random-mask")[(t // 4) % 3]
            kw["sparse"] = kind
            a = n // 2 if kind == "block-diagonal" else rng.randrange(n)
            for i in range(n):
                for j in range(n):
                    if (kind == "block-diagonal" and (i < a) != (j < a)) or (kind == "zero-row-col" and a in (i, j)) \
                            or (kind == "random-mask" and rng.random() < 0.4):
                        M[i][j] = 0
                        M[j][i] = 0
        for prec in ("d", "f"):
            cases.append(dict({"kind": "pf", "M": M, "prec": prec, "strided": t % 3 == 1, "via": "connector" if t % 4 == 0 else "module"}, **kw))
        if n >= 2:
            es = [e for e in PF_SCALE_E if abs(e) * n // 2 <= (60 if t % 2 else 400)]
            cases.append(dict({"kind": "pf", "M": M, "prec": "f" if t % 2 else "d", "strided": False, "e": rng.choice(es)}, **kw))
    # torontonians: symmetric dyadic matrices with I - A diagonally dominant (positive definite);
    # also rescaled towards zero, block-diagonal (decoupled modes), and displacement vectors with
    # every pattern of exactly-zero entries (the forward substitution skips on exact zeros)
    def tor_matrix(nm, coupling=True):
        n = 2 * nm
        M = [[Fraction(0)] * n for _ in range(n)]
        for i in range(n):
            for j in range(i, n):
                if not coupling and i // 2 != j // 2:
                    continue
                lim = 24 if i == j else max(1, 30 // max(1, n - 1))
                M[i][j] = M[j][i] = Fraction(rng.randint(-lim, lim), 64)
        return M

    def emit(M, y, prec, strided, **kw):
        Mf = [[float(x) for x in row] for row in M]
        cases.append(dict({"kind": "tor", "M": Mf, "prec": prec, "strided": strided}, **kw))
        if y is not None:
            cases.append(dict({"kind": "ltor", "M": Mf, "y": [float(v) for v in y], "prec": prec, "strided": strided}, **kw))

    for t in range(40 if thorough else 12):
        nm = [0, 1, 2, 2, 3, 3, 4, 4, 1, 2, 3, 4][t % 12]
        n = 2 * nm
        M = tor_matrix(nm, coupling=(t % 6 != 5))
        y = [Fraction(rng.randint(-32, 32), 32) for _ in range(n)]
        kw = {"sparse": "block-diagonal"} if t % 6 == 5 else {}
        for prec in ("d", "f"):
            emit(M, y, prec, t % 3 == 1, **kw)
        if nm >= 1:
            # rescaled: A * 2^e (e <= 0 keeps I - A positive definite), y * 2^f
            e, f = rng.choice((-20, -13, -10, -7, -3, -1)), rng.choice((-20, -10, -3, 1, 2))
            Ms = [[x * Fraction(2) ** e for x in row] for row in M]
            ys = [v * Fraction(2) ** f for v in y]
            emit(Ms, ys, "d", False, scale=[e, f], **kw)
    # zero patterns of the displacement vector: every subset for 2 modes, a sample for 3 and 4
    for nm, count in ((2, 16), (3, 64 if thorough else 14), (4, 40 if thorough else 8)):
        n = 2 * nm
        M = tor_matrix(nm)
        y = [Fraction(rng.choice([-1, 1]) * rng.randint(4, 32), 32) for _ in range(n)]
        masks = list(range(2 ** n)) if 2 ** n <= count else sorted(rng.sample(range(1, 2 ** n - 1), count))
        for k, mask in enumerate(masks):
            ym = [v if (mask >> i) & 1 else Fraction(0) for i, v in enumerate(y)]
            Mf = [[float(x) for x in row] for row in M]
            cases.append({"kind": "ltor", "M": Mf, "y": [float(v) for v in ym], "prec": "d" if k % 4 else "f",
                          "strided": False, "ymask": mask})
    return cases


def _matchings(n, loops):
    """(n-1)!! perfect matchings, or the number of matchings with loops (involutions)"""
    if not loops:
        r = 1
        for k in range(n - 1, 0, -2):
            r *= k
        return r
    a, b = 1, 1
    for k in range(2, n + 1):
        a, b = b, b + (k - 1) * a
    return b


def _fl(x):
    try:
        return float(x)
    except OverflowError:
        return float("inf") if x > 0 else float("-inf")


def _close_c(got, exact, tol):
    if any(math.isnan(x) or math.isinf(x) for x in got):
        return False
    return abs(Fraction(got[0]) - exact[0]) <= tol and abs(Fraction(got[1]) - exact[1]) <= tol


def check_other_kernels(chk, impl, haf_cases, real_cases, plain_exe, san_exe, run_native, corr_broken, IMPORTS, parse_all_ints, san_key):
    from common import clist, coq_eval_parallel, cz
    notes = chk.notes
    EPS = {"d": 2.0 ** -52, "f": 2.0 ** -23}

    def zi_m(M):
        return clist(M, lambda row: clist(row, lambda x: "(%s,%s)" % (cz(x[0]), cz(x[1]))))

    def nat_list(v):
        return "[" + "; ".join("%d%%nat" % x for x in v) + "]"

    # ------------------------------------------------ hafnians: model (Coq definition) on small cases, reference everywhere
    coq_items, coq_idx, item_keys = [], [], []
    for i, c in enumerate(haf_cases):
        if c["kind"] in ("haf", "lhaf") and sum(c["occ"]) <= 8 and c["prec"] == "d" and "m" not in c:
            if c["kind"] == "haf":
                coq_items.append("Eval vm_compute in zi_list (haf_zi %s %s)." % (zi_m(c["M"]), nat_list(c["occ"])))
            else:
                coq_items.append("Eval vm_compute in zi_list (lhaf_zi %s %s %s)." % (
                    zi_m(c["M"]), clist(c["diag"], lambda x: "(%s,%s)" % (cz(x[0]), cz(x[1]))), nat_list(c["occ"])))
            coq_idx.append(i)
            item_keys.append(("haf", i))
    # Pfaffian and torontonian model values
    pf_idx, tor_idx = [], []
    for i, c in enumerate(real_cases):
        if c["prec"] != "d":
            continue
        if c["kind"] == "pf" and "e" in c:
            continue
        if c["kind"] in ("tor", "ltor") and ("scale" in c or "ymask" in c):
            continue
        if c["kind"] == "pf":
            coq_items.append("Eval vm_compute in [pf_z %s]." % clist(c["M"], lambda r: clist(r)))
            pf_idx.append(i)
            item_keys.append(("pf", i))
        elif len(c["M"]) <= 6:
            def q(x):
                f = Fraction(x)
                return "(%s # %d)" % (cz(f.numerator), f.denominator)
            y = c.get("y") or [0.0] * len(c["M"])
            coq_items.append("Eval vm_compute in enc_tor (tor_q %s %s)." % (clist(c["M"], lambda r: clist(r, q)), clist(y, q)))
            tor_idx.append(i)
            item_keys.append(("tor", i))
    nch = 4
    bodies = [IMPORTS + "\n".join(coq_items[k::nch]) + "\n" for k in range(nch)]
    outs = coq_eval_parallel("c04_defs", bodies, timeout=1800, jobs=4)
    groups = [None] * len(coq_items)
    for k, o in enumerate(outs):
        g = parse_all_ints(o)
        if len(g) != len(coq_items[k::nch]):
            raise RuntimeError("definition output: %d groups for %d items" % (len(g), len(coq_items[k::nch])))
        for t, ints in enumerate(g):
            groups[k + t * nch] = ints
    assert len(item_keys) == len(coq_items)
    model = {key: ints for key, ints in zip(item_keys, groups)}

    # ------------------------------------------------ hafnian family
    n_eval = n_nt = 0
    distinct = set()
    samples = []
    unsupported_f32 = set()
    census = {"reduced_dim<=10": 0, "reduced_dim>10": 0, "pow<=dim": 0, "pow>dim": 0,
              "reduced_norm2<1e-8": 0, "reduced_norm2>=1e-8": 0, "odd_total": 0, "even_total": 0,
              "rescaled": 0, "structured_zeros": 0, "loop_diag_with_zeros": 0, "small_scale_and_few_edges": 0,
              "small_scale_and_many_edges": 0, "float32_out_of_range_skipped": 0}
    for i, (c, r) in enumerate(zip(haf_cases, impl["haf"])):
        if "n_edges" in r:
            census["reduced_dim<=10" if 2 * r["n_edges"] <= 10 else "reduced_dim>10"] += 1
            census["pow>dim" if r["sum_reps"] > 2 * r["n_edges"] else "pow<=dim"] += 1
            census["reduced_norm2<1e-8" if r["red_norm2"] < 1e-8 else "reduced_norm2>=1e-8"] += 1
            if r["red_norm2"] < 1e-8 and r["red_norm2"] > 0:
                census["small_scale_and_few_edges" if 2 * r["n_edges"] <= 10 else "small_scale_and_many_edges"] += 1
        census["odd_total" if sum(c["occ"]) % 2 else "even_total"] += 1
        census["rescaled"] += 1 if "m" in c else 0
        census["structured_zeros"] += 1 if c.get("sparse") else 0
        census["loop_diag_with_zeros"] += 1 if c.get("diag_zeros") else 0
        kind = c["kind"]
        call = {"haf": "hafnian_with_reduction", "lhaf": "loop_hafnian_with_reduction",
                "haf_batch": "hafnian_with_reduction_batch", "lhaf_batch": "loop_hafnian_with_reduction_batch"}[kind]
        wit = {"call": "piquasso._math.hafnian.%s" % call, "matrix": c["M"], "occupation_numbers": c["occ"],
               "diagonal": c.get("diag") if "l" == kind[0] else None, "cutoff": c.get("cutoff"), "precision": c["prec"],
               "strided": c.get("strided"), "via": c.get("via"),
               "rescaled": None if "m" not in c else "matrix * 2^%d, diagonal * 2^%d" % (2 * c["m"], c["m"]),
               "sparsity": c.get("sparse")}
        diag = c.get("diag") if kind.startswith("lhaf") else None
        mexp = c.get("m", 0)
        if kind in ("haf", "lhaf"):
            refs = [haf_ref(c["M"], c["occ"], diag)]
        else:
            refs = []
            for k in range(c["cutoff"]):
                occ = list(c["occ"])
                occ[-1] += k
                refs.append(haf_ref(c["M"], occ, diag))
        n_eval += 1
        nt = len(c["occ"]) >= 4 or max(c["occ"] + [0]) >= 2
        if nt:
            distinct.add((kind, json.dumps(c["M"]), tuple(c["occ"])))
        if ("haf", i) in model:
            mv = model[("haf", i)]
            if (Fraction(mv[0]), Fraction(mv[1])) != refs[0]:
                corr_broken.append("Coq %s definition differs from the Python defining sum at occ=%s" % (kind, c["occ"]))
        if "err" in r and c["prec"] == "f" and "TypingError" in r["err"]:
            unsupported_f32.add(call)
            continue
        if "err" in r:
            chk.violation("C04:%s:exception" % call, "%s raised %s" % (call, r["err"][:120]), dict(wit, error=r["err"], tb=r.get("tb")))
            continue
        got = [r["v"]] if kind in ("haf", "lhaf") else r["v"]
        # magnitude scale: hafnian of the absolute values
        absM = [[[math.hypot(*x), 0] for x in row] for row in c["M"]]
        absD = None if diag is None else [[math.hypot(*x), 0] for x in diag]
        bad = None
        bad_cls = c["prec"]
        if len(got) != len(refs):
            bad = "length %d != %d" % (len(got), len(refs))
        else:
            for k, (gv, rv) in enumerate(zip(got, refs)):
                n = sum(c["occ"]) + (k if len(refs) > 1 else 0)
                # the power-trace algorithm has addends of the size of the hafnian of |A| times 2^(n/2)
                occ = list(c["occ"])
                if len(refs) > 1:
                    occ[-1] += k
                # magnitude scale of the algorithm's addends (not of the matching sum, which vanishes
                # for structured zeros while the Glynn-type terms only cancel): number of matchings
                # (with loops) times the largest weight to the power n/2; homogeneous like the value
                amax = max([math.hypot(*x) for row in c["M"] for x in row] or [0.0])
                dmax = max([math.hypot(*x) for x in diag] or [0.0]) if diag is not None else 0.0
                wmax = max(amax, dmax * dmax)
                S = Fraction(_matchings(n, diag is not None)) * Fraction(wmax) ** ((n + 1) // 2) * Fraction(2) ** (mexp * n)
                S = max(S, Fraction(float(_abs_haf(absM, occ, absD))) * Fraction(2) ** (mexp * n))
                sf = Fraction(2) ** (mexp * n)
                rv = (rv[0] * sf, rv[1] * sf)
                refs[k] = rv
                if c["prec"] == "f" and S != 0 and not (1e-30 < S * 2 ** (n // 2) < 1e30):
                    census["float32_out_of_range_skipped"] += 1
                    continue
                base = Fraction(1, 10 ** 9) if c["prec"] == "d" else Fraction(2, 10 ** 4)
                # relative: base*|v| + 64 n eps S 2^(n/2), S = hafnian of |A| (scales like the value)
                tol = base * (abs(rv[0]) + abs(rv[1])) + Fraction(64 * max(1, n)) * Fraction(EPS[c["prec"]]) * S * 2 ** ((n + 1) // 2)
                if not _close_c(gv, rv, tol):
                    bad = "entry %d: got %s, defining sum %s" % (k, gv, [_fl(rv[0]), _fl(rv[1])])
                    if kind.startswith("lhaf") and n % 2 == 1 and mexp < 0:
                        bad_cls = "odd-total-small-scale"
                    break
        if bad:
            chk.violation("C04:%s:value:%s" % (call, bad_cls), "%s differs from the sum over matchings: %s" % (call, bad),
                          dict(wit, returned=got, failing_entry=bad))
        elif len(samples) < 2 and nt:
            samples.append({"call": call, "occ": c["occ"], "rescaled_m": c.get("m"), "got": got[:2], "exact": [_fl(refs[0][0]), _fl(refs[0][1])]})
    for call in sorted(unsupported_f32):
        notes.append("%s does not accept complex64 input (numba TypingError: complex64/complex128 unification); complex64 is treated as an unsupported precision for it, complex128 is checked" % call)
    chk.stream("hafnian / loop hafnian with reduction (+ batched) vs the sum over matchings (Python fractions; Coq haf_def/lhaf_def agree exactly on the cases with total <= 8)",
               n_eval, len(distinct), samples=samples, kind="search",
               note="branch census of the Python reduction code (cases on each side; reduced dimension = 2 * distinct edges, "
                    "as reported by utils.match_occupation_numbers of the tree under test): " + json.dumps(census))
    for a_, b_ in (("reduced_dim<=10", "reduced_dim>10"), ("pow<=dim", "pow>dim"), ("reduced_norm2<1e-8", "reduced_norm2>=1e-8"),
                   ("small_scale_and_few_edges", "small_scale_and_many_edges")):
        if census[a_] == 0 or census[b_] == 0:
            corr_broken.append("generator quality: no hafnian case on one side of the branch %s / %s" % (a_, b_))

    # ------------------------------------------------ Pfaffian / torontonians: fresh native + shipped
    lines = []
    for c in real_cases:
        sc = 2.0 ** c["e"] if (c["kind"] == "pf" and "e" in c) else 1.0
        toks = [c["kind"], c["prec"], str(len(c["M"]))] + [repr(float(x) * sc) for row in c["M"] for x in row]
        if c["kind"] == "ltor":
            toks += [repr(float(x)) for x in c["y"]]
        lines.append(" ".join(toks))
    nat_out, _ = run_native(plain_exe, lines)
    san_sel = [i for i, c in enumerate(real_cases) if c["prec"] == "d"]
    san_out, san_err = run_native(san_exe, [lines[i] for i in san_sel], san=True)
    san = {i: (o, e) for i, o, e in zip(san_sel, san_out, san_err)}
    n_eval = 0
    distinct = set()
    samples = []
    shipped_div = 0
    rcensus = {"pf_rescaled": 0, "pf_structured_zeros": 0, "tor_rescaled": 0, "tor_block_diagonal": 0,
               "ltor_y_dense": 0, "ltor_y_all_zero": 0, "ltor_y_zero_after_nonzero": 0, "ltor_y_leading_zeros_only": 0}
    for i, (c, r) in enumerate(zip(real_cases, impl["real"])):
        if c["kind"] == "pf":
            rcensus["pf_rescaled"] += 1 if "e" in c else 0
            rcensus["pf_structured_zeros"] += 1 if c.get("sparse") else 0
        else:
            rcensus["tor_rescaled"] += 1 if "scale" in c else 0
            rcensus["tor_block_diagonal"] += 1 if c.get("sparse") else 0
        if c["kind"] == "ltor" and len(c["y"]):
            nz = [v != 0 for v in c["y"]]
            if all(nz):
                rcensus["ltor_y_dense"] += 1
            elif not any(nz):
                rcensus["ltor_y_all_zero"] += 1
            elif any((not nz[k]) and any(nz[:k]) for k in range(len(nz))):
                rcensus["ltor_y_zero_after_nonzero"] += 1
            else:
                rcensus["ltor_y_leading_zeros_only"] += 1
        kind = c["kind"]
        fn = {"pf": "pfaffian_cpp", "tor": "torontonian_cpp", "ltor": "loop_torontonian_cpp"}[kind]
        wit = {"kernel": fn, "matrix": c["M"], "displacement": c.get("y"), "precision": c["prec"], "native_line": lines[i],
               "matrix_rescaled_by_2^e": c.get("e"), "rescaled": c.get("scale"), "sparsity": c.get("sparse"), "y_zero_mask": c.get("ymask")}
        n = len(c["M"])
        n_eval += 1
        if kind == "pf":
            exact = pf_ref(c["M"])
            hs = 2.0 ** (c.get("e", 0) * (n // 2))     # pf(2^e A) = 2^(e n/2) pf(A), exactly
            ref = float(exact) * hs
            amax = max([abs(x) for row in c["M"] for x in row] or [0])
            S = max(float(pf_ref_abs(c["M"])), float(_matchings(n, False)) * float(amax) ** (n // 2)) * hs
            if ("pf", i) in model and Fraction(model[("pf", i)][0]) != exact:
                corr_broken.append("Coq pf_def differs from the Python expansion at %s" % c["M"])
            nt = n >= 4
        else:
            Mq = [[Fraction(x) for x in row] for row in c["M"]]
            yq = [Fraction(x) for x in c["y"]] if kind == "ltor" else None
            terms = tor_terms(Mq, yq)
            ref = tor_value(terms)
            S = math.fsum(abs(math.exp(float(q) / 2) / math.sqrt(float(d))) for s, d, q in terms)
            if ("tor", i) in model:
                ints = model[("tor", i)]
                mt = sorted((ints[k], Fraction(ints[k + 1], ints[k + 2]), Fraction(ints[k + 3], ints[k + 4])) for k in range(0, len(ints), 5))
                pt = sorted((s, d, -q * d) for s, d, q in terms)
                if kind == "tor":
                    mt = [(s, d) for s, d, _ in mt]
                    pt = [(s, d) for s, d, _ in pt]
                if mt != pt:
                    corr_broken.append("Coq tor_data differs from the Python subset determinants at n=%d" % n)
            nt = n >= 4
        if nt:
            distinct.add((kind, json.dumps(c["M"])))
        base = 1e-9 if c["prec"] == "d" else 2e-4
        # relative: base*|v| + 256 n^2 eps S, S = sum of the absolute values of the addends
        tol = base * abs(ref) + 256 * max(1, n) ** 2 * EPS[c["prec"]] * S
        o = nat_out[i].split()
        got = float(o[1]) if o[0] == "ok" else None
        ub = san.get(i, (None, []))[1]
        if ub:
            chk.violation("C04:%s" % san_key(ub), "undefined behaviour in the native kernel %s (sanitizer): %s" % (fn, ub[-1][-200:]), dict(wit, ubsan=ub[:5]))
        ok = got is not None and not math.isnan(got) and abs(got - ref) <= tol
        if not ok:
            chk.violation("C04:%s:value:%s" % (fn, c["prec"]), "%s differs from its defining sum" % fn, dict(wit, returned=got, expected=ref, tolerance=tol))
        if "err" in r:
            notes.append("shipped %s entry point raised %s" % (kind, r["err"][:100]))
        else:
            if not (abs(r["v"] - ref) <= tol) and ok:
                shipped_div += 1
            if not r.get("input_unchanged", True) and kind != "pf":
                chk.violation("C04:piquasso._math.torontonian.%s:input-mutated" % kind, "the entry point changed the caller's array", wit)
        if len(samples) < 2 and nt:
            samples.append({"kernel": fn, "n": n, "native": got, "defining_sum": ref})
    if shipped_div:
        notes.append("shipped pfaffian/torontonian binaries differ from the defining sums where the fresh build is right: %d cases" % shipped_div)
    chk.stream("Pfaffian (first-row expansion, exact), torontonian / loop torontonian (subset sums with exact determinants): fresh native build + shipped binary",
               n_eval, len(distinct), samples=samples, kind="search",
               note="Coq pf_def / tor_data agree exactly with the Python references on every unscaled float64 case (torontonian: <= 3 modes); "
                    "input census: " + json.dumps(rcensus))
    if rcensus["ltor_y_zero_after_nonzero"] == 0 or rcensus["pf_rescaled"] == 0 or rcensus["tor_rescaled"] == 0:
        corr_broken.append("generator quality: a stream of the real kernels is empty: %s" % json.dumps(rcensus))


def _abs_haf(absM, occ, absD):
    """hafnian of the absolute values (floats are fine here: only a magnitude scale)"""
    A = [[x[0] for x in row] for row in absM]
    D = None if absD is None else [x[0] for x in absD]

    @lru_cache(maxsize=None)
    def f(c):
        if sum(c) == 0:
            return 1.0
        i = next(k for k, x in enumerate(c) if x)
        c1 = c[:i] + (c[i] - 1,) + c[i + 1:]
        acc = 0.0
        if D is not None:
            acc = D[i] * f(c1)
        for j, cj in enumerate(c1):
            if cj:
                acc += cj * A[i][j] * f(c1[:j] + (cj - 1,) + c1[j + 1:])
        return acc

    if sum(occ) % 2 and D is None:
        return 0.0
    return f(tuple(occ))


def pf_ref_abs(M):
    return pf_like_abs([[abs(x) for x in row] for row in M])


def pf_like_abs(M):
    n = len(M)
    if n % 2:
        return Fraction(0)

    def f(av):
        if not av:
            return 1
        i, rest = av[0], av[1:]
        return sum(M[i][j] * f(rest[:k] + rest[k + 1:]) for k, j in enumerate(rest) if M[i][j])

    return Fraction(f(tuple(range(n))))
