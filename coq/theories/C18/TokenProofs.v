(* C18 -- re-reading the emitted tokens gives back class, modes and parameter values, for every
   instruction / program whose parameters lie in the rendered-exactly domain. *)
From Coq Require Import ZArith List Bool String Lia.
From PV Require Import C18.TokenModel.
Import ListNotations.

Section P.
Variable F : Type.
Variables (fneg fabs : F -> F) (fis_neg : F -> bool).
(* float(repr(x)) = x for finite floats, at the sign split of the tokenizer *)
Hypothesis float_repr_roundtrip : forall f, fis_neg f = true -> fneg (fabs f) = f.

Notation tok := (tok F).
Notation pval := (pval F).
Notation render := (render F fabs fis_neg).
Notation parse := (parse F fneg).
Notation sepv := (sep F pval render).

(* ---------------------------------------------------------------- induction principle *)
Section Ind.
Variable P : pval -> Prop.
Hypothesis HI : forall z, P (VInt F z).
Hypothesis HB : forall b, P (VBool F b).
Hypothesis HF : forall f, P (VFloat F f).
Hypothesis HS : forall k items, Forall P items -> P (VSeq F k items).
Hypothesis HA : forall dt b, P b -> P (VArr F dt b).
Fixpoint pval_ind' (v : pval) : P v :=
  match v with
  | VInt _ z => HI z
  | VBool _ b => HB b
  | VFloat _ f => HF f
  | VSeq _ k items =>
      HS k items ((fix go (l : list pval) : Forall P l :=
                     match l with
                     | [] => Forall_nil _
                     | x :: r => Forall_cons _ (pval_ind' x) (go r)
                     end) items)
  | VArr _ dt b => HA dt b (pval_ind' b)
  end.
End Ind.

(* ---------------------------------------------------------------- shape of the rendering *)
Lemma render_seq k items :
  render (VSeq F k items) =
  open_of F k :: sepv items ++ (match k, items with Paren, [_] => [TComma F] | _, _ => [] end)
  ++ [close_of F k].
Proof. reflexivity. Qed.

Lemma render_head v k : exists t r, render v = t :: r /\ is_close F k t = false.
Proof.
  destruct v as [z|b|f|k' items|dt body]; simpl.
  - destruct (z <? 0)%Z; eexists; eexists; split; try reflexivity; destruct k; reflexivity.
  - eexists; eexists; split; try reflexivity. destruct k, b; reflexivity.
  - destruct (fis_neg f); eexists; eexists; split; try reflexivity; destruct k; reflexivity.
  - eexists; eexists; split; try reflexivity. destruct k, k'; reflexivity.
  - eexists; eexists; split; try reflexivity. destruct k; reflexivity.
Qed.

Lemma render_nonempty v : (1 <= List.length (render v))%nat.
Proof. destruct (render_head v Paren) as [t [r [E _]]]. rewrite E. simpl. lia. Qed.

Lemma sep_length_ge {A} (r : A -> list tok) (l : list A) :
  (forall x, In x l -> (1 <= List.length (r x))%nat) -> (List.length l <= List.length (sep F A r l))%nat.
Proof.
  induction l as [|x xs IH]; intros H; simpl; auto.
  rewrite app_length. pose proof (H x (or_introl eq_refl)).
  destruct xs as [|y ys]; simpl in *; [lia|].
  assert (S (List.length ys) <= List.length (sep F A r (y :: ys)))%nat by (apply IH; intros; apply H; auto).
  simpl in H1. lia.
Qed.

Lemma sep_elem_length {A} (r : A -> list tok) (l : list A) x :
  In x l -> (List.length (r x) <= List.length (sep F A r l))%nat.
Proof.
  induction l as [|y ys IH]; intros Hin; [destruct Hin|].
  simpl. rewrite app_length. destruct Hin as [->|Hin]; [lia|].
  specialize (IH Hin). destruct ys as [|z zs]; [destruct Hin|]. simpl in *. lia.
Qed.

(* ---------------------------------------------------------------- comma-separated items *)
Lemma items_ok (P : vparser F) k : forall items,
  (forall x, In x items -> forall rest, P (render x ++ rest) = Some (x, rest)) ->
  forall tr, (tr = [] \/ (tr = [TComma F] /\ items <> [])) ->
  forall m rest, (List.length items + List.length tr < m)%nat ->
  items_with F P k m (sepv items ++ tr ++ close_of F k :: rest)
  = Some (items, (Nat.ltb 1 (List.length items) || negb (Nat.eqb (List.length tr) 0))%bool, rest).
Proof.
  assert (Hcc : is_close F k (close_of F k) = true) by (destruct k; reflexivity).
  assert (Hcomma : is_close F k (TComma F) = false) by (destruct k; reflexivity).
  induction items as [|x xs IH]; intros HP tr Htr m rest Hm.
  - destruct Htr as [->|[_ Hne]]; [|congruence].
    destruct m; [simpl in Hm; lia|]. simpl. rewrite Hcc. reflexivity.
  - destruct m as [|m']; [lia|].
    destruct (render_head x k) as [t0 [r0 [E Hc]]].
    pose proof (HP x (or_introl eq_refl)) as HPx.
    assert (IHxs := IH (fun y Hy => HP y (or_intror Hy))).
    destruct xs as [|y ys].
    + (* last item *)
      simpl sep. rewrite app_nil_r.
      destruct Htr as [->|[-> _]].
      * simpl app at 2. specialize (HPx (close_of F k :: rest)).
        rewrite E in *. simpl in *. rewrite Hc, HPx, Hcc. reflexivity.
      * specialize (HPx ([TComma F] ++ close_of F k :: rest)).
        rewrite E in *. simpl in *. rewrite Hc, HPx, Hcomma.
        destruct m' as [|m'']; [lia|]. simpl. rewrite Hcc. reflexivity.
    + change (sepv (x :: y :: ys)) with (render x ++ TComma F :: sepv (y :: ys)).
      rewrite <- app_assoc. simpl app at 2.
      specialize (HPx (TComma F :: sepv (y :: ys) ++ tr ++ close_of F k :: rest)).
      rewrite E in *. simpl app in *.
      cbn [items_with]. rewrite Hc, HPx, Hcomma.
      rewrite (IHxs tr).
      * reflexivity.
      * destruct Htr as [->|[-> _]]; [left; reflexivity|right; split; [reflexivity|discriminate]].
      * simpl in Hm. simpl. lia.
Qed.

(* ---------------------------------------------------------------- values *)
Lemma fold_max_le (items : list pval) x n :
  In x items -> (fold_right (fun y acc => Nat.max (depth F y) acc) O items <= n)%nat -> (depth F x <= n)%nat.
Proof.
  induction items as [|y ys IH]; intros Hin H; [destruct Hin|].
  simpl in H. destruct Hin as [->|Hin]; [lia|]. apply IH; auto. lia.
Qed.

Theorem value_roundtrip : forall v n rest,
  (depth F v <= n)%nat -> parse n (render v ++ rest) = Some (v, rest).
Proof.
  induction v as [z|b|f|k items IH|dt body IH] using pval_ind'; intros n rest Hn;
    (destruct n as [|n']; [simpl in Hn; lia|]).
  - simpl. destruct (z <? 0)%Z; simpl; [rewrite Z.opp_involutive|]; reflexivity.
  - destruct b; reflexivity.
  - simpl. destruct (fis_neg f) eqn:E; simpl; [rewrite float_repr_roundtrip by exact E|]; reflexivity.
  - rewrite render_seq. simpl in Hn. apply le_S_n in Hn.
    assert (HP : forall x, In x items -> forall rest0, parse n' (render x ++ rest0) = Some (x, rest0)).
    { intros x Hx rest0. rewrite Forall_forall in IH. apply IH; auto. eapply fold_max_le; eauto. }
    set (tr := match k, items with Paren, [_] => [TComma F] | _, _ => [] end).
    assert (Htr : tr = [] \/ (tr = [TComma F] /\ items <> [])).
    { unfold tr. destruct k; auto. destruct items as [|x [|y ys]]; auto. right; split; [reflexivity|discriminate]. }
    assert (Hlen : (List.length items <= List.length (sepv items))%nat).
    { apply sep_length_ge. intros; apply render_nonempty. }
    assert (Hs : forall x, k = Paren -> items = [x] -> tr = [TComma F]) by (intros x -> ->; reflexivity).
    clearbody tr.
    rewrite <- app_comm_cons. rewrite <- !app_assoc. simpl app.
    pose proof (items_ok (parse n') k items HP tr Htr
                  (List.length (sepv items ++ tr ++ close_of F k :: rest)) rest) as H.
    rewrite !app_length in H. simpl in H.
    assert (Hm : (List.length items + List.length tr < List.length (sepv items) + (List.length tr + S (List.length rest)))%nat) by lia.
    specialize (H Hm).
    destruct k; simpl open_of; cbn [parse]; rewrite !app_length; simpl List.length; rewrite H.
    + destruct items as [|x [|y ys]]; try reflexivity.
      rewrite (Hs x eq_refl eq_refl). reflexivity.
    + reflexivity.
  - simpl in Hn. apply le_S_n in Hn. simpl render. simpl app.
    rewrite <- !app_assoc. cbn [parse]. rewrite IH by exact Hn.
    destruct dt; reflexivity.
Qed.

Lemma depth_le_length : forall v, (depth F v <= List.length (render v))%nat.
Proof.
  induction v as [z|b|f|k items IH|dt body IH] using pval_ind'.
  - simpl. destruct (z <? 0)%Z; simpl; lia.
  - simpl. lia.
  - simpl. destruct (fis_neg f); simpl; lia.
  - rewrite render_seq. simpl. rewrite !app_length. simpl.
    assert (fold_right (fun x acc => Nat.max (depth F x) acc) O items <= List.length (sepv items))%nat.
    { rewrite Forall_forall in IH. clear - IH.
      induction items as [|x xs IHx]; simpl; [lia|].
      rewrite app_length.
      assert (depth F x <= List.length (render x))%nat by (apply IH; simpl; auto).
      assert (fold_right (fun x acc => Nat.max (depth F x) acc) O xs <= List.length (sepv xs))%nat
        by (apply IHx; intros; apply IH; simpl; auto).
      destruct xs as [|y ys]; simpl in *; lia. }
    lia.
  - simpl. rewrite !app_length. simpl. lia.
Qed.

(* ---------------------------------------------------------------- keyword parameters *)
Notation rparam := (render_param F fabs fis_neg).

Lemma params_ok (P : vparser F) : forall ps,
  (forall kv, In kv ps -> forall rest, P (render (snd kv) ++ rest) = Some (snd kv, rest)) ->
  forall m rest, (List.length ps < m)%nat ->
  params_with F P m (sep F _ rparam ps ++ TRP F :: rest) = Some (ps, rest).
Proof.
  induction ps as [|[k v] xs IH]; intros HP m rest Hm; (destruct m as [|m']; [simpl in Hm; lia|]).
  - reflexivity.
  - pose proof (HP (k, v) (or_introl eq_refl)) as HPx. simpl snd in HPx.
    destruct xs as [|y ys].
    + simpl. rewrite <- app_assoc. rewrite HPx. reflexivity.
    + change (sep F _ rparam ((k, v) :: y :: ys))
        with (rparam (k, v) ++ TComma F :: sep F _ rparam (y :: ys)).
      remember (sep F _ rparam (y :: ys)) as tl eqn:Etl.
      unfold render_param. simpl fst. simpl snd.
      simpl app. rewrite <- app_assoc. simpl app. cbn [params_with].
      rewrite HPx. subst tl. rewrite IH; auto.
      * intros kv Hkv. apply HP. right; auto.
      * simpl in *. lia.
Qed.

Lemma all_ints_map zs : all_ints F (map (VInt F) zs) = Some zs.
Proof. induction zs; simpl; auto. rewrite IHzs. reflexivity. Qed.

(* an instruction without a condition: its emitted tokens read back as the same class, modes
   and parameter values (names, order, values), whatever follows *)
Theorem instr_roundtrip : forall i rest,
  ci_cond F i = false ->
  exists ts, instr_tokens F fabs fis_neg i = Some ts /\
             read_instr F fneg (ts ++ rest) = Some (i, rest).
Proof.
  intros [c ms ps cond] rest Hc. simpl in Hc. subst cond.
  unfold instr_tokens. simpl ci_cond. cbv iota. eexists. split; [reflexivity|].
  simpl ci_modes. simpl ci_cls. simpl ci_params.
  set (mt := sepv (map (VInt F) ms)).
  set (pt := sep F _ rparam ps).
  unfold read_instr.
  set (n := List.length _).
  simpl app.
  assert (Hn : n = (4 + List.length mt + (6 + (List.length pt + S (List.length rest))))%nat).
  { unfold n. simpl. rewrite !app_length. simpl. rewrite !app_length. simpl. lia. }
  assert (Hmt : (List.length ms <= List.length mt)%nat).
  { unfold mt. rewrite <- (map_length (VInt F) ms). apply sep_length_ge. intros; apply render_nonempty. }
  assert (Hpt : (List.length ps <= List.length pt)%nat).
  { unfold pt. apply sep_length_ge. intros [k v] _. unfold render_param. simpl. lia. }
  rewrite <- !app_assoc. simpl app.
  replace ((pt ++ [TRP F]) ++ rest) with (pt ++ TRP F :: rest) by (rewrite <- app_assoc; reflexivity).
  assert (HI : items_with F (parse n) Paren n
                 (mt ++ TRP F :: TPipe F :: TPq F :: TDot F :: TIdent F c :: TLP F :: pt ++ TRP F :: rest)
               = Some (map (VInt F) ms, (Nat.ltb 1 (List.length (map (VInt F) ms)) || false)%bool,
                       TPipe F :: TPq F :: TDot F :: TIdent F c :: TLP F :: pt ++ TRP F :: rest)).
  { apply (items_ok (parse n) Paren (map (VInt F) ms)) with (tr := []).
    - intros x Hx rest0. apply in_map_iff in Hx. destruct Hx as [z [<- _]].
      apply value_roundtrip. simpl. lia.
    - left; reflexivity.
    - rewrite map_length. simpl. lia. }
  rewrite HI. rewrite all_ints_map. unfold pt in *. rewrite params_ok.
  - reflexivity.
  - intros [k v] Hin rest0. simpl snd. apply value_roundtrip.
    etransitivity; [apply depth_le_length|].
    pose proof (sep_elem_length rparam ps (k, v) Hin) as H.
    change (List.length (rparam (k, v))) with (S (S (List.length (render v)))) in H. lia.
  - lia.
Qed.

(* a conditioned instruction is refused, and only that *)
Theorem instr_tokens_refused_iff i :
  instr_tokens F fabs fis_neg i = None <-> ci_cond F i = true.
Proof. unfold instr_tokens. destruct (ci_cond F i); split; intros; congruence. Qed.

(* whole programs *)
Lemma mapMo_ok (p : list (cinstr F)) : Forall (fun i => ci_cond F i = false) p ->
  exists ls, mapMo (instr_tokens F fabs fis_neg) p = Some ls /\
             Forall2 (fun i l => instr_tokens F fabs fis_neg i = Some l) p ls.
Proof.
  induction 1 as [|i r Hi _ IH].
  - exists []. split; constructor.
  - destruct IH as [ls [E HF]]. destruct (instr_roundtrip i [] Hi) as [ts [Et _]].
    exists (ts :: ls). simpl. rewrite Et, E. split; auto.
Qed.

Lemma read_lines_ok : forall p ls,
  Forall (fun i => ci_cond F i = false) p ->
  Forall2 (fun i l => instr_tokens F fabs fis_neg i = Some l) p ls ->
  forall m, (List.length p < m)%nat ->
  p <> [] \/ True ->
  read_lines F fneg m (List.concat (map (fun l => l ++ [TNewline F]) ls)) = Some p.
Proof.
  induction p as [|i r IH]; intros ls Hc HF m Hm _.
  - inversion HF; subst. destruct m; [lia|]. reflexivity.
  - inversion HF as [|i0 y r0 l' Hy HF']; subst. inversion Hc as [|i1 r1 Hci Hcr]; subst.
    destruct m as [|m']; [lia|].
    simpl map. simpl List.concat. rewrite <- app_assoc. simpl app.
    destruct (instr_roundtrip i (TNewline F :: List.concat (map (fun l => l ++ [TNewline F]) l')) Hci)
      as [ts [Et Er]].
    rewrite Hy in Et. inversion Et; subst ts.
    cbn [read_lines].
    unfold instr_tokens in Hy. rewrite Hci in Hy. inversion Hy; subst y. clear Hy.
    simpl app in *. rewrite Er. rewrite IH; auto. simpl in Hm. lia.
Qed.

Theorem program_roundtrip : forall p,
  Forall (fun i => ci_cond F i = false) p ->
  exists ts, program_tokens F fabs fis_neg p = Some ts /\ read_program F fneg ts = Some p.
Proof.
  intros p Hc. destruct (mapMo_ok p Hc) as [ls [E HF]].
  unfold program_tokens. rewrite E. eexists. split; [reflexivity|].
  unfold header. simpl app. unfold read_program.
  destruct p as [|i r].
  - reflexivity.
  - apply read_lines_ok; auto.
    assert (List.length (i :: r) = List.length ls) by (clear - HF; induction HF; simpl; auto).
    assert (List.length ls <= List.length (List.concat (map (fun l => l ++ [TNewline F]) ls)))%nat.
    { clear. induction ls; simpl; auto. rewrite !app_length. simpl. lia. }
    lia.
Qed.

End P.

(* non-vacuity: pq.Q(1, 0) | pq.NumberState(occupation_numbers=(2,), coefficient=-3) *)
Definition example_tokens_statement : Prop :=
  instr_tokens Z Z.abs (fun z => (z <? 0)%Z)
    (mkCI Z "NumberState" [1%Z; 0%Z]
       [("occupation_numbers"%string, VSeq Z Paren [VInt Z 2%Z]); ("coefficient"%string, VInt Z (-3)%Z)] false)
  = Some [TPq Z; TDot Z; TQ Z; TLP Z; TInt Z 1%Z; TComma Z; TInt Z 0%Z; TRP Z; TPipe Z; TPq Z; TDot Z;
          TIdent Z "NumberState"; TLP Z; TIdent Z "occupation_numbers"; TEq Z; TLP Z; TInt Z 2%Z; TComma Z; TRP Z;
          TComma Z; TIdent Z "coefficient"; TEq Z; TMinus Z; TInt Z 3%Z; TRP Z].
Lemma example_tokens : example_tokens_statement.
Proof. reflexivity. Qed.
