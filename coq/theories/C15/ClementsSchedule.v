(* C15 — the schedule of the Clements decomposition (which mode pairs, how many, independent
   of the matrix), the weight-vector round trip, and the instruction list. *)
From Coq Require Import List Arith Bool Lia Ring.
From PV Require Import C15.ClementsModel C15.MatProofs C15.ClementsProofs.
Import ListNotations.

Section Sched.
Context {A : Type} {O : ROps A}.
Variable angles : A -> A -> A * A * A.
Variable phase : A -> A.

Definition modes_of (l : list (BS A)) : list (nat * nat) := map (fun T => (bs_i T, bs_j T)) l.

Lemma modes_app : forall l1 l2, modes_of (l1 ++ l2) = modes_of l1 ++ modes_of l2.
Proof. intros. apply map_app. Qed.

Lemma direct_step_modes : forall d column ops U j, exists T U',
  direct_step angles d column (ops, U) j = (ops ++ [T], U') /\
  (bs_i T, bs_j T) = (column + j, column + j + 1)%nat.
Proof.
  intros. unfold direct_step. destruct (angles _ _) as [[c s] e].
  eexists. eexists. split; reflexivity.
Qed.

Lemma inverse_step_modes : forall d column ops U j, exists T U',
  inverse_step angles d column (ops, U) j = (ops ++ [T], U') /\
  (bs_i T, bs_j T) = (j, j + 1)%nat.
Proof.
  intros. unfold inverse_step. destruct (angles _ _) as [[c s] e].
  eexists. eexists. split; reflexivity.
Qed.

Lemma direct_fold_modes : forall d column l ops U,
  modes_of (fst (fold_left (direct_step angles d column) l (ops, U))) =
  modes_of ops ++ map (fun j => (column + j, column + j + 1)%nat) l.
Proof.
  induction l as [|j l IH]; intros ops U; cbn [fold_left map].
  - now rewrite app_nil_r.
  - destruct (direct_step_modes d column ops U j) as (T & U' & -> & HT).
    rewrite IH, modes_app. cbn [modes_of map]. rewrite HT, <- app_assoc. reflexivity.
Qed.

Lemma inverse_fold_modes : forall d column l ops U,
  modes_of (fst (fold_left (inverse_step angles d column) l (ops, U))) =
  modes_of ops ++ map (fun j => (j, j + 1)%nat) l.
Proof.
  induction l as [|j l IH]; intros ops U; cbn [fold_left map].
  - now rewrite app_nil_r.
  - destruct (inverse_step_modes d column ops U j) as (T & U' & -> & HT).
    rewrite IH, modes_app. cbn [modes_of map]. rewrite HT, <- app_assoc. reflexivity.
Qed.

Lemma column_step_modes : forall d first last U col,
  let st := column_step angles d (first, last, U) col in
  (modes_of (fst (fst st)), modes_of (snd (fst st))) =
  sched_step d (modes_of first, modes_of last) col.
Proof.
  intros d first last U col. unfold column_step, sched_step. destruct (Nat.even col).
  - pose proof (direct_fold_modes d col (seq 0 (d - 1 - col)) [] U) as H.
    unfold apply_direct. destruct (fold_left _ _ _) as [ops U']. simpl in *.
    now rewrite modes_app, H.
  - pose proof (inverse_fold_modes d col (rev (seq 0 (d - 1 - col))) [] U) as H.
    unfold apply_inverse. destruct (fold_left _ _ _) as [ops U']. simpl in *.
    now rewrite modes_app, H.
Qed.

Lemma eliminate_fold_modes : forall d l first last U,
  let st := fold_left (column_step angles d) l (first, last, U) in
  (modes_of (fst (fst st)), modes_of (snd (fst st))) =
  fold_left (sched_step d) l (modes_of first, modes_of last).
Proof.
  induction l as [|col l IH]; intros first last U; cbn [fold_left]; [reflexivity|].
  pose proof (column_step_modes d first last U col) as H. cbv zeta in H.
  destruct (column_step angles d (first, last, U) col) as [[f' l'] U']. cbn [fst snd] in H.
  rewrite <- H. apply IH.
Qed.

Lemma commute_fold_modes : forall l out (phis : list A),
  modes_of (fst (fold_left commute_step l (out, phis))) = modes_of out ++ modes_of l.
Proof.
  induction l as [|T l IH]; intros out phis; cbn [fold_left].
  - cbn. now rewrite app_nil_r.
  - unfold commute_step at 2. rewrite IH, modes_app. cbn. now rewrite <- app_assoc.
Qed.

(* theorem 1a: the mode pairs of clements(U) are [schedule d], whatever U and whatever the
   rotation coefficients: the structure of clements(identity) is the structure for every U *)
Theorem clements_schedule : forall d U,
  modes_of (fst (clements angles phase d U)) = schedule d /\
  map (@ps_mode A) (snd (clements angles phase d U)) = seq 0 d.
Proof.
  intros d U. unfold clements, schedule, eliminate.
  pose proof (eliminate_fold_modes d (rev (seq 0 (d - 1))) [] [] U) as H. cbv zeta in H.
  destruct (fold_left (column_step angles d) _ _) as [[first last] R]. simpl in H.
  change (modes_of [], modes_of []) with (@nil (nat * nat), @nil (nat * nat)) in H.
  rewrite <- H.
  pose proof (commute_fold_modes (rev last) [] (map phase (diag_of d R))) as Hc.
  unfold commute. destruct (fold_left commute_step _ _) as [com phis]. simpl in Hc. simpl.
  split.
  - rewrite modes_app, Hc. unfold modes_of. now rewrite map_rev.
  - rewrite map_map. simpl. apply map_id.
Qed.

End Sched.

(* theorem 1b: every pair is (m, m+1) with m+1 < d *)
Definition adjacent (d : nat) (p : nat * nat) : Prop := snd p = (fst p + 1)%nat /\ (snd p < d)%nat.

Theorem schedule_adjacent : forall d, Forall (adjacent d) (schedule d).
Proof.
  intros d. unfold schedule.
  assert (H : let st := fold_left (sched_step d) (rev (seq 0 (d - 1))) ([], []) in
              Forall (adjacent d) (fst st) /\ Forall (adjacent d) (snd st)).
  { apply fold_left_inv.
    - split; constructor.
    - intros [first last] col Hcol [Hf Hl]. apply in_rev, in_seq in Hcol.
      unfold sched_step. destruct (Nat.even col); simpl; split; try assumption;
        apply Forall_app; split; try assumption; apply Forall_forall; intros p Hp.
      + unfold direct_modes in Hp. apply in_map_iff in Hp. destruct Hp as (j & <- & Hj).
        apply in_seq in Hj. unfold adjacent; simpl. lia.
      + unfold inverse_modes in Hp. apply in_map_iff in Hp. destruct Hp as (j & <- & Hj).
        apply in_rev, in_seq in Hj. unfold adjacent; simpl. lia. }
  cbv zeta in H. destruct (fold_left _ _ _) as [first last]. destruct H as [Hf Hl].
  apply Forall_app. split; [assumption|]. now apply Forall_rev.
Qed.

(* theorem 1c: there are d(d-1)/2 of them *)
Theorem schedule_length : forall d, (2 * length (schedule d) = d * (d - 1))%nat.
Proof.
  intros d. unfold schedule. set (n := (d - 1)%nat).
  pose (P := fun (j : nat) (st : list (nat * nat) * list (nat * nat)) =>
    (2 * (length (fst st) + length (snd st)) = (n - j) * (n - j + 1))%nat).
  assert (HP : P 0%nat (fold_left (sched_step d) (rev (seq 0 n)) ([], []))).
  { apply fold_rev_seq_inv.
    - unfold P. simpl. rewrite Nat.sub_diag. reflexivity.
    - intros j [first last] Hj IH. unfold P in *. simpl in IH. unfold sched_step.
      assert (Hlen : length (direct_modes d j) = (n - j)%nat /\ length (inverse_modes d j) = (n - j)%nat).
      { unfold direct_modes, inverse_modes. rewrite !map_length, rev_length, !seq_length. unfold n. lia. }
      destruct Hlen as [H1 H2].
      assert (Hm : exists m, (n - j = S m /\ n - S j = m)%nat) by (exists (n - S j)%nat; lia).
      destruct Hm as (m & Hm1 & Hm2). rewrite Hm2 in IH. rewrite Hm1.
      destruct (Nat.even j); simpl; rewrite app_length; [rewrite H1|rewrite H2]; rewrite Hm1; nia. }
  unfold P in HP. destruct (fold_left _ _ _) as [first last]. simpl in HP.
  rewrite app_length, rev_length. rewrite Nat.sub_0_r in HP. unfold n in *.
  destruct d; simpl in *; nia.
Qed.

(* ---------------------------------------------------------------- weights *)
Section WeightsProofs.
Variable P : Type.
Variable p0 : P.

Lemma fill_bs_flat : forall (bs : list (WBS P)) rest,
  fill_bs P p0 (map (w_modes P) bs) (flat_map (fun b => [w_theta P b; w_phi P b]) bs ++ rest)
  = (bs, rest).
Proof.
  induction bs as [|b bs IH]; intros rest; simpl; [reflexivity|].
  rewrite IH. destruct b; reflexivity.
Qed.

(* theorem 1d: get_decomposition_from_weights (get_weights_from_decomposition dec) = dec
   for every decomposition whose phaseshifters sit on modes 0..d-1 in order *)
Theorem weights_roundtrip : forall d (dec : WDec P),
  map (w_mode P) (snd dec) = seq 0 d ->
  from_weights P p0 (map (w_modes P) (fst dec)) d (to_weights P dec) = dec.
Proof.
  intros d [bs ps] H. unfold from_weights, to_weights. simpl in *.
  rewrite fill_bs_flat. f_equal.
  assert (Hlen : length ps = d).
  { apply (f_equal (@length nat)) in H. now rewrite map_length, seq_length in H. }
  apply nth_ext with (d := mkWPS P 0%nat p0) (d' := mkWPS P 0%nat p0).
  - now rewrite map_length, seq_length.
  - intros i Hi. rewrite map_length, seq_length in Hi.
    rewrite nth_map_seq by assumption.
    assert (Hm : w_mode P (nth i ps (mkWPS P 0%nat p0)) = i).
    { change 0%nat with (w_mode P (mkWPS P 0%nat p0)) at 1.
      rewrite <- (map_nth (w_mode P)). rewrite H. simpl. now rewrite seq_nth. }
    assert (Hp : nth i (map (w_ps_phi P) ps) p0 = w_ps_phi P (nth i ps (mkWPS P 0%nat p0))).
    { change p0 with (w_ps_phi P (mkWPS P 0%nat p0)) at 1. apply map_nth. }
    rewrite Hp. destruct (nth i ps (mkWPS P 0%nat p0)) as [m ph]. simpl in *. now subst.
Qed.

(* the same for a whole history of calls: from_weights builds a fresh structure from its
   arguments only, so every element of a list of decompositions (same d, any contents) is
   reproduced, whatever the other calls were *)
Theorem weights_roundtrip_history : forall d (decs : list (WDec P)),
  Forall (fun dec => map (w_mode P) (snd dec) = seq 0 d) decs ->
  map (fun dec => from_weights P p0 (map (w_modes P) (fst dec)) d (to_weights P dec)) decs = decs.
Proof.
  intros d decs H. rewrite <- (map_id decs) at 2. apply map_ext_in.
  intros dec Hin. rewrite Forall_forall in H. now apply weights_roundtrip, H.
Qed.

Lemma to_weights_length : forall (dec : WDec P),
  length (to_weights P dec) = (2 * length (fst dec) + length (snd dec))%nat.
Proof.
  intros [bs ps]. unfold to_weights. simpl. rewrite app_length, map_length. f_equal.
  induction bs; simpl; [reflexivity|]. rewrite IHbs. lia.
Qed.

(* the weight vector of a decomposition with the Clements structure has d^2 entries *)
Theorem weights_length : forall d (dec : WDec P),
  map (w_modes P) (fst dec) = schedule d -> map (w_mode P) (snd dec) = seq 0 d ->
  length (to_weights P dec) = (d * d)%nat.
Proof.
  intros d dec Hb Hp. rewrite to_weights_length.
  apply (f_equal (@length _)) in Hb. apply (f_equal (@length _)) in Hp.
  rewrite map_length in Hb, Hp. rewrite seq_length in Hp. rewrite Hb, Hp.
  pose proof (schedule_length d). destruct d; simpl in *; nia.
Qed.
End WeightsProofs.

(* ---------------------------------------------------------------- instruction list *)
Section Instructions.
Context {A : Type} {O : ROps A} {L : RLaws O}.
Local Open Scope rng_scope.
Add Ring Aring4 : (rth (RLaws := L)).

Lemma instrs_snoc : forall d l ins,
  instrs_matrix d (l ++ [ins]) = mmul d (instr_matrix d ins) (instrs_matrix d l).
Proof. intros. unfold instrs_matrix. now rewrite fold_left_app. Qed.

(* Phaseshifter(phi) on the first mode, then Beamsplitter(theta, 0) = the paper's BS(theta, phi) *)
Lemma ps_then_bs : forall d T, okbs d T ->
  mmul d (instr_matrix d (IBS (bs_i T) (bs_j T) (bs_c T) (bs_s T) r1))
         (instr_matrix d (IPS (bs_i T) (bs_e T))) = embed d T.
Proof.
  intros d T [(Hi & Hj & Hij) (Hc & Hs & _ & _)]. simpl. unfold embed.
  apply wf_ext with (d := d); [apply wf_mmul|apply wf_mk|]. intros r k Hr Hk.
  rewrite emb2_mul_l by assumption. rewrite !get_emb1, get_emb2 by assumption.
  rewrite conj_mul, conj_1, Hs.
  destruct (Nat.eqb_spec r (bs_i T)) as [->|Hri];
    [|destruct (Nat.eqb_spec r (bs_j T)) as [->|Hrj]];
    (destruct (Nat.eqb_spec k (bs_i T)) as [->|Hki];
      [|destruct (Nat.eqb_spec k (bs_j T)) as [->|Hkj]]);
    eqb_cases; ring.
Qed.

Lemma instrs_of_bs : forall d bs, Forall (okbs d) bs ->
  instrs_matrix d (flat_map (fun T => [IPS (bs_i T) (bs_e T);
                                       IBS (bs_i T) (bs_j T) (bs_c T) (bs_s T) r1]) bs)
  = prodl d bs.
Proof.
  intros d bs. induction bs as [|T bs IH] using rev_ind; intros H; [reflexivity|].
  apply Forall_app in H. destruct H as [H1 H2]. apply Forall_cons_iff in H2. destruct H2 as [HT _].
  rewrite flat_map_app. cbn [flat_map]. rewrite app_nil_r.
  change [IPS (bs_i T) (bs_e T); IBS (bs_i T) (bs_j T) (bs_c T) (bs_s T) r1]
    with ([IPS (bs_i T) (bs_e T)] ++ [IBS (bs_i T) (bs_j T) (bs_c T) (bs_s T) r1]).
  rewrite app_assoc, !instrs_snoc, IH by assumption.
  rewrite <- mmul_assoc, ps_then_bs by assumption. now rewrite prodl_snoc.
Qed.

(* the trailing phaseshifters multiply to the diagonal matrix of the phases *)
Definition pdiag (d n : nat) (v : list A) : mat A :=
  mk d (fun r k => if (r =? k)%nat then (if (r <? n)%nat then nth r v r0 else r1) else r0).

Lemma instrs_of_ps : forall d (v : list A) n M, (n <= d)%nat -> wf d M ->
  fold_left (fun X ins => mmul d (instr_matrix d ins) X)
    (map (fun m => IPS m (nth m v r0)) (seq 0 n)) M = mmul d (pdiag d n v) M.
Proof.
  intros d v n M. induction n; intros Hn HM.
  - simpl. rewrite <- (mmul_id_l d M) at 1 by assumption.
    f_equal; try (unfold mid, pdiag; apply mk_ext; intros; reflexivity).
  - rewrite seq_S, map_app, fold_left_app, IHn by (try assumption; lia). simpl.
    rewrite <- mmul_assoc. f_equal.
    apply wf_ext with (d := d); [apply wf_mmul|apply wf_mk|]. intros r k Hr Hk.
    rewrite emb1_mul_l by (try assumption; lia). unfold pdiag. rewrite !get_mk by (try assumption; lia).
    destruct (Nat.eqb_spec r n) as [->|Hrn].
    + rewrite Nat.ltb_irrefl. destruct (Nat.ltb_spec n (S n)); [|lia].
      destruct (Nat.eqb_spec n k); ring.
    + destruct (Nat.eqb_spec r k); [|reflexivity].
      destruct (Nat.ltb_spec r n), (Nat.ltb_spec r (S n)); try lia; reflexivity.
Qed.

(* theorem 5: the instruction list's passive blocks multiply to inverse_clements *)
Theorem instructions_equiv : forall d (bs : list (BS A)) (v : list A),
  Forall (okbs d) bs ->
  let dec : Decomposition A := (bs, map (fun m => mkPS m (nth m v r0)) (seq 0 d)) in
  instrs_matrix d (instructions_from_decomposition dec) = inverse_clements d dec.
Proof.
  intros d bs v Hok dec. unfold instructions_from_decomposition, inverse_clements, dec.
  cbn [fst snd]. unfold instrs_matrix. rewrite fold_left_app.
  fold (instrs_matrix d (flat_map (fun T => [IPS (bs_i T) (bs_e T);
                                             IBS (bs_i T) (bs_j T) (bs_c T) (bs_s T) r1]) bs)).
  rewrite instrs_of_bs by assumption. rewrite map_map. cbn [ps_mode ps_e].
  rewrite instrs_of_ps by (try apply wf_prodl; lia). f_equal.
  unfold pdiag, mdiag. apply mk_ext. intros r k Hr Hk.
  destruct (Nat.eqb_spec r k); [|reflexivity].
  destruct (Nat.ltb_spec r d); [|lia]. symmetry. now apply phis_of_seq.
Qed.

End Instructions.
