#!/usr/bin/env python3
"""Dependency scan for the PV Coq development without coqdep: one process, no forks, and a
file that does not lex (work in progress) cannot break the scan of the others.
Only intra-project dependencies matter (From PV Require ... / Require ... PV.X.Y)."""
import os
import re
import sys

root = os.path.dirname(os.path.abspath(__file__))
os.chdir(root)
COMMENT = re.compile(r"\(\*.*?\*\)", re.S)
QID = r"[A-Za-z_][\w']*(?:\.[A-Za-z_][\w']*)*"
FROM = re.compile(r"From\s+PV\s+Require\s+(?:Import\s+|Export\s+)?((?:%s\s*)+)\.(?=\s|$)" % QID)
REQ = re.compile(r"(?<![\w.])Require\s+(?:Import\s+|Export\s+)?((?:%s\s*)+)\.(?=\s|$)" % QID)
out = []
for dp, dn, fn in os.walk("theories"):
    dn.sort()
    for f in sorted(fn):
        if not f.endswith(".v"):
            continue
        p = os.path.join(dp, f)
        try:
            txt = COMMENT.sub(" ", open(p, errors="replace").read())
        except OSError:
            continue
        deps = []
        for m in FROM.finditer(txt):
            for q in m.group(1).split():
                deps.append(q)
        for m in REQ.finditer(txt):
            for q in m.group(1).split():
                if q.startswith("PV."):
                    deps.append(q[3:])
        files = []
        for q in deps:
            cand = os.path.join("theories", *q.split(".")) + ".v"
            if os.path.exists(cand) and cand != p:
                files.append(cand[:-2] + ".vo")
        out.append("%s.vo: %s %s" % (p[:-2], p, " ".join(sorted(set(files)))))
sys.stdout.write("\n".join(out) + "\n")
