(* C05 - model of the PassiveState probability interfaces and the exact reference
   (lossless dilation).  Definitions only; proofs are in PassiveProofs.v / MixtureProofs.v.
   Stdlib style.  Each function names the file:function of /repo it transcribes, or says
   "reference" when it is the definition the code is compared with. *)
From Coq Require Import ZArith QArith List Bool Arith Lia.
From PV Require Import Comb.FockModel.
Import ListNotations.

(* ====================================================================== *)
(*  1. Post-selection bookkeeping (passive/state.py, _math/fock.py,       *)
(*     passive/sampling.py:map_to_original_modes)                          *)
(* ====================================================================== *)

Definition memb (x : nat) (l : list nat) : bool := existsb (Nat.eqb x) l.

(* np.delete(np.arange(total), ps)  and  state.py:_get_active_modes
   ("i for i in range(total) if i not in postselected_modes") *)
Definition active_modes (total : nat) (ps : list nat) : list nat :=
  filter (fun i => negb (memb i ps)) (seq 0 total).

(* state.py:d  =  len(interferometer) - len(postselected modes) *)
Definition d_active (total : nat) (ps : list nat) : nat := total - length ps.

(* the post-selection dictionary {mode: photons}: insertion ordered, assignment to an
   existing key keeps its position *)
Definition psdict := list (nat * Z).
Fixpoint dict_set (k : nat) (v : Z) (dct : psdict) : psdict :=
  match dct with
  | [] => [(k, v)]
  | (k', v') :: r => if Nat.eqb k k' then (k, v) :: r else (k', v') :: dict_set k v r
  end.
Definition ps_modes (dct : psdict) : list nat := map fst dct.     (* _get_postselected_modes *)
Definition ps_photons (dct : psdict) : list Z := map snd dct.     (* _get_postselected_photons *)

(* state.py:_set_postselection : [modes] are positions in the active numbering;
   returns the new dictionary and the decremented cutoff *)
Definition set_postselection (total : nat) (dct : psdict) (cutoff : Z)
           (modes : list nat) (counts : list Z) : psdict * Z :=
  let act := active_modes total (ps_modes dct) in
  let actual := map (fun m => nth m act 0%nat) modes in
  (fold_left (fun dc mc => dict_set (fst mc) (snd mc) dc) (combine actual counts) dct,
   (cutoff - sumZ counts)%Z).

(* a sequence of PostSelectPhotons steps, as state-level calls *)
Fixpoint set_postselections (total : nat) (dct : psdict) (cutoff : Z)
         (steps : list (list nat * list Z)) : psdict * Z :=
  match steps with
  | [] => (dct, cutoff)
  | (m, c) :: r => let '(d', c') := set_postselection total dct cutoff m c in
                   set_postselections total d' c' r
  end.

Fixpoint set_nth {A} (i : nat) (v : A) (l : list A) : list A :=
  match l, i with
  | [], _ => []
  | _ :: r, O => v :: r
  | x :: r, S i' => x :: set_nth i' v r
  end.

(* a[idx] = vals  (numpy fancy assignment, positions in order) *)
Definition scatter (idx : list nat) (vals : list Z) (base : list Z) : list Z :=
  fold_left (fun b iv => set_nth (fst iv) (snd iv) b) (combine idx vals) base.

(* state.py:get_particle_detection_probability, assembly of full_occupation_number *)
Definition full_occupation (total : nat) (dct : psdict) (occ : list Z) : list Z :=
  scatter (ps_modes dct) (ps_photons dct)
          (scatter (active_modes total (ps_modes dct)) occ (repeat 0%Z total)).

(* np.delete(v, ps) : the coordinates of v outside ps, in order *)
Definition delete_coords (ps : list nat) (v : list Z) : list Z :=
  map (fun i => nth i v 0%Z) (active_modes (length v) ps).

(* sampling.py:map_to_original_modes : for p in sorted(ps): modes[modes >= p] += 1 *)
Fixpoint insert_sorted (x : nat) (l : list nat) : list nat :=
  match l with
  | [] => [x]
  | y :: r => if Nat.leb x y then x :: l else y :: insert_sorted x r
  end.
Definition sort_nat (l : list nat) : list nat := fold_right insert_sorted [] l.
Definition bump (p : nat) (m : nat) : nat := if Nat.leb p m then S m else m.
Definition map_to_original (modes : list nat) (ps : list nat) : list nat :=
  fold_left (fun ms p => map (bump p) ms) (sort_nat ps) modes.

(* _math/fock.py:get_postselected_fock_basis.  None stands for the Python exception
   (negative dimension, index out of range). *)
Definition postselected_fock_basis (d : nat) (cutoff : Z) (pm : list nat) (pp : list Z)
  : option (list (list Z)) :=
  if Nat.ltb d (length pm) then None else
  let ab := basis (d - length pm) (Z.to_nat (cutoff - sumZ pp)) in
  match pm with
  | [] => Some ab
  | _ => if existsb (fun m => Nat.leb d m) pm then None
         else Some (map (fun row => scatter pm pp (scatter (active_modes d pm) row (repeat 0%Z d))) ab)
  end.

(* state.py:fock_probabilities (lossy / partially distinguishable branch): the list of
   occupation numbers handed to the probability routine -- REPAIRED code
   (fixes/C05-fock-probabilities-postselected-basis.diff): total number of modes and the
   cutoff before the post-selection decrement *)
Definition fock_probabilities_rows (total : nat) (dct : psdict) (cutoff : Z)
  : option (list (list Z)) :=
  postselected_fock_basis total (cutoff + sumZ (ps_photons dct)) (ps_modes dct) (ps_photons dct).

(* state.py:fock_probabilities_map keys: get_fock_space_basis(d=self.d, cutoff) *)
Definition table_keys (total : nat) (dct : psdict) (cutoff : Z) : list (list Z) :=
  basis (d_active total (ps_modes dct)) (Z.to_nat cutoff).

(* ====================================================================== *)
(*  2. Ryser precomputation (passive/probabilities.py:_precompute_subset_row_sums) *)
(* ====================================================================== *)

(* subset & -subset, .bit_length() - 1 : index of the lowest set bit *)
Fixpoint ctz (p : positive) : nat :=
  match p with xO q => S (ctz q) | _ => O end.
(* subset ^ least_significant_bit *)
Fixpoint clear_lsb (p : positive) : N :=
  match p with
  | xH => N0
  | xI q => Npos (xO q)
  | xO q => N.double (clear_lsb q)
  end.

Section SubsetSums.
  Variable A : Type.
  Variable a0 : A.
  Variable aadd : A -> A -> A.
  Definition vadd (u v : list A) : list A := map (fun p => aadd (fst p) (snd p)) (combine u v).
  Definition column (M : list (list A)) (c : nat) : list A := map (fun r => nth c r a0) M.
  (* the loop "for subset in range(1, 2^n): rows[subset] = rows[prev] + M[:, column]";
     the table is built front to back, entry [subset] reads entry [prev] < subset *)
  Definition subset_step (M : list (list A)) (tab : list (list A)) (s : positive) : list (list A) :=
    tab ++ [vadd (nth (N.to_nat (clear_lsb s)) tab []) (column M (ctz s))].
  Fixpoint positives_from (p : positive) (k : nat) : list positive :=
    match k with O => [] | S k' => p :: positives_from (Pos.succ p) k' end.
  Definition subset_row_sums (M : list (list A)) : list (list A) :=
    let n := length M in
    fold_left (subset_step M) (positives_from 1%positive (2 ^ n - 1))
              [repeat a0 n].
  (* specification: the direct sum of the columns whose bit is set *)
  Fixpoint bits_sum (M : list (list A)) (n : nat) (p : positive) (c : nat) : list A :=
    match p with
    | xH => vadd (repeat a0 n) (column M c)
    | xO q => bits_sum M n q (S c)
    | xI q => vadd (bits_sum M n q (S c)) (column M c)
    end.
End SubsetSums.

(* ====================================================================== *)
(*  3. Generic algebra: permanent by definition, reduction with multiplicities *)
(* ====================================================================== *)

Fixpoint drop_nth {X} (j : nat) (l : list X) : list X :=
  match l, j with
  | [], _ => []
  | _ :: r, O => r
  | x :: r, S j' => x :: drop_nth j' r
  end.

Section Perm.
  Variable A : Type.
  Variables (a0 a1 : A) (aadd amul : A -> A -> A).
  Definition asum (l : list A) : A := fold_right aadd a0 l.
  Definition aprod (l : list A) : A := fold_right amul a1 l.
  (* reference: permanent by Laplace expansion along the first row (the definition) *)
  Fixpoint perm_n (n : nat) (rows : list (list A)) : A :=
    match n, rows with
    | S n', r :: rest =>
        asum (map (fun j => amul (nth j r a0) (perm_n n' (map (drop_nth j) rest)))
                  (seq 0 (length r)))
    | _, _ => a1
    end.
  Definition perm (rows : list (list A)) : A := perm_n (length rows) rows.
End Perm.

(* positions repeated by multiplicity: [2;0;1] -> [0;0;2]  (indices.py:to_first_quantized) *)
Fixpoint expand_from (i : nat) (v : list Z) : list nat :=
  match v with
  | [] => []
  | k :: r => repeat i (Z.to_nat k) ++ expand_from (S i) r
  end.
Definition expand (v : list Z) : list nat := expand_from 0 v.

Definition reduce {A} (a0 : A) (M : list (list A)) (rows cols : list Z) : list (list A) :=
  map (fun r => map (fun c => nth c (nth r M []) a0) (expand cols)) (expand rows).

Fixpoint fact_nat (n : nat) : Z :=
  match n with O => 1%Z | S k => (Z.of_nat n * fact_nat k)%Z end.
Definition factZ (n : Z) : Z := fact_nat (Z.to_nat n).
Definition factprod (v : list Z) : Z := fold_right (fun k acc => (factZ k * acc)%Z) 1%Z v.

(* ====================================================================== *)
(*  4. Gaussian integers; matrices are given as Gaussian integers over a common
       denominator D  (M = N / D) *)
(* ====================================================================== *)
Definition Zi := (Z * Z)%type.
Definition zi0 : Zi := (0, 0)%Z.
Definition zi1 : Zi := (1, 0)%Z.
Definition ziadd (a b : Zi) : Zi := (fst a + fst b, snd a + snd b)%Z.
Definition zimul (a b : Zi) : Zi :=
  (fst a * fst b - snd a * snd b, fst a * snd b + snd a * fst b)%Z.
Definition ziconj (a : Zi) : Zi := (fst a, - snd a)%Z.
Definition zin2 (a : Zi) : Z := (fst a * fst a + snd a * snd a)%Z.
Definition ziscale (k : Z) (a : Zi) : Zi := (k * fst a, k * snd a)%Z.
Definition ziperm := perm Zi zi0 zi1 ziadd zimul.
Definition zperm := perm Z 0%Z 1%Z Z.add Z.mul.

Definition qsum (l : list Q) : Q := fold_right (fun a b => Qred (a + b)%Q) 0%Q l.

(* ---- reference: indistinguishable bosons through the dilation.
   N has the d transmission rows first, then the [nloss] rows of the loss modes; the
   columns are the d input modes.  P(k -> t) = sum over lost patterns l of
   |perm(N[(t,l),k])|^2 / (D^(2|k|) k! t! l!). *)
Definition pind (N : list (list Zi)) (D : Z) (nloss : nat) (k t : list Z) : Q :=
  let nk := sumZ k in let nt := sumZ t in
  if (nk <? nt)%Z then 0%Q else
  Qred (qsum (map (fun l =>
            Qmake (zin2 (ziperm (reduce zi0 N (t ++ l) k)))
                  (Z.to_pos (factprod k * factprod t * factprod l)))
          (sector nloss (Z.to_nat (nk - nt))))
        / inject_Z (D ^ (2 * nk)))%Q.

(* ---- reference: classical (distinguishable) particles: permanent of |.|^2 with one
   extra row collecting the loss probability of each input mode *)
Definition classical_matrix (N : list (list Zi)) (d : nat) : list (list Z) :=
  let top := map (map zin2) (firstn d N) in
  let rest := map (map zin2) (skipn d N) in
  let ncols := length (nth 0 N []) in
  top ++ [map (fun j => fold_right Z.add 0%Z (map (fun r => nth j r 0%Z) rest)) (seq 0 ncols)].
Definition pcl (N : list (list Zi)) (D : Z) (d : nat) (k t : list Z) : Q :=
  let nk := sumZ k in let nt := sumZ t in
  if (nk <? nt)%Z then 0%Q else
  Qred (Qmake (zperm (reduce 0%Z (classical_matrix N d) (t ++ [nk - nt]%Z) k))
              (Z.to_pos (factprod t * factZ (nk - nt)))
        / inject_Z (D ^ (2 * nk)))%Q.

(* ====================================================================== *)
(*  5. Uniform overlap: the mixture formula
       (sampling.py:_separate_particles weights, probabilities.py:_uniform_input_norm) *)
(* ====================================================================== *)
Fixpoint binom_nat (n k : nat) : nat :=
  match n, k with
  | _, O => 1
  | O, S _ => 0
  | S n', S k' => binom_nat n' k' + binom_nat n' k
  end.

(* all k <= s componentwise *)
Fixpoint below (s : list Z) : list (list Z) :=
  match s with
  | [] => [[]]
  | n :: r => flat_map (fun k => map (cons (Z.of_nat k)) (below r)) (seq 0 (S (Z.to_nat n)))
  end.
Definition vsub (a b : list Z) : list Z := map (fun p => (fst p - snd p)%Z) (combine a b).

Section Mixture.
  Variable A : Type.
  Variables (a0 a1 : A) (aadd amul asub : A -> A -> A).
  Variable is0 : A -> bool.     (* only used to skip work; sound: is0 a = true -> a = a0 *)
  Definition of_nat (n : nat) : A := nat_rect (fun _ => A) a0 (fun _ r => aadd a1 r) n.
  Fixpoint apow (x : A) (n : nat) : A :=
    match n with O => a1 | S k => amul x (apow x k) end.
  (* comb(n,k) * x^k * (1-x)^(n-k) * k! *)
  Definition w1 (x : A) (n k : nat) : A :=
    amul (amul (amul (of_nat (binom_nat n k)) (apow x k)) (apow (asub a1 x) (n - k)))
         (of_nat (Z.to_nat (fact_nat k))).
  (* _uniform_input_norm *)
  Definition input_norm (x : A) (s : list Z) : A :=
    aprod A a1 amul (map (fun n => asum A a0 aadd (map (w1 x (Z.to_nat n)) (seq 0 (S (Z.to_nat n))))) s).
  (* weight of "k_j of the s_j photons of mode j are in the common internal state" *)
  Definition wu (x : A) (s k : list Z) : A :=
    aprod A a1 amul (map (fun p => w1 x (Z.to_nat (fst p)) (Z.to_nat (snd p))) (combine s k)).
  Definition lazy_mul (a : A) (f : unit -> A) : A := if is0 a then a0 else amul a (f tt).
  Variables Pind Pcl : list Z -> list Z -> A.
  (* reference: numerator of the output probability for overlap x *)
  Definition conv (s k t : list Z) : A :=
    asum A a0 aadd (map (fun t1 => lazy_mul (Pcl (vsub s k) (vsub t t1)) (fun _ => Pind k t1)) (below t)).
  Definition mix_num (x : A) (s t : list Z) : A :=
    asum A a0 aadd (map (fun k => lazy_mul (wu x s k) (fun _ => conv s k t)) (below s)).
End Mixture.

Definition q_is0 (q : Q) : bool := Z.eqb (Qnum q) 0.
Definition qadd (a b : Q) := Qred (a + b)%Q.
Definition qmul (a b : Q) := Qred (a * b)%Q.
Definition qsub (a b : Q) := Qred (a - b)%Q.

(* memoisation of a two-argument function on the finitely many arguments the mixture uses
   (k <= s, outcomes with at most |k| photons); a miss falls back to the function itself, so
   the memoised function has the same values *)
Definition zl_eq (a b : list Z) : bool :=
  (fix go (a b : list Z) : bool :=
     match a, b with
     | [], [] => true
     | x :: r, y :: r' => Z.eqb x y && go r r'
     | _, _ => false
     end) a b.
Fixpoint assoc_zl {V} (k : list Z) (l : list (list Z * V)) : option V :=
  match l with
  | [] => None
  | (k', v) :: r => if zl_eq k k' then Some v else assoc_zl k r
  end.
Definition memo2 (f : list Z -> list Z -> Q) (ks : list (list Z)) (d : nat)
  : list (list Z * list (list Z * Q)) :=
  map (fun k => (k, map (fun t => (t, f k t)) (basis d (S (Z.to_nat (sumZ k)))))) ks.
Definition lookup2 (f : list Z -> list Z -> Q) (tab : list (list Z * list (list Z * Q)))
           (k t : list Z) : Q :=
  match assoc_zl k tab with
  | Some row => match assoc_zl t row with Some v => v | None => f k t end
  | None => f k t
  end.

(* reference table for input s, uniform overlap x, over a list of full occupations *)
Definition pmix_list (N : list (list Zi)) (D : Z) (d nloss : nat) (x : Q) (s : list Z)
           (ts : list (list Z)) : list Q :=
  let ks := below s in
  let ti := memo2 (pind N D nloss) ks d in
  let tc := memo2 (pcl N D d) ks d in
  let zin := input_norm Q 0%Q 1%Q qadd qmul qsub x s in
  map (fun t =>
         Qred (mix_num Q 0%Q 1%Q qadd qmul qsub q_is0
                       (lookup2 (pind N D nloss) ti) (lookup2 (pcl N D d) tc) x s t / zin)%Q) ts.
Definition pmix (N : list (list Zi)) (D : Z) (d nloss : nat) (x : Q) (s t : list Z) : Q :=
  nth 0 (pmix_list N D d nloss x s [t]) 0%Q.

(* ====================================================================== *)
(*  6. Gram matrix: tensor-permanent definition (reference)
       P(t) = 1/(Z t! l!) sum_{sigma,rho} prod_i M[r_i,sigma i] conj(M[r_i,rho i]) G[rho i, sigma i],
       G[i][j] = <phi_i|phi_j> given as Gaussian integers over the denominator Dg *)
(* ====================================================================== *)
Fixpoint insert_all {X} (x : X) (l : list X) : list (list X) :=
  match l with
  | [] => [[x]]
  | y :: r => (x :: l) :: map (cons y) (insert_all x r)
  end.
Fixpoint perms_of {X} (l : list X) : list (list X) :=
  match l with
  | [] => [[]]
  | x :: r => flat_map (insert_all x) (perms_of r)
  end.
Definition zisum (l : list Zi) : Zi := fold_right ziadd zi0 l.
Definition ziprod (l : list Zi) : Zi := fold_right zimul zi1 l.
Definition mget {X} (a0 : X) (M : list (list X)) (i j : nat) : X := nth j (nth i M []) a0.

(* norm of the (unnormalised) input: product over modes of the permanent of the Gram block
   (probabilities.py:_general_input_norm); value scaled by Dg^n *)
Fixpoint gram_blocks (G : list (list Zi)) (start : nat) (s : list Z) : Zi :=
  match s with
  | [] => zi1
  | k :: r =>
      let idx := seq start (Z.to_nat k) in
      zimul (ziperm (map (fun a => map (fun b => mget zi0 G a b) idx) idx))
            (gram_blocks G (start + Z.to_nat k) r)
  end.

Definition pgram (N : list (list Zi)) (D : Z) (nloss : nat) (G : list (list Zi)) (Dg : Z)
           (s t : list Z) : Q :=
  let n := sumZ s in let nt := sumZ t in
  if (n <? nt)%Z then 0%Q else
  let cols := expand s in
  let ps := perms_of (seq 0 (Z.to_nat n)) in
  let zin := fst (gram_blocks G 0 s) in
  let tot := qsum (map (fun l =>
      let rows := expand (t ++ l) in
      let acc := zisum (map (fun sg => zisum (map (fun rh =>
                   ziprod (map (fun i =>
                      let r := nth i rows 0%nat in
                      zimul (zimul (mget zi0 N r (nth (nth i sg 0%nat) cols 0%nat))
                                   (ziconj (mget zi0 N r (nth (nth i rh 0%nat) cols 0%nat))))
                            (mget zi0 G (nth i rh 0%nat) (nth i sg 0%nat)))
                    (seq 0 (Z.to_nat n)))) ps)) ps) in
      Qmake (fst acc) (Z.to_pos (factprod t * factprod l)))
    (sector nloss (Z.to_nat (n - nt)))) in
  (* numerator carries D^(2n) Dg^n, the input norm carries Dg^n *)
  Qred (tot / inject_Z (D ^ (2 * n)) / inject_Z zin)%Q.

(* ====================================================================== *)
(*  7. The coefficient-extraction formula of
       probabilities.py:get_lossy_partially_distinguishable_detection_probabilities,
       written out:  [z^t] Per(B_loss + sum_m z_m B_m) / Z_in
         = sum over assignments a : particles -> {mode m | lost} with counts t
           of Per(C_a),  C_a[p] = row p of B_{a p}.
       [coded = true]  : B_m = G * outer(v, conj v)   (the tree as it is)
       [coded = false] : B_m = G * outer(conj v, v)   (proposed repair)           *)
(* ====================================================================== *)
(* all maps  particle -> label  with the prescribed number of particles per label *)
Fixpoint assign_counts (n : nat) (counts : list Z) : list (list nat) :=
  match n with
  | O => [[]]
  | S n' =>
      flat_map (fun m =>
                  let c := nth m counts 0%Z in
                  if (0 <? c)%Z then map (cons m) (assign_counts n' (set_nth m (c - 1)%Z counts))
                  else [])
               (seq 0 (length counts))
  end.

(* D^2 (I - T^dagger T)[input,input] *)
Definition ryser_K (T : list (list Zi)) (D : Z) (d : nat) (inp idx : list nat) : list (list Zi) :=
  map (fun p => map (fun q =>
         ziadd (if Nat.eqb (nth p inp 0%nat) (nth q inp 0%nat) then (D * D, 0)%Z else zi0)
               (ziscale (-1) (zisum (map (fun r => zimul (ziconj (mget zi0 T r (nth p inp 0%nat)))
                                                     (mget zi0 T r (nth q inp 0%nat)))
                                      (seq 0 d))))) idx) idx.
(* row p of B_lab : label d is the loss block, label m < d the detected block of mode m *)
Definition ryser_Brow (coded : bool) (T G K : list (list Zi)) (d : nat) (inp idx : list nat)
           (lab p : nat) : list Zi :=
  if Nat.eqb lab d then map (fun q => zimul (mget zi0 G p q) (mget zi0 K p q)) idx
  else map (fun q =>
         let vp := mget zi0 T lab (nth p inp 0%nat) in
         let vq := mget zi0 T lab (nth q inp 0%nat) in
         zimul (mget zi0 G p q)
               (if coded then zimul vp (ziconj vq) else zimul (ziconj vp) vq)) idx.
Definition ryser_tot (coded : bool) (N : list (list Zi)) (D : Z) (d : nat)
           (G : list (list Zi)) (s t : list Z) : Zi :=
  let n := Z.to_nat (sumZ s) in
  let inp := expand s in
  let T := firstn d N in
  let idx := seq 0 n in
  let K := ryser_K T D d inp idx in
  let good := assign_counts n (firstn d t ++ [sumZ s - sumZ t]%Z) in
  zisum (map (fun a => ziperm (map (fun p => ryser_Brow coded T G K d inp idx (nth p a 0%nat) p) idx)) good).
Definition ryser_coeff (coded : bool) (N : list (list Zi)) (D : Z) (d : nat)
           (G : list (list Zi)) (Dg : Z) (s t : list Z) : Q :=
  if (sumZ s <? sumZ t)%Z then 0%Q else
  let tot := ryser_tot coded N D d G s t in
  let zin := fst (gram_blocks G 0 s) in
  Qred (inject_Z (fst tot) / inject_Z (D ^ (2 * sumZ s)) / inject_Z zin)%Q.

(* Gram matrix of a uniform overlap a/b over the denominator b:  a J + (b-a) I *)
Definition uniform_gram (n : nat) (a b : Z) : list (list Zi) :=
  map (fun p => map (fun q => if Nat.eqb p q then (b, 0)%Z else (a, 0)%Z) (seq 0 n)) (seq 0 n).

(* ====================================================================== *)
(*  8. The interfaces of PassiveState on top of the reference                *)
(* ====================================================================== *)
Inductive overlap :=
| Indist                                   (* _particle_overlap is None *)
| Uniform (x : Q)
| Gram (G : list (list Zi)) (Dg : Z).

Definition ref_prob (N : list (list Zi)) (D : Z) (d nloss : nat) (ov : overlap)
           (s t : list Z) : Q :=
  match ov with
  | Indist => pind N D nloss s t
  | Uniform x => pmix N D d nloss x s t
  | Gram G Dg => pgram N D nloss G Dg s t
  end.

(* get_particle_detection_probability over every key of the table *)
Definition ref_table (N : list (list Zi)) (D : Z) (d nloss : nat) (ov : overlap)
           (s : list Z) (dct : psdict) (cutoff : Z) : list Q :=
  let fulls := map (full_occupation d dct) (table_keys d dct cutoff) in
  match ov with
  | Uniform x => pmix_list N D d nloss x s fulls
  | _ => map (ref_prob N D d nloss ov s) fulls
  end.

(* marginal.py:get_marginal_fock_probabilities as a sum of the table (reference):
   outcomes = basis(|M|, n - n_post + 1); M are original mode labels *)
Definition index_of (x : nat) (l : list nat) : nat :=
  (fix go (l : list nat) (i : nat) : nat :=
     match l with [] => i | y :: r => if Nat.eqb x y then i else go r (S i) end) l 0%nat.
Definition project (act : list nat) (M : list nat) (occ : list Z) : list Z :=
  map (fun m => nth (index_of m act) occ 0%Z) M.
Definition marginal_of_table (keys : list (list Z)) (vals : list Q) (act M : list nat)
           (outcomes : list (list Z)) : list Q :=
  map (fun y => qsum (map snd (filter (fun kv => zl_eq (project act M (fst kv)) y)
                                      (combine keys vals)))) outcomes.
Definition marginal_cutoff (s : list Z) (dct : psdict) : Z :=
  (sumZ s - sumZ (ps_photons dct) + 1)%Z.
(* [vals] must be the reference table at cutoff [marginal_cutoff] *)
Definition ref_marginal_from (d : nat) (s : list Z) (dct : psdict) (vals : list Q) (M : list nat)
  : list (list Z) * list Q :=
  let c := marginal_cutoff s dct in
  let keys := table_keys d dct c in
  let outcomes := basis (length M) (Z.to_nat c) in
  (outcomes, marginal_of_table keys vals (active_modes d (ps_modes dct)) M outcomes).
Definition ref_marginal (N : list (list Zi)) (D : Z) (d nloss : nat) (ov : overlap)
           (s : list Z) (dct : psdict) (M : list nat) : list (list Z) * list Q :=
  ref_marginal_from d s dct (ref_table N D d nloss ov s dct (marginal_cutoff s dct)) M.

(* state_vector (lossless, indistinguishable): amplitude = perm / sqrt(s! t!); the model
   returns the Gaussian-integer permanent (scaled by D^n) and the integer s! t! *)
Definition ref_amplitudes (N : list (list Zi)) (d : nat) (s : list Z) (dct : psdict)
           (cutoff : Z) : list (Zi * Z) :=
  map (fun occ =>
         let t := full_occupation d dct occ in
         if Z.eqb (sumZ t) (sumZ s)
         then (ziperm (reduce zi0 (firstn d N) t s), (factprod s * factprod t)%Z)
         else (zi0, 1%Z))
      (table_keys d dct cutoff).

(* is the transmission matrix a multiple of a unitary (all singular values equal)?
   T^dagger T = c I, checked exactly  (state.py:_is_uniformly_lossy_or_lossless) *)
Definition gram_TT (N : list (list Zi)) (d : nat) : list (list Zi) :=
  let T := firstn d N in
  map (fun p => map (fun q => zisum (map (fun r => zimul (ziconj (mget zi0 T r p)) (mget zi0 T r q))
                                          (seq 0 d))) (seq 0 d)) (seq 0 d).
Definition zi_eqb (a b : Zi) : bool := Z.eqb (fst a) (fst b) && Z.eqb (snd a) (snd b).
Definition is_uniform (N : list (list Zi)) (d : nat) : bool :=
  let g := gram_TT N d in
  let c := mget zi0 g 0 0 in
  forallb (fun p => forallb (fun q => zi_eqb (mget zi0 g p q) (if Nat.eqb p q then c else zi0))
                            (seq 0 d)) (seq 0 d).
(* the columns of N (transmission rows + loss rows) are orthonormal up to D^2: the matrix
   really is the first d columns of a unitary dilation *)
Definition is_isometry (N : list (list Zi)) (D : Z) (d : nat) : bool :=
  let rows := seq 0 (length N) in
  forallb (fun p => forallb (fun q =>
     zi_eqb (zisum (map (fun r => zimul (ziconj (mget zi0 N r p)) (mget zi0 N r q)) rows))
            (if Nat.eqb p q then (D * D, 0)%Z else zi0)) (seq 0 d)) (seq 0 d).

(* ====================================================================== *)
(*  9. Instruction sequences (passive/simulation_steps.py): gates, losses and
       post-selections in program order.  A gate / loss step addresses positions of the
       ACTIVE numbering at the time it is applied (simulation_steps.py:_apply_matrix_on_modes:
       actual = active[modes]; embedded = identity(total); embedded[actual x actual] = M;
       interferometer = embedded @ interferometer).  The reference keeps, next to the
       transmission rows T, the rows L of the loss modes of the dilation: a step with
       contraction M/Dm and complement C/Dm (M^dagger M + C^dagger C = Dm^2 I) appends
       C . T[actual rows]; the final [T; L] is checked to be an isometry. *)
(* ====================================================================== *)
Inductive step :=
| SGate (modes : list nat) (M C : list (list Zi)) (Dm : Z)
| SPost (modes : list nat) (counts : list Z).

Definition index_opt (x : nat) (l : list nat) : option nat :=
  (fix go (l : list nat) (i : nat) : option nat :=
     match l with [] => None | y :: r => if Nat.eqb x y then Some i else go r (S i) end) l 0%nat.

Definition zi_mat_mul (A B : list (list Zi)) : list (list Zi) :=
  let ncols := length (nth 0 B []) in
  map (fun r => map (fun j => zisum (map (fun k => zimul (nth k r zi0) (mget zi0 B k j))
                                         (seq 0 (length B)))) (seq 0 ncols)) A.

Definition embed (total : nat) (actual : list nat) (M : list (list Zi)) (Dm : Z) : list (list Zi) :=
  map (fun i => map (fun j =>
         match index_opt i actual, index_opt j actual with
         | Some a, Some b => mget zi0 M a b
         | _, _ => if Nat.eqb i j then (Dm, 0%Z) else zi0
         end) (seq 0 total)) (seq 0 total).

Definition zi_identity (n : nat) : list (list Zi) :=
  map (fun i => map (fun j => if Nat.eqb i j then zi1 else zi0) (seq 0 n)) (seq 0 n).

Record seq_state := {
  q_T : list (list Zi); q_L : list (list Zi); q_D : Z; q_dct : psdict; q_cutoff : Z
}.

Definition apply_step (total : nat) (st : seq_state) (sp : step) : seq_state :=
  match sp with
  | SGate modes M C Dm =>
      let act := active_modes total (ps_modes (q_dct st)) in
      let actual := map (fun m => nth m act 0%nat) modes in
      let T' := zi_mat_mul (embed total actual M Dm) (q_T st) in
      let rows := map (fun a => nth a (q_T st) []) actual in
      let L' := map (map (ziscale Dm)) (q_L st) ++
                (match C with [] => [] | _ => zi_mat_mul C rows end) in
      {| q_T := T'; q_L := L'; q_D := (q_D st * Dm)%Z; q_dct := q_dct st; q_cutoff := q_cutoff st |}
  | SPost modes counts =>
      let '(dct', c') := set_postselection total (q_dct st) (q_cutoff st) modes counts in
      {| q_T := q_T st; q_L := q_L st; q_D := q_D st; q_dct := dct'; q_cutoff := c' |}
  end.

Definition run_sequence (total : nat) (cutoff0 : Z) (steps : list step) : seq_state :=
  fold_left (apply_step total) steps
            {| q_T := zi_identity total; q_L := []; q_D := 1%Z; q_dct := []; q_cutoff := cutoff0 |}.
