(* C07 — finite sums and tabulated matrices over a commutative ring with involution. *)
From Coq Require Import List Arith Bool Lia Ring.
From PV Require Import C07.CxBase C07.MomentsModel.
Import ListNotations.

Section Sums.
  Context {A : Type} (co : COps A).
  Local Notation "0" := (z0 co).
  Local Notation "1" := (z1 co).
  Local Infix "+" := (zadd co).
  Local Infix "*" := (zmul co).
  Local Notation "- x" := (zopp co x).
  Local Notation conj := (zconj co).
  Local Notation sumn := (sumn co).
  Local Notation get := (get co).
  Local Notation mk := (mk (A := A)).

  Hypothesis Ath : ring_theory 0 1 (zadd co) (zmul co) (zsub co) (zopp co) eq.
  Hypothesis conj_0 : conj 0 = 0.
  Hypothesis conj_1 : conj 1 = 1.
  Hypothesis conj_add : forall x y, conj (x + y) = conj x + conj y.
  Hypothesis conj_mul : forall x y, conj (x * y) = conj x * conj y.
  Hypothesis conj_conj : forall x, conj (conj x) = x.

  Add Ring Aring : Ath.

  (* ---- tabulation *)
  Lemma nth_map_seq : forall (X : Type) (g : nat -> X) n i dflt,
    i < n -> nth i (map g (seq O n)) dflt = g i.
  Proof.
    intros X g n i dflt H.
    rewrite nth_indep with (d' := g O) by (rewrite map_length, seq_length; exact H).
    rewrite map_nth. rewrite seq_nth by exact H. reflexivity.
  Qed.

  Lemma get_mk : forall r c f i j, i < r -> j < c -> get (mk r c f) i j = f i j.
  Proof.
    intros r c f i j Hi Hj. unfold MomentsModel.get, MomentsModel.mk.
    rewrite nth_map_seq by exact Hi. rewrite nth_map_seq by exact Hj. reflexivity.
  Qed.

  Lemma getv_mkv : forall n f i, i < n -> getv co (mkv n f) i = f i.
  Proof. intros. unfold getv, mkv. apply nth_map_seq. assumption. Qed.

  Lemma mk_ext : forall r c f g,
    (forall i j, i < r -> j < c -> f i j = g i j) -> mk r c f = mk r c g.
  Proof.
    intros r c f g H. unfold MomentsModel.mk. apply map_ext_in. intros i Hi.
    apply in_seq in Hi. apply map_ext_in. intros j Hj. apply in_seq in Hj.
    apply H; lia.
  Qed.

  (* ---- sums *)
  Lemma sumn_ext : forall n f g, (forall k, k < n -> f k = g k) -> sumn n f = sumn n g.
  Proof.
    induction n; intros f g H; simpl; [reflexivity|].
    rewrite (IHn f g) by (intros; apply H; lia). rewrite H by lia. reflexivity.
  Qed.

  Lemma sumn_zero : forall n, sumn n (fun _ => 0) = 0.
  Proof. induction n; simpl; [reflexivity|]. rewrite IHn. ring. Qed.

  Lemma sumn_add : forall n f g, sumn n (fun k => f k + g k) = sumn n f + sumn n g.
  Proof. induction n; intros; simpl; [ring|]. rewrite IHn. ring. Qed.

  Lemma sumn_mul_l : forall n c f, sumn n (fun k => c * f k) = c * sumn n f.
  Proof. induction n; intros; simpl; [ring|]. rewrite IHn. ring. Qed.

  Lemma sumn_mul_r : forall n c f, sumn n (fun k => f k * c) = sumn n f * c.
  Proof. induction n; intros; simpl; [ring|]. rewrite IHn. ring. Qed.

  Lemma sumn_conj : forall n f, conj (sumn n f) = sumn n (fun k => conj (f k)).
  Proof. induction n; intros; simpl; [apply conj_0|]. rewrite conj_add, IHn. reflexivity. Qed.

  Lemma sumn_swap : forall n m (f : nat -> nat -> A),
    sumn n (fun k => sumn m (fun l => f k l)) = sumn m (fun l => sumn n (fun k => f k l)).
  Proof.
    induction n; intros; simpl.
    - rewrite sumn_zero. reflexivity.
    - rewrite IHn. rewrite <- sumn_add. reflexivity.
  Qed.

  Lemma sumn_shift : forall n f, sumn (S n) f = f O + sumn n (fun k => f (S k)).
  Proof.
    induction n; intros; [simpl; ring|].
    change (sumn (S (S n)) f) with (sumn (S n) f + f (S n)).
    rewrite IHn. simpl. ring.
  Qed.

  Lemma sumn_split_add : forall n m f, sumn (n + m) f = sumn n f + sumn m (fun k => f (Nat.add n k)).
  Proof.
    induction m; intros f.
    - rewrite Nat.add_0_r. simpl. ring.
    - rewrite Nat.add_succ_r. simpl. rewrite IHm. ring.
  Qed.

  (* take the term with index m out of the sum *)
  Lemma sumn_split_at : forall n m f, m < n ->
    sumn n f = f m + sumn n (fun k => if Nat.eqb k m then 0 else f k).
  Proof.
    induction n; intros m f H; [lia|]. simpl.
    destruct (Nat.eq_dec m n) as [->|Hne].
    - rewrite Nat.eqb_refl.
      rewrite (sumn_ext n (fun k => if Nat.eqb k n then 0 else f k) f).
      + ring.
      + intros k Hk. destruct (Nat.eqb_spec k n); [lia|reflexivity].
    - rewrite (IHn m f) by lia.
      destruct (Nat.eqb_spec n m); [lia|]. ring.
  Qed.

  (* ---- positions in a duplicate-free tuple of modes *)
  Lemma pos_Some : forall l i a, pos i l = Some a -> a < length l /\ nth a l O = i.
  Proof.
    induction l as [|m r IH]; intros i a H; simpl in H; [discriminate|].
    destruct (Nat.eqb_spec i m) as [->|Hne].
    - inversion H; subst. simpl. split; [lia|reflexivity].
    - destruct (pos i r) as [b|] eqn:E; simpl in H; [|discriminate].
      inversion H; subst. destruct (IH i b E) as [H1 H2]. simpl. split; [lia|exact H2].
  Qed.

  Lemma pos_None : forall l i, pos i l = None <-> ~ In i l.
  Proof.
    induction l as [|m r IH]; intros i; simpl.
    - split; [intros _ []|reflexivity].
    - destruct (Nat.eqb_spec i m) as [->|Hne].
      + split; [discriminate|]. intros H. exfalso. apply H. left. reflexivity.
      + destruct (pos i r) as [b|] eqn:E; simpl.
        * split; [discriminate|]. intros H. exfalso.
          assert (~ In i r) by (intros Hin; apply H; right; exact Hin).
          apply IH in H0. congruence.
        * split; [|reflexivity]. intros _ [H|H]; [congruence|].
          apply (proj1 (IH i)) in H; [exact H|exact E].
  Qed.

  Lemma pos_In : forall l i, In i l -> exists a, pos i l = Some a.
  Proof.
    intros l i H. destruct (pos i l) as [a|] eqn:E; [eauto|].
    apply pos_None in E. contradiction.
  Qed.

  Lemma pos_nth : forall l a, NoDup l -> a < length l -> pos (nth a l O) l = Some a.
  Proof.
    induction l as [|m r IH]; intros a Hnd Ha; simpl in Ha; [lia|].
    inversion Hnd; subst. destruct a as [|a]; simpl.
    - rewrite Nat.eqb_refl. reflexivity.
    - destruct (Nat.eqb_spec (nth a r O) m) as [E|_].
      + exfalso. apply H1. rewrite <- E. apply nth_In. lia.
      + rewrite IH by (assumption || lia). reflexivity.
  Qed.

  Lemma nth_eqb_nodup : forall l a b, NoDup l -> a < length l -> b < length l ->
    Nat.eqb (nth a l O) (nth b l O) = Nat.eqb a b.
  Proof.
    intros l a b Hnd Ha Hb. destruct (Nat.eqb_spec a b) as [->|Hne].
    - apply Nat.eqb_refl.
    - apply Nat.eqb_neq. intros E. apply Hne.
      apply (proj1 (NoDup_nth l O) Hnd a b Ha Hb E).
  Qed.

  (* scatter a k-vector along the modes; unit vector *)
  Definition rowE (modes : list nat) (v : nat -> A) : nat -> A :=
    fun k => match pos k modes with Some c => v c | None => 0 end.
  Definition unit (i : nat) : nat -> A := fun k => if Nat.eqb k i then 1 else 0.

  Lemma sum_over_modes : forall modes d (h : nat -> nat -> A),
    NoDup modes -> (forall m, In m modes -> m < d) ->
    sumn d (fun k => match pos k modes with Some b => h b k | None => 0 end)
    = sumn (length modes) (fun b => h b (nth b modes O)).
  Proof.
    induction modes as [|m ms IH]; intros d h Hnd Hlt.
    - simpl. apply sumn_zero.
    - inversion Hnd; subst.
      rewrite (sumn_split_at d m) by (apply Hlt; left; reflexivity).
      simpl pos. rewrite Nat.eqb_refl.
      change (length (m :: ms)) with (S (length ms)). rewrite sumn_shift. simpl nth.
      f_equal.
      rewrite <- (IH d (fun b k => h (S b) k)); [|assumption|intros; apply Hlt; right; assumption].
      apply sumn_ext. intros k Hk.
      destruct (Nat.eqb_spec k m) as [->|Hne].
      + assert (E : pos m ms = None) by (apply pos_None; assumption). rewrite E. reflexivity.
      + destruct (pos k ms); reflexivity.
  Qed.

  Section WithModes.
    Variables (modes : list nat) (d : nat).
    Hypothesis Hnd : NoDup modes.
    Hypothesis Hlt : forall m, In m modes -> m < d.

    Lemma sum_rowE_l : forall v f,
      sumn d (fun k => rowE modes v k * f k) = sumn (length modes) (fun c => v c * f (nth c modes O)).
    Proof.
      intros v f. unfold rowE.
      rewrite <- (sum_over_modes modes d (fun c k => v c * f k)) by assumption.
      apply sumn_ext. intros k _. destruct (pos k modes); ring.
    Qed.

    Lemma sum_rowE_r : forall v f,
      sumn d (fun k => f k * rowE modes v k) = sumn (length modes) (fun c => f (nth c modes O) * v c).
    Proof.
      intros v f. unfold rowE.
      rewrite <- (sum_over_modes modes d (fun c k => f k * v c)) by assumption.
      apply sumn_ext. intros k _. destruct (pos k modes); ring.
    Qed.

    Lemma sum_unit_l : forall i f, i < d -> sumn d (fun k => unit i k * f k) = f i.
    Proof.
      intros i f Hi. rewrite (sumn_split_at d i) by exact Hi. unfold unit.
      rewrite Nat.eqb_refl.
      rewrite (sumn_ext d _ (fun _ => 0)).
      - rewrite sumn_zero. ring.
      - intros k _. destruct (Nat.eqb k i); ring.
    Qed.

    Lemma sum_unit_r : forall i f, i < d -> sumn d (fun k => f k * unit i k) = f i.
    Proof.
      intros i f Hi. rewrite <- (sum_unit_l i f Hi). apply sumn_ext. intros; ring.
    Qed.

    Lemma sum_zero_l : forall f, sumn d (fun k => 0 * f k) = 0.
    Proof. intros. rewrite (sumn_ext d _ (fun _ => 0)) by (intros; ring). apply sumn_zero. Qed.

    Lemma sum_zero_r : forall f, sumn d (fun k => f k * 0) = 0.
    Proof. intros. rewrite (sumn_ext d _ (fun _ => 0)) by (intros; ring). apply sumn_zero. Qed.
  End WithModes.

  (* ---- bilinear forms  x^T M y  *)
  Definition bil (d : nat) (x : nat -> A) (M : nat -> nat -> A) (y : nat -> A) : A :=
    sumn d (fun k => sumn d (fun l => x k * M k l * y l)).

  Lemma bil_eval : forall d x M y,
    bil d x M y = sumn d (fun l => sumn d (fun k => x k * M k l) * y l).
  Proof.
    intros. unfold bil. rewrite sumn_swap. apply sumn_ext. intros l _.
    rewrite <- sumn_mul_r. reflexivity.
  Qed.

  Lemma bil_ext : forall d x x' M M' y y',
    (forall k, k < d -> x k = x' k) -> (forall k l, k < d -> l < d -> M k l = M' k l) ->
    (forall l, l < d -> y l = y' l) -> bil d x M y = bil d x' M' y'.
  Proof.
    intros d x x' M M' y y' Hx HM Hy. unfold bil. apply sumn_ext. intros k Hk.
    apply sumn_ext. intros l Hl. rewrite Hx, HM, Hy by assumption. reflexivity.
  Qed.

  Lemma bil_transpose : forall d x M y, bil d x M y = bil d y (fun k l => M l k) x.
  Proof.
    intros. unfold bil. rewrite sumn_swap. apply sumn_ext. intros k _.
    apply sumn_ext. intros l _. ring.
  Qed.

  Lemma bil_conj : forall d x M y,
    conj (bil d x M y) = bil d (fun k => conj (x k)) (fun k l => conj (M k l)) (fun l => conj (y l)).
  Proof.
    intros. unfold bil. rewrite sumn_conj. apply sumn_ext. intros k _.
    rewrite sumn_conj. apply sumn_ext. intros l _. rewrite !conj_mul. reflexivity.
  Qed.

  Lemma bil_add_M : forall d x M N y,
    bil d x (fun k l => M k l + N k l) y = bil d x M y + bil d x N y.
  Proof.
    intros. unfold bil. rewrite <- sumn_add. apply sumn_ext. intros k _.
    rewrite <- sumn_add. apply sumn_ext. intros l _. ring.
  Qed.

  Lemma bil_delta : forall d x y,
    bil d x (fun k l => if Nat.eqb k l then 1 else 0) y = sumn d (fun k => x k * y k).
  Proof.
    intros. unfold bil. apply sumn_ext. intros k Hk.
    rewrite (sumn_ext d _ (fun l => unit k l * (x k * y l))).
    - rewrite sum_unit_l by exact Hk. reflexivity.
    - intros l _. unfold unit. rewrite (Nat.eqb_sym l k). destruct (Nat.eqb k l); ring.
  Qed.
End Sums.
