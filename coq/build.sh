#!/bin/bash
# Full .vo build of the Coq development (no arguments) or of the given .vo targets with
# their dependencies.  Own tiny Makefile instead of coq_makefile so that a file that does
# not even lex (someone else's work in progress) cannot break the dependency scan of the
# targets that do not depend on it.  Only the dependency scan is serialised with a lock;
# compilation runs concurrently (each check builds its own directory).
set -e
cd "$(dirname "$0")"
mkdir -p .deps.d
(
  flock 9
  for f in $(find theories -name '*.v' | sort); do
    d=".deps.d/$(echo "$f" | tr '/' '_').d"
    if [ ! -f "$d" ] || [ "$f" -nt "$d" ]; then
      coqdep -Q theories PV "$f" 2>/dev/null > "$d.tmp" || echo "# coqdep failed: $f" > "$d.tmp"
      mv "$d.tmp" "$d"
    fi
  done
  # drop dependency files of deleted sources
  for d in .deps.d/*.d; do
    [ -e "$d" ] || continue
    src=$(head -1 "$d" | sed -n 's/^\(theories[^ ]*\)\.vo .*/\1.v/p')
    [ -n "$src" ] && [ ! -f "$src" ] && rm -f "$d"
  done
  cat .deps.d/*.d > .deps.new 2>/dev/null || : > .deps.new
  mv .deps.new .deps
  cat > Makefile.mini <<'MK'
COQFLAGS := -q -Q theories PV -w -notation-overridden,-deprecated-hint-without-locality,-deprecated-syntactic-definition,-ambiguous-paths
VFILES := $(shell find theories -name '*.v' | sort)
all: $(VFILES:.v=.vo)
%.vo: %.v
	@echo COQC $<
	@timeout 1500 coqc $(COQFLAGS) $<
include .deps
MK
) 9>.build.lock
if [ $# -eq 0 ]; then
  timeout 3000 make -f Makefile.mini -j16 all 2>&1
else
  timeout 3000 make -f Makefile.mini -j8 "$@" 2>&1
fi
