(* C11 (b) — the value of the native permanent does not depend on the thread count.

   The incremental state of the kernel (column sums, binomial weight, sign) is proved equal to
   its direct definition at every Gray code in C04/ (gray_step_invariant, job_init_invariant),
   for C04's transcription of the same C++ (C04/PermModel.v: permanent_cpp,
   permanent_laplace_cpp, run_all with conc = min(4*threads, idx_max)).  From C04's outcome
   theorems the independence of the thread count follows with no hypothesis on the state. *)
From Coq Require Import ZArith List Bool Ring Lia.
From PV Require Import C04.PermModel C04.FinalProofs C04.GlynnFinal.
Import ListNotations.

Section Indep.
Variable A : Type.
Variables (rO rI : A) (radd rmul rsub : A -> A -> A) (ropp : A -> A).
Hypothesis Rth : ring_theory rO rI radd rmul rsub ropp (@eq A).
Variable wb : Z.

Theorem permanent_cpp_thread_independent w t t' M rows cols :
  length M = length rows -> 1 <= t -> 1 <= t' -> weight_n wb w (sum_nat rows) ->
  permanent_cpp A rO rI radd rmul ropp wb w t M rows cols =
  permanent_cpp A rO rI radd rmul ropp wb w t' M rows cols.
Proof.
  intros HM Ht Ht' Hw.
  destruct (permanent_cpp_outcome A rO rI radd rmul rsub ropp Rth wb w t M rows cols HM Ht Hw)
    as [[Hn E]|[He E]];
  destruct (permanent_cpp_outcome A rO rI radd rmul rsub ropp Rth wb w t' M rows cols HM Ht' Hw)
    as [[Hn' E']|[He' E']]; try contradiction.
  - rewrite E, E'. reflexivity.
  - destruct (split_row A M rows) as [[[row0 rest] r]|]; rewrite E, E'; reflexivity.
Qed.

Theorem permanent_laplace_cpp_thread_independent w t t' M rows cols :
  length M = length rows -> 1 <= t -> 1 <= t' -> weight_n wb w (sum_nat rows) ->
  permanent_laplace_cpp A rO rI radd rmul ropp wb w t M rows cols =
  permanent_laplace_cpp A rO rI radd rmul ropp wb w t' M rows cols.
Proof.
  intros HM Ht Ht' Hw.
  assert (D : forall t0, (length cols = 0 \/ sum_nat cols = 0) ->
            permanent_laplace_cpp A rO rI radd rmul ropp wb w t0 M rows cols = Ok ([rI], 0)).
  { intros t0 Hd. unfold permanent_laplace_cpp.
    destruct Hd as [Hd|Hd]; rewrite Hd; cbn [Nat.eqb]; rewrite ?orb_true_r; reflexivity. }
  pose proof (permanent_laplace_cpp_outcome A rO rI radd rmul rsub ropp Rth wb w t M rows cols HM Ht Hw) as O.
  pose proof (permanent_laplace_cpp_outcome A rO rI radd rmul rsub ropp Rth wb w t' M rows cols HM Ht' Hw) as O'.
  destruct (split_row A M rows) as [[[row0 rest] r]|].
  - destruct O as [Hd|E]; [rewrite !D by exact Hd; reflexivity|].
    destruct O' as [Hd|E']; [rewrite !D by exact Hd; reflexivity|].
    rewrite E, E'. reflexivity.
  - rewrite O, O'. reflexivity.
Qed.

(* and that common value is the permanent: for every thread count the numerator returned is
   2^e times the defining sum (C04's perm_loop_correct), so any two thread counts agree on it *)
Corollary permanent_cpp_value_every_thread_count w t M rows cols num e :
  length M = length rows -> Forall (fun row => length row = length cols) M ->
  1 <= t -> weight_n wb w (sum_nat rows) ->
  permanent_cpp A rO rI radd rmul ropp wb w t M rows cols = Ok (num, e) ->
  forall t', 1 <= t' ->
    permanent_cpp A rO rI radd rmul ropp wb w t' M rows cols
    = Ok (rmul (rpow A rI rmul (radd rI rI) e) (perm_def A rO rI radd rmul M rows cols), e).
Proof.
  intros HM HF Ht Hw E t' Ht'.
  rewrite (permanent_cpp_thread_independent w t' t M rows cols HM Ht' Ht Hw), E.
  rewrite (perm_loop_correct A rO rI radd rmul rsub ropp Rth wb w t M rows cols num e HM HF Ht Hw E).
  reflexivity.
Qed.
End Indep.
