(* C10 — carrier-polymorphic algebra used by every model of this property.

   The models (PermModel, GateModel, RepModel, DispModel) are written once, over a record of
   operations [Ops T]; they are *run* at Q and at the Gaussian rationals Q[i] (pairs of Q) in
   the correspondence check and *reasoned about* over an arbitrary commutative ring (a section
   hypothesis [ring_theory], Leibniz equality) in the proof files.  The derivative is defined
   through the dual numbers T[eps]/(eps^2) over the same record:
       D f x v := eps-part of f (x + eps v)
   i.e. the very same polymorphic function [f] is evaluated at [dualOps O].
   Definitions only. *)
From Coq Require Import List ZArith QArith Qabs Bool.
Import ListNotations.

Record Ops (T : Type) : Type := mkOps {
  o0 : T; o1 : T;
  oadd : T -> T -> T; omul : T -> T -> T; osub : T -> T -> T; oopp : T -> T;
  oconj : T -> T
}.
Arguments mkOps {T}.
Arguments o0 {T}. Arguments o1 {T}. Arguments oadd {T}. Arguments omul {T}.
Arguments osub {T}. Arguments oopp {T}. Arguments oconj {T}.

Section Generic.
  Context {T : Type} (O : Ops T).

  (* sum of [f x] over a list, right fold: f x1 + (f x2 + (... + 0)) *)
  Definition sum_map {X : Type} (f : X -> T) (l : list X) : T :=
    fold_right (fun x acc => oadd O (f x) acc) (o0 O) l.

  (* sum_{i<n} f i *)
  Definition sum_n (n : nat) (f : nat -> T) : T := sum_map f (seq 0 n).

  (* the image of a natural number (static_cast<double>(rows[i]) in grad_perm) *)
  Fixpoint of_nat (k : nat) : T :=
    match k with 0%nat => o0 O | S k' => oadd O (o1 O) (of_nat k') end.
End Generic.

(* ---- dual numbers T[eps]/(eps^2): (a, b) stands for a + eps b *)
Definition dualOps {T} (O : Ops T) : Ops (T * T) := mkOps
  (o0 O, o0 O) (o1 O, o0 O)
  (fun x y => (oadd O (fst x) (fst y), oadd O (snd x) (snd y)))
  (fun x y => (omul O (fst x) (fst y),
               oadd O (omul O (fst x) (snd y)) (omul O (snd x) (fst y))))
  (fun x y => (osub O (fst x) (fst y), osub O (snd x) (snd y)))
  (fun x => (oopp O (fst x), oopp O (snd x)))
  (fun x => (oconj O (fst x), oconj O (snd x))).

(* constants are embedded with eps-part 0 *)
Definition dconst {T} (O : Ops T) (a : T) : T * T := (a, o0 O).
(* std x = x|eps=0 ;  eps x = the derivative part *)
Definition std {T} (x : T * T) : T := fst x.
Definition epsp {T} (x : T * T) : T := snd x.

(* ---- complexification T[i]/(i^2+1): (a, b) stands for a + i b, with conjugation *)
Definition cplxOps {T} (O : Ops T) : Ops (T * T) := mkOps
  (o0 O, o0 O) (o1 O, o0 O)
  (fun x y => (oadd O (fst x) (fst y), oadd O (snd x) (snd y)))
  (fun x y => (osub O (omul O (fst x) (fst y)) (omul O (snd x) (snd y)),
               oadd O (omul O (fst x) (snd y)) (omul O (snd x) (fst y))))
  (fun x y => (osub O (fst x) (fst y), osub O (snd x) (snd y)))
  (fun x => (oopp O (fst x), oopp O (snd x)))
  (fun x => (oconj O (fst x), oopp O (oconj O (snd x)))).

(* ---- executable carriers *)
Definition QOps : Ops Q := mkOps 0%Q 1%Q Qplus Qmult Qminus Qopp (fun x => x).
Definition QiOps : Ops (Q * Q) := cplxOps QOps.
Definition ZOps : Ops Z := mkOps 0%Z 1%Z Z.add Z.mul Z.sub Z.opp (fun x => x).

(* ---- comparison of an exact model value with a float of the implementation (given as the
   exact dyadic rational of the float): |x - m| <= tol * (1 + |m|) *)
Definition q_close (tol m x : Q) : bool :=
  Qle_bool (Qabs (x - m)) (tol * (1 + Qabs m)).
Definition qi_close (tol : Q) (m x : Q * Q) : bool :=
  q_close tol (Qred (fst m)) (fst x) && q_close tol (Qred (snd m)) (snd x).
Fixpoint all2 {X Y} (p : X -> Y -> bool) (l1 : list X) (l2 : list Y) : bool :=
  match l1, l2 with
  | [], [] => true
  | a :: r1, b :: r2 => p a b && all2 p r1 r2
  | _, _ => false
  end.
