"""C17 — The fermionic simulators agree with each other and with exclusion."""
import itertools
import json
import math
import os
import sys
import time
from fractions import Fraction as F

from common import (CASES_HEADER, VERIF, Check, clist, coq_eval_parallel, cz, parse_coq_list,
                    run_impl)

IMPORTS = (CASES_HEADER +
           "From PV Require Import Base.CasesLib Comb.FockModel Comb.FermiModel C17.FermiRepModel.\n"
           "Definition tol : Q := Qmake 1 1000000000.\n")
TOL = 1e-9
CORPUS = os.path.join(VERIF, "harness", "corpus", "c17.jsonl")

# ----------------------------------------------------------------------------- exact numbers
PYTH = [(F(1), F(0)), (F(0), F(1)), (F(-1), F(0)), (F(0), F(-1)),
        (F(3, 5), F(4, 5)), (F(4, 5), F(-3, 5)), (F(-5, 13), F(12, 13)), (F(12, 13), F(5, 13)),
        (F(8, 17), F(-15, 17)), (F(-7, 25), F(-24, 25)), (F(20, 29), F(21, 29)), (F(-3, 5), F(4, 5))]
TS = [F(1, 2), F(1, 3), F(2, 3), F(1, 4), F(3, 4), F(2), F(3, 2), F(1, 5), F(2, 5), F(-1, 2),
      F(-2, 3), F(3), F(1), F(0), F(-1, 3), F(4, 3)]


def cmul(a, b):
    return (a[0] * b[0] - a[1] * b[1], a[0] * b[1] + a[1] * b[0])


def cadd(a, b):
    return (a[0] + b[0], a[1] + b[1])


def cconj(a):
    return (a[0], -a[1])


def cneg(a):
    return (-a[0], -a[1])


C0 = (F(0), F(0))
C1 = (F(1), F(0))


def cs_of(t):
    return (1 - t * t) / (1 + t * t), 2 * t / (1 + t * t)


def approx(x):
    """rational within 1e-15 of a float (used only where cos/sin are irrational)"""
    return F(int(round(x * 10 ** 15)), 10 ** 15)


def ang_t(t):
    """generic angle 2*atan(t) with rational cos and sin"""
    c, s = cs_of(t)
    return {"c": c, "s": s, "a": 2 * math.atan(float(t)), "tag": "2atan(%s)" % t}


def ang_pyth(e):
    return {"c": e[0], "s": e[1], "a": math.atan2(float(e[1]), float(e[0])), "tag": "pyth"}


def ang_float(a, tag, exact=None, scale=1.0):
    """angle given as the float handed to the code; the model gets cos/sin of a*scale (exact
    where rational, otherwise a 1e-15 rational approximation)"""
    if exact is not None:
        c, s = F(exact[0]), F(exact[1])
    else:
        c, s = approx(math.cos(a * scale)), approx(math.sin(a * scale))
    return {"c": c, "s": s, "a": a, "tag": tag}


QUARTER = [(1, 0), (0, 1), (-1, 0), (0, -1)]
TINY = F(1, 10 ** 12)


def special_angles(scale=1.0):
    """special values of an angle parameter x (the model uses cos/sin of x*scale)"""
    out = [ang_float(0.0, "0", (1, 0), scale),
           {"c": F(1), "s": TINY * F(scale), "a": 1e-12, "tag": "+1e-12"},
           {"c": F(1), "s": -TINY * F(scale), "a": -1e-12, "tag": "-1e-12"}]
    for k in (1, -1, 2, 3, 4, -4, 8):
        a = k * math.pi / 2
        if scale == 1.0:
            ex = QUARTER[k % 4]
        elif scale == 0.5 and k % 2 == 0:
            ex = QUARTER[(k // 2) % 4]
        else:
            ex = None
        out.append(ang_float(a, "%d*pi/2" % k, ex, scale))
    out += [ang_float(10.0, "10", None, scale), ang_float(-10.0, "-10", None, scale),
            ang_float(-0.7, "-0.7", None, scale)]
    return out


def pick_angle(rng, ts, scale=1.0, special=0.25):
    if rng.random() < special:
        return rng.choice(special_angles(scale))
    a = ang_t(rng.choice(ts))
    if scale != 1.0:   # the parameter is 1/scale times the modelled angle
        a = dict(a, a=a["a"] / scale)
    return a


def pick_phase(rng, special=0.25):
    if rng.random() < special:
        return rng.choice(special_angles())
    return ang_pyth(rng.choice(PYTH))


def e_of(ph):
    return (ph["c"], ph["s"])


def bs_block(th, e):
    """[[t, -conj r], [r, t]] with t = cos(theta), r = e^{i phi} sin(theta); th is an angle
    specification or a rational t of the half-angle parametrisation, e a unit complex pair"""
    if isinstance(th, dict):
        c, s = th["c"], th["s"]
    else:
        c, s = cs_of(th)
    r = cmul(e, (s, F(0)))
    return [[(c, F(0)), cneg(cconj(r))], [r, (c, F(0))]]


def mat_mul(X, Y):
    n, m, k = len(X), len(Y[0]), len(Y)
    out = []
    for i in range(n):
        row = []
        for j in range(m):
            s = C0
            for l in range(k):
                if X[i][l] != C0 and Y[l][j] != C0:
                    s = cadd(s, cmul(X[i][l], Y[l][j]))
            row.append(s)
        out.append(row)
    return out


def identity(d):
    return [[C1 if i == j else C0 for j in range(d)] for i in range(d)]


def embed(d, modes, U):
    M = identity(d)
    for a, i in enumerate(modes):
        for b, j in enumerate(modes):
            M[i][j] = U[a][b]
    return M


def rand_unitary(rng, k, rich=True):
    """Exact unitary with Gaussian-rational entries: product of Givens rotations and phases."""
    U = identity(k)
    pairs = [(i, j) for i in range(k) for j in range(i + 1, k)]
    rng.shuffle(pairs)
    if not rich:
        pairs = pairs[: max(1, len(pairs) // 2)]
    for (i, j) in pairs:
        t = rng.choice(TS[:12])
        e = rng.choice(PYTH)
        U = mat_mul(embed(k, (i, j), bs_block(t, e)), U)
    ph = [rng.choice(PYTH) for _ in range(k)]
    U = [[cmul(ph[i], U[i][j]) for j in range(k)] for i in range(k)]
    return U


def det_exact(M):
    """Determinant of a square matrix of Gaussian rationals by Leibniz expansion (n <= 6)."""
    n = len(M)
    if n == 0:
        return C1
    total = C0
    for perm in itertools.permutations(range(n)):
        inv = sum(1 for a in range(n) for b in range(a + 1, n) if perm[a] > perm[b])
        term = C1
        for i in range(n):
            term = cmul(term, M[i][perm[i]])
            if term == C0:
                break
        if term != C0:
            total = cadd(total, cneg(term) if inv % 2 else term)
    return total


def minor(U, R, C):
    return det_exact([[U[r][c] for c in C] for r in R])


def basis(d):
    """Fermionic Fock order: by particle number, then anti-lexicographic."""
    return sorted(itertools.product((0, 1), repeat=d), key=lambda b: (sum(b), tuple(-x for x in b)))


def fq(occ):
    return tuple(i for i, x in enumerate(occ) if x == 1)


# ----------------------------------------------------------------------------- rendering
def cq(fr):
    fr = F(fr)
    return "(Qmake %s %d)" % (cz(fr.numerator), fr.denominator)


def cqi(z):
    if z == C0:
        return "qi0"
    if z == C1:
        return "qi1"
    return "(%s, %s)" % (cq(z[0]), cq(z[1]))


def cmat(M):
    return clist(M, lambda r: clist(r, cqi))


def fl(x):
    """float of the implementation as a rational with 12 decimals"""
    return F(int(round(x * 10 ** 12)), 10 ** 12)


def fqi(z):
    return (fl(z[0]), fl(z[1]))


def tofloat(U):
    return [[[float(z[0]), float(z[1])] for z in row] for row in U]


def close(exact, got):
    return abs(float(exact) - got) <= TOL * (1 + abs(float(exact)))


def cclose(z, got):
    return close(z[0], got[0]) and close(z[1], got[1])


# ----------------------------------------------------------------------------- programs
def consecutive_runs(d, k):
    return [tuple(range(a, a + k)) for a in range(0, d - k + 1)]


def gen_gate(rng, d, kinds, special=0.25):
    while True:
        k = rng.choice(kinds)
        if k == "I":
            size = rng.randint(1, d)
            modes = rng.choice(consecutive_runs(d, size))
            return {"g": "I", "modes": list(modes), "Ux": rand_unitary(rng, size, rich=rng.random() < 0.6)}
        if k == "PS":
            return {"g": "PS", "modes": [rng.randrange(d)], "ph": pick_phase(rng, special)}
        if d < 2:
            continue
        a = rng.randrange(d - 1)
        if k == "BS":
            return {"g": "BS", "modes": [a, a + 1], "th": pick_angle(rng, TS, 1.0, special), "ph": pick_phase(rng, special)}
        if k == "SQ2":
            return {"g": "SQ2", "modes": [a, a + 1], "r": pick_angle(rng, TS[:12], 0.5, special), "ph": pick_phase(rng, special)}
        if k == "XX":
            return {"g": "XX", "modes": [a, a + 1], "ph": pick_angle(rng, TS[:12], 1.0, special)}
        if k == "CP":
            b = rng.randrange(d)
            c = rng.choice([x for x in range(d) if x != b])
            return {"g": "CP", "modes": [b, c], "ph": pick_phase(rng, special)}


# (gate kind, parameter name, scale of the modelled angle) of every real parameter
PARAMS = [("BS", "th", 1.0), ("BS", "ph", 1.0), ("PS", "ph", 1.0), ("SQ2", "r", 0.5),
          ("SQ2", "ph", 1.0), ("XX", "ph", 1.0), ("CP", "ph", 1.0)]


def special_programs(rng, thorough):
    """every parameter of every gate at every special value, alone and inside a 3-gate program
    (the position of the special gate rotates; all positions in the thorough tier)"""
    progs = []
    idx = 0
    rot = rng.randrange(3)
    for kind, par, scale in PARAMS:
        for sp in special_angles(scale):
            idx += 1
            # quick: every value alone, and a third of them (rotating with the seed) inside a
            # 3-gate program; thorough: alone and at every position
            for pos in ((0, 1, 2, None) if thorough else ((idx // 3 % 3, None) if idx % 3 == rot else (None,))):
                d = rng.choice((2, 3, 3, 4) if thorough else (2, 3, 3)) if pos is not None else rng.choice((2, 3))
                g = gen_gate(rng, d, [kind], special=0.0)
                g[par] = sp
                if pos is None:
                    gates = [g]
                else:
                    others = ["BS", "SQ2", "XX", "PS", "I"] if kind != "CP" else ["BS", "SQ2", "XX", "CP"]
                    gates = [gen_gate(rng, d, others, special=0.0) for _ in range(2)]
                    gates.insert(pos, g)
                occ = [rng.randint(0, 1) for _ in range(d)]
                if pos is None and kind in ("SQ2", "XX"):
                    occ[g["modes"][0]] = occ[g["modes"][1]] = rng.randint(0, 1)
                if any(x["g"] == "CP" for x in gates):
                    label = "fock-only"
                elif all(x["g"] in ("I", "BS", "PS") for x in gates):
                    label = "passive"
                else:
                    label = "mixed"
                progs.append({"d": d, "occ": occ, "gates": gates, "label": label,
                              "special": "%s.%s=%s@%s" % (kind, par, sp["tag"], pos)})
    return progs


def gate_request(g):
    """parameters handed to the real code (floats)"""
    r = {"g": g["g"], "modes": g["modes"]}
    if g["g"] == "I":
        r["U"] = tofloat(g["Ux"])
    elif g["g"] == "BS":
        r["theta"] = g["th"]["a"]
        r["phi"] = g["ph"]["a"]
    elif g["g"] in ("PS", "CP", "XX"):
        r["phi"] = g["ph"]["a"]
    elif g["g"] == "SQ2":
        r["r"] = g["r"]["a"]
        r["phi"] = g["ph"]["a"]
    return r


def passive_block(g):
    if g["g"] == "I":
        return g["Ux"]
    if g["g"] == "BS":
        return bs_block(g["th"], e_of(g["ph"]))
    if g["g"] == "PS":
        return [[e_of(g["ph"])]]
    return None


def gate_coq(g):
    m = clist(g["modes"])
    if g["g"] in ("I", "BS", "PS"):
        return "GPassive %s %s" % (m, cmat(passive_block(g)))
    if g["g"] == "SQ2":
        c, s = g["r"]["c"], g["r"]["s"]      # cos(r/2), sin(r/2)
        e = e_of(g["ph"])
        return "GSqueezing2 %s %s %s %s %s" % (m, cqi((c, F(0))), cqi((s, F(0))), cqi(e), cqi(cconj(e)))
    if g["g"] == "CP":
        return "GCPhase %s %s" % (m, cqi(e_of(g["ph"])))
    if g["g"] == "XX":
        return "GIsingXX %s %s %s" % (m, cqi((g["ph"]["c"], F(0))), cqi((F(0), g["ph"]["s"])))
    raise ValueError(g)


def describe(p):
    """JSON-able form of a program (read back by corpus_program)"""
    def val(k, v):
        if k == "Ux":
            return [[[str(z[0]), str(z[1])] for z in row] for row in v]
        if isinstance(v, dict):
            return {"c": str(v["c"]), "s": str(v["s"]), "a": v["a"], "tag": v.get("tag", "")}
        return v
    out = {"d": p["d"], "occ": p["occ"], "label": p.get("label", "mixed"),
           "gates": [{k: val(k, v) for k, v in g.items()} for g in p["gates"]]}
    if "special" in p:
        out["special"] = p["special"]
    return out


def gen_programs(rng, thorough):
    progs = []
    count = 0
    for d in range(1, 6):
        for occ in itertools.product((0, 1), repeat=d):
            per = 5 if thorough else (2 if d <= 3 else 1)
            for j in range(per):
                count += 1
                if per == 1:
                    j = count % 2
                if j % 2 == 0:
                    kinds, label = ["I", "BS", "PS", "BS"], "passive"
                else:
                    kinds, label = ["I", "BS", "PS", "SQ2", "XX", "SQ2", "XX"], "mixed"
                if j == 4:
                    kinds, label = ["BS", "PS", "SQ2", "XX", "CP", "CP"], "fock-only"
                n = rng.randint(1, 6 if thorough else 5)
                gates = [gen_gate(rng, d, kinds) for _ in range(n)]
                if label == "fock-only" and not any(g["g"] == "CP" for g in gates):
                    label = "mixed"
                if label == "mixed" and all(g["g"] in ("I", "BS", "PS") for g in gates):
                    label = "passive"
                progs.append({"d": d, "occ": list(occ), "gates": gates, "label": label})
    return progs


def load_corpus():
    out = []
    if os.path.exists(CORPUS):
        for line in open(CORPUS):
            line = line.strip()
            if line and not line.startswith("#"):
                out.append(json.loads(line))
    return out


def corpus_program(c):
    gates = []
    for g in c["gates"]:
        g = dict(g)
        for k, v in list(g.items()):
            if k == "Ux":
                g[k] = [[(F(z[0]), F(z[1])) for z in row] for row in v]
            elif isinstance(v, dict):
                g[k] = {"c": F(v["c"]), "s": F(v["s"]), "a": float(v["a"]), "tag": v.get("tag", "")}
        gates.append(g)
    p = {"d": c["d"], "occ": c["occ"], "gates": gates, "label": c.get("label", "mixed")}
    if "special" in c:
        p["special"] = c["special"]
    return p


def finite(x):
    if isinstance(x, (list, tuple)):
        return all(finite(y) for y in x)
    return isinstance(x, (int, float)) and math.isfinite(x)


def exc_class(msg):
    return msg.split(":", 1)[0]


def judge_program(chk, p, o):
    """The property stated on the implementation for one program; returns (evaluations,
    differential comparisons).  A program one simulator executes and the other refuses, or for
    which one returns non-finite numbers, violates 'both give the same covariance matrix and
    occupation probabilities' unless both refuse with the same exception class."""
    d = p["d"]
    neval = 0
    kinds = "+".join(sorted({g["g"] for g in p["gates"]}))
    both = p["label"] != "fock-only"
    ferr, gerr = o.get("fock_error"), (o.get("gaussian_error") if both else None)
    if ferr and gerr:
        if exc_class(ferr) == exc_class(gerr):
            chk.notes.append("both simulators refuse identically (%s): %s" % (exc_class(ferr), json.dumps(describe(p))[:300]))
        else:
            chk.violation("C17:differential:refusal-mismatch:%s" % kinds, "the simulators refuse differently: Fock %s / Gaussian %s" % (ferr, gerr), {"program": describe(p)})
        return 1, 0
    if ferr:
        chk.violation("C17:PureFockSimulator:raises:%s" % kinds,
                      ("only the Fock simulator refuses the program: " if both else "supported program raises: ") + ferr, {"program": describe(p)})
        return 1, 0
    if not finite([o["state"], o["probs"], o["cov"], o["norm"]]):
        chk.violation("C17:PureFockSimulator:non-finite:%s" % kinds, "state vector / probabilities / covariance contain NaN or inf", {"program": describe(p)})
        return 1, 0
    keys = [tuple(k) for k in o["keys"]]
    neval += len(keys)
    if sorted(keys) != sorted(itertools.product((0, 1), repeat=d)) or keys != basis(d):
        chk.violation("C17:fock_probabilities_map:keys", "occupation keys are not every 0/1 vector once, in Fock order", {"program": describe(p)})
    if abs(sum(o["probs"]) - 1) > TOL or abs(o["norm"] - 1) > TOL or o["probs_imag"] > TOL or min(o["probs"]) < -TOL:
        chk.violation("C17:PureFockSimulator:normalisation:%s" % kinds, "probabilities do not sum to one", {"program": describe(p), "sum": sum(o["probs"])})
    if any(abs(x - y) > TOL for x, y in zip(o["probs"], o["pdp"])):
        chk.violation("C17:PureFockState.get_particle_detection_probability", "differs from fock_probabilities_map", {"program": describe(p)})
    par = sum(p["occ"]) % 2
    bad = [k for k, pr in zip(keys, o["probs"]) if sum(k) % 2 != par and abs(pr) > 1e-12]
    if bad:
        chk.violation("C17:PureFockSimulator:parity:%s" % kinds, "weight on the wrong particle-number parity", {"program": describe(p), "occupations": bad[:4]})
    gauss_ok = both and not gerr and finite([o.get("gcov"), o.get("gprobs"), o.get("gmean")])
    if p["label"] == "passive":
        bad = [k for k, pr in zip(keys, o["probs"]) if sum(k) != sum(p["occ"]) and abs(pr) > 1e-12]
        if bad:
            chk.violation("C17:PureFockSimulator:number:%s" % kinds, "passive program changes the particle number", {"program": describe(p), "occupations": bad[:4]})
        Tm = identity(d)
        for g in p["gates"]:
            Tm = mat_mul(embed(d, g["modes"], passive_block(g)), Tm)
        S = fq(p["occ"])
        for k, pr, gp in zip(keys, o["probs"], o["gprobs"] if gauss_ok else o["probs"]):
            if sum(k) == len(S):
                m = minor(Tm, fq(k), S)
                ex = m[0] * m[0] + m[1] * m[1]
                neval += 1
                if not close(ex, pr):
                    chk.violation("C17:PureFockSimulator:passive-probability:%s" % kinds, "probability != |det U[out,in]|^2", {"program": describe(p), "out": k, "got": pr, "expected": float(ex)})
                    break
                if not close(ex, gp):
                    chk.violation("C17:GaussianSimulator:passive-probability:%s" % kinds, "probability != |det U[out,in]|^2", {"program": describe(p), "out": k, "got": gp, "expected": float(ex)})
                    break
    if not both:
        return neval, 0
    if gerr:
        chk.violation("C17:GaussianSimulator:raises:%s" % kinds,
                      "only the Gaussian simulator refuses the program (the Fock simulator executes it): " + gerr, {"program": describe(p)})
        return neval, 1
    if not gauss_ok:
        chk.violation("C17:GaussianSimulator:non-finite:%s" % kinds, "covariance matrix / probabilities contain NaN or inf while the Fock simulator returns finite values", {"program": describe(p)})
        return neval, 1
    cov, gcov = o["cov"], o["gcov"]
    n2 = 2 * d
    neval += n2 * n2 + len(keys)
    err = max(abs(cov[i][j] - gcov[i][j]) for i in range(n2) for j in range(n2))
    if err > 1e-8:
        chk.violation("C17:covariance:fock-vs-gaussian:%s" % kinds, "covariance matrices of the two simulators differ (max abs diff %.3g)" % err, {"program": describe(p), "fock": cov, "gaussian": gcov})
    skew = max(abs(gcov[i][j] + gcov[j][i]) for i in range(n2) for j in range(n2))
    if skew > 1e-8:
        chk.violation("C17:GaussianState.covariance_matrix:skew", "not skew-symmetric", {"program": describe(p)})
    perr = max(abs(x - y) for x, y in zip(o["probs"], o["gprobs"]))
    if perr > 1e-8:
        chk.violation("C17:probabilities:fock-vs-gaussian:%s" % kinds, "occupation probabilities of the two simulators differ (max abs diff %.3g)" % perr, {"program": describe(p), "fock": o["probs"], "gaussian": o["gprobs"]})
    if abs(sum(o["gprobs"]) - 1) > 1e-8:
        chk.violation("C17:GaussianSimulator:normalisation:%s" % kinds, "Gaussian occupation probabilities do not sum to one", {"program": describe(p), "sum": sum(o["gprobs"])})
    mean_f = [sum(pr * k[m] for k, pr in zip(keys, o["probs"])) for m in range(d)]
    if max(abs(x - y) for x, y in zip(mean_f, o["gmean"])) > 1e-8:
        chk.violation("C17:mean_particle_numbers:fock-vs-gaussian:%s" % kinds, "mean occupation differs", {"program": describe(p), "fock": mean_f, "gaussian": o["gmean"]})
    return neval, 1


def program_request(p):
    return {"d": p["d"], "occ": p["occ"], "gates": [gate_request(g) for g in p["gates"]],
            "gaussian": p["label"] != "fock-only"}


def replay(chk: Check, path):
    """./check C17 --replay <file>: re-run the programs recorded in a replay file on the
    implementation and judge them again; violations without a program re-run the whole check."""
    data = json.load(open(path))
    progs = []
    for v in data.get("violations", []):
        w = v.get("witness") or {}
        prog = w.get("program") if isinstance(w, dict) else None
        if prog is None and isinstance(w, dict) and "gates" in w:
            prog = w
        if prog is None:
            return run(chk)
        progs.append(corpus_program(prog))
    if not progs:
        return run(chk)
    seen, uniq = set(), []
    for p in progs:
        k = json.dumps(describe(p), sort_keys=True)
        if k not in seen:
            seen.add(k)
            uniq.append(p)
    impl = run_impl("c17_impl.py", {"programs": [program_request(p) for p in uniq]}, timeout=3000)
    neval = 0
    for p, o in zip(uniq, impl["programs"]):
        neval += judge_program(chk, p, o)[0]
    chk.stream("replayed programs judged on the implementation (search)", neval, len(uniq), kind="search",
               samples=[describe(uniq[0])])
    chk.finish(rule="programs of the replay file", explanation="replay of %s: the recorded programs are executed again on both simulators and judged by the direct statement of the property" % path)


# ----------------------------------------------------------------------------- the check
def _t(chk, what):
    now = time.time()
    if os.environ.get("C17_DEBUG"):
        sys.stderr.write("[c17] %-28s %6.1fs\n" % (what, now - chk._last))
    chk._last = now


def run(chk: Check):
    chk._last = time.time()
    chk.proofs()
    _t(chk, "proofs")
    T = chk.thorough
    rng = chk.rng
    corr_broken = []

    # ---------------- inputs
    rep_cases = []
    dmax_rep = 6 if T else 5
    for d in range(1, dmax_rep + 1):
        for rep_i in range(3 if T else 1):
            U = rand_unitary(rng, d, rich=(rep_i != 1))
            if rep_i == 0 and (T or d == 3):
                cuts = sorted({0, 1, 2, 3, d, d + 1, d + 2})
            else:
                cuts = [d + 1]
            for c in cuts:
                rep_cases.append({"d": d, "cutoff": c, "Ux": U})
    # a non-unitary matrix with distinct small-integer entries: any index slip changes a minor
    for d in ((3, 4, 5) if T else (3, 4)):
        U = [[(F(3 * i + 7 * j + i * j * j + 1), F((i + 2) * (j + 1) % 5 - 2)) for j in range(d)] for i in range(d)]
        rep_cases.append({"d": d, "cutoff": d + 1, "Ux": U})

    tab_cases = []
    for d in range(2, (7 if T else 5) + 1):
        for a in range(d):
            for b in range(d):
                if a != b:
                    if T:
                        cuts = [d + 1, d, 2, 1]
                    else:
                        cuts = [d + 1, 2] if b == a + 1 else [d + 1]
                    for c in cuts:
                        tab_cases.append({"d": d, "cutoff": c, "modes": [a, b]})
    il_cases = []
    for d in range(1, (6 if T else 5) + 1):
        for k in range(1, d + 1):
            for modes in consecutive_runs(d, k):
                for c in (sorted({d + 1, max(1, d - 1), 2}) if (T or d <= 3) else [d + 1]):
                    il_cases.append({"d": d, "cutoff": c, "modes": list(modes)})

    programs = [corpus_program(c) for c in load_corpus()] + special_programs(rng, T) + gen_programs(rng, T)

    # outside the property's quantifier (recorded, never a violation): Ising-XX on descending or
    # non-adjacent modes
    probes = [
        {"d": 2, "occ": [1, 1], "gates": [{"g": "XX", "modes": [1, 0], "ph": ang_t(F(1, 2))}], "label": "probe"},
        {"d": 3, "occ": [1, 0, 0], "gates": [{"g": "XX", "modes": [2, 1], "ph": ang_t(F(1, 3))}], "label": "probe"},
        {"d": 3, "occ": [1, 1, 0], "gates": [{"g": "XX", "modes": [0, 2], "ph": ang_t(F(1, 2))}], "label": "probe"},
    ]
    req = {
        "probes": [{"d": p["d"], "occ": p["occ"], "gates": [gate_request(g) for g in p["gates"]], "gaussian": True} for p in probes],
        "rep": [{"d": r["d"], "cutoff": r["cutoff"], "U": tofloat(r["Ux"])} for r in rep_cases],
        "tables": tab_cases,
        "ilist": il_cases,
        "programs": [program_request(p) for p in programs],
    }
    _t(chk, "generate")
    impl = run_impl("c17_impl.py", req, timeout=3000)
    _t(chk, "implementation")

    # ---------------- correspondence 1: representation (both variants) vs model and exact minors
    bodies, groups = [], []
    chunk = 4 if T else 6
    for i in range(0, len(rep_cases), chunk):
        items = []
        for r, o in zip(rep_cases[i:i + chunk], impl["rep"][i:i + chunk]):
            def mats(ms):
                return clist(ms, lambda m: clist(m, lambda row: clist(row, lambda z: cqi(fqi(z)))))
            items.append("(%s, %d%%nat, %s, %s)" % (cmat(r["Ux"]), r["cutoff"], mats(o["generic"]), mats(o["numba"])))
        bodies.append(IMPORTS + """
Definition qi_eqb (x y : Qi) : bool := Qeq_bool (fst x) (fst y) && Qeq_bool (snd x) (snd y).
Definition cases : list (list (list Qi) * nat * list (list (list Qi)) * list (list (list Qi))) := [%s].
Definition ok (x : list (list Qi) * nat * list (list (list Qi)) * list (list (list Qi))) : bool :=
  let '(U, cutoff, gen, nb) := x in
  let m := qi_reps_numba U cutoff in
  let g := qi_reps_generic U cutoff in
  qilll_close tol g gen && qilll_close tol m nb &&
  all2 (all2 (all2 qi_eqb)) g m &&
  forallb (fun n => qill_close tol (qi_minor_matrix U n) (nth n nb []) &&
                    all2 (all2 qi_eqb) (qi_minor_matrix U n) (nth n m []))
          (seq 0 (Nat.min (List.length m) (S (List.length U)))).
Eval vm_compute in mismatches ok cases.
""" % ";\n".join(items))
        groups.append(list(range(i, min(i + chunk, len(rep_cases)))))
    outs = coq_eval_parallel("c17_rep", bodies, jobs=4)
    _t(chk, "coq rep (%d files)" % len(bodies))
    for grp, o in zip(groups, outs):
        for k in parse_coq_list(o)[0]:
            r = rep_cases[grp[k]]
            corr_broken.append("rep: model/exact minors != implementation at d=%d cutoff=%d" % (r["d"], r["cutoff"]))
    chk.stream("calculate_interferometer_on_fermionic_fock_space, generic and numba variant, vs model and vs exact minors (Gaussian-rational matrices, d<=%d)" % dmax_rep,
               sum(sum(len(m) * len(m) for m in o["numba"]) for o in impl["rep"]),
               sum(1 for r in rep_cases if r["d"] >= 3 and r["cutoff"] >= 3),
               samples=[{"d": rep_cases[-1]["d"], "cutoff": rep_cases[-1]["cutoff"], "U": [[[str(z[0]), str(z[1])] for z in row] for row in rep_cases[-1]["Ux"]]}])

    # ---------------- correspondence 2: index tables (exact)
    bodies, groups = [], []
    chunk = 60 if T else 35
    for i in range(0, len(tab_cases), chunk):
        items = ["(%d%%nat, %d, %s, %s, %s)" % (r["d"], r["cutoff"], clist(r["modes"]), clist(o["cp"]),
                                                clist(o["xx"], clist))
                 for r, o in zip(tab_cases[i:i + chunk], impl["tables"][i:i + chunk])]
        bodies.append(IMPORTS + """
Definition cases : list (nat * Z * list Z * list Z * list (list Z)) := [%s].
Definition ok (x : nat * Z * list Z * list Z * list (list Z)) : bool :=
  let '(d, cutoff, modes, cp, xx) := x in
  zl_eqb (cphase_indices d cutoff modes) cp && zll_eqb (ising_indices d cutoff modes) xx.
Eval vm_compute in mismatches ok cases.
""" % ";\n".join(items))
        groups.append(i)
    nt = len(bodies)
    chunk2 = 40
    for i in range(0, len(il_cases), chunk2):
        items = ["(%s, %d%%nat, %d%%nat, %s)" % (clist(r["modes"]), r["d"], r["cutoff"],
                                                 clist(o, lambda m: clist(m, clist)))
                 for r, o in zip(il_cases[i:i + chunk2], impl["ilist"][i:i + chunk2])]
        bodies.append(IMPORTS + """
Definition cases : list (list Z * nat * nat * list (list (list Z))) := [%s].
Definition ok (x : list Z * nat * nat * list (list (list Z))) : bool :=
  let '(modes, d, cutoff, il) := x in zlll_eqb (interf_index_list modes d cutoff) il.
Eval vm_compute in mismatches ok cases.
""" % ";\n".join(items))
        groups.append(i)
    outs = coq_eval_parallel("c17_tab", bodies, jobs=6)
    _t(chk, "coq tables (%d files)" % len(bodies))
    for bi, (g0, o) in enumerate(zip(groups, outs)):
        for k in parse_coq_list(o)[0]:
            if bi < nt:
                corr_broken.append("index table (controlled phase / Ising-XX) model != implementation at %s" % tab_cases[g0 + k])
            else:
                corr_broken.append("passive-gate index list model != implementation at %s" % il_cases[g0 + k])
    chk.stream("controlled-phase / Ising-XX index tables and passive-gate index lists vs model (exact)",
               sum(len(o["cp"]) + 4 * len(o["xx"]) for o in impl["tables"]) + sum(sum(len(r) for m in o for r in m) for o in impl["ilist"]),
               sum(1 for r in tab_cases if r["d"] >= 3) + sum(1 for r in il_cases if r["d"] >= 3),
               samples=[{"case": tab_cases[0], "xx": impl["tables"][0]["xx"]}], exhaustive=True)

    # ---------------- correspondence 3: programs, Fock state vector vs model and exact minors
    bodies, groups = [], []
    chunk = 8 if T else 20
    runnable = [i for i, o in enumerate(impl["programs"]) if "state" in o and finite(o["state"])]
    for i in range(0, len(runnable), chunk):
        ids = runnable[i:i + chunk]
        items = []
        for pi in ids:
            p, o = programs[pi], impl["programs"][pi]
            if p["label"] == "passive":
                pas = "(Some %s)" % clist(p["gates"], lambda g: "(%s, %s)" % (clist(g["modes"]), cmat(passive_block(g))))
            else:
                pas = "None"
            items.append("(%d%%nat, %s, %s, %s, %s)" % (
                p["d"], clist(p["occ"]), clist(p["gates"], lambda g: "(%s)" % gate_coq(g)),
                clist(o["state"], lambda z: cqi(fqi(z))), pas))
        bodies.append(IMPORTS + """
Definition cases : list (nat * list Z * list (gate Qi) * list Qi * option (list (list Z * list (list Qi)))) := [%s].
Definition ok (x : nat * list Z * list (gate Qi) * list Qi * option (list (list Z * list (list Qi)))) : bool :=
  let '(d, occ, gs, st, pas) := x in
  let psi := qi_run d (S d) occ gs in
  qil_close tol psi st &&
  q_close tol (qsum (probabilities psi)) 1 &&
  match pas with
  | Some pg => qil_close tol (qi_minor_amplitudes d occ (qi_total_unitary d pg)) st
  | None => true
  end.
Eval vm_compute in mismatches ok cases.
""" % ";\n".join(items))
        groups.append(ids)
    outs = coq_eval_parallel("c17_prog", bodies, jobs=6)
    _t(chk, "coq programs (%d files)" % len(bodies))
    for ids, o in zip(groups, outs):
        for k in parse_coq_list(o)[0]:
            corr_broken.append("program: Fock state vector model != implementation (or model norm != 1) at %s" % json.dumps(describe(programs[ids[k]])))
    labels = {}
    for p in programs:
        labels[p["label"]] = labels.get(p["label"], 0) + 1
    chk.stream("programs on PureFockSimulator: state vector vs model (exact Q[i]) and, for passive programs, vs exact minors of the total unitary",
               sum(len(impl["programs"][i]["state"]) for i in runnable),
               len({json.dumps(describe(programs[i]), sort_keys=True) for i in runnable if len(programs[i]["gates"]) >= 2 and programs[i]["d"] >= 2}),
               samples=[describe(programs[len(programs) // 2])], note="program mix: %s" % labels)

    # ---------------- search: the property stated directly on the implementation
    neval = 0
    # (a) representation = compound matrix, variants agree
    for r, o in zip(rep_cases, impl["rep"]):
        d, U = r["d"], r["Ux"]
        if not o["connector_is_numba"]:
            chk.violation("C17:NumpyConnector:rep-dispatch", "NumpyConnector does not use the numba variant", {"d": d})
        if len(o["generic"]) != len(o["numba"]):
            chk.violation("C17:rep:variants-length", "generic and numba variants return different numbers of sectors", {"d": d, "cutoff": r["cutoff"]})
        for n, (mg, mn) in enumerate(zip(o["generic"], o["numba"])):
            if n > d:
                continue
            subs = list(itertools.combinations(range(d), n))
            if len(mn) != len(subs) or len(mg) != len(subs):
                chk.violation("C17:rep:sector-dimension", "sector %d has dimension %d, expected C(d,n)=%d" % (n, len(mn), len(subs)), {"d": d, "cutoff": r["cutoff"], "n": n})
                continue
            for i, R in enumerate(subs):
                for j, C in enumerate(subs):
                    neval += 1
                    ex = minor(U, R, C)
                    for name, m in (("generic", mg), ("numba", mn)):
                        if not cclose(ex, m[i][j]):
                            chk.violation("C17:calculate_interferometer_on_fermionic_fock_space[%s]:minor" % name,
                                          "sector representation entry is not the minor det U[R,C]",
                                          {"d": d, "cutoff": r["cutoff"], "n": n, "R": R, "C": C, "got": m[i][j], "expected": [float(ex[0]), float(ex[1])],
                                           "U": [[[str(z[0]), str(z[1])] for z in row] for row in U]})
                            break
    # (b) index tables
    for r, o in zip(tab_cases, impl["tables"]):
        d, cutoff, (a, b) = r["d"], r["cutoff"], r["modes"]
        B = basis(d)
        pos = {v: i for i, v in enumerate(B)}
        auxs = [v for v in basis(d - 2) if sum(v) < cutoff]
        aux_modes = [m for m in range(d) if m not in (a, b)]
        exp_cp, exp_xx = [], []
        for av in auxs:
            row = []
            for (x, y) in ((0, 0), (0, 1), (1, 0), (1, 1)):
                v = [0] * d
                for m, val in zip(aux_modes, av):
                    v[m] = val
                v[a], v[b] = x, y
                row.append(pos[tuple(v)])
            exp_xx.append(row)
            exp_cp.append(row[3])
        neval += len(exp_cp) * 5
        if o["cp"] != exp_cp:
            chk.violation("C17:calculate_indices_for_controlled_phase:d=%d" % d, "indices are not those of the vectors with both modes occupied", {"case": r, "got": o["cp"], "expected": exp_cp})
        if o["xx"] != exp_xx:
            chk.violation("C17:calculate_indices_for_ising_XX:d=%d" % d, "rows are not (00,01,10,11) on the two modes with the other modes fixed", {"case": r, "got": o["xx"], "expected": exp_xx})
    # (c) programs: exclusion, normalisation, parity / number conservation, two-simulator differential
    ndiff = 0
    for p, o in zip(programs, impl["programs"]):
        ne, nd = judge_program(chk, p, o)
        neval += ne
        ndiff += nd
    _t(chk, "search")
    chk.stream("direct statement on the implementation: minors, index tables, exclusion, normalisation, parity/number conservation, exact |minor|^2 for passive programs (search)",
               neval, neval // 2, kind="search")
    chk.stream("differential test (no theorem): covariance matrix, occupation probabilities and mean occupations of fermionic PureFockSimulator vs GaussianSimulator",
               ndiff, sum(1 for p in programs if p["label"] == "mixed"), kind="differential test",
               samples=[describe(p) for p in programs if p["label"] == "mixed"][:1],
               note="every real gate parameter also takes the special values 0, +-1e-12, multiples of pi/2 up to 4pi, +-10, negative (alone and at every position of a 3-gate program: %d such programs); a refusal or NaN on one side only is a violation" % sum(1 for p in programs if "special" in p))

    chk.assumptions += [
        "beamsplitter / phaseshifter blocks (gates.py:_get_passive_block) are taken as documented ([[t,-conj r],[r,t]], e^{i phi}); they are the subject of C07 and a difference would show as a state-vector mismatch here",
        "the Majorana-covariance evolution of the Gaussian simulator (expm of so(2d) generators, overlap determinant formula) is compared differentially with the Fock simulator, not modelled",
        "numba compiles the Python source it is given (cache keyed by the hash of the repository sources)",
        "float64 results are compared with exact Gaussian-rational model values at relative tolerance 1e-9",
    ]
    for p, o in zip(probes, impl.get("probes", [])):
        if "cov" in o and "gcov" in o:
            n2 = 2 * p["d"]
            err = max(abs(o["cov"][i][j] - o["gcov"][i][j]) for i in range(n2) for j in range(n2))
            chk.notes.append("out-of-scope probe (not counted): IsingXX on modes %s, input %s: max |cov_fock - cov_gaussian| = %.3g"
                             % (p["gates"][0]["modes"], p["occ"], err))
    chk.notes.append("Ising-XX on non-adjacent modes (outside the property's quantifier: 'consecutive modes') is not generated; the two simulators are known to differ there (Fock side omits the Jordan-Wigner string).")
    chk.finish(
        rule="rep: matrices with d>=3 and cutoff>=3; tables: d>=3; programs: distinct programs with d>=2 and >=2 gates; differential: programs containing an active gate",
        explanation="Theorems of coq/theories/Props/C17.v about the Gallina model C17/FermiRepModel.v (rank = position for all d; sector representation = first-row Laplace minor = determinant of the restricted matrix for all d, n; generic = numba variant; the full basis loop = specification; index pairs differ in two modes / are diagonal; parity conservation for every gate sequence by induction over the gate list). Tie = model run by vm_compute on the same inputs (exact Q[i]) against both code variants, the index tables, and the Fock simulator's state vector; search = property stated on the implementation with an independent exact reference in Python fractions; the Gaussian simulator is covered by the labelled differential test.",
        correspondence_broken=corr_broken,
    )
