"""Loaded automatically by Python when this directory is on PYTHONPATH.

The scikit-build editable install of piquasso puts a redirecting finder in front of
sys.path that maps every piquasso module to /repo, so PYTHONPATH alone cannot select
another tree.  When VERIF_REPO names a different tree (a scratch worktree), re-target the
finder's source map to it.  The compiled extension modules stay the shipped ones
(pybind11 is not installed; they cannot be rebuilt)."""
import os
import sys


def _retarget():
    want = os.environ.get("VERIF_REPO")
    if not want:
        return
    want = os.path.realpath(want)
    if not os.path.isdir(os.path.join(want, "piquasso")):
        return
    for f in sys.meta_path:
        if type(f).__name__ != "ScikitBuildRedirectingFinder":
            continue
        src = getattr(f, "known_source_files", {}).get("piquasso")
        if not src:
            continue
        base = os.path.dirname(os.path.dirname(src))
        if os.path.realpath(base) == want:
            return

        def mv(p, base=base):
            return want + p[len(base):] if (p == base or p.startswith(base + os.sep)) else p

        f.known_source_files = {k: mv(v) for k, v in f.known_source_files.items()}
        f.submodule_search_locations = {
            k: {mv(p) for p in v} for k, v in f.submodule_search_locations.items()
        }


try:
    _retarget()
except Exception as e:  # never break the interpreter start-up
    sys.stderr.write("verif sitecustomize: %r\n" % (e,))
