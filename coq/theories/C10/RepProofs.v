(* C10 — the gradient recurrence of the interferometer representation is the dual-number
   derivative of the forward recurrence, for arbitrary helper tables. *)
From Coq Require Import List Arith Bool Ring Lia.
From PV Require Import C10.Alg C10.AlgProofs C10.RepModel.
Import ListNotations.

Section Proofs.
  Variable A : Type.
  Variable O : Ops A.
  Hypothesis Ath : ring_theory (o0 O) (o1 O) (oadd O) (omul O) (osub O) (oopp O) (@eq A).
  Add Ring Aring3 : Ath.
  Notation "0" := (o0 O) : a_scope.
  Notation "1" := (o1 O) : a_scope.
  Infix "+" := (oadd O) : a_scope.
  Infix "*" := (omul O) : a_scope.
  Local Open Scope a_scope.

  Lemma sum_delta_out : forall (F : nat -> A) c l, ~ In c l ->
    sum_map O (fun j => if j =? c then F j else 0) l = 0.
  Proof.
    induction l as [|x l IH]; intros H; [reflexivity|].
    rewrite (sum_map_cons A O). destruct (Nat.eqb_spec x c) as [->|_].
    - exfalso; apply H; left; reflexivity.
    - rewrite IH; [ring|]. intros Hc; apply H; right; exact Hc.
  Qed.

  Lemma sum_delta_in : forall (F : nat -> A) c l, NoDup l -> In c l ->
    sum_map O (fun j => if j =? c then F j else 0) l = F c.
  Proof.
    induction l as [|x l IH]; intros Hnd Hin; [destruct Hin|].
    rewrite (sum_map_cons A O). inversion Hnd as [|? ? Hx Hnd']; subst.
    destruct (Nat.eqb_spec x c) as [->|Hne].
    - rewrite sum_delta_out by exact Hx. ring.
    - destruct Hin as [->|Hin]; [congruence|]. rewrite IH by assumption. ring.
  Qed.

  Lemma sum_delta_seq : forall (F : nat -> A) c n, (c < n)%nat ->
    sum_map O (fun j => if j =? c then F j else 0) (seq 0 n) = F c.
  Proof.
    intros. apply sum_delta_in; [apply seq_NoDup|]. apply in_seq. lia.
  Qed.

  Definition UDm (U : nat -> nat -> A) (row col : nat) : nat -> nat -> A * A :=
    fun a b => (U a b, unit_mat O row col a b).

  (* one level *)
  Lemma rep_next_dual : forall U t row col (prevD : nat -> nat -> A * A) prevR prevG,
    (col < rd t)%nat ->
    (forall a b, prevD a b = (prevR a b, prevG a b)) ->
    forall k i,
      rep_next (dualOps O) (UDm U row col) (rtab_dual O t) prevD k i =
      (rep_next O U t prevR k i, grad_next O U t row col prevR prevG k i).
  Proof.
    intros U t row col prevD prevR prevG Hcol Hprev k i.
    rewrite (surjective_pairing (rep_next _ _ _ _ k i)). f_equal.
    - unfold rep_next. rewrite (std_sum_map A O). apply (sum_map_ext' A O). intros j.
      rewrite Hprev. cbn. reflexivity.
    - unfold rep_next, grad_next. rewrite (eps_sum_map A O).
      transitivity (
        sum_map O (fun j => if j =? col then
            (if rfnz t k =? row then prevR (rfs t k) (rsi t i j) * rw t i j * risf t k else 0) else 0)
          (seq 0 (rd t)) +
        sum_map O (fun j => rw t i j * U (rfnz t k) j * prevG (rfs t k) (rsi t i j) * risf t k)
          (seq 0 (rd t))).
      + rewrite <- (sum_map_add A O Ath). apply (sum_map_ext' A O). intros j.
        rewrite Hprev. cbn. unfold unit_mat.
        destruct (rfnz t k =? row); destruct (j =? col); cbn; ring.
      + rewrite sum_delta_seq by exact Hcol.
        rewrite <- (sum_map_mul_r A O Ath _
          (fun j => rw t i j * U (rfnz t k) j * prevG (rfs t k) (rsi t i j)) (risf t k)).
        destruct (rfnz t k =? row); ring.
  Qed.

  Fixpoint agree (RDs : list (nat -> nat -> A * A)) (Rs Gs : list (nat -> nat -> A)) : Prop :=
    match RDs, Rs, Gs with
    | [], [], [] => True
    | RD :: r1, R :: r2, G :: r3 => (forall k i, RD k i = (R k i, G k i)) /\ agree r1 r2 r3
    | _, _, _ => False
    end.

  Lemma rep_next_ext : forall (O' : Ops A) U t p1 p2, (forall a b, p1 a b = p2 a b) ->
    forall k i, rep_next O' U t p1 k i = rep_next O' U t p2 k i.
  Proof.
    intros O' U t p1 p2 H k i. unfold rep_next. unfold sum_map.
    induction (seq 0 (rd t)) as [|j l IH]; [reflexivity|]. cbn. rewrite H, IH. reflexivity.
  Qed.

  Lemma rep_chain_dual : forall U row col tabs (prevD : nat -> nat -> A * A) prevR prevG,
    Forall (fun t => col < rd t)%nat tabs ->
    (forall a b, prevD a b = (prevR a b, prevG a b)) ->
    agree (rep_chain (dualOps O) (UDm U row col) prevD (map (rtab_dual O) tabs))
          (rep_chain O U prevR tabs) (grad_chain O U row col prevR prevG tabs).
  Proof.
    intros U row col. induction tabs as [|t ts IH]; intros prevD prevR prevG Hc Hp; [exact I|].
    inversion Hc as [|? ? Ht Hts]; subst. cbn [map rep_chain grad_chain agree]. split.
    - apply rep_next_dual; assumption.
    - apply IH; [assumption|]. apply rep_next_dual; assumption.
  Qed.

  (* ---- theorem: d/dU[row,col] of every sector of the representation *)
  Theorem rep_gradient_correct : forall U row col (tabs : list (rtab A)),
    Forall (fun t => col < rd t)%nat tabs ->
    agree (D_rep_chain O U row col tabs)
          (rep_chain O U U tabs)
          (grad_chain O U row col U (unit_mat O row col) tabs).
  Proof.
    intros. unfold D_rep_chain. apply (rep_chain_dual U row col tabs); [assumption|]. reflexivity.
  Qed.

  (* ---- the contraction with the upstream gradients *)
  Definition contract (t : rtab A) (up G : nat -> nat -> A) : A :=
    sum_map O (fun i => sum_map O (fun j => up i j * oconj O (G i j)) (seq 0 (rdim t))) (seq 0 (rdim t)).

  Lemma contract_agree : forall (tabs : list (rtab A)) RDs Rs Gs ups, agree RDs Rs Gs ->
    sum_map O (fun tgu => contract (fst (fst tgu)) (snd tgu) (snd (fst tgu)))
              (combine (combine tabs Gs) ups) =
    sum_map O (fun tgu => contract (fst (fst tgu)) (snd tgu) (fun i j => snd (snd (fst tgu) i j)))
              (combine (combine tabs RDs) ups).
  Proof.
    induction tabs as [|t ts IH]; intros RDs Rs Gs ups Hag; [reflexivity|].
    destruct RDs as [|RD RDs], Rs as [|R Rs], Gs as [|G Gs]; try (cbn in Hag; contradiction);
      try reflexivity.
    destruct Hag as [H1 H2]. destruct ups as [|up ups]; [reflexivity|].
    cbn [combine]. rewrite !(sum_map_cons A O). f_equal.
    - cbn [fst snd]. unfold contract. apply (sum_map_ext' A O); intros i.
      apply (sum_map_ext' A O); intros j. rewrite H1. reflexivity.
    - apply (IH RDs Rs Gs ups H2).
  Qed.

  Theorem interferometer_gradient_correct : forall U (tabs : list (rtab A)) up1 ups row col,
    Forall (fun t => col < rd t)%nat tabs ->
    interferometer_gradient O U tabs up1 ups row col =
    sum_map O (fun tgu => contract (fst (fst tgu)) (snd tgu) (fun i j => epsp (snd (fst tgu) i j)))
              (combine (combine tabs (D_rep_chain O U row col tabs)) ups)
    + up1 row col.
  Proof.
    intros U tabs up1 ups row col Hc. unfold interferometer_gradient. f_equal.
    exact (contract_agree tabs _ _ _ ups (rep_gradient_correct U row col tabs Hc)).
  Qed.
End Proofs.
