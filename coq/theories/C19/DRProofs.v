(* C19 — proofs about DRModel.v over an arbitrary commutative ring of scalars. *)
From Coq Require Import ZArith QArith List Bool Arith Ring Lia FunctionalExtensionality.
From PV Require Import C19.DRBase C19.EncodeGen C19.DRModel.
Import ListNotations.
Open Scope nat_scope.

Section Proofs.
  Context {A : Type} (O : ops A).
  Hypothesis Rth : ring_theory (o0 O) (o1 O) (oadd O) (omul O)
                     (fun x y => oadd O x (oopp O y)) (oopp O) (@eq A).
  Add Ring Aring : Rth.

  Local Arguments Nat.mul : simpl never.
  Local Arguments Nat.add : simpl never.
  Local Arguments Nat.div : simpl never.

  Lemma eqb_2q1_2q q : (2 * q + 1 =? 2 * q) = false.
  Proof. apply Nat.eqb_neq; lia. Qed.
  Lemma eqb_2q_2q1 q : (2 * q =? 2 * q + 1) = false.
  Proof. apply Nat.eqb_neq; lia. Qed.

  Lemma mat_some_eq (a1 a2 b1 b2 c1 c2 d1 d2 a1' a2' b1' b2' c1' c2' d1' d2' : A) :
    a1 = a1' -> a2 = a2' -> b1 = b1' -> b2 = b2' -> c1 = c1' -> c2 = c2' -> d1 = d1' -> d2 = d2' ->
    Some (((a1, a2), (b1, b2)), ((c1, c2), (d1, d2))) =
    Some (((a1', a2'), (b1', b2')), ((c1', c2'), (d1', d2'))).
  Proof. intros; subst; reflexivity. Qed.

  Ltac unfold_c :=
    unfold mmul2, mid2, rail_mat, ps_phase, bs_mat, bs_block, ps_block, cmul, cadd, copp, cre, cis,
      cone, czero, cimag, cconj, gate_matrix in *.

  (* Theorem 1: for every single-qubit gate and every value of its angle symbols, the product of
     the blocks of the emitted instructions on the rail pair (2q, 2q+1) is the Qiskit matrix *)
  Theorem encode_gate_matrix : forall q g, encoded_gate_matrix O q g = Some (gate_matrix O g).
  Proof.
    intros q g.
    destruct g; unfold encoded_gate_matrix, local_matrix, emitted_of, gsyms,
      emitted_h, emitted_x, emitted_y, emitted_z, emitted_rx, emitted_ry, emitted_rz, emitted_u, emitted_p;
    simpl; rewrite ?Nat.eqb_refl, ?eqb_2q1_2q, ?eqb_2q_2q1; simpl;
    unfold_c; simpl; apply mat_some_eq; ring.
  Qed.

  Local Arguments Nat.even : simpl never.
  Local Arguments Nat.odd : simpl never.

  Lemma getb_setb_same : forall q x b, getb (setb x q b) q = b.
  Proof. unfold getb. induction q; destruct x; simpl; auto. Qed.
  Lemma setb_setb : forall q x a b, setb (setb x q a) q b = setb x q b.
  Proof. induction q; destruct x; simpl; intros; f_equal; auto. Qed.

  Lemma cplx_eq (a b a' b' : A) : a = a' -> b = b' -> (a, b) = (a', b').
  Proof. intros; subst; reflexivity. Qed.

  Lemma apply1_mmul : forall q m2 m1 psi,
    apply1 O q m2 (apply1 O q m1 psi) = apply1 O q (mmul2 O m2 m1) psi.
  Proof.
    intros q [[a2 b2] [c2 d2]] [[a1 b1] [c1 d1]] psi.
    apply functional_extensionality; intro x.
    unfold apply1, mmul2. rewrite !getb_setb_same, !setb_setb.
    destruct (psi (setb x q false)) as [p0r p0i], (psi (setb x q true)) as [p1r p1i].
    destruct a1, b1, c1, d1, a2, b2, c2, d2.
    destruct (getb x q); unfold cadd, cmul; simpl; apply cplx_eq; ring.
  Qed.

  Lemma mmul2_id_r : forall m, mmul2 O m (mid2 O) = m.
  Proof.
    intros [[[a1 a2] [b1 b2]] [[c1 c2] [d1 d2]]].
    unfold mmul2, mid2, cadd, cmul, cone, czero; simpl.
    repeat (apply f_equal2); ring.
  Qed.

  (* unitary instructions executed in order on a code state *)
  Fixpoint run_ops (l : list (@pop A)) (psi : @st A) : option (@st A) :=
    match l with
    | [] => Some psi
    | p :: r => opt_bind (pop_apply O p psi) (run_ops r)
    end.

  Lemma div2_even q : (2 * q) / 2 = q.
  Proof. symmetry; apply (Nat.div_unique (2 * q) 2 q 0); lia. Qed.
  Lemma div2_odd q : (2 * q + 1) / 2 = q.
  Proof. symmetry; apply (Nat.div_unique (2 * q + 1) 2 q 1); lia. Qed.
  Lemma even_2q q : Nat.even (2 * q) = true.
  Proof. rewrite Nat.even_mul; reflexivity. Qed.
  Lemma odd_2q q : Nat.odd (2 * q) = false.
  Proof. unfold Nat.odd. rewrite even_2q. reflexivity. Qed.
  Lemma odd_2q1 q : Nat.odd (2 * q + 1) = true.
  Proof. rewrite Nat.add_comm, Nat.odd_add_mul_2. reflexivity. Qed.

  Lemma pop_apply_local : forall q p m psi,
    pop_local O q p = Some m -> pop_apply O p psi = Some (apply1 O q m psi).
  Proof.
    intros q p m psi H. destruct p as [mo phi | m1 m2 th ph | | ]; simpl in H; try discriminate.
    - destruct (mo =? 2 * q) eqn:E1.
      + apply Nat.eqb_eq in E1; subst mo. inversion H; subst. simpl. rewrite div2_even, odd_2q. reflexivity.
      + destruct (mo =? 2 * q + 1) eqn:E2; [ | discriminate].
        apply Nat.eqb_eq in E2; subst mo. inversion H; subst. simpl. rewrite div2_odd, odd_2q1. reflexivity.
    - destruct (m1 =? 2 * q) eqn:E1; [ | discriminate]. destruct (m2 =? 2 * q + 1) eqn:E2; [ | discriminate].
      apply Nat.eqb_eq in E1, E2; subst. simpl in H. inversion H; subst. simpl.
      rewrite even_2q, Nat.eqb_refl, div2_even. reflexivity.
  Qed.

  Lemma run_ops_local : forall q l acc M psi0,
    local_matrix_from O q acc l = Some M ->
    run_ops l (apply1 O q acc psi0) = Some (apply1 O q M psi0).
  Proof.
    intros q l; induction l as [ | p r IH]; intros acc M psi0 H; simpl in *.
    - inversion H; reflexivity.
    - destruct (pop_local O q p) as [m | ] eqn:E; simpl in H; [ | discriminate].
      rewrite (pop_apply_local q p m _ E). simpl. rewrite apply1_mmul. apply IH; assumption.
  Qed.

  Lemma run_ops_local_ne : forall q p r M psi,
    local_matrix O q (p :: r) = Some M -> run_ops (p :: r) psi = Some (apply1 O q M psi).
  Proof.
    intros q p r M psi H. unfold local_matrix in H. simpl in H. simpl.
    destruct (pop_local O q p) as [m | ] eqn:E; simpl in H; [ | discriminate].
    rewrite mmul2_id_r in H.
    rewrite (pop_apply_local q p m _ E). simpl. apply run_ops_local; assumption.
  Qed.

  Lemma instantiate_length : forall modes S l r, instantiate O modes S l = Some r -> length r = length l.
  Proof.
    intros modes S l; induction l as [ | e t IH]; intros r H; simpl in H.
    - inversion H; reflexivity.
    - destruct (inst1 O modes S e); simpl in H; [ | discriminate].
      destruct (instantiate O modes S t) eqn:E; simpl in H; [ | discriminate].
      inversion H; subst; simpl. f_equal. apply IH. reflexivity.
  Qed.

  (* Theorem 2, gate level: executing the instructions emitted for gate g on the rails of qubit q,
     in order, on ANY n-qubit code state is the qubit gate on qubit q *)
  Theorem encoded_gate_acts : forall q g,
    exists l, instantiate O [2 * q; 2 * q + 1] (gsyms O g) (emitted_of g) = Some l /\
              forall psi, run_ops l psi = Some (apply1 O q (gate_matrix O g) psi).
  Proof.
    intros q g. pose proof (encode_gate_matrix q g) as Hgm. unfold encoded_gate_matrix in Hgm.
    destruct (instantiate O [2 * q; 2 * q + 1] (gsyms O g) (emitted_of g)) as [l | ] eqn:E; simpl in Hgm; [ | discriminate].
    exists l; split; [reflexivity | ]. intro psi.
    pose proof (instantiate_length _ _ _ _ E) as HL.
    destruct l as [ | p r].
    - exfalso. destruct g; simpl in HL; discriminate.
    - apply run_ops_local_ne; assumption.
  Qed.

  Lemma run_ops_app : forall l1 l2 psi, run_ops (l1 ++ l2) psi = opt_bind (run_ops l1 psi) (run_ops l2).
  Proof.
    induction l1 as [ | p r IH]; intros l2 psi; simpl; [reflexivity | ].
    destruct (pop_apply O p psi); simpl; [apply IH | reflexivity].
  Qed.

  (* ... and a whole conditioned block body (any list of single-qubit gates on one qubit) *)
  Theorem encode_gates_acts : forall q body,
    exists l, encode_gates O q body = Some l /\
              forall psi, run_ops l psi = Some (apply_gates O q body psi).
  Proof.
    intros q body; induction body as [ | g r IH].
    - exists []; split; [reflexivity | intro; reflexivity].
    - destruct (encoded_gate_acts q g) as [l1 [E1 R1]]. destruct IH as [l2 [E2 R2]].
      exists (l1 ++ l2); split.
      + simpl. rewrite E1; simpl. rewrite E2; reflexivity.
      + intro psi. rewrite run_ops_app, R1. simpl. apply R2.
  Qed.

  (* The program-level statement (tier A, theorem 2 of DESIGN.md); proved in HomProofs.v.
     wf_prog is the visible restriction: classical bits are written in measurement order (open
     finding C19:condition:reads-outcome-position-of-clbit-index), a block reads a bit already
     written, blocks act on one qubit and have no else part (the two if_else findings; such
     blocks are not expressible in qop), no entangling gate (those: KLMProofs.v). *)
  Fixpoint wf_prog (m : nat) (p : list (@qop A)) : Prop :=
    match p with
    | [] => True
    | QG _ _ :: r => wf_prog m r
    | QM _ c :: r => c = m /\ wf_prog (S m) r           (* the k-th measurement writes clbit k *)
    | QIf c _ _ _ :: r => c < m /\ wf_prog m r           (* a block reads a clbit already written *)
    | QCZ _ _ :: _ | QCX _ _ :: _ => False
    end.
  Definition outs_inv (m : nat) (outs : list nat) (cr : nat -> bool) : Prop :=
    length outs = 2 * m /\
    forall j v, j < m -> cond_met outs (Some (j, v)) = Some (Bool.eqb (cr j) v).
  Definition encode_homomorphism_statement : Prop :=
    forall k1 k2 n p m idx, wf_prog m p ->
    exists l, encode_body O k1 k2 n idx p = Some l /\
      forall os outs cr psi, outs_inv m outs cr ->
        run_p O l os outs psi = Some (run_q O p os cr psi).
End Proofs.
