(* C01 — the Laplace recurrences of the Fock representation and of SLOS compute the
   permanent with multiplicities.  Everything is stated over an arbitrary commutative ring. *)
From Coq Require Import ZArith List Bool Lia Ring.
From PV Require Import Comb.FockModel C01.PermModel.
Import ListNotations.
Local Open Scope nat_scope.

Section Proofs.
Variable A : Type.
Variables (a0 a1 : A) (aadd amul asub : A -> A -> A) (aopp : A -> A).
Hypothesis Aring : ring_theory a0 a1 aadd amul asub aopp (@eq A).
Add Ring ARing : Aring.

Notation asum := (asum A a0 aadd).
Notation nscale := (nscale A a0 aadd).
Notation entry := (entry A a0).
Notation perm := (perm A a0 a1 aadd amul).
Notation permanent := (permanent A a0 a1 aadd amul).
Notation permL := (permL A a0 a1 aadd amul).
Notation perm_mult := (perm_mult A a0 a1 aadd amul).
Notation repB := (repB A a0 a1 aadd amul).
Notation slosB := (slosB A a0 a1 aadd amul).
Notation slos_amp := (slos_amp A a0 a1 aadd amul).
Notation submatrix := (submatrix A).

(* ---------------------------------------------------------------- sums *)
Lemma asum_app l1 l2 : asum (l1 ++ l2) = aadd (asum l1) (asum l2).
Proof. induction l1 as [|x l1 IH]; simpl; [ring | rewrite IH; ring]. Qed.

Lemma asum_cons x l : asum (x :: l) = aadd x (asum l).
Proof. reflexivity. Qed.

Lemma asum_map_repeat {X} (F : X -> A) v x : asum (map F (repeat v x)) = nscale x (F v).
Proof. induction x as [|x IH]; simpl; [reflexivity | now rewrite IH]. Qed.

Lemma asum_map_ext {X} (F G : X -> A) l :
  (forall x, In x l -> F x = G x) -> asum (map F l) = asum (map G l).
Proof. intros H. f_equal. now apply map_ext_in. Qed.

Lemma nscale_0 n : nscale n a0 = a0.
Proof. induction n; simpl; [reflexivity | rewrite IHn; ring]. Qed.

(* ---------------------------------------------------------------- picks *)
Lemma picks_app {X} (l1 l2 : list X) :
  picks (l1 ++ l2) =
  map (fun yr => (fst yr, snd yr ++ l2)) (picks l1) ++
  map (fun yr => (fst yr, l1 ++ snd yr)) (picks l2).
Proof.
  induction l1 as [|x l1 IH]; simpl.
  - rewrite <- (map_id (picks l2)) at 1. apply map_ext. now intros [a b].
  - f_equal. rewrite IH, map_app, !map_map. reflexivity.
Qed.

Lemma map_repeat' {X Y} (f : X -> Y) v n : map f (repeat v n) = repeat (f v) n.
Proof. induction n; simpl; [reflexivity | now f_equal]. Qed.

Lemma picks_repeat {X} (i : X) x : picks (repeat i x) = repeat (i, repeat i (pred x)) x.
Proof.
  induction x as [|x IH]; [reflexivity|].
  cbn [repeat picks]. rewrite IH. cbn [pred]. f_equal.
  rewrite map_repeat'. cbn [fst snd].
  destruct x; [reflexivity | reflexivity].
Qed.

Lemma picks_seq {X} (d : X) (G : X * list X -> A) l :
  map G (picks l) = map (fun c => G (nth c l d, remove_nth c l)) (seq 0 (length l)).
Proof.
  revert G. induction l as [|x r IH]; intros G; [reflexivity|].
  cbn [picks length map seq]. f_equal.
  rewrite map_map, <- seq_shift, map_map. rewrite IH. reflexivity.
Qed.

Lemma remove_nth_map {X Y} (f : X -> Y) c l : remove_nth c (map f l) = map f (remove_nth c l).
Proof.
  revert c. induction l as [|x r IH]; intros c; [now destruct c|].
  destruct c; simpl; [reflexivity | now rewrite IH].
Qed.

(* ---------------------------------------------------------------- photons *)
Lemma photons_first t : forall i f, first_nz t = Some f ->
  photons_from i t = (i + f) :: photons_from i (dec_at f t).
Proof.
  induction t as [|x r IH]; intros i f H; [discriminate|].
  destruct x as [|x]; cbn [first_nz] in H.
  - destruct (first_nz r) as [f'|] eqn:E; [|discriminate].
    injection H as <-. cbn [photons_from repeat app dec_at].
    rewrite (IH (S i) f' eq_refl). f_equal. lia.
  - injection H as <-. cbn [photons_from repeat app dec_at pred].
    f_equal. lia.
Qed.

Lemma first_nz_none t : first_nz t = None -> total t = 0.
Proof.
  induction t as [|x r IH]; [reflexivity|].
  destruct x; cbn [first_nz]; [|discriminate].
  destruct (first_nz r); [discriminate|]. intros _. simpl. now apply IH.
Qed.

Lemma total_0_photons t : total t = 0 -> forall i, photons_from i t = [].
Proof.
  induction t as [|x r IH]; intros H i; [reflexivity|].
  simpl in H. assert (x = 0) by lia. subst x. simpl. apply IH. simpl in H. lia.
Qed.

Lemma total_dec t : forall f, first_nz t = Some f -> S (total (dec_at f t)) = total t.
Proof.
  induction t as [|x r IH]; intros f H; [discriminate|].
  destruct x as [|x]; cbn [first_nz] in H.
  - destruct (first_nz r) as [f'|] eqn:E; [|discriminate].
    injection H as <-. simpl. now apply IH.
  - injection H as <-. reflexivity.
Qed.

(* ---------------------------------------------------------------- the Laplace step:
   a sum over the columns of the expanded matrix (one per photon) regroups into a sum
   over modes weighted by the occupation numbers *)
Lemma laplace_regroup (F : nat * list nat -> A) s : forall i,
  asum (map F (picks (photons_from i s))) =
  asum (map (fun j => nscale (nth j s 0) (F (i + j, photons_from i (dec_at j s))))
            (seq 0 (length s))).
Proof.
  revert F. induction s as [|x r IH]; intros F i; [reflexivity|].
  cbn [photons_from]. rewrite picks_app, map_app, asum_app.
  rewrite picks_repeat, !map_map. cbn [fst snd].
  rewrite asum_map_repeat. cbn [fst snd].
  cbn [length seq map nth dec_at photons_from]. rewrite asum_cons. rewrite Nat.add_0_r. f_equal.
  rewrite (IH (fun yr => F (fst yr, repeat i x ++ snd yr)) (S i)).
  rewrite <- seq_shift, map_map.
  apply asum_map_ext. intros j _. cbn [fst snd nth dec_at photons_from].
  do 3 f_equal. lia.
Qed.

(* ---------------------------------------------------------------- perm = permL *)
Lemma submatrix_length e ps qs : length (submatrix e ps qs) = length ps.
Proof. unfold submatrix. apply map_length. Qed.

Lemma perm_permL e ps : forall qs,
  perm (length ps) (submatrix e ps qs) = permL e ps qs.
Proof.
  induction ps as [|p ps IH]; intros qs; [reflexivity|].
  cbn [length submatrix map perm permL]. fold (submatrix e ps qs).
  rewrite map_length.
  rewrite (picks_seq 0%nat (fun qr => amul (e p (fst qr)) (permL e ps (snd qr)))).
  apply asum_map_ext. intros c Hc. apply in_seq in Hc. cbn [fst snd].
  f_equal.
  - rewrite (nth_indep _ a0 (e p 0%nat)) by (rewrite map_length; lia). apply map_nth.
  - unfold submatrix. rewrite map_map.
    rewrite (map_ext _ (fun p0 => map (e p0) (remove_nth c qs)))
      by (intros; apply remove_nth_map).
    apply IH.
Qed.

Theorem permanent_permL e ps qs : permanent (submatrix e ps qs) = permL e ps qs.
Proof. unfold permanent. rewrite submatrix_length. apply perm_permL. Qed.

(* ---------------------------------------------------------------- Fock representation *)
Theorem repB_permL U : forall n t s, total t = n ->
  repB U n t s = permL (entry U) (photons t) (photons s).
Proof.
  induction n as [|n IH]; intros t s Ht.
  - unfold photons. rewrite (total_0_photons t Ht). reflexivity.
  - cbn [repB]. destruct (first_nz t) as [f|] eqn:E.
    + unfold photons. rewrite (photons_first t 0 f E). cbn [permL Nat.add].
      rewrite (laplace_regroup
                 (fun qr => amul (entry U f (fst qr))
                              (permL (entry U) (photons_from 0 (dec_at f t)) (snd qr))) s 0).
      apply asum_map_ext. intros j _. cbn [fst snd Nat.add]. do 2 f_equal.
      apply IH. pose proof (total_dec t f E). lia.
    + apply first_nz_none in E. lia.
Qed.

(* Tier A.1: the recurrence of calculate_interferometer_on_fock_space (unnormalised)
   is the permanent of U with rows repeated t_i times and columns s_j times,
   for every number of modes, every sector and every matrix U *)
Theorem fock_rep_is_permanent U n t s :
  total t = n -> repB U n t s = perm_mult U t s.
Proof.
  intros H. unfold perm_mult. rewrite permanent_permL. now apply repB_permL.
Qed.

(* ---------------------------------------------------------------- SLOS *)
Theorem slosB_permL U sched : forall t,
  slosB U sched t = permL (fun p i => entry U i p) sched (photons t).
Proof.
  induction sched as [|p rest IH]; intros t; [reflexivity|].
  cbn [slosB permL]. unfold photons.
  rewrite (laplace_regroup
             (fun qr => amul (entry U (fst qr) p)
                          (permL (fun p0 i => entry U i p0) rest (snd qr))) t 0).
  apply asum_map_ext. intros i _. cbn [fst snd Nat.add]. do 2 f_equal. apply IH.
Qed.

(* Tier A.2 (without post-selection pruning): the SLOS amplitude is the permanent of the
   matrix with one row per input photon (last added first) and one column per output
   photon, entries U[output mode, input mode] *)
Theorem slos_is_permanent_of_transpose U s t :
  slos_amp U s t =
  permanent (submatrix (fun p i => entry U i p) (rev (photons s)) (photons t)).
Proof. unfold slos_amp. rewrite permanent_permL. apply slosB_permL. Qed.

End Proofs.
