"""Implementation side of C09: runs the real connector code (NumPy, TensorFlow, JAX) in ONE
process on the requested inputs.  JSON request on stdin, one JSON line as the last line of stdout.

Sections of the request (all optional):
  ops      deterministic connector operations on integer-valued arrays
  interf   bosonic representation: numba kernel vs the generic einsum version on each connector
  fermi    the three fermionic Laplace representations
  programs whole programs on every connector / execution mode that supports them
"""
import json
import sys
import time
import warnings

import numpy as np

warnings.filterwarnings("ignore")

import piquasso as pq  # noqa: E402
from piquasso._simulators.connectors.connector import BuiltinConnector  # noqa: E402

T0 = time.time()
TIMES = {}


def clock(name, t):
    TIMES[name] = round(TIMES.get(name, 0.0) + time.time() - t, 2)


def exc(e):
    return {"exc": type(e).__name__, "msg": str(e).strip().splitlines()[0][:160] if str(e).strip() else ""}


def arr_out(x):
    """array -> nested list of exact numbers; complex as [re, im]"""
    a = np.asarray(x)
    if np.iscomplexobj(a):
        return {"c": True, "v": np.stack([a.real, a.imag], axis=-1).astype(float).tolist()}
    return {"c": False, "v": a.astype(float).tolist()}


def int_out(x):
    """integer-valued array -> nested list of ints (None if not integral / has imaginary part)"""
    a = np.asarray(x)
    if np.iscomplexobj(a):
        if np.any(a.imag != 0):
            return None
        a = a.real
    a = a.astype(np.float64)
    if a.size and np.any(a != np.round(a)):
        return None
    return np.round(a).astype(np.int64).tolist()


# ------------------------------------------------------------------------------- connectors
def make_connectors():
    t = time.time()
    import tensorflow as tf

    clock("import_tensorflow", t)
    t = time.time()
    import jax

    clock("import_jax", t)
    class FunctionalAssignNumpyConnector(pq.NumpyConnector):
        """Test double: NumPy semantics, but `assign` (like JAX's .at[].set and TensorFlow's
        tensor_scatter_nd_update) returns a fresh array and leaves its argument untouched, so code
        that drops the returned value or relies on writing through an alias gives a different result."""

        def assign(self, array, index, value):
            new = np.array(array, copy=True)
            new[index] = value
            return new

    conns = {
        "np": pq.NumpyConnector(),
        "npf": FunctionalAssignNumpyConnector(),
        "tf": pq.TensorflowConnector(),
        "tff": pq.TensorflowConnector(decorate_with=tf.function),
        "jax": pq.JaxConnector(),
    }
    return conns, tf, jax


def to_lib(kind, tf, jax, a, dtype):
    a = np.array(a, dtype=dtype)
    if kind == "np":
        return a
    if kind in ("tf", "tff"):
        return tf.constant(a)
    return jax.numpy.array(a)


DTYPES = {"f64": np.float64, "f32": np.float32, "c128": np.complex128, "c64": np.complex64, "i64": np.int64}


def run_op(case, kind, conn, tf, jax):
    op = case["op"]
    dt = DTYPES[case.get("dtype", "f64")]
    L = lambda a: to_lib(kind, tf, jax, a, dt)  # noqa: E731
    V = lambda a: np.array(a, dtype=dt)  # noqa: E731
    I = lambda a: np.array(a, dtype=np.int64)  # noqa: E731
    if op == "assign_at":
        return conn.assign(L(case["v"]), int(case["k"]), dt(case["x"]))
    if op == "assign_list":
        idx = I(case["idx"])
        if case.get("as_tuple"):
            # the form used by the Gaussian simulator: array[(modes,)] = values
            return conn.assign(L(case["v"]), (tuple(int(i) for i in case["idx"]),), V(case["vals"]))
        return conn.assign(L(case["v"]), idx, V(case["vals"]))
    if op == "assign_mat":
        return conn.assign(L(case["v"]), I(case["idx"]), V(case["vals"]))
    if op == "assign_cell":
        return conn.assign(L(case["M"]), (int(case["i"]), int(case["j"])), dt(case["x"]))
    if op == "assign_pairs":
        return conn.assign(L(case["M"]), (I(case["R"]), I(case["C"])), V(case["vals"]))
    if op == "assign_ix":
        return conn.assign(L(case["M"]), np.ix_(I(case["rows"]), I(case["cols"])), V(case["vals"]))
    if op == "scatter2":
        idx = [list(p) for p in case["indices"]]
        ups = [dt(u) for u in case["updates"]]
        if kind == "jax":
            ups = [jax.numpy.asarray(u) for u in ups]
        return conn.scatter(idx, ups, (case["n"], case["m"]))
    if op == "block2":
        a, b, c, d = (L(case[k]) for k in "abcd")
        return conn.block([[a, b], [c, d]])
    if op == "block_diag":
        return conn.block_diag(*[L(m) for m in case["Ms"]])
    if op == "embed":
        from piquasso._math.indices import get_operator_index

        return conn.embed_in_identity(L(case["M"]), get_operator_index(tuple(case["modes"])), case["dim"])
    if op == "transpose":
        return conn.transpose(L(case["M"]))
    if op == "gather":
        return conn.gather_along_axis_1(L(case["M"]), indices=I(case["idx"]))
    if op == "accumulate":
        rows = case["rows"]
        acc = conn.accumulator(dtype=dt, size=len(rows))
        for i, r in enumerate(rows):
            acc = conn.write_to_accumulator(acc, i, L(r))
        return conn.stack_accumulator(acc)
    if op == "range":
        return [int(x) for x in conn.range(case["a"], case["b"])]
    raise KeyError(op)


def do_ops(req, conns, tf, jax):
    out = []
    for case in req:
        res = {}
        for kind in case.get("kinds", ["np", "tf", "tff", "jax"]):
            try:
                r = run_op(case, kind, conns[kind], tf, jax)
                res[kind] = {"v": int_out(r), "dtype": str(np.asarray(r).dtype)}
            except Exception as e:  # noqa: BLE001
                res[kind] = exc(e)
        out.append(res)
    return out


# ------------------------------------------------------------------ bosonic representation
def helper_real(d, cutoff):
    from piquasso._simulators.fock.simulation_steps import calculate_interferometer_helper_indices

    h = calculate_interferometer_helper_indices(d=d, cutoff=cutoff)
    return [list(x) for x in h]


def cplx(a):
    a = np.asarray(a, dtype=float)
    return a[..., 0] + 1j * a[..., 1]


def do_interf(req, conns, tf, jax):
    from piquasso._simulators.connectors.numpy_.interferometer import (
        calculate_interferometer_on_fock_space as numba_version,
    )

    jnp = jax.numpy
    out = []
    for case in req:
        rng = np.random.default_rng(case["seed"])
        U = cplx(case["U"]).astype(np.complex128)
        rec = {}
        try:
            if case["mode"] == "random":
                # arbitrary (in-range) index arrays and dyadic weights; shapes K x I per level
                helper = [[], [], [], [], []]
                J = U.shape[1]
                prevK, prevI = U.shape[0], U.shape[1]
                for (K, Icount) in case["shapes"]:
                    helper[0].append(rng.integers(0, prevI, size=(Icount, J)).astype(np.int32))
                    helper[1].append(rng.integers(0, U.shape[0], size=K).astype(np.int32))
                    helper[2].append(rng.integers(0, prevK, size=K).astype(np.int32))
                    helper[3].append(rng.choice([0.0, 1.0, 2.0, 3.0, 0.5, 1.5], size=(Icount, J)))
                    helper[4].append(rng.choice([1.0, 2.0, 4.0, 0.5], size=K))
                    prevK, prevI = K, Icount
            else:
                helper = helper_real(case["d"], case["cutoff"])
                if case["mode"] == "dyadic":
                    # the real index structure, weights replaced by exactly representable ones
                    helper[3] = [rng.choice([0.0, 1.0, 2.0, 3.0, 0.5, 1.5], size=a.shape) * (a != 0) for a in helper[3]]
                    helper[4] = [rng.choice([1.0, 2.0, 4.0, 0.5], size=a.shape) for a in helper[4]]
            rec["helper"] = [[np.asarray(a).tolist() for a in part] for part in helper]
        except Exception as e:  # noqa: BLE001
            rec["helper_error"] = exc(e)
            out.append(rec)
            continue
        htuple = tuple(helper)

        def pack(reps):
            return [arr_out(np.asarray(r).astype(np.complex128))["v"] for r in reps]

        variants = {
            "numba": lambda: numba_version(U, htuple),
            "generic_np": lambda: BuiltinConnector.calculate_interferometer_on_fock_space(conns["np"], U, htuple),
            "generic_tf": lambda: conns["tf"].calculate_interferometer_on_fock_space(U, htuple),
            "generic_tff": lambda: conns["tff"].calculate_interferometer_on_fock_space(tf.constant(U), htuple),
            "generic_tff_compiled": lambda: tf.function(
                lambda u: conns["tff"].calculate_interferometer_on_fock_space(u, htuple))(tf.constant(U)),
            "generic_jax": lambda: conns["jax"].calculate_interferometer_on_fock_space(jnp.array(U), htuple),
            "generic_jax_jit": lambda: jax.jit(
                lambda u: conns["jax"].calculate_interferometer_on_fock_space(u, htuple))(jnp.array(U)),
        }
        res = {}
        for name in case.get("variants", list(variants)):
            try:
                res[name] = pack(variants[name]())
            except Exception as e:  # noqa: BLE001
                res[name] = exc(e)
        rec["res"] = res
        out.append(rec)
    return out


# ---------------------------------------------------------------- fermionic representation
def do_fermi(req, conns, tf, jax):
    from piquasso._simulators.connectors import connections as generic_mod
    from piquasso._simulators.connectors.numpy_ import connections as numba_mod
    from piquasso._simulators.connectors.jax_ import connections as jax_mod

    jnp = jax.numpy
    out = []
    for case in req:
        M = cplx(case["M"]).astype(np.complex128)
        cutoff = case["cutoff"]

        def pack(reps):
            return [arr_out(np.asarray(r).astype(np.complex128))["v"] for r in reps]

        variants = {
            "generic_np": lambda: generic_mod.calculate_interferometer_on_fermionic_fock_space(conns["np"], M, cutoff),
            "generic_jax": lambda: generic_mod.calculate_interferometer_on_fermionic_fock_space(conns["jax"], jnp.array(M), cutoff),
            "numba": lambda: numba_mod.calculate_interferometer_on_fermionic_fock_space(M, cutoff),
            "jax": lambda: jax_mod.calculate_interferometer_on_fermionic_fock_space(jnp.array(M), cutoff),
        }
        res = {}
        for name in case.get("variants", list(variants)):
            try:
                res[name] = pack(variants[name]())
            except Exception as e:  # noqa: BLE001
                res[name] = exc(e)
        out.append(res)
    return out



# ----------------------------------------------------- Euler decomposition (relational spec)
def do_euler(req, conns, tf, jax):
    """piquasso/_math/decompositions.py:euler on each connector, judged by the *relation* it has
    to satisfy (the factors are not unique): U_last, U_first unitary, squeezings real, and
    U_last . S(D) . U_first reproduces the passive and the active block."""
    from piquasso._math.decompositions import euler

    ref = conns["np"]
    cfg = pq.Config()
    out = []
    for case in req:
        res = {}
        for kind in case.get("kinds", ["np", "tf", "jax"]):
            conn = conns[kind]
            xp = conn.np
            try:
                if "gate" in case:
                    ins, _ = build_instruction(case["gate"])
                    P = ins._get_passive_block(conn, cfg)
                    A = ins._get_active_block(conn, cfg)
                else:
                    P = xp.asarray(cplx(case["P"]))
                    A = xp.asarray(cplx(case["A"]))
                S = conn.block([[P, A], [xp.conj(A), xp.conj(P)]])
                U, D, V = euler(S, conn)
                U, D, V, P, A = (np.asarray(x) for x in (U, D, V, P, A))
                sq = [pq.Squeezing(r=float(np.real(r)), phi=0.0) for r in D]
                pas = np.diag([g._get_passive_block(ref, cfg)[0, 0] for g in sq])
                act = np.diag([g._get_active_block(ref, cfg)[0, 0] for g in sq])
                eye = np.eye(len(D))
                # the relations of C09/RelSpecs.v on the library shims euler() goes through
                import scipy.linalg

                def dev(a, b):
                    return float(np.max(np.abs(np.asarray(a) - np.asarray(b))))

                n2 = 2 * len(D)
                Uo, R = conn.polar(S, side="left")                                  # is_polar_left
                Uo_, R_, S_ = np.asarray(Uo), np.asarray(R), np.asarray(S)
                rel = {
                    "polar_reconstruct": dev(R_ @ Uo_, S_),
                    "polar_unitary": dev(Uo_ @ np.conj(Uo_).T, np.eye(n2)),
                    "polar_hermitian_psd": max(dev(R_, np.conj(R_).T),
                                               max(0.0, -float(np.min(np.linalg.eigvalsh((R_ + np.conj(R_).T) / 2))))),
                }
                L = conn.logm(R)                                                    # is_logm
                rel["logm"] = dev(scipy.linalg.expm(np.asarray(L)), R_)
                X = conn.sqrtm(R)                                                   # is_sqrtm
                rel["sqrtm"] = dev(np.asarray(X) @ np.asarray(X), R_)
                K = np.diag([1.0] * len(D) + [-1.0] * len(D))
                Z = 1j * (1j * K @ np.asarray(L))[: len(D), len(D):]
                Zc = xp.asarray(Z)
                Vs, Sg, Wadj = conn.svd(Zc)                                         # is_svd
                Vs, Sg, Wadj = np.asarray(Vs), np.asarray(Sg), np.asarray(Wadj)
                rel["svd_reconstruct"] = dev(Vs @ np.diag(Sg) @ Wadj, Z)
                rel["svd_unitary"] = max(dev(Vs @ np.conj(Vs).T, np.eye(len(D))), dev(Wadj @ np.conj(Wadj).T, np.eye(len(D))))
                rel["svd_nonneg"] = max(0.0, -float(np.min(np.real(Sg)))) + float(np.max(np.abs(np.imag(Sg))))
                from piquasso._math.decompositions import takagi

                Dt, Ut = takagi(Zc, conn)                                           # is_takagi
                Dt, Ut = np.asarray(Dt), np.asarray(Ut)
                rel["takagi_reconstruct"] = dev(Ut @ np.diag(Dt) @ Ut.T, Z)
                rel["takagi_unitary"] = dev(Ut @ np.conj(Ut).T, np.eye(len(D)))
                res[kind] = {
                    **rel,
                    "err_passive": float(np.max(np.abs(U @ pas @ V - P))),
                    "err_active": float(np.max(np.abs(U @ act @ np.conj(V) - A))),
                    "err_unitary": float(max(np.max(np.abs(U @ np.conj(U).T - eye)),
                                             np.max(np.abs(V @ np.conj(V).T - eye)))),
                    "imag_squeezing": float(np.max(np.abs(np.imag(D)))),
                }
            except Exception as e:  # noqa: BLE001
                res[kind] = exc(e)
        out.append(res)
    return out

# ------------------------------------------------------------------------------ programs
def build_instruction(spec, params_override=None):
    """spec = [name, modes, {param: value}] ; complex values as {"re":..,"im":..};
    matrices as {"matrix": [[ [re,im], ...], ...]}"""
    name, modes, params = spec
    cls = getattr(pq, name, None)
    if cls is None:
        from piquasso import fermionic

        cls = getattr(fermionic, name)
    kw = {}
    for k, v in params.items():
        if isinstance(v, dict) and "matrix" in v:
            kw[k] = cplx(v["matrix"])
        elif isinstance(v, dict) and "re" in v:
            kw[k] = complex(v["re"], v["im"])
        elif isinstance(v, dict) and "tuple" in v:
            kw[k] = tuple(v["tuple"])
        elif isinstance(v, dict) and "array" in v:
            kw[k] = np.array(v["array"])
        else:
            kw[k] = v
    if params_override:
        kw.update(params_override)
    if "coefficient" in kw:
        coef = kw.pop("coefficient")
        ins = cls(**kw) * coef
    else:
        ins = cls(**kw)
    if modes == "all":
        return ins, None
    return ins, tuple(modes)


def make_program(prog, traced=None):
    instrs = []
    for i, spec in enumerate(prog["instructions"]):
        override = None
        if traced is not None and str(i) in traced:
            override = traced[str(i)]
        ins, modes = build_instruction(spec, override)
        if modes is not None:
            ins = ins.on_modes(*modes)
        instrs.append(ins)
    return pq.Program(instructions=instrs)


SIMS = {
    "pure_fock": lambda: pq.PureFockSimulator,
    "gaussian": lambda: pq.GaussianSimulator,
    "passive": lambda: pq.SamplingSimulator,
    "fermionic_gaussian": lambda: pq.fermionic.GaussianSimulator,
    "fermionic_fock": lambda: pq.fermionic.PureFockSimulator,
}


def config_of(prog, validate=None):
    kw = dict(cutoff=prog["cutoff"])
    if validate is not None:
        kw["validate"] = validate
    elif "validate" in prog:
        kw["validate"] = prog["validate"]
    if prog.get("dtype") == "f32":
        kw["dtype"] = np.float32
    if "hbar" in prog:
        kw["hbar"] = prog["hbar"]
    return pq.Config(**kw)


TRACER_ERRORS = ("ConcretizationTypeError", "TracerBoolConversionError", "TracerArrayConversionError",
                 "TracerIntegerConversionError", "NonConcreteBooleanIndexError", "UnexpectedTracerError")


def observe(prog, state, jit=False, angles=None, skipped=None):
    """the observables of properties.jsonl:observe_at (and the expectation values next to them),
    per simulator.  Under jax.jit an observable whose Python code cannot be traced is skipped
    (recorded in `skipped`); everything else is returned."""
    sim = prog["sim"]
    obs = {}

    def put(name, f, in_jit=True):
        if jit and not in_jit:
            return
        try:
            obs[name] = f()
        except Exception as e:  # noqa: BLE001
            if jit and type(e).__name__ in TRACER_ERRORS:
                if skipped is not None:
                    skipped[name] = type(e).__name__
                return
            if jit:
                raise
            obs[name] = exc(e)

    occs = [tuple(o) for o in prog.get("occupations", [])]
    if angles is None:
        angles = prog.get("angles")
    if sim == "pure_fock":
        put("state_vector", lambda: state.state_vector)
        put("fock_probabilities", lambda: state.fock_probabilities)
        put("density_matrix", lambda: state.density_matrix)
        put("norm", lambda: state.norm, in_jit=False)
        put("mean_photon_number", lambda: state.mean_photon_number(), in_jit=False)
        put("mean_position", lambda: state.mean_position(0), in_jit=False)
        for o in occs:
            put("pdp%s" % (list(o),), lambda o=o: state.get_particle_detection_probability(np.array(o)), in_jit=False)
    elif sim == "gaussian":
        put("xpxp_mean_vector", lambda: state.xpxp_mean_vector)
        put("xpxp_covariance_matrix", lambda: state.xpxp_covariance_matrix)
        put("complex_covariance", lambda: state.complex_covariance)
        put("mean_photon_number", lambda: state.mean_photon_number())
        put("parity", lambda: state.get_parity_operator_expectation_value())
        if angles is not None:
            put("phaseshifter_expectation", lambda: state.get_phaseshifter_expectation_value(angles))
        put("fock_probabilities", lambda: state.fock_probabilities, in_jit=False)
        put("density_matrix", lambda: state.density_matrix, in_jit=False)
        for o in occs:
            put("pdp%s" % (list(o),), lambda o=o: state.get_particle_detection_probability(np.array(o)), in_jit=False)
            if max(o) <= 1:
                put("threshold%s" % (list(o),), lambda o=o: state.get_threshold_detection_probability(np.array(o)),
                    in_jit=False)
    elif sim == "passive":
        put("interferometer", lambda: state.interferometer)
        put("fock_probabilities", lambda: state.fock_probabilities, in_jit=False)
        for o in occs:
            put("pdp%s" % (list(o),), lambda o=o: state.get_particle_detection_probability(np.array(o)), in_jit=False)
    elif sim == "fermionic_gaussian":
        put("covariance_matrix", lambda: state.covariance_matrix)
        put("correlation_matrix", lambda: state.correlation_matrix)
        put("mean_particle_numbers", lambda: state.mean_particle_numbers(tuple(range(prog["d"]))), in_jit=False)
        for o in occs:
            put("pdp%s" % (list(o),), lambda o=o: state.get_particle_detection_probability(np.array(o)), in_jit=False)
    elif sim == "fermionic_fock":
        put("state_vector", lambda: state.state_vector)
        put("fock_probabilities", lambda: state.fock_probabilities)
        put("density_matrix", lambda: state.density_matrix, in_jit=False)
    return obs


def finish_obs(obs):
    out = {}
    for k, v in obs.items():
        if isinstance(v, dict) and "exc" in v:
            out[k] = v
        else:
            try:
                out[k] = arr_out(v)
            except Exception as e:  # noqa: BLE001
                out[k] = exc(e)
    return out


def run_program(prog, mode, conns, tf, jax):
    Sim = SIMS[prog["sim"]]()
    if mode in ("np", "npf", "tf", "tff", "jax"):
        sim = Sim(d=prog["d"], config=config_of(prog), connector=conns[mode])
        state = sim.execute(make_program(prog)).state
        obs = observe(prog, state)
        # history: the same state object is the initial state of further programs, and is read again
        for n, instrs in enumerate(prog.get("followups", [])):
            follow = dict(prog, instructions=instrs)
            st = sim.execute(make_program(follow), initial_state=state).state
            for k, v in observe(follow, st).items():
                obs["f%d:%s" % (n, k)] = v
        if prog.get("followups"):
            for k, v in observe(prog, state).items():
                obs["after:%s" % k] = v
        return finish_obs(obs)
    if mode == "jaxjit":
        # the whole simulation under jax.jit; the traced gate parameters and the angles of the
        # phaseshifter observable are arguments of the compiled function
        traced = prog.get("traced", {})
        keys = [(i, k) for i in sorted(traced) for k in sorted(traced[i])]
        vals = [float(traced[i][k]) for i, k in keys]
        angles = prog.get("angles")
        names = []
        skipped = {}

        def g(angles_, *args):
            tr = {}
            for (i, k), a in zip(keys, args):
                tr.setdefault(i, {})[k] = a
            sim = Sim(d=prog["d"], config=config_of(prog, validate=False), connector=pq.JaxConnector())
            state = sim.execute(make_program(prog, tr)).state
            o = observe(prog, state, jit=True, angles=angles_, skipped=skipped)
            names[:] = sorted(o)
            return tuple(o[k] for k in names)

        res = jax.jit(g)(None if angles is None else np.array(angles, dtype=float), *vals)
        out = finish_obs(dict(zip(names, res)))
        if skipped:
            out["_skipped_under_jit"] = skipped
        return out
    raise KeyError(mode)


MODES = {
    "pure_fock": ["np", "npf", "tf", "tff", "jax", "jaxjit"],
    "gaussian": ["np", "npf", "jax", "jaxjit"],
    "passive": ["np", "npf", "jax", "jaxjit"],
    "fermionic_gaussian": ["np", "npf", "jax", "jaxjit"],
    "fermionic_fock": ["np", "npf", "jax", "jaxjit"],
}


def do_programs(req, conns, tf, jax):
    out = []
    for prog in req:
        res = {}
        for mode in prog.get("modes", MODES[prog["sim"]]):
            t = time.time()
            try:
                res[mode] = run_program(prog, mode, conns, tf, jax)
            except Exception as e:  # noqa: BLE001
                res[mode] = exc(e)
            clock("programs_" + mode, t)
        out.append(res)
    return out


def main():
    req = json.load(sys.stdin)
    clock("import_piquasso", T0)
    conns, tf, jax = make_connectors()
    out = {"piquasso_file": pq.__file__}
    for name, fn in (("ops", do_ops), ("interf", do_interf), ("fermi", do_fermi), ("euler", do_euler),
                     ("programs", do_programs)):
        if name in req:
            t = time.time()
            out[name] = fn(req[name], conns, tf, jax)
            clock(name, t)
    out["times"] = TIMES
    print(json.dumps(out))


main()
