(* C03 - the open finding C03:passive:mid-circuit-measurement-exact-weights pinned on the
   faithful model (PassiveModel.v): one universally quantified fact about what IS right
   (_set_postselection maps positions to labels) and vm_compute witnesses of what is not. *)
From Coq Require Import ZArith QArith List Bool Arith Lia.
From PV Require Import C03.ExecModel C03.ExecProofs C03.ProjectModel C03.PassiveModel.
Import ListNotations.
Open Scope nat_scope.

(* _set_postselection is handed register positions and records the right labels: if the
   executor's register is the state's active modes, the recorded modes are the user's labels *)
Theorem set_postselection_records_labels st L counts :
  incl L (lazy_active st) -> length counts = length L ->
  map fst (ls_posts (set_postselection st (remap_modes (lazy_active st) L) counts))
  = post_modes st ++ L.
Proof.
  intros Hin Hl. unfold set_postselection, post_modes. simpl. rewrite map_app. f_equal.
  change (map (fun p => nth p (lazy_active st) 0) (remap_modes (lazy_active st) L))
    with (remap_modes_inverse (lazy_active st) (remap_modes (lazy_active st) L)).
  rewrite remap_inverse by auto.
  revert counts Hl. induction L as [|a r IH]; intros [|c cs] Hl; simpl in *; try discriminate; auto.
  f_equal. apply IH. intros x Hx. apply Hin. now right. lia.
Qed.

(* |1,0,0> after a 50:50 beamsplitter on modes (0,1): the photon is in mode 0 or in mode 1 *)
Definition w_dist : pdist := [([1;0;0]%nat, (1#2)%Q); ([0;1;0]%nat, (1#2)%Q)].

Definition lazy_weights (r : lres (list lbranch)) : option (list (vec * Q)) :=
  match r with LOk bs => Some (map (fun b => (lb_out b, Qred (lb_freq b))) bs) | LErr => None end.

(* measuring mode 0 and then mode 2: the second step is handed position 1 (of label 2 in the
   register (1,2)) but reads it as LABEL 1, and returns the probability joint with the first
   outcome, which the executor multiplies by the weight of the branch again.  The model of
   the code gives the outcomes (1,0) and (0,1), each with weight 1/4; the joint distribution
   of modes (0,2) is (1,0) and (0,0), each with probability 1/2 *)
Theorem passive_mid_circuit_exact_weights_refuted :
  exists dist d Ls,
    (fold_right (fun vw acc => snd vw + acc) 0 dist == 1)%Q /\
    match lazy_exec dist Ls (lazy_initial d 4) with
    | LErr => False
    | LOk bs =>
        ~ (fold_right (fun b acc => lb_freq b + acc) 0 bs == 1)%Q /\
        exists b, In b bs /\ ~ (lb_freq b == 0)%Q /\ (spec_weight dist Ls (lb_out b) == 0)%Q
    end.
Proof.
  exists w_dist, 3, [[0]; [2]]. split; [vm_compute; reflexivity|].
  destruct (lazy_exec w_dist [[0]; [2]] (lazy_initial 3 4)) as [bs|] eqn:E; [|vm_compute in E; discriminate].
  vm_compute in E. inversion E; subst bs; clear E. split.
  - vm_compute. discriminate.
  - eexists. split; [right; left; reflexivity|]. split; vm_compute; [discriminate|reflexivity].
Qed.

(* the same confusion makes a valid second partial measurement raise: measuring mode 1 and
   then mode 2 hands position 1 to a state whose post-selected LABEL is 1 *)
Theorem passive_mid_circuit_spurious_raise_refuted :
  exists dist d Ls, lazy_exec dist Ls (lazy_initial d 4) = LErr /\
                    NoDup (concat Ls) /\ Forall (fun m => m < d) (concat Ls).
Proof.
  exists w_dist, 3, [[1]; [2]]. split; [vm_compute; reflexivity|]. split.
  - simpl. repeat constructor; simpl; intuition; discriminate.
  - simpl. repeat constructor.
Qed.

(* what the model computes on the witness (also compared with PassiveSimulator by the check) *)
Example passive_witness_values :
  lazy_weights (lazy_exec w_dist [[0]; [2]] (lazy_initial 3 4)) = Some [([1;0]%nat, (1#4)%Q); ([0;1]%nat, (1#4)%Q)].
Proof. vm_compute. reflexivity. Qed.
