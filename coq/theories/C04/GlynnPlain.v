(* C04 -- the Glynn/BBFG formula for the permanent of a square matrix over an arbitrary
   commutative ring, in a form that needs no division by 2:
     sum_{delta in {+1,-1}^k} (prod delta) prod_{j in av} (u + sum_i delta_i rho_i)(j)
       = 2^k * perm (u :: rho_1 .. rho_k ; av)          when |av| = k + 1,
   rows being functions column -> A and [av] the list of (possibly repeated) columns.
   The proof expands products of sums over the splits of [av] into two sublists and inducts on
   the rows; no bijection counting is needed.  Also: the symmetries of the signed sum
   (permuting the rows, exchanging the base row with a row). *)
From Coq Require Import ZArith List Bool Lia ZifyBool Ring Permutation.
From PV Require Import C04.PermModel.
Import ListNotations.
Local Close Scope Z_scope.
Local Open Scope nat_scope.

Lemma remove_nth_length {X} : forall (l : list X) p, p < length l -> length (remove_nth p l) = length l - 1.
Proof.
  induction l as [|x l IH]; intros [|p] H; cbn in *; try lia.
  rewrite IH by lia. lia.
Qed.

Section Glynn.
Variable A : Type.
Variables (rO rI : A) (radd rmul rsub : A -> A -> A) (ropp : A -> A).
Hypothesis Rth : ring_theory rO rI radd rmul rsub ropp (@eq A).
Add Ring AringG : Rth.

Notation sumA' := (sumA A rO radd).
Notation rpow' := (rpow A rI rmul).
Notation two := (radd rI rI).
Notation mone := (ropp rI).

Definition zf : nat -> A := fun _ => rO.

(* product of the entries of a row (a function column -> A) over a list of columns *)
Fixpoint pw (x : nat -> A) (S : list nat) : A :=
  match S with [] => rI | j :: S' => rmul (x j) (pw x S') end.

(* sum of h S T over all ways of splitting the list into two sublists S, T *)
Fixpoint sum_splits (h : list nat -> list nat -> A) (av : list nat) : A :=
  match av with
  | [] => h [] []
  | a :: av' => radd (sum_splits (fun S T => h (a :: S) T) av') (sum_splits (fun S T => h S (a :: T)) av')
  end.

(* permanent by expansion along the first row, rows as functions *)
Fixpoint permF (R : list (nat -> A)) (av : list nat) : A :=
  match R with
  | [] => rI
  | rho :: R' =>
      sumA' (map (fun k => rmul (rho (nth k av 0)) (permF R' (remove_nth k av))) (seq 0 (length av)))
  end.

(* the signed sum over all sign vectors, base row u *)
Fixpoint Gd (R : list (nat -> A)) (u : nat -> A) (av : list nat) : A :=
  match R with
  | [] => pw u av
  | rho :: R' => rsub (Gd R' (fun j => radd (u j) (rho j)) av) (Gd R' (fun j => rsub (u j) (rho j)) av)
  end.

(* ---- sums *)
Lemma sumA_cons' x l : sumA' (x :: l) = radd x (sumA' l).
Proof. reflexivity. Qed.

Lemma sumA_scal (c : A) {X} (f : X -> A) : forall l,
  sumA' (map (fun x => rmul c (f x)) l) = rmul c (sumA' (map f l)).
Proof.
  induction l as [|x l IH]; [cbn; ring|].
  cbn [map]. rewrite !sumA_cons', IH. ring.
Qed.

Lemma ss_ext : forall av h h', (forall S T, h S T = h' S T) -> sum_splits h av = sum_splits h' av.
Proof.
  induction av as [|a av IH]; intros h h' H; cbn; [apply H|].
  rewrite (IH _ (fun S T => h' (a :: S) T)), (IH (fun S T => h S (a :: T)) (fun S T => h' S (a :: T))); auto.
Qed.

Lemma ss_ext_len : forall av h h',
  (forall S T, length S + length T = length av -> h S T = h' S T) -> sum_splits h av = sum_splits h' av.
Proof.
  induction av as [|a av IH]; intros h h' H; cbn; [apply H; reflexivity|].
  rewrite (IH _ (fun S T => h' (a :: S) T)), (IH (fun S T => h S (a :: T)) (fun S T => h' S (a :: T))); auto.
  - intros S T HL. apply H. cbn. lia.
  - intros S T HL. apply H. cbn. lia.
Qed.

Lemma ss_zero : forall av, sum_splits (fun _ _ => rO) av = rO.
Proof. induction av as [|a av IH]; cbn; [reflexivity|]. rewrite IH. ring. Qed.

Lemma ss_sub : forall av f g,
  sum_splits (fun S T => rsub (f S T) (g S T)) av = rsub (sum_splits f av) (sum_splits g av).
Proof.
  induction av as [|a av IH]; intros f g; cbn; [reflexivity|].
  rewrite (IH (fun S T => f (a :: S) T)), (IH (fun S T => f S (a :: T))). ring.
Qed.

Lemma ss_scal c : forall av f,
  sum_splits (fun S T => rmul c (f S T)) av = rmul c (sum_splits f av).
Proof.
  induction av as [|a av IH]; intros f; cbn; [reflexivity|].
  rewrite (IH (fun S T => f (a :: S) T)), (IH (fun S T => f S (a :: T))). ring.
Qed.

Lemma ss_empties : forall av h, (forall S T, S <> [] -> h S T = rO) -> sum_splits h av = h [] av.
Proof.
  induction av as [|a av IH]; intros h H; cbn; [reflexivity|].
  rewrite (ss_ext av (fun S T => h (a :: S) T) (fun _ _ => rO)) by (intros; apply H; discriminate).
  rewrite ss_zero, (IH (fun S T => h S (a :: T))) by (intros; apply H; assumption). ring.
Qed.

Lemma ss_singles : forall av h, (forall S T, length S <> 1 -> h S T = rO) ->
  sum_splits h av = sumA' (map (fun p => h [nth p av 0] (remove_nth p av)) (seq 0 (length av))).
Proof.
  induction av as [|a av IH]; intros h H; cbn [sum_splits length seq map].
  - cbn. apply H. cbn. lia.
  - rewrite (ss_empties av (fun S T => h (a :: S) T)).
    2:{ intros S T HS. apply H. destruct S; [congruence|cbn; lia]. }
    rewrite (IH (fun S T => h S (a :: T))) by (intros; apply H; assumption).
    rewrite <- seq_shift, map_map. cbn [nth remove_nth]. reflexivity.
Qed.

(* ---- products *)
Lemma pw_neg x : forall S, pw (fun j => ropp (x j)) S = rmul (rpow' mone (length S)) (pw x S).
Proof. induction S as [|j S IH]; cbn; [ring|]. rewrite IH. ring. Qed.

Lemma pw_ext x y : (forall j, x j = y j) -> forall S, pw x S = pw y S.
Proof. intros H. induction S as [|j S IH]; cbn; [reflexivity|]. now rewrite H, IH. Qed.

(* prod_j (u_j + v_j) = sum over the splits of (prod_S u)(prod_T v) *)
Lemma prod_add u v : forall av,
  pw (fun j => radd (u j) (v j)) av = sum_splits (fun S T => rmul (pw u S) (pw v T)) av.
Proof.
  induction av as [|a av IH]; cbn [pw sum_splits]; [ring|].
  rewrite IH.
  rewrite (ss_ext av (fun S T => rmul (rmul (u a) (pw u S)) (pw v T))
                    (fun S T => rmul (u a) (rmul (pw u S) (pw v T)))) by (intros; ring).
  rewrite (ss_ext av (fun S T => rmul (pw u S) (rmul (v a) (pw v T)))
                    (fun S T => rmul (v a) (rmul (pw u S) (pw v T)))) by (intros; ring).
  rewrite !ss_scal. ring.
Qed.

(* ---- the signed sum *)
Lemma Gd_ext : forall R u u' av, (forall j, u j = u' j) -> Gd R u av = Gd R u' av.
Proof.
  induction R as [|rho R IH]; intros u u' av H; cbn.
  - now apply pw_ext.
  - rewrite (IH _ (fun j => radd (u' j) (rho j))), (IH (fun j => rsub (u j) (rho j)) (fun j => rsub (u' j) (rho j)));
      auto; intros; now rewrite H.
Qed.

(* extraction of a part of the base row *)
Lemma base_extraction : forall R u v av,
  Gd R (fun j => radd (u j) (v j)) av = sum_splits (fun S T => rmul (pw u S) (Gd R v T)) av.
Proof.
  induction R as [|rho R IH]; intros u v av; cbn [Gd].
  - apply prod_add.
  - rewrite (Gd_ext R (fun j => radd (radd (u j) (v j)) (rho j)) (fun j => radd (u j) (radd (v j) (rho j))))
      by (intros; ring).
    rewrite (Gd_ext R (fun j => rsub (radd (u j) (v j)) (rho j)) (fun j => radd (u j) (rsub (v j) (rho j))))
      by (intros; ring).
    rewrite (IH u (fun j => radd (v j) (rho j))), (IH u (fun j => rsub (v j) (rho j))).
    rewrite <- ss_sub. apply ss_ext. intros. ring.
Qed.

(* value of the base-free signed sum: 2^k perm when there are as many columns as rows, zero
   when there are fewer or exactly one more *)
Definition Eval (R : list (nat -> A)) (T : list nat) : A :=
  if length T =? length R then rmul (rpow' two (length R)) (permF R T) else rO.

Theorem Gd_zero_base : forall R av, length av <= S (length R) -> Gd R zf av = Eval R av.
Proof.
  induction R as [|rho R IH]; intros av Hlen.
  - destruct av as [|a [|b av]]; cbn in Hlen; try lia; unfold Eval, zf; cbn; ring.
  - cbn [Gd]. cbn [length] in Hlen.
    rewrite (Gd_ext R (fun j => radd (zf j) (rho j)) (fun j => radd (rho j) (zf j))) by (intros; ring).
    rewrite (Gd_ext R (fun j => rsub (zf j) (rho j)) (fun j => radd (ropp (rho j)) (zf j)))
      by (intros; unfold zf; ring).
    rewrite (base_extraction R rho zf), (base_extraction R (fun j => ropp (rho j)) zf).
    rewrite <- ss_sub.
    rewrite (ss_ext_len av _ (fun S T => rmul (rsub (pw rho S) (pw (fun j => ropp (rho j)) S)) (Eval R T))).
    2:{ intros S T HL. destruct S as [|s S].
        - cbn [pw]. ring.
        - rewrite IH by (cbn in HL; cbn in Hlen; lia). ring. }
    unfold Eval at 2. cbn [length].
    destruct (length av =? S (length R)) eqn:E.
    + (* as many columns as rows: only the splits with one column for rho survive *)
      rewrite (ss_ext_len av _ (fun S T => if length S =? 1
                 then rmul (rsub (pw rho S) (pw (fun j => ropp (rho j)) S)) (Eval R T) else rO)).
      2:{ intros S T HL. destruct (length S =? 1) eqn:E1; [reflexivity|].
          unfold Eval. replace (length T =? length R) with false by lia. ring. }
      rewrite ss_singles by (intros S T HS; replace (length S =? 1) with false by lia; reflexivity).
      cbn [permF]. rewrite <- sumA_scal. f_equal. apply map_ext_in. intros p Hp. apply in_seq in Hp.
      cbn [length Nat.eqb pw]. unfold Eval.
      rewrite remove_nth_length by lia.
      replace (length av - 1 =? length R) with true by lia.
      cbn [rpow]. ring.
    + (* otherwise every term vanishes *)
      rewrite (ss_ext_len av _ (fun _ _ => rO)); [apply ss_zero|].
      intros S T HL. unfold Eval. destruct (Nat.eq_dec (length T) (length R)) as [ET|ET].
      * replace (length T =? length R) with true by lia.
        destruct S as [|a [|b [|c S]]]; cbn in HL; try lia; cbn [pw]; ring.
      * replace (length T =? length R) with false by lia. ring.
Qed.

(* Glynn's formula with base row u *)
Theorem glynn_plain R u av : length av = S (length R) ->
  Gd R u av = rmul (rpow' two (length R)) (permF (u :: R) av).
Proof.
  intros Hlen.
  rewrite (Gd_ext R u (fun j => radd (u j) (zf j))) by (intros; unfold zf; ring).
  rewrite base_extraction.
  rewrite (ss_ext_len av _ (fun S T => if length S =? 1 then rmul (pw u S) (Eval R T) else rO)).
  2:{ intros S T HL. rewrite Gd_zero_base by lia.
      destruct (length S =? 1) eqn:E1; [reflexivity|].
      unfold Eval. replace (length T =? length R) with false by lia. ring. }
  rewrite ss_singles by (intros S T HS; replace (length S =? 1) with false by lia; reflexivity).
  cbn [permF]. rewrite <- sumA_scal. f_equal. apply map_ext_in. intros p Hp. apply in_seq in Hp.
  cbn [length Nat.eqb pw]. unfold Eval.
  rewrite remove_nth_length by lia.
  replace (length av - 1 =? length R) with true by lia. ring.
Qed.

(* ---- symmetries of the signed sum *)
Lemma Gd_perm : forall R R', Permutation R R' -> forall u av, Gd R u av = Gd R' u av.
Proof.
  induction 1 as [|x l l' _ IH|x y l|l l' l'' _ IH1 _ IH2]; intros u av.
  - reflexivity.
  - cbn [Gd]. now rewrite !IH.
  - cbn [Gd].
    rewrite (Gd_ext l (fun j => radd (radd (u j) (y j)) (x j)) (fun j => radd (radd (u j) (x j)) (y j))) by (intros; ring).
    rewrite (Gd_ext l (fun j => rsub (radd (u j) (y j)) (x j)) (fun j => radd (rsub (u j) (x j)) (y j))) by (intros; ring).
    rewrite (Gd_ext l (fun j => radd (rsub (u j) (y j)) (x j)) (fun j => rsub (radd (u j) (x j)) (y j))) by (intros; ring).
    rewrite (Gd_ext l (fun j => rsub (rsub (u j) (y j)) (x j)) (fun j => rsub (rsub (u j) (x j)) (y j))) by (intros; ring).
    ring.
  - now rewrite IH1, IH2.
Qed.

Lemma Gd_flip : forall R u av,
  Gd R (fun j => ropp (u j)) av = rmul (rpow' mone (length R + length av)) (Gd R u av).
Proof.
  induction R as [|rho R IH]; intros u av; cbn [Gd length Nat.add].
  - apply pw_neg.
  - rewrite (Gd_ext R (fun j => radd (ropp (u j)) (rho j)) (fun j => ropp (rsub (u j) (rho j)))) by (intros; ring).
    rewrite (Gd_ext R (fun j => rsub (ropp (u j)) (rho j)) (fun j => ropp (radd (u j) (rho j)))) by (intros; ring).
    rewrite (IH (fun j => rsub (u j) (rho j))), (IH (fun j => radd (u j) (rho j))).
    cbn [rpow]. ring.
Qed.

Lemma rpow_mone_double : forall n, rpow' mone (n + n) = rI.
Proof.
  induction n as [|n IH]; [reflexivity|].
  replace (S n + S n) with (S (S (n + n))) by lia. cbn [rpow]. rewrite IH. ring.
Qed.

(* the base row can be exchanged with a row when there is one column more than rows *)
Lemma Gd_base_swap R rho u av : length av = S (S (length R)) ->
  Gd (rho :: R) u av = Gd (u :: R) rho av.
Proof.
  intros Hlen. cbn [Gd].
  rewrite (Gd_ext R (fun j => radd (rho j) (u j)) (fun j => radd (u j) (rho j))) by (intros; ring).
  rewrite (Gd_ext R (fun j => rsub (rho j) (u j)) (fun j => ropp (rsub (u j) (rho j)))) by (intros; ring).
  rewrite (Gd_flip R (fun j => rsub (u j) (rho j))).
  replace (length R + length av) with (S (length R) + S (length R)) by lia.
  rewrite rpow_mone_double. ring.
Qed.

(* moving the base row into the list of rows and taking another base *)
Lemma Gd_rotate R1 R2 u av : length av = length (R1 ++ u :: R2) ->
  match R1 ++ u :: R2 with
  | [] => True
  | h :: tl => Gd tl h av = Gd (R1 ++ R2) u av
  end.
Proof.
  intros Hlen. destruct R1 as [|a R1]; cbn [app]; [reflexivity|].
  rewrite (Gd_perm (R1 ++ u :: R2) (u :: R1 ++ R2)) by (symmetry; apply Permutation_middle).
  apply Gd_base_swap. cbn [app length] in Hlen. rewrite app_length in *. cbn [length] in Hlen. lia.
Qed.

End Glynn.
