(* C10 — Automatic derivatives equal the true derivatives (hand-written gradient rules).
   Only statements closed by [exact]; proofs live in C10/.  Every theorem quantifies over an
   arbitrary commutative ring (record of operations [O] with its [ring_theory]); the derivative
   is the eps-part of the same polymorphic forward model evaluated over the dual numbers. *)
From Coq Require Import List ZArith Ring Bool Arith.
From PV Require Import C10.Alg C10.AlgProofs C10.PermModel C10.PermProofs C10.GateModel C10.GateProofs C10.GateDual C10.RepModel C10.RepProofs.
From Coq Require Import Permutation.
Import ListNotations.

Definition is_ring {A} (O : Ops A) : Prop :=
  ring_theory (o0 O) (o1 O) (oadd O) (omul O) (osub O) (oopp O) (@eq A).

(* 1. src/permanent.cpp:grad_perm — for every matrix, every direction and every pair of
      multiplicity vectors (zeros included, square or rectangular): the directional derivative of
      the permanent with multiplicities is <grad_perm, V>. *)
Theorem C10_grad_perm_correct : forall A (O : Ops A), is_ring O ->
  forall (M V : nat -> nat -> A) (r c : list nat),
    D_perm_mult O M V r c = pair_mat O (grad_perm O M r c) V.
Proof. exact grad_perm_correct. Qed.
Print Assumptions C10_grad_perm_correct.

(* entry form *)
Theorem C10_grad_perm_entry_correct : forall A (O : Ops A), is_ring O ->
  forall (M V : nat -> nat -> A) (r c : list nat),
    D_perm_mult O M V r c =
    sum_map O (fun i => sum_map O (fun j => omul O (grad_perm_entry O M r c i j) (V i j))
                                  (seq 0 (length c))) (seq 0 (length r)).
Proof. exact grad_perm_entry_correct. Qed.
Print Assumptions C10_grad_perm_entry_correct.

(* the value part of the dual evaluation is the permanent itself *)
Theorem C10_perm_dual_value : forall A (O : Ops A) (M V : nat -> nat -> A) r c,
    std (perm_mult (dualOps O) (fun i j => (M i j, V i j)) r c) = perm_mult O M r c.
Proof. exact perm_mult_std. Qed.
Print Assumptions C10_perm_dual_value.

(* the `continue` for a zero multiplicity leaves the correct value 0 *)
Theorem C10_grad_perm_zero_multiplicity : forall A (O : Ops A) M r c i j,
  (nth i r 0 = 0 \/ nth j c 0 = 0)%nat -> grad_perm_entry O M r c i j = o0 O.
Proof. exact grad_perm_zero_mult. Qed.
Print Assumptions C10_grad_perm_zero_multiplicity.

(* jax_perm_core.cpp:ComputePermBwd / _perm_bwd: cotangent times gradient *)
Theorem C10_perm_bwd_correct : forall A (O : Ops A), is_ring O ->
  forall (M V : nat -> nat -> A) r c ct,
    pair_mat O (perm_bwd O M r c ct) V = omul O ct (D_perm_mult O M V r c).
Proof. exact perm_bwd_correct. Qed.
Print Assumptions C10_perm_bwd_correct.

(* conjugation is a ring homomorphism (identity on a real ring, complex conjugation on A[i]) *)
Definition is_conj {A} (O : Ops A) : Prop :=
  (forall a b, oconj O (oadd O a b) = oadd O (oconj O a) (oconj O b)) /\
  (forall a b, oconj O (omul O a b) = omul O (oconj O a) (oconj O b)) /\
  oconj O (o0 O) = o0 O.

(* 2. _create_linear_active/passive_gate_gradient_function.  For every list of blocks
      (matrix, index matrix) whose index matrices together enumerate the basis 0..N-1 exactly once,
      every batch size, every upstream g and state v, whatever np.empty_like contained:
      <g, apply v> = <grad_state g, v>   (the gradient w.r.t. the state is the adjoint map) *)
Theorem C10_vjp_linear_gate_state : forall A (O : Ops A), is_ring O -> is_conj O ->
  forall (blocks : list ((nat -> nat -> A) * imat)) N bs g v init,
    Permutation (all_order blocks) (seq 0 N) ->
    pair_vec O N bs g (apply_blocks O blocks v init) = pair_vec O N bs (grad_state O blocks g) v.
Proof. intros A O Hr [H1 [H2 H3]]. exact (vjp_state_correct A O Hr H1 H2 H3). Qed.
Print Assumptions C10_vjp_linear_gate_state.

(* gradient w.r.t. the matrix of an active gate: the application is linear in the matrix M, and
   <g, apply_M v> = <active_grad_matrix, M>  (sum of zero-padded outer products per block) *)
Theorem C10_vjp_linear_gate_active_matrix : forall A (O : Ops A), is_ring O -> is_conj O ->
  forall (M : nat -> nat -> A) Is cutoff N bs g v init,
    Forall (fun I => ilim I <= cutoff)%nat Is ->
    Permutation (all_order (active_blocks M Is)) (seq 0 N) ->
    pair_vec O N bs g (apply_blocks O (active_blocks M Is) v init) =
    pair_sq O cutoff (active_grad_matrix O Is bs v g) M.
Proof. intros A O Hr [H1 [H2 H3]]. exact (vjp_active_matrix_correct A O Hr H1 H2 H3). Qed.
Print Assumptions C10_vjp_linear_gate_active_matrix.

(* gradient w.r.t. the per-sector matrices of a passive gate *)
Theorem C10_vjp_linear_gate_passive_matrices : forall A (O : Ops A), is_ring O -> is_conj O ->
  forall (Ms : list (nat -> nat -> A)) Is N bs g v init,
    length Ms = length Is ->
    Permutation (all_order (combine Ms Is)) (seq 0 N) ->
    pair_vec O N bs g (apply_blocks O (combine Ms Is) v init) =
    sum_map O (fun GMI => sum_map O (fun a => sum_map O (fun b =>
                 omul O (fst GMI a b) (oconj O (fst (snd GMI) a b)))
                 (seq 0 (ilim (snd (snd GMI))))) (seq 0 (ilim (snd (snd GMI)))))
       (combine (passive_grad_matrices O Is bs v g) (combine Ms Is)).
Proof. intros A O Hr [H1 [H2 H3]]. exact (vjp_passive_matrix_correct A O Hr H1 H2 H3). Qed.
Print Assumptions C10_vjp_linear_gate_passive_matrices.

(* 2, in derivative form: the application evaluated over the dual numbers at (M + eps dM, v + eps dv)
   for every block, paired with the upstream g, is <grad_state g, dv> + sum over the blocks of
   <partial gradient of the block, dM of the block> - for both arguments at once, every batch size *)
Theorem C10_vjp_linear_gate_correct : forall A (O : Ops A), is_ring O -> is_conj O ->
  forall (bd : list (((nat -> nat -> A) * imat) * (nat -> nat -> A))) N bs g v dv init,
    Permutation (all_order (map fst bd)) (seq 0 N) ->
    pair_vec O N bs g (fun k l => epsp (apply_blocks (dualOps O) (dualize A bd) (dvec v dv) init k l)) =
    oadd O (pair_vec O N bs (grad_state O (map fst bd) g) dv)
      (sum_map O (fun p => sum_map O (fun a => sum_map O (fun b =>
          omul O (partial_grad O (snd (fst p)) bs v g a b) (oconj O (snd p a b)))
          (seq 0 (ilim (snd (fst p))))) (seq 0 (ilim (snd (fst p))))) bd).
Proof. intros A O Hr [H1 [H2 H3]]. exact (vjp_linear_gate_correct A O Hr H1 H2 H3). Qed.
Print Assumptions C10_vjp_linear_gate_correct.

(* 3. _calculate_subspace_grad: for arbitrary helper tables, every sector of the chain computed
      over the dual numbers at U + eps E_(row,col) is (representation, subspace_grad) *)
Theorem C10_rep_gradient_correct : forall A (O : Ops A), is_ring O ->
  forall U row col (tabs : list (rtab A)),
    Forall (fun t => col < rd t)%nat tabs ->
    agree A (D_rep_chain O U row col tabs) (rep_chain O U U tabs)
          (grad_chain O U row col U (unit_mat O row col) tabs).
Proof. exact rep_gradient_correct. Qed.
Print Assumptions C10_rep_gradient_correct.

(* _calculate_interferometer_gradient_on_fock_space: the returned entry (row, col) is the
   contraction of the upstream gradients with the conjugated derivative of every sector *)
Theorem C10_interferometer_gradient_correct : forall A (O : Ops A), is_ring O ->
  forall U (tabs : list (rtab A)) up1 ups row col,
    Forall (fun t => col < rd t)%nat tabs ->
    interferometer_gradient O U tabs up1 ups row col =
    oadd O (sum_map O (fun tgu => contract A O (fst (fst tgu)) (snd tgu)
                                   (fun i j => epsp (snd (fst tgu) i j)))
              (combine (combine tabs (D_rep_chain O U row col tabs)) ups))
           (up1 row col).
Proof. exact interferometer_gradient_correct. Qed.
Print Assumptions C10_interferometer_gradient_correct.

(* the complexification A[i] of a commutative ring is a commutative ring with conjugation, so
   the theorems above apply to Gaussian integers / complex numbers *)
Theorem C10_complexification_ring : forall A (O : Ops A), is_ring O -> is_ring (cplxOps O).
Proof. exact cplx_ring. Qed.
Print Assumptions C10_complexification_ring.

(* the dual numbers over a commutative ring are a commutative ring (so D is a derivation) *)
Theorem C10_dual_numbers_ring : forall A (O : Ops A), is_ring O -> is_ring (dualOps O).
Proof. exact dual_ring. Qed.
Print Assumptions C10_dual_numbers_ring.

(* non-vacuity: the integers are an instance; a 2x3 matrix with multiplicities (1,2),(1,1,1) *)
Lemma Z_is_ring : is_ring ZOps.
Proof. exact Zth. Qed.
Example C10_perm_example :
  let M := mat_fun ZOps [[1;2;3];[4;5;6]]%Z in
  perm_mult ZOps M [1;2] [1;1;1] = 276%Z /\
  grad_perm ZOps M [1;2] [1;1;1] = [[60;48;40];[54;36;26]]%Z /\
  D_perm_mult ZOps M (fun i j => if andb (Nat.eqb i 0) (Nat.eqb j 2) then 1%Z else 0%Z) [1;2] [1;1;1] = 40%Z.
Proof. vm_compute. repeat split. Qed.
(* the shipped loop bounds give a 2x2 result for this input: the third column is missing *)
Example C10_grad_perm_shipped_loop_refuted :
  exists M r c, map (map Some) (grad_perm ZOps M r c) <> grad_perm_square_loop ZOps M r c.
Proof.
  exists (mat_fun ZOps [[1;2;3];[4;5;6]]%Z), [1;2]%nat, [1;1;1]%nat. vm_compute. discriminate.
Qed.

(* non-vacuity of the hypotheses of theorem 2: the integers with the identity conjugation *)
Lemma Z_is_conj : is_conj ZOps.
Proof. repeat split. Qed.
Example C10_gate_example :
  let I1 := imat_of_lists [[2;0];[1;3]] in let I2 := imat_of_lists [[4]] in
  let M := mat_fun ZOps [[1;2];[3;4]]%Z in
  let v := vec_of_lists ZOps [[1];[2];[3];[4];[5]]%Z in
  let g := vec_of_lists ZOps [[7];[-1];[2];[0];[3]]%Z in
  Permutation (all_order (active_blocks M [I1; I2])) (seq 0 5) /\
  pair_vec ZOps 5 1 g (apply_blocks ZOps (active_blocks M [I1; I2]) v (fun _ _ => 99%Z)) =
  pair_sq ZOps 2 (active_grad_matrix ZOps [I1; I2] 1 v g) M /\
  pair_vec ZOps 5 1 (grad_state ZOps (active_blocks M [I1; I2]) g) v =
  pair_sq ZOps 2 (active_grad_matrix ZOps [I1; I2] 1 v g) M /\
  pair_sq ZOps 2 (active_grad_matrix ZOps [I1; I2] 1 v g) M <> 0%Z.
Proof.
  cbv zeta. split; [|vm_compute; repeat split; discriminate].
  vm_compute. apply (perm_trans (l' := [0;2;1;3;4]%nat)).
  - apply perm_swap.
  - apply perm_skip. apply perm_swap.
Qed.
