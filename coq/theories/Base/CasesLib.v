(* Helpers used by generated cases files (correspondence runs). No proofs needed. *)
From Coq Require Import ZArith QArith List Bool.
Import ListNotations.
Open Scope Z_scope.

Fixpoint list_eqb {A} (eqb : A -> A -> bool) (l1 l2 : list A) : bool :=
  match l1, l2 with
  | [], [] => true
  | a :: r1, b :: r2 => eqb a b && list_eqb eqb r1 r2
  | _, _ => false
  end.

Definition zl_eqb := list_eqb Z.eqb.
Definition zll_eqb := list_eqb zl_eqb.
Definition zlll_eqb := list_eqb zll_eqb.

Definition opt_eqb {A} (eqb : A -> A -> bool) (a b : option A) : bool :=
  match a, b with
  | Some x, Some y => eqb x y
  | None, None => true
  | _, _ => false
  end.

Fixpoint mismatches_from {A} (ok : A -> bool) (i : Z) (l : list A) : list Z :=
  match l with
  | [] => []
  | a :: r => if ok a then mismatches_from ok (i + 1) r else i :: mismatches_from ok (i + 1) r
  end.
Definition mismatches {A} (ok : A -> bool) (l : list A) : list Z := mismatches_from ok 0 l.

Definition q_eqb (a b : Q) : bool := Qeq_bool a b.
Definition ql_eqb := list_eqb q_eqb.
Definition qll_eqb := list_eqb ql_eqb.
