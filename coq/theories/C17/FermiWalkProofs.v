(* C17 - the first-quantised walk (next_first_quantized from arange(n)) lists the n-subsets of
   [0,d) in exactly the order of the recursive specification f_sector, for every d and n;
   every strictly increasing index list sits at the position given by the rank formula. *)
From Coq Require Import ZArith List Bool Lia ZifyBool.
From PV Require Import Comb.FockModel Comb.Binom Comb.FermiModel Comb.FermiProofs C17.FermiRepModel.
Import ListNotations.
Open Scope Z_scope.

Definition sh (X : list Z) : list Z := map (fun x => x + 1) X.
Definition c0s (X : list Z) : list Z := 0 :: sh X.

(* f_sector in first-quantised form *)
Fixpoint fq_sector (d n : nat) : list (list Z) :=
  match d with
  | O => match n with O => [[]] | S _ => [] end
  | S d' =>
      (match n with O => [] | S n' => map c0s (fq_sector d' n') end) ++ map sh (fq_sector d' n)
  end.

Lemma to_fq_cons1 v : to_fq (1 :: v) = c0s (to_fq v).
Proof.
  unfold to_fq, c0s, sh. cbn [to_fq_from]. change (1 =? 1) with true. cbv iota.
  f_equal. apply (to_fq_from_shift v 0).
Qed.

Lemma to_fq_cons0 v : to_fq (0 :: v) = sh (to_fq v).
Proof.
  unfold to_fq, sh. cbn [to_fq_from]. change (0 =? 1) with false. cbv iota.
  apply (to_fq_from_shift v 0).
Qed.

Lemma fq_sector_spec d : forall n, map to_fq (f_sector d n) = fq_sector d n.
Proof.
  induction d as [|d IH]; intros n.
  - destruct n; reflexivity.
  - cbn [f_sector fq_sector]. rewrite map_app. f_equal.
    + destruct n as [|n']; [reflexivity|]. rewrite <- IH, !map_map.
      apply map_ext. intros v. apply to_fq_cons1.
    + rewrite <- IH, !map_map. apply map_ext. intros v. apply to_fq_cons0.
Qed.

Lemma fq_sector_length d n : Z.of_nat (length (fq_sector d n)) = binom d n.
Proof. rewrite <- fq_sector_spec, map_length. apply f_sector_length. Qed.

Lemma fq_sector_len d n X : In X (fq_sector d n) -> length X = n.
Proof.
  rewrite <- fq_sector_spec. intros H. apply in_map_iff in H. destruct H as [v [<- Hv]].
  apply f_sector_valid in Hv. destruct Hv as [_ [_ Hn]]. exact Hn.
Qed.

(* ---------------------------------------------------------------- list helpers *)
Lemma nth_map' {T S} (f : T -> S) (l : list T) d1 d2 i :
  (i < length l)%nat -> nth i (map f l) d1 = f (nth i l d2).
Proof.
  revert i. induction l as [|a l IH]; intros i Hi; cbn [length] in Hi; [lia|].
  destruct i; cbn [map nth]; [reflexivity|]. apply IH. lia.
Qed.

Lemma last_map_ne {T S} (g : T -> S) (l : list T) d1 d2 :
  l <> [] -> last (map g l) d1 = g (last l d2).
Proof.
  induction l as [|a l IH]; intros H; [congruence|].
  destruct l as [|b l]; [reflexivity|].
  change (last (map g (b :: l)) d1 = g (last (b :: l) d2)). apply IH. discriminate.
Qed.

Lemma last_app_ne {T} (l1 l2 : list T) d : l2 <> [] -> last (l1 ++ l2) d = last l2 d.
Proof.
  intros H. induction l1 as [|a l1 IH]; [reflexivity|].
  cbn [app]. destruct (l1 ++ l2) eqn:E.
  - destruct l1; cbn in E; [congruence | discriminate].
  - exact IH.
Qed.

Lemma last_In {T} (l : list T) d : l <> [] -> In (last l d) l.
Proof.
  induction l as [|a l IH]; intros H; [congruence|].
  destruct l as [|b l]; [left; reflexivity|]. right. apply IH. discriminate.
Qed.

(* ---------------------------------------------------------------- chains *)
Inductive chain {T} (R : T -> T -> Prop) : list T -> Prop :=
| chain_nil : chain R []
| chain_one x : chain R [x]
| chain_cons x y l : R x y -> chain R (y :: l) -> chain R (x :: y :: l).

Lemma chain_map {T} (R R' : T -> T -> Prop) (g : T -> T) l :
  (forall x y, R x y -> R' (g x) (g y)) -> chain R l -> chain R' (map g l).
Proof.
  intros H C. induction C; cbn [map] in *; constructor; auto.
Qed.

Lemma chain_impl {T} (R R' : T -> T -> Prop) l :
  (forall x y, R x y -> R' x y) -> chain R l -> chain R' l.
Proof. intros H C. induction C; constructor; auto. Qed.

Lemma chain_app {T} (R : T -> T -> Prop) dflt l1 l2 :
  chain R l1 -> chain R l2 ->
  (l1 <> [] -> l2 <> [] -> R (last l1 dflt) (hd dflt l2)) -> chain R (l1 ++ l2).
Proof.
  intros C1 C2 L. induction C1.
  - exact C2.
  - destruct l2 as [|y l2]; [constructor|]. cbn [app]. constructor; [|exact C2].
    apply (L ltac:(discriminate) ltac:(discriminate)).
  - cbn [app]. constructor; [assumption|]. apply IHC1. intros _ H2.
    apply (L ltac:(discriminate) H2).
Qed.

Lemma iterate_chain {T} (f : T -> T) l : forall x,
  chain (fun a b => f a = b) (x :: l) -> iterate_list f (S (length l)) x = x :: l.
Proof.
  induction l as [|y l IH]; intros x C; [reflexivity|].
  inversion C as [| |a b l' Hab Hc]; subst.
  cbn [length]. change (iterate_list f (S (S (length l))) x) with
    (x :: iterate_list f (S (length l)) (f x)).
  f_equal. apply IH. exact Hc.
Qed.

(* ---------------------------------------------------------------- next_first_quantized *)
Definition nx (D : Z) (X : list Z) : option (list Z) := next_fq_aux D (rev X) 0.

Lemma next_fq_aux_snoc D a : forall l i,
  next_fq_aux D (l ++ [a]) i =
  match next_fq_aux D l i with
  | Some r => Some (a :: r)
  | None =>
      if a <? D - (i + Z.of_nat (length l)) - 1
      then Some (map (fun j => a + 1 + Z.of_nat j)
                     (seq 0 (S (Z.to_nat (i + Z.of_nat (length l))))))
      else None
  end.
Proof.
  induction l as [|q rest IH]; intros i.
  - cbn [app next_fq_aux length rev]. change (Z.of_nat 0) with 0. rewrite Z.add_0_r.
    destruct (a <? D - i - 1); reflexivity.
  - cbn [app next_fq_aux]. destruct (q <? D - i - 1).
    + rewrite rev_app_distr. reflexivity.
    + rewrite IH.
      replace (i + 1 + Z.of_nat (length rest)) with (i + Z.of_nat (length (q :: rest)))
        by (cbn [length]; lia).
      reflexivity.
Qed.

Lemma nx_cons D x r :
  nx D (x :: r) =
  match nx D r with
  | Some r' => Some (x :: r')
  | None => if x <? D - Z.of_nat (length r) - 1
            then Some (map (fun j => x + 1 + Z.of_nat j) (seq 0 (S (length r))))
            else None
  end.
Proof.
  unfold nx. cbn [rev]. rewrite next_fq_aux_snoc, rev_length, Z.add_0_l, Nat2Z.id.
  reflexivity.
Qed.

Lemma nx_sh D X : nx (D + 1) (sh X) = option_map sh (nx D X).
Proof.
  induction X as [|x r IH]; [reflexivity|].
  unfold sh in *. cbn [map]. rewrite !nx_cons, IH, map_length.
  destruct (nx D r) as [r'|]; cbn [option_map]; [reflexivity|].
  assert (E : (x + 1 <? D + 1 - Z.of_nat (length r) - 1) = (x <? D - Z.of_nat (length r) - 1))
    by lia.
  rewrite E. destruct (x <? D - Z.of_nat (length r) - 1); cbn [option_map]; [|reflexivity].
  f_equal. rewrite map_map. apply map_ext. intros j. lia.
Qed.

Definition step (D : Z) (X Y : list Z) : Prop := nx D X = Some Y.

Lemma fq_start_S n : fq_start (S n) = c0s (fq_start n).
Proof.
  unfold fq_start, c0s, sh. cbn [seq map]. f_equal.
  rewrite <- seq_shift, !map_map. apply map_ext. intros a. lia.
Qed.

Lemma fq_sector_hd d : forall n, (n <= d)%nat -> exists l, fq_sector d n = fq_start n :: l.
Proof.
  induction d as [|d IH]; intros n Hn.
  - assert (n = 0%nat) by lia. subst. exists []. reflexivity.
  - cbn [fq_sector]. destruct n as [|n'].
    + destruct (IH 0%nat ltac:(lia)) as [l E]. rewrite E. exists (map sh l). reflexivity.
    + destruct (IH n' ltac:(lia)) as [l E]. rewrite E. cbn [map app].
      rewrite fq_start_S. eexists. reflexivity.
Qed.

Lemma fq_sector_nonempty_le d n : fq_sector d n <> [] -> (n <= d)%nat.
Proof.
  intros H. destruct (le_lt_dec n d) as [|Hgt]; [assumption|]. exfalso. apply H.
  pose proof (fq_sector_length d n) as L. rewrite binom_gt in L by lia.
  destruct (fq_sector d n); [reflexivity|]. cbn [length] in L. lia.
Qed.

Lemma fq_sector_last d : forall n,
  fq_sector d n <> [] -> nx (Z.of_nat d) (last (fq_sector d n) []) = None.
Proof.
  induction d as [|d IH]; intros n Hne.
  - destruct n; [reflexivity|]. exfalso. apply Hne. reflexivity.
  - rewrite Nat2Z.inj_succ, <- Z.add_1_r. cbn [fq_sector] in *.
    destruct (fq_sector d n) as [|b B] eqn:EB.
    + cbn [map] in *. rewrite app_nil_r in *. destruct n as [|n']; [congruence|].
      assert (Hne' : fq_sector d n' <> []) by (intros E; rewrite E in Hne; apply Hne; reflexivity).
      rewrite (last_map_ne c0s _ [] []) by exact Hne'.
      unfold c0s. rewrite nx_cons, nx_sh, (IH n' Hne'). cbn [option_map].
      unfold sh. rewrite map_length.
      rewrite (fq_sector_len d n' _ (last_In _ [] Hne')).
      assert (Hge : (d < S n')%nat).
      { destruct (le_lt_dec (S n') d) as [Hle|]; [|assumption].
        destruct (fq_sector_hd d (S n') Hle) as [l E]. congruence. }
      assert (E : (0 <? Z.of_nat d + 1 - Z.of_nat n' - 1) = false) by lia.
      rewrite E. reflexivity.
    + rewrite last_app_ne by discriminate.
      rewrite (last_map_ne sh _ [] []) by discriminate.
      rewrite nx_sh. rewrite <- EB at 1. rewrite IH; [reflexivity|]. rewrite EB. discriminate.
Qed.

Lemma fq_sector_chain d : forall n, chain (step (Z.of_nat d)) (fq_sector d n).
Proof.
  induction d as [|d IH]; intros n.
  - destruct n; constructor.
  - cbn [fq_sector]. rewrite Nat2Z.inj_succ, <- Z.add_1_r. apply chain_app with (dflt := []).
    + destruct n as [|n']; [constructor|].
      apply chain_map with (R := step (Z.of_nat d)); [|apply IH].
      intros X Y H. unfold step in *. unfold c0s. rewrite nx_cons, nx_sh, H. reflexivity.
    + apply chain_map with (R := step (Z.of_nat d)); [|apply IH].
      intros X Y H. unfold step in *. rewrite nx_sh, H. reflexivity.
    + intros H1 H2. destruct n as [|n']; [congruence|].
      assert (Hne' : fq_sector d n' <> []) by (intros E; rewrite E in H1; apply H1; reflexivity).
      assert (Hne2 : fq_sector d (S n') <> []) by (intros E; rewrite E in H2; apply H2; reflexivity).
      pose proof (fq_sector_nonempty_le _ _ Hne2) as Hle.
      destruct (fq_sector_hd d (S n') Hle) as [l E]. rewrite E. cbn [map hd].
      rewrite (last_map_ne c0s _ [] []) by exact Hne'.
      unfold step, c0s. rewrite nx_cons, nx_sh, (fq_sector_last d n' Hne'). cbn [option_map].
      assert (HL : length (sh (last (fq_sector d n') [])) = n').
      { unfold sh. rewrite map_length. apply (fq_sector_len d n'). apply last_In. exact Hne'. }
      rewrite !HL.
      assert (Et : (0 <? Z.of_nat d + 1 - Z.of_nat n' - 1) = true) by lia.
      rewrite Et. f_equal. unfold sh, fq_start. rewrite map_map. apply map_ext. intros j. lia.
Qed.

(* the walk of the code is the recursive specification, for all d and n *)
Theorem fq_walk_sector d n : fq_walk (Z.of_nat d) n = fq_sector d n.
Proof.
  unfold fq_walk, f_subspace_dim. rewrite comb_nat, <- (fq_sector_length d n), Nat2Z.id.
  destruct (le_lt_dec n d) as [Hle|Hgt].
  - destruct (fq_sector_hd d n Hle) as [r E]. pose proof (fq_sector_chain d n) as C.
    rewrite E in *. cbn [length]. apply iterate_chain.
    eapply chain_impl; [|exact C]. intros X Y H. unfold step, nx in H. unfold next_fq.
    rewrite H. reflexivity.
  - assert (E : fq_sector d n = []).
    { destruct (fq_sector d n) eqn:E0; [reflexivity|]. exfalso.
      assert (Hn : fq_sector d n <> []) by (rewrite E0; discriminate).
      apply fq_sector_nonempty_le in Hn. lia. }
    rewrite E. reflexivity.
Qed.

Corollary fq_walk_f_sector d n : fq_walk (Z.of_nat d) n = map to_fq (f_sector d n).
Proof. rewrite fq_walk_sector. symmetry. apply fq_sector_spec. Qed.

(* ---------------------------------------------------------------- increasing index lists *)
Fixpoint incr (lo : Z) (X : list Z) (d : Z) : Prop :=
  match X with
  | [] => True
  | x :: r => lo <= x < d /\ incr (x + 1) r d
  end.

Lemma incr_weaken X lo lo' d : incr lo X d -> lo' <= lo -> incr lo' X d.
Proof. destruct X as [|x r]; [trivial|]. intros [H1 H2] H. split; [lia|assumption]. Qed.

Lemma incr_del d : forall X lo k, incr lo X d -> incr lo (del_nth k X) d.
Proof.
  induction X as [|x r IH]; intros lo k H.
  - destruct k; exact I.
  - destruct H as [Hx Hr]. destruct k as [|k].
    + change (del_nth 0 (x :: r)) with r. apply (incr_weaken r (x + 1)); [assumption|lia].
    + change (del_nth (S k) (x :: r)) with (x :: del_nth k r). split; [assumption|].
      apply IH. assumption.
Qed.

Lemma del_nth_length {T} (X : list T) k : (k < length X)%nat ->
  length (del_nth k X) = (length X - 1)%nat.
Proof.
  intros H. unfold del_nth. rewrite app_length, firstn_length, skipn_length. lia.
Qed.

Lemma incr_unshift : forall X lo d,
  incr (lo + 1) X (d + 1) -> exists X', X = sh X' /\ incr lo X' d.
Proof.
  induction X as [|x r IH]; intros lo d H.
  - exists []. split; [reflexivity|exact I].
  - destruct H as [Hx Hr]. destruct (IH x d Hr) as [r' [-> Hr']].
    exists ((x - 1) :: r'). split.
    + unfold sh. cbn [map]. f_equal. lia.
    + split; [lia|]. replace (x - 1 + 1) with x by lia. exact Hr'.
Qed.

Lemma fq_sector_complete d : forall n X,
  incr 0 X (Z.of_nat d) -> length X = n -> In X (fq_sector d n).
Proof.
  induction d as [|d IH]; intros n X HI HL.
  - destruct X as [|x r].
    + subst. left. reflexivity.
    + destruct HI as [Hx _]. lia.
  - cbn [fq_sector]. apply in_or_app. rewrite Nat2Z.inj_succ, <- Z.add_1_r in HI.
    destruct X as [|x r].
    + right. subst n. apply in_map_iff. exists []. split; [reflexivity|].
      apply IH; [exact I|reflexivity].
    + destruct HI as [Hx Hr]. destruct (Z.eq_dec x 0) as [->|Hx0].
      * left. destruct n as [|n']; [discriminate|].
        destruct (incr_unshift r 0 _ Hr) as [r' [-> Hr']].
        apply in_map_iff. exists r'. split; [reflexivity|].
        apply IH; [assumption|]. cbn [length] in HL. unfold sh in HL. rewrite map_length in HL. lia.
      * right.
        assert (HI' : incr (0 + 1) (x :: r) (Z.of_nat d + 1)) by (split; [lia|exact Hr]).
        destruct (incr_unshift _ 0 _ HI') as [X' [E HX']]. rewrite E in *.
        apply in_map_iff. exists X'. split; [reflexivity|].
        apply IH; [assumption|]. unfold sh in HL. rewrite map_length in HL. exact HL.
Qed.

(* ---------------------------------------------------------------- rank = position *)
Lemma rank_nth d n i : (i < length (fq_sector d n))%nat ->
  f_subspace_index_fq (nth i (fq_sector d n) []) (Z.of_nat d) = Z.of_nat i.
Proof.
  intros Hi. rewrite <- fq_sector_spec in *. rewrite map_length in Hi.
  rewrite (nth_map' to_fq _ [] []) by assumption.
  set (v := nth i (f_sector d n) []).
  assert (Hv : In v (f_sector d n)) by (apply nth_In; assumption).
  apply f_sector_valid in Hv. destruct Hv as [Hlen _].
  pose proof (f_equal (fun l => nth i l 0) (f_sub_index_enum d n)) as E. cbv beta in E.
  rewrite (nth_map' f_subspace_index _ 0 []) in E by assumption.
  rewrite (nth_map' Z.of_nat _ 0 0%nat) in E by (rewrite seq_length; assumption).
  rewrite seq_nth in E by assumption. cbn [Nat.add] in E.
  fold v in E. unfold f_subspace_index in E. rewrite Hlen in E. exact E.
Qed.

Theorem valid_pos d n X : incr 0 X (Z.of_nat d) -> length X = n ->
  (Z.to_nat (f_subspace_index_fq X (Z.of_nat d)) < length (fq_sector d n))%nat /\
  nth (Z.to_nat (f_subspace_index_fq X (Z.of_nat d))) (fq_sector d n) [] = X.
Proof.
  intros HI HL. pose proof (fq_sector_complete d n X HI HL) as Hin.
  apply In_nth with (d := []) in Hin. destruct Hin as [j [Hj E]].
  pose proof (rank_nth d n j Hj) as Hr. rewrite E in Hr. rewrite Hr, Nat2Z.id. auto.
Qed.

Lemma rank_single d r : 0 <= r < Z.of_nat d -> f_subspace_index_fq [r] (Z.of_nat d) = r.
Proof.
  intros H. rewrite f_subspace_index_fq_eq. cbn [length].
  change (Z.of_nat 1 =? 0) with false. cbv iota. change (Z.of_nat 1) with 1.
  cbn [Tsum]. replace (1 - 0) with 1 by lia.
  rewrite !comb_d_1 by lia. lia.
Qed.
