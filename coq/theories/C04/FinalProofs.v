(* C04 -- the kernels as a whole: permanent_cpp / permanent_laplace_cpp never overflow under the
   size bound and return the Glynn sum; relative to the Glynn/BBFG identity with multiplicities
   (a Section hypothesis) permanent_cpp returns 2^(n-1) times the defining permanent.
   The 32-bit weight of the unrepaired source overflows inside the property's range. *)
From Coq Require Import ZArith List Bool Lia ZifyBool Ring InitialRing Setoid Permutation.
From PV Require Import Comb.Binom C04.PermModel C04.PermProofs C04.LoopProofs C04.GrayProofs
  C04.JobProofs C04.SumProofs.
Import ListNotations.
Local Close Scope Z_scope.
Local Open Scope nat_scope.

(* ------------------------------------------------------------------ the row split *)
Lemma min_scan_spec : forall rows i m mi m' mi', min_scan rows i m mi = (m', mi') ->
  (m' = 0 -> m = 0 /\ sum_nat rows = 0) /\
  (m' <> 0 -> (m <> 0 /\ m' = m /\ mi' = mi) \/
              (i <= mi' /\ mi' < i + length rows /\ nth (mi' - i) rows 0 = m')).
Proof.
  induction rows as [|x rows IH]; intros i m mi m' mi' H; cbn [min_scan] in H.
  - inversion H; subst. split; [intros ->; split; reflexivity | intros Hne; left; auto].
  - destruct ((m =? 0) || ((x <? m) && negb (x =? 0))) eqn:C.
    + apply IH in H. destruct H as [H0 H1]. split.
      * intros Hm'. destruct (H0 Hm') as [Hx Hs]. subst x. rewrite sum_nat_cons. split; lia.
      * intros Hne. destruct (H1 Hne) as [(Hx & -> & ->)|(Ha & Hb & Hc)].
        -- right. split; [lia|]. split; [cbn [length]; lia|]. rewrite Nat.sub_diag. reflexivity.
        -- right. split; [lia|]. split; [cbn [length]; lia|].
           replace (mi' - i) with (S (mi' - S i)) by lia. cbn [nth]. exact Hc.
    + apply IH in H. destruct H as [H0 H1]. split.
      * intros Hm'. destruct (H0 Hm') as [Hm Hs]. lia.
      * intros Hne. destruct (H1 Hne) as [Hl|(Ha & Hb & Hc)]; [left; exact Hl|].
        right. split; [lia|]. split; [cbn [length]; lia|].
        replace (mi' - i) with (S (mi' - S i)) by lia. cbn [nth]. exact Hc.
Qed.

Lemma split_row_spec {A} (M : list (list A)) rows :
  match split_row A M rows with
  | Some (row0, rest, r) =>
      exists i0, i0 < length rows /\ 1 <= nth i0 rows 0 /\
                 row0 = nth i0 M [] /\ rest = M /\ r = dec_nth i0 rows
  | None => sum_nat rows = 0
  end.
Proof.
  unfold split_row. destruct (min_scan rows 0 0 0) as [m mi] eqn:E.
  destruct (min_scan_spec rows 0 0 0 m mi E) as [H0 H1].
  destruct ((0 <? length rows) && negb (m =? 0)) eqn:C.
  - assert (Hm : m <> 0) by lia. destruct (H1 Hm) as [(? & _)|(Ha & Hb & Hc)]; [lia|].
    exists mi. rewrite Nat.sub_0_r in Hc. repeat split; auto; lia.
  - destruct (Nat.eq_dec m 0) as [->|Hm]; [now destruct (H0 eq_refl)|].
    destruct rows; [reflexivity|cbn in C; lia].
Qed.

Lemma dec_nth_length : forall l i, length (dec_nth i l) = length l.
Proof. induction l as [|x l IH]; intros [|i]; cbn; auto. Qed.

Lemma sum_nat_dec_nth : forall l i, sum_nat (dec_nth i l) <= sum_nat l.
Proof.
  induction l as [|x l IH]; intros [|i]; cbn [dec_nth]; rewrite ?sum_nat_cons; try lia.
  specialize (IH i). lia.
Qed.

Lemma expand_zero {X} : forall (l : list X) mult, sum_nat mult = 0 -> expand l mult = [].
Proof.
  induction l as [|x l IH]; intros [|m mult] H; try reflexivity.
  rewrite sum_nat_cons in H. cbn [expand]. replace m with 0 by lia. cbn [repeat app]. apply IH. lia.
Qed.

(* ------------------------------------------------------------------ size bounds *)
Definition weight_n (wb w : Z) (s : nat) : Prop :=
  (Z.of_nat s < wb - 1 /\ Z.of_nat s * Z.of_nat s < 2 ^ (wb - 1) /\
   2 ^ Z.of_nat s * (Z.of_nat s + 1) < 2 ^ (w - 1))%Z.

Lemma weight_ok_mono wb w r s : sum_nat r <= s -> weight_n wb w s -> weight_ok wb w r.
Proof.
  intros Hle (H1 & H2 & H3). unfold weight_ok.
  set (a := sum_nat r) in *.
  assert (Hp : (0 < 2 ^ Z.of_nat a <= 2 ^ Z.of_nat s)%Z).
  { split; [apply Z.pow_pos_nonneg; lia | apply Z.pow_le_mono_r; lia]. }
  split; [lia|]. split; [nia|].
  assert (Hm : (0 <= 2 ^ Z.of_nat a * (Z.of_nat a + 1) <= 2 ^ Z.of_nat s * (Z.of_nat s + 1))%Z)
    by (apply mul_bound; lia).
  lia.
Qed.

(* 64-bit weight (the repaired source): total multiplicity up to 56 is safe *)
Lemma weight_n_64 s : s <= 56 -> weight_n 64 64 s.
Proof.
  intros Hs. unfold weight_n.
  change (2 ^ (64 - 1))%Z with 9223372036854775808%Z.
  assert (Hp : (0 < 2 ^ Z.of_nat s <= 2 ^ 56)%Z).
  { split; [apply Z.pow_pos_nonneg; lia | apply Z.pow_le_mono_r; lia]. }
  change (2 ^ 56)%Z with 72057594037927936%Z in Hp.
  split; [lia|]. split; [nia|].
  assert (Hm : (0 <= 2 ^ Z.of_nat s * (Z.of_nat s + 1) <= 72057594037927936 * 57)%Z)
    by (apply mul_bound; lia).
  lia.
Qed.

(* 32-bit weight (the source before the repair): only totals up to 26 are safe *)
Lemma weight_n_32 s : s <= 26 -> weight_n 32 32 s.
Proof.
  intros Hs. unfold weight_n.
  change (2 ^ (32 - 1))%Z with 2147483648%Z.
  assert (Hp : (0 < 2 ^ Z.of_nat s <= 2 ^ 26)%Z).
  { split; [apply Z.pow_pos_nonneg; lia | apply Z.pow_le_mono_r; lia]. }
  change (2 ^ 26)%Z with 67108864%Z in Hp.
  split; [lia|]. split; [nia|].
  assert (Hm : (0 <= 2 ^ Z.of_nat s * (Z.of_nat s + 1) <= 67108864 * 27)%Z)
    by (apply mul_bound; lia).
  lia.
Qed.

(* the int weight of the unrepaired source overflows for rows (18,18), total 36 <= 40 *)
Theorem perm_int32_overflow_refuted :
  exists (M : list (list Zi)) (rows cols : list nat),
    sum_nat rows <= 40 /\ sum_nat rows = sum_nat cols /\ length M = length rows /\
    permanent_cpp_zi 32 32 1 M rows cols = Overflow.
Proof.
  exists [[(1, 0); (1, 0)]; [(1, 0); (1, 0)]]%Z, [18; 18], [18; 18].
  split; [cbn; lia|]. split; [reflexivity|]. split; [reflexivity|]. vm_compute. reflexivity.
Qed.

Theorem laplace_int32_overflow_refuted :
  exists (M : list (list Zi)) (rows cols : list nat),
    sum_nat rows <= 40 /\ sum_nat cols = S (sum_nat rows) /\ length M = length rows /\
    permanent_laplace_cpp_zi 32 32 1 M rows cols = Overflow.
Proof.
  exists [[(1, 0); (1, 0)]; [(1, 0); (1, 0)]]%Z, [18; 18], [19; 18].
  split; [cbn; lia|]. split; [reflexivity|]. split; [reflexivity|]. vm_compute. reflexivity.
Qed.

(* ------------------------------------------------------------------ the kernels *)
Section Final.
Variable A : Type.
Variables (rO rI : A) (radd rmul rsub : A -> A -> A) (ropp : A -> A).
Hypothesis Rth : ring_theory rO rI radd rmul rsub ropp (@eq A).
Add Ring Aring3 : Rth.
Variable wb : Z.

Notation permanent_cpp' := (permanent_cpp A rO rI radd rmul ropp wb).
Notation laplace_cpp' := (permanent_laplace_cpp A rO rI radd rmul ropp wb).
Notation glynn_sum' := (glynn_sum A rO rI radd rmul ropp).
Notation perm_def' := (perm_def A rO rI radd rmul).
Notation two := (radd rI rI).

(* what the kernel returns, for every input: a refusal exactly when the totals differ,
   otherwise a value -- never Overflow, never a division by zero *)
Theorem permanent_cpp_outcome w threads M rows cols :
  length M = length rows -> 1 <= threads -> weight_n wb w (sum_nat rows) ->
  (sum_nat rows <> sum_nat cols /\ permanent_cpp' w threads M rows cols = BadInput) \/
  (sum_nat rows = sum_nat cols /\
   match split_row A M rows with
   | None => permanent_cpp' w threads M rows cols = Ok (rI, 0)
   | Some (row0, rest, r) =>
       permanent_cpp' w threads M rows cols
       = Ok (nth 0 (glynn_sum' (prods_perm A rI rmul cols) 1 row0 rest r) rO, sum_nat rows - 1)
   end).
Proof.
  intros Hlen Ht Hw. unfold permanent_cpp.
  destruct (Nat.eq_dec (sum_nat rows) (sum_nat cols)) as [E|E].
  2:{ left. split; auto. replace (sum_nat rows =? sum_nat cols) with false by lia. reflexivity. }
  right. split; auto. replace (sum_nat rows =? sum_nat cols) with true by lia. cbn [negb].
  pose proof (split_row_spec M rows) as Hs.
  destruct (split_row A M rows) as [[[row0 rest] r]|].
  - destruct Hs as (i0 & Hi0 & Hge & -> & -> & ->).
    pose proof (nth_le_sum rows i0) as Hsum.
    assert (Hc : length cols <> 0) by (destruct cols; [cbn in E; lia | cbn; lia]).
    replace ((S (length M) =? 0) || (length cols =? 0) || (sum_nat rows =? 0) || (sum_nat cols =? 0))
      with false by lia.
    rewrite (run_all_is_glynn_sum A rO rI radd rmul rsub ropp Rth wb w threads (prods_perm A rI rmul cols) 1).
    + reflexivity.
    + intros cs. reflexivity.
    + rewrite dec_nth_length. lia.
    + apply (weight_ok_mono wb w _ (sum_nat rows)); auto. apply sum_nat_dec_nth.
    + exact Ht.
  - replace ((length M =? 0) || (length cols =? 0) || (sum_nat rows =? 0) || (sum_nat cols =? 0))
      with true by lia.
    reflexivity.
Qed.

Theorem permanent_laplace_cpp_outcome w threads M rows cols :
  length M = length rows -> 1 <= threads -> weight_n wb w (sum_nat rows) ->
  match split_row A M rows with
  | None => laplace_cpp' w threads M rows cols = Ok ([rI], 0)
  | Some (row0, rest, r) =>
      (length cols = 0 \/ sum_nat cols = 0) \/
      laplace_cpp' w threads M rows cols
      = Ok (glynn_sum' (prods_laplace A rI rmul cols) (length cols) row0 rest r, sum_nat rows - 1)
  end.
Proof.
  intros Hlen Ht Hw. unfold permanent_laplace_cpp.
  pose proof (split_row_spec M rows) as Hs.
  destruct (split_row A M rows) as [[[row0 rest] r]|].
  - destruct Hs as (i0 & Hi0 & Hge & -> & -> & ->).
    pose proof (nth_le_sum rows i0) as Hsum.
    destruct (Nat.eq_dec (length cols) 0) as [Hc|Hc]; [left; now left|].
    destruct (Nat.eq_dec (sum_nat cols) 0) as [Hsc|Hsc]; [left; now right|].
    right.
    assert (HM : length M <> 0) by (destruct rows; cbn in *; lia).
    replace ((length M =? 0) || (length cols =? 0) || (sum_nat rows =? 0) || (sum_nat cols =? 0))
      with false by lia.
    rewrite (run_all_is_glynn_sum A rO rI radd rmul rsub ropp Rth wb w threads
               (prods_laplace A rI rmul cols) (length cols)).
    + reflexivity.
    + intros cs. unfold prods_laplace. now rewrite map_length, seq_length.
    + rewrite dec_nth_length. lia.
    + apply (weight_ok_mono wb w _ (sum_nat rows)); auto. apply sum_nat_dec_nth.
    + exact Ht.
  - replace ((length M =? 0) || (length cols =? 0) || (sum_nat rows =? 0) || (sum_nat cols =? 0))
      with true by lia.
    reflexivity.
Qed.

(* ---- relative to the Glynn/BBFG identity with multiplicities *)
Definition glynn_mult_statement : Prop :=
  forall (M : list (list A)) (rows cols : list nat) (i0 : nat),
    length M = length rows -> Forall (fun row => length row = length cols) M ->
    sum_nat rows = sum_nat cols -> i0 < length rows -> 1 <= nth i0 rows 0 ->
    rmul (rpow A rI rmul two (sum_nat rows - 1)) (perm_def' M rows cols)
    = nth 0 (glynn_sum' (prods_perm A rI rmul cols) 1 (nth i0 M []) M (dec_nth i0 rows)) rO.

Hypothesis glynn_mult : glynn_mult_statement.

Theorem perm_loop_correct_partial w threads M rows cols num e :
  length M = length rows -> Forall (fun row => length row = length cols) M ->
  1 <= threads -> weight_n wb w (sum_nat rows) ->
  permanent_cpp' w threads M rows cols = Ok (num, e) ->
  rmul (rpow A rI rmul two e) (perm_def' M rows cols) = num.
Proof.
  intros Hlen Hrows Ht Hw Hres.
  destruct (permanent_cpp_outcome w threads M rows cols Hlen Ht Hw) as [[_ Hbad]|[E Hout]].
  { rewrite Hbad in Hres. discriminate. }
  pose proof (split_row_spec M rows) as Hs.
  destruct (split_row A M rows) as [[[row0 rest] r]|].
  - destruct Hs as (i0 & Hi0 & Hge & -> & -> & ->).
    rewrite Hout in Hres. inversion Hres; subst.
    apply glynn_mult; auto.
  - rewrite Hout in Hres. inversion Hres; subst.
    unfold perm_def. rewrite expand_zero by exact Hs. cbn [perm_aux rpow]. ring.
Qed.

End Final.

(* ------------------------------------------------------------------ corollaries *)
(* the repaired source (64-bit weight): no Overflow and no division by zero for every matrix,
   every thread count and every multiplicity vector with total up to 56 *)
Theorem perm_no_overflow_64 A rO rI radd rmul rsub ropp
  (Rth : ring_theory rO rI radd rmul rsub ropp (@eq A)) threads M rows cols :
  length M = length rows -> 1 <= threads -> sum_nat rows <= 56 ->
  permanent_cpp A rO rI radd rmul ropp 64 64 threads M rows cols <> Overflow /\
  permanent_cpp A rO rI radd rmul ropp 64 64 threads M rows cols <> DivByZero.
Proof.
  intros Hlen Ht Hs.
  destruct (permanent_cpp_outcome A rO rI radd rmul rsub ropp Rth 64 64 threads M rows cols
              Hlen Ht (weight_n_64 _ Hs)) as [[_ ->]|[_ H]]; [split; discriminate|].
  destruct (split_row A M rows) as [[[? ?] ?]|]; rewrite H; split; discriminate.
Qed.

Theorem laplace_no_overflow_64 A rO rI radd rmul rsub ropp
  (Rth : ring_theory rO rI radd rmul rsub ropp (@eq A)) threads M rows cols :
  length M = length rows -> 1 <= threads -> sum_nat rows <= 56 ->
  permanent_laplace_cpp A rO rI radd rmul ropp 64 64 threads M rows cols <> Overflow /\
  permanent_laplace_cpp A rO rI radd rmul ropp 64 64 threads M rows cols <> DivByZero.
Proof.
  intros Hlen Ht Hs.
  pose proof (permanent_laplace_cpp_outcome A rO rI radd rmul rsub ropp Rth 64 64 threads M rows cols
                Hlen Ht (weight_n_64 _ Hs)) as H.
  destruct (split_row A M rows) as [[[row0 rest] r]|] eqn:E.
  - destruct H as [Hz|H]; [|rewrite H; split; discriminate].
    unfold permanent_laplace_cpp.
    replace ((length M =? 0) || (length cols =? 0) || (sum_nat rows =? 0) || (sum_nat cols =? 0))
      with true by lia.
    split; discriminate.
  - rewrite H. split; discriminate.
Qed.

(* the ring the model is run at *)
Lemma zi_ring : ring_theory zi0 zi1 ziadd zimul zisub ziopp (@eq Zi).
Proof.
  constructor; intros; repeat match goal with x : Zi |- _ => destruct x end;
    unfold zi0, zi1, ziadd, zimul, zisub, ziopp; cbn [fst snd]; f_equal; ring.
Qed.
