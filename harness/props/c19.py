"""C19 — Dual-rail translation preserves qubit-circuit statistics."""
import ast
import json
import math
import os
import re
from fractions import Fraction

from common import CASES_HEADER, COQ, REPO, Check, coq_eval_parallel, run_impl

GEN_PATH = os.path.join(COQ, "theories", "C19", "EncodeGen.v")


# =========================================================================== translator
class TranslateError(Exception):
    pass


def _src(path):
    with open(os.path.join(REPO, path)) as f:
        return f.read()


def _find_class_method(tree, cls, meth):
    for node in tree.body:
        if isinstance(node, ast.ClassDef) and node.name == cls:
            for b in node.body:
                if isinstance(b, ast.FunctionDef) and b.name == meth:
                    return b
    raise TranslateError("no %s.%s in gates.py" % (cls, meth))


def _is_np(call, name):
    f = call.func
    return (isinstance(call, ast.Call) and isinstance(f, ast.Attribute) and f.attr == name
            and isinstance(f.value, ast.Name) and f.value.id == "np" and len(call.args) == 1 and not call.keywords)


def translate_block(cls, params):
    """The array literal returned by <cls>._get_passive_block as Coq terms over cplx.
    Grammar: np.cos(p), np.sin(p), np.exp(1j * p), np.conj(e), e * e, -e, local names, 0, 1.
    Anything else: TranslateError (the check then reports the obligation as broken)."""
    tree = ast.parse(_src("piquasso/instructions/gates.py"))
    fn = _find_class_method(tree, cls, "_get_passive_block")
    local = {}
    bound = set()
    ret = None
    for st in fn.body:
        if isinstance(st, ast.Expr) and isinstance(st.value, ast.Constant):
            continue  # docstring
        if isinstance(st, ast.Assign) and len(st.targets) == 1 and isinstance(st.targets[0], ast.Name):
            tgt, v = st.targets[0].id, st.value
            if tgt == "np" and isinstance(v, ast.Attribute) and v.attr == "np":
                continue
            if (isinstance(v, ast.Subscript) and isinstance(v.value, ast.Attribute) and v.value.attr == "_params"
                    and isinstance(v.slice, ast.Constant) and v.slice.value == tgt and tgt in params):
                bound.add(tgt)
                continue
            local[tgt] = v
            continue
        if isinstance(st, ast.Return):
            ret = st.value
            continue
        raise TranslateError("%s._get_passive_block: unsupported statement %s" % (cls, ast.dump(st)[:80]))
    if ret is None or not (isinstance(ret, ast.Call) and isinstance(ret.func, ast.Attribute) and ret.func.attr == "array"):
        raise TranslateError("%s._get_passive_block: no np.array(...) return" % cls)
    for kw in ret.keywords:
        if kw.arg != "dtype":
            raise TranslateError("unexpected keyword " + str(kw.arg))
    lit = ret.args[0]
    if not isinstance(lit, ast.List) or not all(isinstance(r, ast.List) for r in lit.elts):
        raise TranslateError("array literal expected")

    def tr(e, conj):
        """-> (is_real, coq term); is_real terms have type A, others type cplx"""
        if isinstance(e, ast.Name):
            if e.id in local:
                return tr(local[e.id], conj)
            raise TranslateError("free name " + e.id)
        if isinstance(e, ast.Constant) and isinstance(e.value, (int, float)) and not isinstance(e.value, bool):
            if e.value == 0:
                return (True, "(o0 O)")
            if e.value == 1:
                return (True, "(o1 O)")
            raise TranslateError("constant %r" % (e.value,))
        if isinstance(e, ast.Call):
            for nm in ("cos", "sin"):
                if _is_np(e, nm) and isinstance(e.args[0], ast.Name) and e.args[0].id in bound:
                    return (True, "%s_%s" % (nm, e.args[0].id))
            if _is_np(e, "exp"):
                a = e.args[0]
                if (isinstance(a, ast.BinOp) and isinstance(a.op, ast.Mult) and isinstance(a.left, ast.Constant)
                        and a.left.value == 1j and isinstance(a.right, ast.Name) and a.right.id in bound):
                    return (False, ("expc_%s" if conj else "exp_%s") % a.right.id)
            if _is_np(e, "conj"):
                return tr(e.args[0], not conj)
            raise TranslateError("call " + ast.dump(e)[:80])
        if isinstance(e, ast.UnaryOp) and isinstance(e.op, ast.USub):
            r, t = tr(e.operand, conj)
            return (r, "(oopp O %s)" % t) if r else (False, "(copp O %s)" % t)
        if isinstance(e, ast.BinOp) and isinstance(e.op, ast.Mult):
            r1, t1 = tr(e.left, conj)
            r2, t2 = tr(e.right, conj)
            if r1 and r2:
                return (True, "(omul O %s %s)" % (t1, t2))
            return (False, "(cmul O %s %s)" % (promote(r1, t1), promote(r2, t2)))
        raise TranslateError("expression " + ast.dump(e)[:80])

    def promote(r, t):
        return "(cre O %s)" % t if r else t

    rows = []
    for row in lit.elts:
        rows.append([promote(*tr(x, False)) for x in row.elts])
    return rows


def klm_angles():
    """The two decimal literals of _cz_on_two_bosonic_qubits, as exact fractions of a turn/2 (x/180)."""
    tree = ast.parse(_src("piquasso/dual_rail_encoding.py"))
    fn = [n for n in tree.body if isinstance(n, ast.FunctionDef) and n.name == "_cz_on_two_bosonic_qubits"]
    if not fn:
        raise TranslateError("no _cz_on_two_bosonic_qubits")
    src = _src("piquasso/dual_rail_encoding.py")
    out = []
    for st in fn[0].body:
        if isinstance(st, ast.Assign) and isinstance(st.value, ast.BinOp):
            v = st.value  # (<num> / 180) * np.pi
            if (isinstance(v.op, ast.Mult) and isinstance(v.right, ast.Attribute) and v.right.attr == "pi"
                    and isinstance(v.left, ast.BinOp) and isinstance(v.left.op, ast.Div)
                    and isinstance(v.left.left, ast.Constant) and isinstance(v.left.right, ast.Constant)
                    and v.left.right.value == 180):
                lit = ast.get_source_segment(src, v.left.left) or repr(v.left.left.value)
                out.append((st.targets[0].id, Fraction(lit) / 180))
            else:
                raise TranslateError("angle assignment not of the form <literal> / 180 * np.pi")
    if len(out) != 2:
        raise TranslateError("expected two fixed angles in _cz_on_two_bosonic_qubits, found %d" % len(out))
    return out[0][1], out[1][1]


def qlit(fr):
    fr = Fraction(fr)
    return "((%d) # %d)%%Q" % (fr.numerator, fr.denominator)


def const_turns(x):
    """float -> exact multiple of pi (denominator 18000), or TranslateError"""
    p = x / math.pi * 18000
    if abs(p - round(p)) > 1e-7:
        raise TranslateError("parameter %r is not a multiple of pi/18000" % x)
    return Fraction(round(p), 18000)


def translate_angle(desc, k1, k2, allow_klm):
    if "sym" in desc:
        lin = desc["sym"]
        if len(lin) != 1 or abs(desc.get("const", 0.0)) > 0:
            raise TranslateError("angle is not a multiple of one parameter: %r" % desc)
        (k, (n, d)), = lin.items()
        return "(APar %d %s)" % (int(k), qlit(Fraction(n, d)))
    if set(desc) == {"const"}:
        t = const_turns(desc["const"])
        if allow_klm:
            for name, val in (("AK1", k1), ("AK2", k2)):
                if t == val:
                    return "(%s false)" % name
                if t == -val:
                    return "(%s true)" % name
        return "(ATurn %s)" % qlit(t)
    raise TranslateError("parameter %r" % desc)


def translate_emitted(name, lst, k1, k2):
    out = []
    for ins in lst:
        cls, modes, params = ins["cls"], ins["modes"], ins["params"]
        klm = name in ("cz", "cx")
        if cls == "Phaseshifter" and len(modes) == 1 and set(params) == {"phi"}:
            out.append("EPS %d %s" % (modes[0], translate_angle(params["phi"], k1, k2, klm)))
        elif cls == "Beamsplitter" and len(modes) == 2 and set(params) == {"theta", "phi"}:
            out.append("EBS %d %d %s %s" % (modes[0], modes[1], translate_angle(params["theta"], k1, k2, klm),
                                           translate_angle(params["phi"], k1, k2, klm)))
        elif cls == "PostSelectPhotons" and len(modes) == 2 and set(params) == {"photon_counts"} and "list" in params["photon_counts"]:
            n = params["photon_counts"]["list"]
            out.append("EPost %d %d %d %d" % (modes[0], modes[1], n[0], n[1]))
        elif cls == "ParticleNumberMeasurement" and len(modes) == 2 and not params:
            out.append("EMeas %d %d" % (modes[0], modes[1]))
        else:
            raise TranslateError("emitted instruction not understood: %r" % ins)
    return "[" + "; ".join(out) + "]"


GATE_NAMES = ["h", "x", "y", "z", "rx", "ry", "rz", "u", "u3", "p", "cz", "cx", "measure"]


def generate_encodegen(sent):
    bs = translate_block("Beamsplitter", ["theta", "phi"])
    ps = translate_block("Phaseshifter", ["phi"])
    if len(bs) != 2 or any(len(r) != 2 for r in bs) or len(ps) != 1 or len(ps[0]) != 1:
        raise TranslateError("unexpected block shape")
    k1, k2 = klm_angles()
    em = sent["emitted"]
    for nm in GATE_NAMES:
        if nm not in em:
            raise TranslateError("gate %s not emitted" % nm)
    for nm, ok in sent["refused"]:
        if ok is not True:
            raise TranslateError("unsupported gate name %r is not refused with ValueError" % nm)
    lines = [
        "(* GENERATED on every run by harness/props/c19.py from the working tree of the repository:",
        "   - bs_block / ps_block: the array literals of Beamsplitter/Phaseshifter._get_passive_block",
        "     (piquasso/instructions/gates.py), by a fail-closed ast translator;",
        "   - emitted: the instruction lists returned by dual_rail_encoding._map_qiskit_instr_to_pq for each",
        "     supported gate name, called with symbolic parameters and sentinel modes;",
        "   - klm_theta*_turns: the two decimal literals of _cz_on_two_bosonic_qubits, divided by 180.",
        "   Do not edit. *)",
        "From Coq Require Import ZArith QArith List Bool String.",
        "From PV Require Import C19.DRBase.",
        "Import ListNotations.",
        "Open Scope string_scope.",
        "",
        "Section Blocks.",
        "  Context {A : Type} (O : ops A).",
        "  Definition bs_block (cos_theta sin_theta : A) (exp_phi expc_phi : @cplx A) : @mat2 A :=",
        "    ((%s, %s), (%s, %s))." % (bs[0][0], bs[0][1], bs[1][0], bs[1][1]),
        "  Definition ps_block (exp_phi expc_phi : @cplx A) : @cplx A := %s." % ps[0][0],
        "End Blocks.",
        "",
        "Definition klm_theta1_turns : Q := %s." % qlit(k1),
        "Definition klm_theta2_turns : Q := %s." % qlit(k2),
        "",
    ]
    for nm in GATE_NAMES:
        lines.append("Definition emitted_%s : list einstr := %s." % (nm, translate_emitted(nm, em[nm], k1, k2)))
    lines.append("Definition emitted_p_zero : list einstr := %s." % translate_emitted("p", em["p_zero"], k1, k2))
    lines.append("")
    lines.append("Definition emitted (name : string) : option (list einstr) :=")
    for nm in GATE_NAMES:
        lines.append('  if String.eqb name "%s" then Some emitted_%s else' % (nm, nm))
    lines.append("  None.")
    return "\n".join(lines) + "\n"


def write_if_changed(path, text):
    try:
        if open(path).read() == text:
            return False
    except FileNotFoundError:
        pass
    with open(path, "w") as f:
        f.write(text)
    return True
