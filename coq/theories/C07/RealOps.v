(* C07 — the instance R of the base ring ("for all real parameters"). Definitions only. *)
From Coq Require Import Reals.
From PV Require Import C07.CxBase.
Open Scope R_scope.
Definition ROps : Ops R := mkOps R 0 1 Rplus Rmult Rminus Ropp.
Definition RC : COps (Cx R) := CxOps ROps.
