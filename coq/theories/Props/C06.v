(* C06 — Fock-basis enumeration and index functions are mutually inverse.
   Only statements closed by [exact]; proofs live in Comb/. *)
From Coq Require Import ZArith List Sorted.
From PV Require Import Comb.FockModel Comb.Binom Comb.FockProofs Comb.PartitionsProofs Comb.FermiModel Comb.FermiProofs.
Import ListNotations.
Open Scope Z_scope.

(* comb (multiplicative loop with floor division) is the binomial coefficient *)
Theorem C06_comb_is_binomial : forall n k, comb n k = binomZ n k.
Proof. exact comb_spec. Qed.
Print Assumptions C06_comb_is_binomial.

(* every division of the loop is exact *)
Theorem C06_comb_division_exact : forall n k,
  (comb_loop (Z.of_nat n) k * (Z.of_nat n - Z.of_nat k)) mod (Z.of_nat k + 1) = 0.
Proof. exact comb_loop_exact. Qed.
Print Assumptions C06_comb_division_exact.

(* the vectorised binomial: no int64 product that is used overflows, and the value is right *)
Theorem C06_arr_comb_is_binomial : forall n k,
  0 <= k -> binomZ n k * k < 2^63 -> arr_comb n k = Some (binomZ n k).
Proof. exact arr_comb_spec. Qed.
Print Assumptions C06_arr_comb_is_binomial.

(* dimension formulas agree with the enumeration *)
Theorem C06_cutoff_dim_is_basis_size : forall d c, (1 <= d)%nat ->
  cutoff_dim (Z.of_nat c) (Z.of_nat d) = Z.of_nat (length (basis d c)).
Proof. exact cutoff_dim_length. Qed.
Print Assumptions C06_cutoff_dim_is_basis_size.

Theorem C06_sector_size : forall d n,
  sym_card (Z.of_nat (S d)) (Z.of_nat n) = Z.of_nat (length (sector (S d) n)).
Proof. exact sym_card_length. Qed.
Print Assumptions C06_sector_size.

(* the basis lists exactly the occupation vectors with total below the cutoff ... *)
Theorem C06_basis_complete : forall d c v,
  In v (basis d c) <->
  (length v = d /\ Forall (fun x => 0 <= x) v /\ sumZ v < Z.of_nat c).
Proof. exact basis_complete. Qed.
Print Assumptions C06_basis_complete.

(* ... exactly once ... *)
Theorem C06_basis_nodup : forall d c, NoDup (basis d c).
Proof. exact basis_nodup. Qed.
Print Assumptions C06_basis_nodup.

(* ... ordered by particle number, anti-lexicographically within a sector *)
Theorem C06_basis_sorted : forall d c, StronglySorted before (basis d c).
Proof. exact basis_sorted. Qed.
Print Assumptions C06_basis_sorted.

(* index maps the i-th listed vector to i, for every d and cutoff *)
Theorem C06_index_of_nth : forall d c i, (i < length (basis d c))%nat ->
  fock_index (nth i (basis d c) []) = Z.of_nat i.
Proof. exact index_nth. Qed.
Print Assumptions C06_index_of_nth.

(* and the basis entry at the index of v is v *)
Theorem C06_nth_of_index : forall d c v,
  length v = d -> Forall (fun x => 0 <= x) v -> sumZ v < Z.of_nat c ->
  nth (Z.to_nat (fock_index v)) (basis d c) [] = v.
Proof. exact nth_index. Qed.
Print Assumptions C06_nth_of_index.

(* sub-space index: index = sector offset + sub-space index *)
Theorem C06_index_split : forall x t,
  fock_index (x :: t) =
  cutoff_dim (x + sumZ t) (Z.of_nat (S (length t))) + fock_subspace_index (x :: t).
Proof. exact fock_index_split. Qed.
Print Assumptions C06_index_split.

(* the vectorised index (int32 accumulators) agrees whenever the index fits 32 bits *)
Theorem C06_vectorised_index : forall v,
  Forall (fun x => 0 <= x) v -> sumZ v < 2^31 -> fock_index v < 2^31 ->
  Z.of_nat (length v) < 2^31 -> fock_index_arr v = Some (fock_index v).
Proof. exact fock_index_arr_spec. Qed.
Print Assumptions C06_vectorised_index.

(* the iterative separator walk of `partitions` (the code's loop, rows written from the last
   index downwards) produces exactly the recursive enumeration, for every number of boxes >= 1
   and every particle number; hence the iteratively built basis is the specified one *)
Theorem C06_partitions_refines : forall b n, partitions (S b) n = sector (S b) n.
Proof. exact partitions_refines. Qed.
Print Assumptions C06_partitions_refines.

Theorem C06_basis_iter_refines : forall d c, basis_iter (S d) c = basis (S d) c.
Proof. exact basis_iter_refines. Qed.
Print Assumptions C06_basis_iter_refines.

(* ---- fermionic: 0/1 occupations ---- *)
(* the fermionic basis (recursive order: n ones, 1 before 0) lists exactly the 0/1 vectors
   with fewer than c particles ... *)
Theorem C06_fermionic_basis_complete : forall d c v,
  In v (f_basis_spec d c) <->
  (length v = d /\ Forall (fun x => x = 0 \/ x = 1) v /\ (ones v < c)%nat).
Proof. exact f_basis_spec_complete. Qed.
Print Assumptions C06_fermionic_basis_complete.

(* ... exactly once ... *)
Theorem C06_fermionic_basis_nodup : forall d c, NoDup (f_basis_spec d c).
Proof. exact f_basis_spec_nodup. Qed.
Print Assumptions C06_fermionic_basis_nodup.

(* ... and the code's rank formula  C(d,n) - 1 - sum_i C(d - q_i - 1, n - i)  plus the sector
   offset maps the i-th listed vector to i *)
Theorem C06_fermionic_index_enum : forall d c,
  map f_index (f_basis_spec d c) = map Z.of_nat (seq 0 (length (f_basis_spec d c))).
Proof. exact f_index_enum. Qed.
Print Assumptions C06_fermionic_index_enum.

Theorem C06_fermionic_subspace_index_enum : forall d n,
  map f_subspace_index (f_sector d n) = map Z.of_nat (seq 0 (length (f_sector d n))).
Proof. exact f_sub_index_enum. Qed.
Print Assumptions C06_fermionic_subspace_index_enum.

Theorem C06_fermionic_dimension : forall d c,
  f_cutoff_dim (Z.of_nat d) (Z.of_nat c) = Z.of_nat (length (f_basis_spec d c)).
Proof. exact f_cutoff_dim_length. Qed.
Print Assumptions C06_fermionic_dimension.

(* non-vacuity *)
Example C06_example_basis : basis 2 3 = [[0;0];[1;0];[0;1];[2;0];[1;1];[0;2]].
Proof. exact basis_3_3. Qed.
Example C06_example_index : fock_index [0;3;1;2] = 190.
Proof. exact index_0312. Qed.
Example C06_example_fermionic :
  f_basis_spec 3 4 = [[0;0;0];[1;0;0];[0;1;0];[0;0;1];[1;1;0];[1;0;1];[0;1;1];[1;1;1]].
Proof. exact f_basis_3. Qed.
