(* C11 (b) — model of the mixed-radix reflected Gray-code counter and of the job loop of the
   native permanent.  Definitions only (no proofs): the model must still run when a proof
   breaks.  Digits are listed least significant first (index 0 = gray_code[0]).

   Transcribed from /repo/src/n_aryGrayCodeCounter.hpp, /repo/src/permanent.cpp and
   /repo/src/permanent_laplace.cpp; the function transcribed is named next to each
   definition. *)
From Coq Require Import ZArith List Bool.
Import ListNotations.
Open Scope Z_scope.

(* ---------------------------------------------------------------- helpers *)
Fixpoint prodZ (l : list Z) : Z :=
  match l with [] => 1 | x :: r => x * prodZ r end.

Fixpoint sumZl (l : list Z) : Z :=
  match l with [] => 0 | x :: r => x + sumZl r end.

Fixpoint upd (l : list Z) (i : nat) (v : Z) : list Z :=
  match l, i with
  | [], _ => []
  | _ :: r, O => v :: r
  | x :: r, S j => x :: upd r j v
  end.

(* [lo; lo+1; ...] of length n *)
Fixpoint zrange (lo : Z) (n : nat) : list Z :=
  match n with O => [] | S m => lo :: zrange (lo + 1) m end.

(* ---------------------------------------------------------------- the counter *)

(* n_aryGrayCodeCounter::initialize, first loop ("generate counter chain"):
   counter_chain[i] = temp_offset % n_ary_limits[i]; temp_offset /= n_ary_limits[i] *)
Fixpoint chain_of (lims : list Z) (o : Z) : list Z :=
  match lims with
  | [] => []
  | n :: ls => (o mod n) :: chain_of ls (o / n)
  end.

(* n_aryGrayCodeCounter::initialize, second loop, and the recomputation loop of ::next:
   from the most significant digit down, code = parity ? limit-1-chain : chain,
   parity ^= code & 1  (the running parity is that of the *Gray* digits already fixed).
   The recursion returns from the most significant digit, i.e. in the loop's order. *)
Fixpoint gray_from (lims chain : list Z) : list Z * bool :=
  match lims, chain with
  | n :: ls, c :: cs =>
      let '(g, p) := gray_from ls cs in
      let code := if p then n - 1 - c else c in
      (code :: g, xorb p (Z.odd code))
  | _, _ => ([], false)
  end.

(* the integer type the initial offset is narrowed to in ::initialize, by its width:
   32 = "int temp_offset = static_cast<int>(initial_offset)" (the code as it was),
   64 = "int64_t temp_offset = initial_offset" (fixes/C11-gray-offset-int-cast.diff).
   Outside the range of the type the model has no counter. *)
Definition int_max (bits : Z) : Z := 2 ^ (bits - 1) - 1.
Definition INT_MAX : Z := int_max 32.
Definition cast_int (bits : Z) (o : Z) : option Z :=
  if (0 <=? o) && (o <=? int_max bits) then Some o else None.

Record counter := mkCounter {
  c_lims : list Z;      (* n_ary_limits *)
  c_chain : list Z;     (* counter_chain *)
  c_gray : list Z;      (* gray_code *)
  c_offset : Z;         (* offset *)
  c_offset_max : Z      (* offset_max *)
}.

(* n_aryGrayCodeCounter::initialize(initial_offset); [None] stands for the cast overflow *)
Definition initialize (bits : Z) (lims : list Z) (o : Z) : option (list Z * list Z) :=
  match cast_int bits o with
  | Some t => let ch := chain_of lims t in Some (ch, fst (gray_from lims ch))
  | None => None
  end.

(* constructor n_aryGrayCodeCounter(limits, n, initial_offset): offset_max = prod - 1,
   offset = initial_offset, initialize(initial_offset) — which leaves the arrays
   untouched (here: None) when the offset is outside [0, offset_max] *)
Definition construct (bits : Z) (lims : list Z) (o : Z) : option counter :=
  if (o <? 0) || (prodZ lims - 1 <? o) then None
  else match initialize bits lims o with
       | Some (ch, g) => Some (mkCounter lims ch g o (prodZ lims - 1))
       | None => None
       end.

(* set_offset_max *)
Definition set_offset_max (c : counter) (m : Z) : counter :=
  mkCounter (c_lims c) (c_chain c) (c_gray c) (c_offset c) m.

(* ::next, the while loop: carry propagation on counter_chain.  When the chain is
   exhausted the C++ loop would read past the array; the model stops. *)
Fixpoint incr (lims chain : list Z) : list Z :=
  match lims, chain with
  | n :: ls, c :: cs =>
      if c <? n - 1 then (c + 1) :: cs
      else if c =? n - 1 then 0 :: incr ls cs
      else c :: incr ls cs
  | _, _ => chain
  end.

(* ::next, the for loop with [break]: scan from the most significant digit, recompute the
   code from the chain, stop at the first digit that differs from the stored gray_code and
   overwrite only that one.  Returns the new gray_code, the running parity (meaningful only
   when nothing changed yet) and (changed_index, value_prev, value). *)
Fixpoint scan (lims chain gray : list Z) (i : nat)
  : list Z * bool * option (nat * Z * Z) :=
  match lims, chain, gray with
  | n :: ls, c :: cs, g :: gs =>
      match scan ls cs gs (S i) with
      | (gs', p, Some ch) => (g :: gs', p, Some ch)          (* break happened above *)
      | (gs', p, None) =>
          let nv := if p then n - 1 - c else c in
          let p' := xorb p (Z.odd nv) in
          if nv =? g then (g :: gs', p', None)
          else (nv :: gs', p', Some (i, g, nv))
      end
  | _, _, _ => (gray, false, None)
  end.

(* ::next.  None = "return 1" (offset >= offset_max).  changed_index = 0 and
   value_prev = value = 0 (the caller's initial values) when no digit changed. *)
Definition next (c : counter) : option (counter * nat * Z * Z) :=
  if c_offset_max c <=? c_offset c then None
  else
    let ch := incr (c_lims c) (c_chain c) in
    let '(g, _, chg) := scan (c_lims c) ch (c_gray c) 0 in
    let '(i, pv, v) := match chg with Some t => t | None => (O, 0, 0) end in
    Some (mkCounter (c_lims c) ch g (c_offset c + 1) (c_offset_max c), i, pv, v).

(* ---------------------------------------------------------------- specification *)

(* the reflected mixed-radix Gray code of offset o: digit i is reflected iff the index of
   the enclosing block, o / (n_0 ... n_i), is odd *)
Fixpoint gcode (lims : list Z) (o : Z) : list Z :=
  match lims with
  | [] => []
  | n :: ls =>
      let h := o / n in
      let c := o mod n in
      (if Z.odd h then n - 1 - c else c) :: gcode ls h
  end.

(* inverse *)
Fixpoint ungray (lims g : list Z) : Z :=
  match lims, g with
  | n :: ls, x :: gs =>
      let h := ungray ls gs in
      (if Z.odd h then n - 1 - x else x) + n * h
  | _, _ => 0
  end.

(* a vector of digits within the limits *)
Fixpoint in_box (lims g : list Z) : Prop :=
  match lims, g with
  | [], [] => True
  | n :: ls, x :: gs => 0 <= x < n /\ in_box ls gs
  | _, _ => False
  end.

(* ---------------------------------------------------------------- the job loop *)

(* permanent_cpp / permanent_laplace_cpp:
     concurrency = min(4 * hardware_concurrency(), idx_max)
   [guard] = true models the repaired code (fixes/C11-hardware-concurrency-zero.diff:
   a query result of 0, which the C++ standard allows, is taken as 1);
   [guard] = false the code as it was. *)
Definition concurrency (guard : bool) (hc idx_max : Z) : Z :=
  let hc' := if guard && (hc =? 0) then 1 else hc in
  Z.min (4 * hc') idx_max.

(* work_batch = idx_max / concurrency; initial_offset = job*wb;
   offset_max = (job+1)*wb - 1, for the last job idx_max - 1 *)
Definition job_lo (idx_max K j : Z) : Z := j * (idx_max / K).
Definition job_hi (idx_max K j : Z) : Z :=
  if j =? K - 1 then idx_max - 1 else (j + 1) * (idx_max / K) - 1.

Section JobLoop.
  Variable bits : Z.            (* width of the offset type in ::initialize, see cast_int *)
  (* the accumulated quantity lives in any monoid; S is the per-job running state
     (column sums, binomial weight, sign) *)
  Variable A : Type.
  Variable zero : A.
  Variable add : A -> A -> A.
  Variable St : Type.
  Variable s_init : list Z -> St.                (* from the initial gray code *)
  Variable s_step : St -> nat -> Z -> Z -> St.    (* changed_index, value_prev, value *)
  Variable s_addend : St -> A.

  (* the inner loop "for (i = initial_offset+1; i < offset_max+1; i++)": fuel = hi - lo *)
  Fixpoint job_steps (fuel : nat) (c : counter) (s : St) (acc : A) : A :=
    match fuel with
    | O => acc
    | S f =>
        match next c with
        | None => acc                                  (* break *)
        | Some (c', i, pv, v) =>
            let s' := s_step s i pv v in
            job_steps f c' s' (add acc (s_addend s'))
        end
    end.

  (* one job: thread_results[job] (starts from zero).  A failed construction (offset out of
     range / cast overflow) leaves the arrays uninitialised in C++: modelled as None *)
  Definition job (lims : list Z) (lo hi : Z) : option A :=
    match construct bits lims lo with
    | None => None
    | Some c0 =>
        let c := set_offset_max c0 hi in
        let s := s_init (c_gray c) in
        Some (job_steps (Z.to_nat (hi - lo)) c s (add zero (s_addend s)))
    end.

  (* left-to-right accumulation "for (result : thread_results) permanent += result" *)
  Fixpoint sum_left (acc : A) (l : list A) : A :=
    match l with [] => acc | a :: r => sum_left (add acc a) r end.

  Fixpoint all_some (l : list (option A)) : option (list A) :=
    match l with
    | [] => Some []
    | None :: _ => None
    | Some a :: r => match all_some r with Some t => Some (a :: t) | None => None end
    end.

  (* the whole parallel section with K jobs followed by the final summation *)
  Definition jobs_total (lims : list Z) (K : Z) : option A :=
    let idx_max := prodZ lims in
    match all_some (map (fun j => job lims (job_lo idx_max K j) (job_hi idx_max K j))
                        (zrange 0 (Z.to_nat K))) with
    | Some rs => Some (sum_left zero rs)
    | None => None
    end.

  (* the reference: one addend per offset, computed directly from the Gray code *)
  Variable direct : list Z -> St.
  Definition ref_total (lims : list Z) : A :=
    sum_left zero (map (fun o => s_addend (direct (gcode lims o)))
                       (zrange 0 (Z.to_nat (prodZ lims)))).
End JobLoop.
