(* C09 -- relational specifications of the library operations whose result is NOT unique (polar,
   svd, Takagi, sqrtm, logm, Euler/Bloch-Messiah), over an abstract matrix algebra, and the part of
   piquasso/_simulators/fock/pure/simulation_steps/__init__.py:linear that is a function of these
   relations only: the Bogoliubov (Heisenberg-picture) action of
       passive(U_first) ; squeezing(D) ; passive(U_last).
   Everything external is a Section variable / hypothesis. *)
From Coq Require Import List.
Import ListNotations.

Section Rel.
Variable Mx : Type.
Variables (mmul madd : Mx -> Mx -> Mx) (adj conj tr : Mx -> Mx) (I O : Mx).
Variable mexp : Mx -> Mx.                     (* matrix exponential *)
Variable is_psd is_diag_nonneg : Mx -> Prop.   (* Hermitian positive semidefinite; diagonal >= 0 *)
Variables ch sh : Mx -> Mx.                    (* diag(cosh r_i), diag(-sinh r_i): blocks of Squeezing(r_i, 0) *)

Infix "*m" := mmul (at level 40, left associativity).
Infix "+m" := madd (at level 50, left associativity).

Definition is_unitary (U : Mx) : Prop := U *m adj U = I /\ adj U *m U = I.

(* connector.polar(M, side): scipy.linalg.polar *)
Definition is_polar_left (M : Mx) (UP : Mx * Mx) : Prop :=
  let (U, P) := UP in M = P *m U /\ is_unitary U /\ is_psd P.
Definition is_polar_right (M : Mx) (UP : Mx * Mx) : Prop :=
  let (U, P) := UP in M = U *m P /\ is_unitary U /\ is_psd P.
(* connector.svd(M) = (V, G, W^dagger) *)
Definition is_svd (M : Mx) (VSW : Mx * Mx * Mx) : Prop :=
  let '(V, Sg, Wadj) := VSW in
  M = V *m Sg *m Wadj /\ is_unitary V /\ is_unitary Wadj /\ is_diag_nonneg Sg.
(* piquasso/_math/decompositions.py:takagi(Z) = (D, U) with Z = U D U^T *)
Definition is_takagi (Z : Mx) (DU : Mx * Mx) : Prop :=
  let (D, U) := DU in Z = U *m D *m tr U /\ is_unitary U /\ is_diag_nonneg D.
(* connector.sqrtm, connector.logm *)
Definition is_sqrtm (M X : Mx) : Prop := X *m X = M.
Definition is_logm (M X : Mx) : Prop := mexp X = M.

(* a Bogoliubov transformation a -> P a + A a^dagger as the pair (P, A); composition *)
Definition bogo := (Mx * Mx)%type.
Definition comp (g2 g1 : bogo) : bogo :=
  (fst g2 *m fst g1 +m snd g2 *m conj (snd g1), fst g2 *m snd g1 +m snd g2 *m conj (fst g1)).
Definition passive (U : Mx) : bogo := (U, O).
Definition squeeze (D : Mx) : bogo := (ch D, sh D).

(* piquasso/_math/decompositions.py:euler(symplectic) = (U_last, D, U_first) *)
Definition euler_reconstructs (G : bogo) (UDV : Mx * Mx * Mx) : Prop :=
  let '(U, D, V) := UDV in
  fst G = U *m ch D *m V /\ snd G = U *m sh D *m conj V.
Definition is_euler (G : bogo) (UDV : Mx * Mx * Mx) : Prop :=
  let '(U, D, V) := UDV in euler_reconstructs G UDV /\ is_unitary U /\ is_unitary V.

(* fock/pure/simulation_steps:linear, seen in the Heisenberg picture (no truncation):
   _apply_passive_linear(U_first); _apply_squeezing(r_i) on every mode; _apply_passive_linear(U_last) *)
Definition linear_action (euler_fn : bogo -> Mx * Mx * Mx) (G : bogo) : bogo :=
  let '(U, D, V) := euler_fn G in comp (passive U) (comp (squeeze D) (passive V)).

Hypothesis mmul_assoc : forall a b c, a *m (b *m c) = a *m b *m c.
Hypothesis mmul_O_r : forall a, a *m O = O.
Hypothesis mmul_O_l : forall a, O *m a = O.
(* only sums whose summands are products occur *)
Hypothesis madd_O_r : forall a b, a *m b +m O = a *m b.
Hypothesis madd_O_l : forall a b, O +m a *m b = a *m b.
Hypothesis conj_O : conj O = O.

Lemma linear_action_of_factors : forall U D V,
  comp (passive U) (comp (squeeze D) (passive V)) = (U *m ch D *m V, U *m sh D *m conj V).
Proof.
  intros. unfold comp, passive, squeeze. simpl.
  rewrite conj_O, !mmul_O_r, !mmul_O_l, !madd_O_r, !madd_O_l, !mmul_assoc. reflexivity.
Qed.

(* whatever factors a connector's euler returns, if they satisfy the relation then the
   untruncated gate acts as the instruction's own blocks (P, A) *)
Theorem linear_action_is_blocks : forall euler_fn G,
  euler_reconstructs G (euler_fn G) -> linear_action euler_fn G = G.
Proof.
  intros f G H. unfold linear_action. destruct (f G) as [[U D] V].
  rewrite linear_action_of_factors. destruct H as [H1 H2]. destruct G. simpl in *. congruence.
Qed.

(* hence connector-independent: two connectors with different (valid) factors agree *)
Theorem linear_action_connector_independent : forall euler1 euler2 G,
  is_euler G (euler1 G) -> is_euler G (euler2 G) ->
  linear_action euler1 G = linear_action euler2 G.
Proof.
  intros f1 f2 G H1 H2.
  rewrite (linear_action_is_blocks f1 G), (linear_action_is_blocks f2 G); auto.
  - unfold is_euler in H2. destruct (f2 G) as [[U D] V]. tauto.
  - unfold is_euler in H1. destruct (f1 G) as [[U D] V]. tauto.
Qed.

(* the relation does not determine the factors: any real Q with Q Q^dagger = I commuting with the
   squeezing blocks (every real orthogonal Q when the squeezings are degenerate) gives other
   factors that reconstruct the same blocks *)
Hypothesis conj_mmul : forall a b, conj (a *m b) = conj a *m conj b.
Hypothesis mmul_I_r : forall a, a *m I = a.

Theorem euler_factors_not_unique : forall G U D V Q,
  euler_reconstructs G (U, D, V) ->
  Q *m adj Q = I -> conj (adj Q) = adj Q ->
  Q *m ch D = ch D *m Q -> Q *m sh D = sh D *m Q ->
  euler_reconstructs G (U *m Q, D, adj Q *m V).
Proof.
  intros G U D V Q [H1 H2] HQ1 HcQa Hc Hs.
  unfold euler_reconstructs. split.
  - rewrite H1. rewrite !mmul_assoc.
    replace (U *m Q *m ch D) with (U *m ch D *m Q) by (rewrite <- !mmul_assoc, Hc; reflexivity).
    replace (U *m ch D *m Q *m adj Q) with (U *m ch D)
      by (rewrite <- (mmul_assoc _ Q), HQ1, mmul_I_r; reflexivity).
    reflexivity.
  - rewrite H2. rewrite conj_mmul, HcQa, !mmul_assoc.
    replace (U *m Q *m sh D) with (U *m sh D *m Q) by (rewrite <- !mmul_assoc, Hs; reflexivity).
    replace (U *m sh D *m Q *m adj Q) with (U *m sh D)
      by (rewrite <- (mmul_assoc _ Q), HQ1, mmul_I_r; reflexivity).
    reflexivity.
Qed.
End Rel.
