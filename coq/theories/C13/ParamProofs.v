(* C13 — what the boolean parameter predicates of ParamModel.v mean. *)
From Coq Require Import ZArith QArith List Bool Lia ZifyBool.
From PV Require Import C13.ParamModel.
Import ListNotations.
Open Scope Z_scope.

Lemma param_square_spec : forall r c, documented_param_ok (PSquare r c) = true <-> r = c.
Proof. intros. simpl. lia. Qed.

Lemma param_snap_spec : forall l c, documented_param_ok (PSnap l c) = true <-> l = c.
Proof. intros. simpl. lia. Qed.

Lemma param_occupation_spec : forall occ c,
  documented_param_ok (POccupation occ c) = true <-> zsum occ < c.
Proof. intros. simpl. lia. Qed.

Lemma param_thermal_spec : forall ns,
  documented_param_ok (PThermal ns) = true <-> Forall (fun x => (0 <= x)%Q) ns.
Proof.
  intros. simpl. rewrite forallb_forall, Forall_forall.
  split; intros H x Hx; specialize (H x Hx); unfold qle in *; apply Qle_bool_iff; assumption.
Qed.

Lemma param_interval_spec : forall x,
  documented_param_ok (PInterval01 x) = true <-> ((0 <= x)%Q /\ (x <= 1)%Q).
Proof.
  intros. simpl. unfold qle. rewrite andb_true_iff, !Qle_bool_iff. tauto.
Qed.

(* non-vacuity of the two matrix predicates *)
Example symplectic_squeezing :
  symplectic_real [[5#4; 0#1]; [0#1; 5#4]] [[3#4; 0#1]; [0#1; 3#4]] = true /\
  symplectic_real [[2#1; 0#1]; [0#1; 2#1]] [[0#1; 0#1]; [0#1; 0#1]] = false.
Proof. split; vm_compute; reflexivity. Qed.

Example detector_columns :
  documented_param_ok (PDetector [[1#1; 1#10; 1#5]; [0#1; 7#10; 1#5]; [0#1; 1#5; 3#5]]) = true /\
  documented_param_ok (PDetector [[1#1; 1#10; 1#5]; [0#1; 4#5; 1#5]; [0#1; 0#1; 1#2]]) = false.
Proof. split; vm_compute; reflexivity. Qed.
