(* C07 — the built-in linear gates as instructions of the Gaussian simulator.  Definitions only.
   The blocks come from the generated file GatesGen.v; this file dispatches on the gate name as
   GaussianSimulator._instruction_map does (passive gates -> passive_linear, active gates ->
   linear, displacements -> displacement) and reads the state in the xxpp quadrature basis as
   piquasso/_simulators/gaussian/state.py does. *)
From Coq Require Import List Arith Bool QArith.
From PV Require Import C07.CxBase C07.GatesGen C07.MomentsModel.
Import ListNotations.

Inductive gname :=
| Beamsplitter | Beamsplitter5050 | Phaseshifter | MachZehnder | Fourier
| Squeezing | QuadraticPhase | Squeezing2 | ControlledX | ControlledZ.

Section Gates.
  Context {B : Type} (o : Ops B).

  (* Gate._get_passive_block *)
  Definition passive_block (g : gname) (e : Env B) : list (list (Cx B)) :=
    match g with
    | Beamsplitter => Beamsplitter_passive o e
    | Beamsplitter5050 => Beamsplitter5050_passive o e
    | Phaseshifter => Phaseshifter_passive o e
    | MachZehnder => MachZehnder_passive o e
    | Fourier => Fourier_passive o e
    | Squeezing => Squeezing_passive o e
    | QuadraticPhase => QuadraticPhase_passive o e
    | Squeezing2 => Squeezing2_passive o e
    | ControlledX => ControlledX_passive o e
    | ControlledZ => ControlledZ_passive o e
    end.

  (* Gate._get_active_block (None: the class is a _PassiveLinearGate) *)
  Definition active_block (g : gname) (e : Env B) : option (list (list (Cx B))) :=
    match g with
    | Squeezing => Some (Squeezing_active o e)
    | QuadraticPhase => Some (QuadraticPhase_active o e)
    | Squeezing2 => Some (Squeezing2_active o e)
    | ControlledX => Some (ControlledX_active o e)
    | ControlledZ => Some (ControlledZ_active o e)
    | _ => None
    end.

  Inductive op :=
  | OGate (g : gname) (e : Env B) (modes : list nat)
  | OInterferometer (T : list (list (Cx B))) (modes : list nat)        (* gates.Interferometer *)
  | OTransform (P Am : list (list (Cx B))) (modes : list nat)          (* gates.GaussianTransform / _apply_linear *)
  | ODisplacement (r c s : B) (modes : list nat)                       (* gates.Displacement(r, phi), c = cos phi, s = sin phi *)
  | OPositionDisplacement (x : B) (modes : list nat)
  | OMomentumDisplacement (p : B) (modes : list nat).

  Definition cops := CxOps o.

  (* simulation_steps.py: passive_linear / linear / displacement, selected by _instruction_map *)
  Definition step (d : nat) (i : op) (s : gstate (A := Cx B)) : gstate (A := Cx B) :=
    match i with
    | OGate g e modes =>
        match active_block g e with
        | None => apply_passive cops d (passive_block g e) modes s
        | Some Am => apply_linear cops d (passive_block g e) Am modes s
        end
    | OInterferometer T modes => apply_passive cops d T modes s
    | OTransform P Am modes => apply_linear cops d P Am modes s
    | ODisplacement r c sn modes =>
        (* r * np.exp(1j * phi) *)
        apply_displacement cops d (cmul o (creal o r) (cexpi c sn)) modes s
    | OPositionDisplacement x modes =>
        (* _get_computed_params: r = x, phi = 0.0 *)
        apply_displacement cops d (cmul o (creal o x) (cexpi (o1 o) (o0 o))) modes s
    | OMomentumDisplacement p modes =>
        (* _get_computed_params: r = p, phi = pi/2 *)
        apply_displacement cops d (cmul o (creal o p) (cexpi (o0 o) (o1 o))) modes s
    end.

  (* the same dispatch, as data: which simulation step with which blocks *)
  Definition lop_of (i : op) : lop (A := Cx B) :=
    match i with
    | OGate g e modes =>
        match active_block g e with
        | None => LPassive (passive_block g e) modes
        | Some Am => LLinear (passive_block g e) Am modes
        end
    | OInterferometer T modes => LPassive T modes
    | OTransform P Am modes => LLinear P Am modes
    | ODisplacement r c sn modes => LDisp (cmul o (creal o r) (cexpi c sn)) modes
    | OPositionDisplacement x modes => LDisp (cmul o (creal o x) (cexpi (o1 o) (o0 o))) modes
    | OMomentumDisplacement p modes => LDisp (cmul o (creal o p) (cexpi (o0 o) (o1 o))) modes
    end.

  Definition run (d : nat) (prog : list op) (s : gstate (A := Cx B)) : gstate (A := Cx B) :=
    fold_left (fun s i => step d i s) prog s.

  (* ---- state.py: xxpp_mean_vector = concatenate([m.real, m.imag]) * sqrt(2) * sqrt(hbar);
     s2h stands for sqrt(2)*sqrt(hbar) *)
  Definition xxpp_mean (s2h : B) (m : list (Cx B)) : list B :=
    map (fun z => omul o (fst z) s2h) m ++ map (fun z => omul o (snd z) s2h) m.

  (* ---- state.py: xxpp_covariance_matrix =
       (2 * block([[Re(G+C), Im(G+C)], [Im(G-C), Re(-G+C)]]) + identity(2d)) * hbar *)
  Definition xxpp_cov (d : nat) (hbar : B) (C G : list (list (Cx B))) : list (list B) :=
    let g := get cops in
    let two := oadd o (o1 o) (o1 o) in
    let blk (i j : nat) : B :=
      match Nat.ltb i d, Nat.ltb j d with
      | true, true => fst (cadd o (g G i j) (g C i j))
      | true, false => snd (cadd o (g G i (Nat.sub j d)) (g C i (Nat.sub j d)))
      | false, true => snd (csub o (g G (Nat.sub i d) j) (g C (Nat.sub i d) j))
      | false, false => fst (cadd o (copp o (g G (Nat.sub i d) (Nat.sub j d))) (g C (Nat.sub i d) (Nat.sub j d)))
      end in
    map (fun i => map (fun j =>
        omul o (oadd o (omul o two (blk i j)) (if Nat.eqb i j then o1 o else o0 o)) hbar)
      (seq O (Nat.mul 2 d))) (seq O (Nat.mul 2 d)).
End Gates.

(* ---- environments *)
(* rational parametrisation used to run: angle x = 2 atan t, r = ln u *)
Definition q_cos (t : Q) : Q := Qred ((1 - t * t) / (1 + t * t)).
Definition q_sin (t : Q) : Q := Qred ((2 * t) / (1 + t * t)).
Definition q_cosh (u : Q) : Q := Qred ((u + / u) / 2).
Definition q_sinh (u : Q) : Q := Qred ((u - / u) / 2).
(* the same over plain Q; rt2i has no rational value, so programs mentioning Beamsplitter5050
   are run with env_Q over Q(sqrt 2) instead *)
Definition env_Qplain (t_theta t_phi t_int t_ext u s : Q) : Env Q :=
  mkEnv Q (q_cos t_theta) (q_sin t_theta) (q_cos t_phi) (q_sin t_phi)
        (q_cos t_int) (q_sin t_int) (q_cos t_ext) (q_sin t_ext)
        (q_cosh u) (q_sinh u) (Qred s) (1 # 2) 0.
Definition env_Q (t_theta t_phi t_int t_ext u s : Q) : Env QS :=
  mkEnv QS (qs_of_Q (q_cos t_theta)) (qs_of_Q (q_sin t_theta))
        (qs_of_Q (q_cos t_phi)) (qs_of_Q (q_sin t_phi))
        (qs_of_Q (q_cos t_int)) (qs_of_Q (q_sin t_int))
        (qs_of_Q (q_cos t_ext)) (qs_of_Q (q_sin t_ext))
        (qs_of_Q (q_cosh u)) (qs_of_Q (q_sinh u)) (qs_of_Q s) qs_half qs_rt2i.
