(* C04 -- matrix-function kernels equal their combinatorial definitions.
   Only statements closed by [exact]; the proofs live in C04/.  The model (C04/PermModel.v)
   transcribes src/permanent.cpp, src/permanent_laplace.cpp, src/n_aryGrayCodeCounter.hpp and
   src/utils.hpp:binomialCoeff over an arbitrary commutative ring; [wb]/[w] are the bit widths
   of the integer types of binomialCoeff<T> and of binomial_coeff (read from the source by the
   check: 64/64 after the repair, 32/32 before). *)
From Coq Require Import ZArith List Bool Ring Permutation.
From PV Require Import Comb.Binom C04.PermModel C04.PermProofs C04.LoopProofs C04.GrayProofs
  C04.JobProofs C04.SumProofs C04.FinalProofs C04.LaplaceProofs C04.ExpansionProofs
  C04.GlynnPlain C04.GlynnMult C04.GlynnFinal C04.HafModel C04.HafProofs.
Import ListNotations.
Local Close Scope Z_scope.
Local Open Scope nat_scope.

(* ---- the integer weight *)
(* utils.hpp:binomialCoeff (split recurrence with / and %) is the binomial coefficient and no
   intermediate leaves the integer type, whenever 2^n and n^2 fit *)
Theorem C04_binomialCoeff_is_binomial : forall w n k,
  (Z.of_nat n < w - 1)%Z -> (Z.of_nat n * Z.of_nat n < 2 ^ (w - 1))%Z ->
  binomialCoeff w (Z.of_nat n) (Z.of_nat k) = Ok (binom n k).
Proof. exact binomialCoeff_spec. Qed.
Print Assumptions C04_binomialCoeff_is_binomial.

(* the incremental update b*prev/(r-value) resp. b*(r-prev)/value: the division is exact, the
   result is prod_i C(r_i, g'_i) for the new Gray code, the product before the division fits *)
Theorem C04_weight_update_exact : forall w r g idx pv nv,
  idx < length r -> idx < length g -> nth idx g 0 = pv ->
  ((nv = S pv /\ nv <= nth idx r 0) \/ (pv = S nv /\ pv <= nth idx r 0)) ->
  (2 ^ Z.of_nat (sum_nat r) * Z.of_nat (sum_nat r) < 2 ^ (w - 1))%Z ->
  binom_step w (binom_prod r g) (nth idx r 0) pv nv = Ok (binom_prod r (set_nth idx nv g)).
Proof. exact binom_step_spec. Qed.
Print Assumptions C04_weight_update_exact.

(* ---- the Gray counter *)
(* next(): from the state of offset k to the state of offset k+1; exactly one digit changes, by
   exactly one, inside its limit, and it is the digit that is reported *)
Theorem C04_gray_next_one_digit : forall limits k omax,
  wf_limits limits -> k < omax -> omax < idx_max limits ->
  exists i pv nv,
    gray_next limits {| g_chain := chain_of limits k; g_code := gray_of limits k;
                        g_offset := k; g_offset_max := omax |}
    = Some ({| g_chain := chain_of limits (S k); g_code := gray_of limits (S k);
               g_offset := S k; g_offset_max := omax |}, (i, pv, nv))
    /\ i < length limits /\ nth i (gray_of limits k) 0 = pv /\ (nv = S pv \/ pv = S nv)
    /\ nv < nth i limits 0 /\ gray_of limits (S k) = set_nth i nv (gray_of limits k).
Proof. exact gray_next_spec. Qed.
Print Assumptions C04_gray_next_one_digit.

(* the Gray codes of the offsets 0 .. prod(r_i+1)-1 are the box prod_i [0..r_i], each once *)
Theorem C04_gray_bijection : forall r,
  Permutation (map (gray_of (map S r)) (seq 0 (idx_max (map S r)))) (box r).
Proof. exact gray_bijection. Qed.
Print Assumptions C04_gray_bijection.

(* the job ranges [j*wb, (j+1)*wb-1], last one up to idx_max-1, cover every offset once *)
Theorem C04_jobs_partition : forall im conc, 1 <= conc -> conc <= im ->
  flat_map (job_range im conc) (seq 0 conc) = seq 0 im.
Proof. exact jobs_partition. Qed.
Print Assumptions C04_jobs_partition.

(* ---- the loop, over every commutative ring *)
Section Generic.
Variable A : Type.
Variables (rO rI : A) (radd rmul rsub : A -> A -> A) (ropp : A -> A).
Hypothesis Rth : ring_theory rO rI radd rmul rsub ropp (@eq A).
Variable wb : Z.

(* one iteration of the Gray loop preserves  colsum = a_0 + sum_i (r_i - 2 g_i) a_i,
   binomial_coeff = prod_i C(r_i, g_i), parity = (-1)^(sum g), without overflow, and adds the
   Glynn addend of the new code -- for every matrix, multiplicity vector and step *)
Theorem C04_gray_step_invariant : forall w F row0 rest r g st idx pv nv,
  idx < length rest -> length r = length rest -> length g = length rest ->
  nth idx g 0 = pv ->
  ((nv = S pv /\ nv <= nth idx r 0) \/ (pv = S nv /\ pv <= nth idx r 0)) ->
  (2 ^ Z.of_nat (sum_nat r) * Z.of_nat (sum_nat r) < 2 ^ (w - 1))%Z ->
  Inv A rO rI radd rmul ropp row0 rest r g st ->
  exists st',
    job_step A rO rI radd rmul ropp w F rest r st (idx, pv, nv) = Ok st' /\
    Inv A rO rI radd rmul ropp row0 rest r (set_nth idx nv g) st' /\
    p_acc A st' = vadd A radd (p_acc A st)
                    (glynn_term A rO rI radd rmul ropp F row0 rest r (set_nth idx nv g)).
Proof. exact (gray_step_invariant A rO rI radd rmul rsub ropp Rth). Qed.

(* the state built before the loop satisfies the invariant *)
Theorem C04_job_init_invariant : forall w F row0 rest r g, weight_ok wb w r ->
  exists st,
    job_init A rO rI radd rmul ropp wb w F row0 rest r g = Ok st /\
    Inv A rO rI radd rmul ropp row0 rest r g st /\
    p_acc A st = glynn_term A rO rI radd rmul ropp F row0 rest r g.
Proof. exact (job_init_invariant A rO rI radd rmul ropp wb). Qed.

(* all jobs together, any thread count: the loop returns the Glynn sum over the box *)
Theorem C04_kernel_loop_is_glynn_sum : forall w threads F nout row0 rest r,
  (forall cs, length (F cs) = nout) ->
  length r = length rest -> weight_ok wb w r -> 1 <= threads ->
  run_all A rO rI radd rmul ropp wb w threads F nout row0 rest r
  = Ok (glynn_sum A rO rI radd rmul ropp F nout row0 rest r).
Proof. exact (run_all_is_glynn_sum A rO rI radd rmul rsub ropp Rth wb). Qed.

(* permanent_cpp as a whole: refusal iff the totals differ; otherwise 1 for the empty case and
   the Glynn sum with exponent n-1 -- never Overflow, never a division by zero *)
Theorem C04_permanent_cpp_outcome : forall w threads M rows cols,
  length M = length rows -> 1 <= threads -> weight_n wb w (sum_nat rows) ->
  (sum_nat rows <> sum_nat cols /\
   permanent_cpp A rO rI radd rmul ropp wb w threads M rows cols = BadInput) \/
  (sum_nat rows = sum_nat cols /\
   match split_row A M rows with
   | None => permanent_cpp A rO rI radd rmul ropp wb w threads M rows cols = Ok (rI, 0)
   | Some (row0, rest, r) =>
       permanent_cpp A rO rI radd rmul ropp wb w threads M rows cols
       = Ok (nth 0 (glynn_sum A rO rI radd rmul ropp (prods_perm A rI rmul cols) 1 row0 rest r) rO,
             sum_nat rows - 1)
   end).
Proof. exact (permanent_cpp_outcome A rO rI radd rmul rsub ropp Rth wb). Qed.

Theorem C04_permanent_laplace_cpp_outcome : forall w threads M rows cols,
  length M = length rows -> 1 <= threads -> weight_n wb w (sum_nat rows) ->
  match split_row A M rows with
  | None => permanent_laplace_cpp A rO rI radd rmul ropp wb w threads M rows cols = Ok ([rI], 0)
  | Some (row0, rest, r) =>
      (length cols = 0 \/ sum_nat cols = 0) \/
      permanent_laplace_cpp A rO rI radd rmul ropp wb w threads M rows cols
      = Ok (glynn_sum A rO rI radd rmul ropp (prods_laplace A rI rmul cols) (length cols) row0 rest r,
            sum_nat rows - 1)
  end.
Proof. exact (permanent_laplace_cpp_outcome A rO rI radd rmul rsub ropp Rth wb). Qed.

(* the Laplace expansion of the defining sum along a row that occurs once -- what the samplers
   use to recombine the entries of permanent_laplace:
   perm(row :: M; 1 :: r; c) = sum_j c_j row_j perm(M; r; c - e_j) *)
Theorem C04_laplace_expansion : forall row M r c,
  perm_def A rO rI radd rmul (row :: M) (1 :: r) c
  = sumA A rO radd
      (map (fun j => rmul (ofZ A rO rI radd rmul ropp (Z.of_nat (nth j c 0)))
                          (rmul (nth j row rO) (perm_def A rO rI radd rmul M r (dec_nth j c))))
           (seq 0 (length c))).
Proof. exact (laplace_expansion A rO rI radd rmul rsub ropp Rth). Qed.

(* entry j of the vector accumulated by permanent_laplace_cpp is the scalar Glynn sum for the
   column multiplicities with one copy of column j removed *)
Theorem C04_laplace_entry : forall cols row0 rest r j, j < length cols ->
  nth j (glynn_sum A rO rI radd rmul ropp (prods_laplace A rI rmul cols) (length cols) row0 rest r) rO
  = nth 0 (glynn_sum A rO rI radd rmul ropp (prods_perm A rI rmul (dec_nth j cols)) 1 row0 rest r) rO.
Proof. exact (laplace_entry A rO rI radd rmul ropp). Qed.

(* Glynn's formula for a square matrix over any commutative ring, multiplied out (no division
   by 2): rows are functions column -> A, [av] the list of columns (repetitions allowed), Gd the
   signed sum over all sign vectors with base row u *)
Theorem C04_glynn_plain : forall R u av, length av = S (length R) ->
  Gd A rI radd rmul rsub R u av
  = rmul (rpow A rI rmul (radd rI rI) (length R)) (permF A rO rI radd rmul (u :: R) av).
Proof. exact (glynn_plain A rO rI radd rmul rsub ropp Rth). Qed.

(* the Glynn/BBFG identity with multiplicities, exactly as the model needs it: one copy of a row
   i0 with non-zero multiplicity split off,
     2^(n-1) perm_def(M; rows; cols)
       = sum_{g in box} (-1)^(sum g) prod_i C(r_i, g_i) prod_j (a_{i0,j} + sum_i (r_i - 2 g_i) a_ij)^(c_j) *)
Theorem C04_glynn_mult : glynn_mult_statement A rO rI radd rmul ropp.
Proof. exact (glynn_mult_proved A rO rI radd rmul rsub ropp Rth). Qed.

(* hence, with no hypothesis: the kernel returns (num, e) with 2^e * perm_def = num, perm_def
   being the defining sum (first-row expansion of the matrix with repeated rows and columns) *)
Theorem C04_perm_loop_correct : forall w threads M rows cols num e,
  length M = length rows -> Forall (fun row => length row = length cols) M ->
  1 <= threads -> weight_n wb w (sum_nat rows) ->
  permanent_cpp A rO rI radd rmul ropp wb w threads M rows cols = Ok (num, e) ->
  rmul (rpow A rI rmul (radd rI rI) e) (perm_def A rO rI radd rmul M rows cols) = num.
Proof. exact (perm_loop_correct A rO rI radd rmul rsub ropp Rth wb). Qed.

(* the Laplace variant: entry j (for a column that is present) is 2^e times the permanent with
   one copy of column j removed *)
Theorem C04_laplace_correct : forall w threads M rows cols l e,
  length M = length rows -> Forall (fun row => length row = length cols) M ->
  1 <= threads -> weight_n wb w (sum_nat rows) ->
  1 <= sum_nat rows -> sum_nat cols = S (sum_nat rows) ->
  permanent_laplace_cpp A rO rI radd rmul ropp wb w threads M rows cols = Ok (l, e) ->
  forall j, j < length cols -> 1 <= nth j cols 0 ->
    rmul (rpow A rI rmul (radd rI rI) e) (perm_def A rO rI radd rmul M rows (dec_nth j cols)) = nth j l rO.
Proof. exact (laplace_correct A rO rI radd rmul rsub ropp Rth wb). Qed.
End Generic.
Print Assumptions C04_glynn_plain.
Print Assumptions C04_glynn_mult.
Print Assumptions C04_perm_loop_correct.
Print Assumptions C04_laplace_correct.
Print Assumptions C04_laplace_entry.
Print Assumptions C04_laplace_expansion.
Print Assumptions C04_gray_step_invariant.
Print Assumptions C04_kernel_loop_is_glynn_sum.
Print Assumptions C04_permanent_cpp_outcome.
Print Assumptions C04_permanent_laplace_cpp_outcome.

(* ---- overflow *)
(* the repaired source (64-bit weight): safe for every total up to 56 (the property needs 40) *)
Theorem C04_perm_no_overflow_64 : forall A rO rI radd rmul rsub ropp
  (Rth : ring_theory rO rI radd rmul rsub ropp (@eq A)) threads M rows cols,
  length M = length rows -> 1 <= threads -> sum_nat rows <= 56 ->
  permanent_cpp A rO rI radd rmul ropp 64 64 threads M rows cols <> Overflow /\
  permanent_cpp A rO rI radd rmul ropp 64 64 threads M rows cols <> DivByZero.
Proof. exact perm_no_overflow_64. Qed.
Print Assumptions C04_perm_no_overflow_64.

Theorem C04_laplace_no_overflow_64 : forall A rO rI radd rmul rsub ropp
  (Rth : ring_theory rO rI radd rmul rsub ropp (@eq A)) threads M rows cols,
  length M = length rows -> 1 <= threads -> sum_nat rows <= 56 ->
  permanent_laplace_cpp A rO rI radd rmul ropp 64 64 threads M rows cols <> Overflow /\
  permanent_laplace_cpp A rO rI radd rmul ropp 64 64 threads M rows cols <> DivByZero.
Proof. exact laplace_no_overflow_64. Qed.
Print Assumptions C04_laplace_no_overflow_64.

(* the 32-bit int weight is only safe up to total 26 ... *)
Theorem C04_weight_bound_32 : forall s, s <= 26 -> weight_n 32 32 s.
Proof. exact weight_n_32. Qed.

(* ... and the source as shipped (int weight) overflows inside the property's range:
   rows (18,18), total 36 <= 40 -- undefined behaviour in C++ *)
Theorem C04_perm_int32_overflow_refuted :
  exists (M : list (list Zi)) (rows cols : list nat),
    sum_nat rows <= 40 /\ sum_nat rows = sum_nat cols /\ length M = length rows /\
    permanent_cpp_zi 32 32 1 M rows cols = Overflow.
Proof. exact perm_int32_overflow_refuted. Qed.
Print Assumptions C04_perm_int32_overflow_refuted.

Theorem C04_laplace_int32_overflow_refuted :
  exists (M : list (list Zi)) (rows cols : list nat),
    sum_nat rows <= 40 /\ sum_nat cols = S (sum_nat rows) /\ length M = length rows /\
    permanent_laplace_cpp_zi 32 32 1 M rows cols = Overflow.
Proof. exact laplace_int32_overflow_refuted. Qed.

(* ---- the integer bookkeeping of the hafnian reduction (piquasso/_math/hafnian/utils.py,
   model C04/HafModel.v, tied exactly to the implementation on every occupation vector with
   total <= 8 on <= 6 modes) *)
(* match_occupation_numbers always finishes (fuel = total occupation is never exhausted, the
   loop is never stuck) ... *)
Theorem C04_match_occupation_numbers_terminates : forall nvec,
  exists es res, match_occupation_numbers nvec = MoOk es res.
Proof. exact match_occupation_numbers_terminates. Qed.
Print Assumptions C04_match_occupation_numbers_terminates.

(* ... and its edges reproduce the occupation vector: mode i is used by the edges (repetitions
   counted, a self-edge twice) exactly nvec_i times, up to one unmatched particle in total *)
Theorem C04_match_occupation_numbers_incidence : forall nvec es res,
  match_occupation_numbers nvec = MoOk es res ->
  sum_nat res <= 1 /\ forall i, incidence es i + nth i res 0 = nth i nvec 0.
Proof. exact match_occupation_numbers_incidence. Qed.
Print Assumptions C04_match_occupation_numbers_incidence.

Theorem C04_match_occupation_numbers_even : forall nvec es res,
  match_occupation_numbers nvec = MoOk es res -> sum_nat res = 0 ->
  forall i, incidence es i = nth i nvec 0.
Proof. exact match_occupation_numbers_even. Qed.

(* get_kept_edges over the indices 0 .. prod(reps_e+1)-1 lists the box prod [0..reps_e] in order,
   and every sub-multiset of the repeated edges is the image of exactly one index *)
Theorem C04_kept_edges_enumeration : forall reps,
  map (get_kept_edges reps) (seq 0 (idx_max (map S reps))) = box reps.
Proof. exact kept_edges_enumeration. Qed.
Print Assumptions C04_kept_edges_enumeration.

Theorem C04_kept_edges_exactly_once : forall reps g,
  Forall2 (fun gi ri => gi <= ri) g reps ->
  exists k, k < idx_max (map S reps) /\ get_kept_edges reps k = g /\
            forall k', k' < idx_max (map S reps) -> get_kept_edges reps k' = g -> k' = k.
Proof. exact kept_edges_exactly_once. Qed.
Print Assumptions C04_kept_edges_exactly_once.

Example C04_example_match_occupation :
  match_occupation_numbers [1;2;3;4;5;6;7]
  = MoOk [(6, 6, 5); (4, 4, 3); (2, 2, 1); (1, 6, 4); (1, 2, 0)] [0;0;0;0;0;0;0].
Proof. vm_compute. reflexivity. Qed.

(* ---- non-vacuity: the ring the model is run at, and concrete values *)
Theorem C04_gaussian_integers_ring : ring_theory zi0 zi1 ziadd zimul zisub ziopp (@eq Zi).
Proof. exact zi_ring. Qed.

Example C04_example_perm :
  permanent_cpp_zi 64 64 3 [[(1,0);(2,0)];[(3,0);(4,0)]]%Z [2;2] [2;2] = Ok ((4736, 0)%Z, 3)
  /\ perm_def_zi [[(1,0);(2,0)];[(3,0);(4,0)]]%Z [2;2] [2;2] = (592, 0)%Z.
Proof. split; vm_compute; reflexivity. Qed.

(* one instance of the Glynn identity proved above (complex entries, multiplicities with a zero) *)
Example C04_example_glynn_instance :
  let M := [[(1,2);(0,-1);(2,0)];[(3,0);(1,1);(-1,0)];[(0,1);(2,0);(1,-3)]]%Z in
  zimul (8, 0)%Z (perm_def_zi M [2;0;2] [1;2;1])
  = nth 0 (glynn_sum Zi zi0 zi1 ziadd zimul ziopp (prods_perm Zi zi1 zimul [1;2;1]) 1
             (nth 0 M []) M [1;0;2]) zi0.
Proof. vm_compute. reflexivity. Qed.

Example C04_example_laplace :
  permanent_laplace_cpp_zi 64 64 1 [[(1,0);(2,0)];[(3,0);(4,0)]]%Z [1;1] [2;1]
  = Ok ([(20, 0); (12, 0)]%Z, 1).
Proof. vm_compute. reflexivity. Qed.
